/-
  C11 — Earn and savings: exact share accounting; nobody withdraws others' funds.

  "In savings the module account balance always equals the sum of all recorded deposits and a
   withdrawal pays out exactly what it deducts, capped at the depositor's balance. In earn each
   vault's total shares equal the sum of account shares, the sum of all accounts' redeemable values
   never exceeds the value held by the vault's strategy, a withdrawal never pays more than the
   account's redeemable value, and depositing then immediately withdrawing never yields a profit.
   No operation changes another account's shares or deposit."
  Quantifier: all sequences of deposits and withdrawals (full, dust-leaving, over-sized) by several
  accounts into several vaults and strategies, interleaved with interest accruing in the
  underlying hard market, and all amounts.

  Models: KavaVerif/Model/Savings.lean (x/savings keeper/deposit.go, withdraw.go) and
  KavaVerif/Model/Earn.lean (x/earn keeper/deposit.go, withdraw.go, vault_share.go, strategy_*.go;
  the strategy value V is a state component moved exactly by the strategies and only increased by
  the environment step `accrue`) and KavaVerif/Model/EarnShares.lean (x/earn types/share.go
  `VaultShares.Add/Sub` as sorted association lists, and the world of several vaults with one share
  record per account).  Only property statements live here; helper lemmas are in
  KavaVerif/Proofs/{EarnNum,Earn,EarnShares,Savings}.lean.
-/
import KavaVerif.Proofs.Earn
import KavaVerif.Proofs.EarnFix
import KavaVerif.Proofs.EarnShares
import KavaVerif.Proofs.Savings
import KavaVerif.Generated.C07Swap
set_option linter.unusedSimpArgs false
set_option linter.unusedVariables false

namespace KV.C11
open KV

/-! ## Savings -/

/-- "In savings the module account balance always equals the sum of all recorded deposits":
    after every list of deposits and withdrawals (failed ones roll back) by the accounts `accts`,
    for every denom the module balance is the sum of the recorded amounts, recorded amounts are
    non-negative and a record exists exactly when it is non-empty (`SInv`, spelled out below). -/
theorem C11_savings_solvent (accts : List Savings.Addr) (hn : accts.Nodup) (ds : List Savings.Denom)
    (sup : Savings.Denom → Bool) (hsup : ∀ d, sup d = true → d ∈ ds)
    (ops : List Savings.Op) (hops : ∀ o ∈ ops, o.actor ∈ accts) (s : Savings.St)
    (h : Savings.SInv accts ds s) :
    let s' := Savings.run sup ds s ops
    (∀ d, s'.mod d = Earn.sumOver accts (fun a => s'.dep a d)) ∧ (∀ a d, 0 ≤ s'.dep a d) ∧
    (∀ a, s'.has a = ds.any (fun d => decide (0 < s'.dep a d))) := by
  have := Savings.run_inv accts hn ds sup hsup ops s hops h
  exact ⟨this.2.1, this.1, this.2.2.2⟩

/-- the genesis state (no deposits, any user bank balances) satisfies the savings invariant -/
theorem C11_savings_solvent_init (accts : List Savings.Addr) (ds : List Savings.Denom)
    (funds : Savings.Addr → Savings.Denom → Int) :
    Savings.SInv accts ds { Savings.empty with bal := funds } := Savings.empty_inv accts ds

/-- "a withdrawal pays out exactly what it deducts, capped at the depositor's balance": per denom the
    account receives `p`, its record loses `p`, the module account loses `p`, where `p` is the
    requested amount of that denom capped at the recorded amount (0 for a denom not requested). -/
theorem C11_savings_withdraw_exact (accts : List Savings.Addr) (ds : List Savings.Denom)
    (s s' : Savings.St) (a : Savings.Addr) (cs : Savings.Coins) (h : Savings.SInv accts ds s)
    (hok : Savings.withdraw ds s a cs = .ok s') (d : Savings.Denom) :
    let p := match cs.lookup d with
      | some n => if n > s.dep a d then s.dep a d else n
      | none => 0
    s'.bal a d = s.bal a d + p ∧ s'.dep a d = s.dep a d - p ∧ s'.mod d = s.mod d - p ∧
    0 ≤ p ∧ p ≤ s.dep a d ∧ p ≤ Savings.amountOf cs d := by
  obtain ⟨hv, -, -, -, -, r1, r2, -, r4⟩ := Savings.withdraw_spec ds s s' a cs hok
  have hb := Savings.paid_bounds (s.dep a) cs d hv (h.1 a d)
  unfold Savings.paid at hb r1 r2 r4
  rw [r1, r2, r4, Savings.upd2_same, Savings.upd2_same]
  exact ⟨rfl, rfl, rfl, hb.1, hb.2.1, hb.2.2⟩

/-- a deposit moves exactly the deposited coins from the account to the module and the record -/
theorem C11_savings_deposit_exact (sup : Savings.Denom → Bool) (s s' : Savings.St) (a : Savings.Addr)
    (cs : Savings.Coins) (hok : Savings.deposit sup s a cs = .ok s') (d : Savings.Denom) :
    s'.bal a d = s.bal a d - Savings.amountOf cs d ∧ s'.dep a d = s.dep a d + Savings.amountOf cs d ∧
    s'.mod d = s.mod d + Savings.amountOf cs d ∧ 0 ≤ Savings.amountOf cs d := by
  obtain ⟨hv, -, -, -, r1, r2, -, r4⟩ := Savings.deposit_spec sup s s' a cs hok
  rw [r1, r2, r4, Savings.upd2_same, Savings.upd2_same]
  exact ⟨rfl, rfl, rfl, Savings.amountOf_nonneg cs d hv⟩

/-- "No operation changes another account's … deposit" (savings): any operation, successful or not,
    leaves the record, the record flag and the bank balance of every other account unchanged. -/
theorem C11_savings_frame (ds : List Savings.Denom) (sup : Savings.Denom → Bool) (s : Savings.St)
    (o : Savings.Op) (b : Savings.Addr) (hb : b ≠ o.actor) :
    (Savings.next sup ds s o).dep b = s.dep b ∧ (Savings.next sup ds s o).bal b = s.bal b ∧
    (Savings.next sup ds s o).has b = s.has b :=
  Savings.next_frame ds sup s o b hb

/-! ## Earn -/

open Earn

/-- "In earn each vault's total shares equal the sum of account shares": after every list of
    deposits, withdrawals (dust sweep included) and interest accruals, the vault's total shares are
    the sum of the account shares, shares are non-negative, the strategy value is non-negative and
    the vault record exists exactly when the total is non-zero. -/
theorem C11_earn_shares_sum (accts : List Addr) (hn : accts.Nodup) (ops : List Op)
    (hops : ∀ o ∈ ops, ∀ a, o.actor = some a → a ∈ accts) (s : St) (h : Inv accts s) :
    let s' := run s ops
    s'.tot = sumOver accts s'.sh ∧ (∀ a, 0 ≤ s'.sh a) ∧ 0 ≤ s'.val ∧ (s'.found = true ↔ s'.tot ≠ 0) := by
  have := run_inv accts hn ops s hops h
  exact ⟨this.2.1, this.1, this.2.2.1, this.2.2.2⟩

/-- the genesis state (no vault record, no shares, any bank balances) satisfies the earn invariant -/
theorem C11_earn_shares_sum_init (accts : List Addr) (funds : Addr → Int) :
    Inv accts { empty with bal := funds } := empty_inv accts

/-- "the sum of all accounts' redeemable values never exceeds the value held by the vault's
    strategy": Σ_a ConvertToAssets(shares_a) ≤ V after every operation list (each term truncates). -/
theorem C11_earn_redeemable_le_value (accts : List Addr) (hn : accts.Nodup) (ops : List Op)
    (hops : ∀ o ∈ ops, ∀ a, o.actor = some a → a ∈ accts) (s : St) (h : Inv accts s) :
    sumOver accts (redeemable (run s ops)) ≤ (run s ops).val :=
  redeemable_sum_le accts (run s ops) (run_inv accts hn ops s hops h)

/-- "a withdrawal never pays more than the account's redeemable value": a successful withdrawal pays
    the account `p` with `0 ≤ p ≤ redeemable` and `p ≤` the requested amount, takes exactly `p` out of
    the strategy, and leaves the module account's own balance unchanged. -/
theorem C11_withdraw_le_value (accts : List Addr) (s s' : St) (a : Addr) (want : Int) (vo so : Bool)
    (ha : a ∈ accts) (h : Inv accts s) (hok : withdraw s a want vo so = .ok s') :
    0 ≤ s'.bal a - s.bal a ∧ s'.bal a - s.bal a ≤ redeemable s a ∧ s'.bal a - s.bal a ≤ want ∧
    s'.val = s.val - (s'.bal a - s.bal a) ∧ s'.loose = s.loose :=
  withdraw_pays accts s s' a want vo so ha h hok

/-- "depositing then immediately withdrawing never yields a profit": after `Deposit x` followed at
    once by `Withdraw want` (each rolled back if it fails) the account holds at most its previous
    balance plus what it could already redeem before. -/
def NoProfit (s : St) (a : Addr) (x want : Int) : Prop :=
  (run s [.deposit a x true true true, .withdraw a want true true]).bal a ≤ s.bal a + redeemable s a

/-- two funded accounts, nothing deposited -/
def cexInit : St := { empty with bal := fun _ => 2000000 }

/-- account 0 deposits 1 000 000 into the fresh vault and withdraws 999 001: the remaining shares
    (worth 999) are classified as dust against the stored total shares and the post-withdraw value
    (999·999/10^6 < 1), swept, the vault record is deleted and 999 stay in the strategy. -/
def cexState : St :=
  run cexInit [.deposit 0 1000000 true true true, .withdraw 0 999001 true true]

/-
  FULL STATEMENT (false on the current code):
    theorem C11_deposit_withdraw_no_profit (accts) (s) (a) (x want) :
        accts.Nodup → a ∈ accts → Inv accts s → NoProfit s a x want
  It fails in states where value is stranded in the strategy while the vault record is absent;
  such states are reachable through the dust sweep of `Withdraw` (withdraw.go: `ShareIsDust` is
  evaluated against the *stored* total shares but the *post-withdraw* strategy value).
-/

/-- The reachable witness: in `cexState` account 1 deposits 1 and immediately withdraws 1000 —
    999 of them are account 0's funds. -/
theorem C11_deposit_withdraw_no_profit_counterexample :
    ¬ (∀ (accts : List Addr) (s : St) (a : Addr) (x want : Int),
        accts.Nodup → a ∈ accts → Inv accts s → NoProfit s a x want) := by
  intro h
  have hinit : Inv [0, 1] cexInit := by
    refine ⟨fun _ => by simp [cexInit, empty], by simp [cexInit, empty, sumOver], by simp [cexInit, empty],
      by simp [cexInit, empty]⟩
  have hinv : Inv [0, 1] cexState :=
    run_inv [0, 1] (by decide) _ cexInit (by
      intro o ho a ha
      simp only [List.mem_cons, List.mem_nil_iff, or_false] at ho
      rcases ho with rfl | rfl <;> (simp only [Op.actor, Option.some.injEq] at ha; subst ha; decide)) hinit
  have := h [0, 1] cexState 1 1 1000 (by decide) (by decide) hinv
  revert this
  unfold NoProfit
  decide

/-- what the witness does, in numbers: account 0 got 999 001 back for its 1 000 000, no vault
    record is left, 999 remain in the strategy; then account 1 turns a deposit of 1 into 1000. -/
theorem C11_deposit_withdraw_no_profit_witness :
    cexState.bal 0 = 2000000 - 1000000 + 999001 ∧ cexState.found = false ∧ cexState.sh 0 = 0 ∧
    cexState.val = 999 ∧
    (run cexState [.deposit 1 1 true true true, .withdraw 1 1000 true true]).bal 1 = cexState.bal 1 + 999 := by
  decide

/-- The strongest true part: the property holds from every state in which no value is stranded
    (vault record absent ⇒ strategy value 0), in particular for every vault that has shares. -/
theorem C11_deposit_withdraw_no_profit_partial (accts : List Addr) (hn : accts.Nodup) (s : St)
    (a : Addr) (x want : Int) (ha : a ∈ accts) (h : Inv accts s) (hns : NoStranded s) :
    NoProfit s a x want := by
  have hr0 : 0 ≤ redeemable s a := by
    by_cases hf : s.found = true
    · rw [redeemable_found accts s a h hf]
      exact Int.ediv_nonneg (Int.mul_nonneg h.2.2.1 (h.1 a)) h.tot_nonneg
    · have hf' : s.found = false := by cases hh : s.found <;> simp_all
      rw [redeemable_notfound s a hf']; omega
  unfold NoProfit run
  simp only [List.foldl_cons, List.foldl_nil]
  -- first step: the deposit
  have key : ∀ s1 : St, Inv accts s1 → s1.bal a ≤ s.bal a + redeemable s a - redeemable s1 a →
      0 ≤ redeemable s1 a →
      (next s1 (.withdraw a want true true)).bal a ≤ s.bal a + redeemable s a := by
    intro s1 h1 hb hr1
    unfold next
    split
    · rename_i s2 h2
      simp only [step] at h2
      have := withdraw_pays accts s1 s2 a want true true ha h1 h2
      omega
    · omega
  cases hd : step s (.deposit a x true true true) with
  | ok s1 =>
    have hn1 : next s (.deposit a x true true true) = s1 := by unfold next; rw [hd]
    rw [hn1]
    have h1 : deposit s a x true true true = .ok s1 := hd
    have hinv1 := deposit_inv accts hn s s1 a x true true true ha h h1
    have hle := deposit_redeemable_le accts s s1 a x true true true ha h hns h1
    obtain ⟨shares, hx, -, -, -, -, hf1, -, -, -, -, r6⟩ := deposit_arith accts s s1 a x true true true h h1
    have hb : s1.bal a = s.bal a - x := by rw [r6]; simp [upd]
    have hr1 : 0 ≤ redeemable s1 a := by
      rw [redeemable_found accts s1 a hinv1 hf1]
      exact Int.ediv_nonneg (Int.mul_nonneg hinv1.2.2.1 (hinv1.1 a)) hinv1.tot_nonneg
    exact key s1 hinv1 (by omega) hr1
  | err =>
    have hn1 : next s (.deposit a x true true true) = s := by unfold next; rw [hd]
    rw [hn1]; exact key s h (by omega) hr0
  | panic =>
    have hn1 : next s (.deposit a x true true true) = s := by unfold next; rw [hd]
    rw [hn1]; exact key s h (by omega) hr0

/-- Root cause, stated exactly: a withdrawal strands value only through the dust sweep — the
    withdrawing account held all shares, asked for fewer than all, and the remainder was valued
    at zero against the stored total and the post-withdraw strategy value. -/
theorem C11_stranded_only_by_dust_sweep (accts : List Addr) (s s' : St) (a : Addr) (want : Int)
    (vo so : Bool) (ha : a ∈ accts) (h : Inv accts s)
    (hok : withdraw s a want vo so = .ok s') (hst : ¬ NoStranded s') :
    ∃ w amt, w = want * s.tot / s.val ∧ amt = s.val * w / s.tot ∧ s.sh a = s.tot ∧ w < s.sh a ∧
      (s.val - amt) * (s.sh a - w) / s.tot = 0 ∧ s'.val = s.val - amt ∧ 0 < s'.val ∧ s'.sh a = 0 :=
  withdraw_strands_only_by_sweep accts s s' a want vo so ha h hok hst

/-- Supporting the recommendation of the finding: on the model of the *patched* `Withdraw`
    (`withdrawFixed` in Proofs/EarnFix.lean: remaining shares valued against the post-withdraw total
    shares, findings/C11-dust-sweep-strands-value.diff) the full statement holds in every state
    reachable from genesis by any operation list — no hypothesis on stranded value is needed,
    because the patched code never strands any. -/
theorem C11_deposit_withdraw_no_profit_patched (accts : List Addr) (hn : accts.Nodup) (ops : List Op)
    (hops : ∀ o ∈ ops, ∀ a, o.actor = some a → a ∈ accts) (funds : Addr → Int)
    (a : Addr) (ha : a ∈ accts) (x want : Int) :
    let s := runF { empty with bal := funds } ops
    (runF s [.deposit a x true true true, .withdraw a want true true]).bal a ≤ s.bal a + redeemable s a :=
  fixed_deposit_withdraw_no_profit accts hn ops hops { empty with bal := funds } (empty_inv accts)
    (fun _ => rfl) a ha x want

/-- "No operation changes another account's shares" (earn): any operation, successful or not, dust
    sweep included, leaves the shares and the bank balance of every other account unchanged; an
    operation on vault `v` leaves every other vault unchanged. -/
theorem C11_frame (s : St) (o : Op) (b : Addr) (hb : o.actor ≠ some b) (w : Nat → St) (v u : Nat)
    (hu : u ≠ v) :
    (next s o).sh b = s.sh b ∧ (next s o).bal b = s.bal b ∧ wnext w v o u = w u := by
  refine ⟨(next_frame s o b hb).1, (next_frame s o b hb).2, ?_⟩
  unfold wnext
  simp [hu]

/-! ## Earn: the share record of an account and the world of several vaults -/

open Earn.Shares

/-- `VaultShares.Add` (types/share.go) on a valid record (strictly sorted by denom, duplicate-free,
    positive amounts) and a strictly sorted set of non-negative shares — one share, as in every
    keeper `Deposit`, or several — does not panic, returns a valid record, and the result is the
    pointwise sum: no share of any other denom is lost, duplicated or changed. -/
theorem C11_shares_add_spec (A B : Shares) (hA : Valid A) (hB : SSorted B) (hB0 : ∀ b ∈ B, 0 ≤ b.2) :
    ∃ R, add A B = .ok R ∧ Valid R ∧ ∀ d, amountOf R d = amountOf A d + amountOf B d :=
  add_spec A B hA hB hB0

/-- `VaultShares.Sub` on a valid record and a strictly sorted set of non-negative shares, none above
    what the record holds: no panic, a valid record, the pointwise difference. -/
theorem C11_shares_sub_spec (A B : Shares) (hA : Valid A) (hB : SSorted B) (hB0 : ∀ b ∈ B, 0 ≤ b.2)
    (hle : ∀ d, amountOf B d ≤ amountOf A d) :
    ∃ R, sub A B = .ok R ∧ Valid R ∧ ∀ d, amountOf R d = amountOf A d - amountOf B d :=
  sub_spec A B hA hB hB0 hle

/-- the genesis state of the several-vault world (no vault record, no share record, any bank
    balances) satisfies the invariant `MInv`: every vault's view satisfies the single-vault invariant
    and every account's record is valid -/
theorem C11_multi_init (accts : List Addr) (funds : Addr → Nat → Int) :
    MInv accts { mempty with bal := funds } := mempty_inv accts funds

/-- "each vault's total shares equal the sum of account shares", all vaults at once: after every list
    of operations (vault, deposit / withdraw / accrue) on any vaults by the accounts `accts`, for EVERY
    vault `v` the total shares are the sum over the accounts of `AmountOf(v)` of their record, and the
    record exists exactly when that total is non-zero. -/
theorem C11_multi_shares_sum (accts : List Addr) (hn : accts.Nodup) (ops : List (Nat × Op))
    (hops : ∀ vo ∈ ops, ∀ a, vo.2.actor = some a → a ∈ accts) (m : MSt) (h : MInv accts m) (v : Nat) :
    let m' := mrun m ops
    (m'.vault v).tot = sumOver accts (fun a => amountOf (m'.recs a) v) ∧
    ((m'.vault v).found = true ↔ (m'.vault v).tot ≠ 0) := by
  have := (mrun_inv accts hn ops m hops h).1 v
  exact ⟨this.2.1, this.2.2.2⟩

/-- every account's share record stays a strictly sorted, duplicate-free list of positive shares
    (what `VaultShareRecord.Validate` demands) after every list of operations on any vaults -/
theorem C11_multi_record_valid (accts : List Addr) (hn : accts.Nodup) (ops : List (Nat × Op))
    (hops : ∀ vo ∈ ops, ∀ a, vo.2.actor = some a → a ∈ accts) (m : MSt) (h : MInv accts m) (a : Addr) :
    ((mrun m ops).recs a).Pairwise (fun x y => x.1 < y.1) ∧ ∀ s ∈ (mrun m ops).recs a, 0 < s.2 :=
  (mrun_inv accts hn ops m hops h).2 a

/-- "No operation changes another account's shares", and no operation on vault `v` changes anybody's
    shares in another vault: any operation `o` on vault `v`, successful or not, dust sweep included,
    (1) leaves the whole share record (all vaults) and all bank balances of every other account
    unchanged, (2) leaves the shares of EVERY account — the acting one included — in every other vault
    `w ≠ v` and its balance in every other denom unchanged, and (3) leaves every other vault (record,
    total shares, strategy value, module balance) unchanged. -/
theorem C11_multi_frame (accts : List Addr) (m : MSt) (v : Nat) (o : Op)
    (hact : ∀ a, o.actor = some a → a ∈ accts) (h : MInv accts m) :
    (∀ b, o.actor ≠ some b → (mnext m (v, o)).recs b = m.recs b ∧ (mnext m (v, o)).bal b = m.bal b) ∧
    (∀ b w, w ≠ v → amountOf ((mnext m (v, o)).recs b) w = amountOf (m.recs b) w ∧
                     (mnext m (v, o)).bal b w = m.bal b w) ∧
    (∀ w, w ≠ v → (mnext m (v, o)).vault w = m.vault w) :=
  mnext_frame accts m v o hact h

/-- the several-vault world is the single-vault model on every vault: what `Deposit` / `Withdraw` on
    vault `v` do to the view of `v` is exactly the single-vault step — the record operations
    (`Shares.Add`, `Shares.Sub`) never panic and store the single-vault result — so every single-vault
    theorem above (redeemable ≤ value, withdrawal ≤ value, no-profit partial, …) holds for each vault
    of the several-vault world. -/
theorem C11_multi_view (accts : List Addr) (m : MSt) (v : Nat) (o : Op)
    (hact : ∀ a, o.actor = some a → a ∈ accts) (h : MInv accts m) :
    view (mnext m (v, o)) v = next (view m v) o ∧ ∀ w, w ≠ v → view (mnext m (v, o)) w = view m w := by
  refine ⟨mnext_view accts m v o hact h, fun w hw => ?_⟩
  obtain ⟨-, h2, h3⟩ := mnext_frame accts m v o hact h
  apply St.ext'
  · simp only [view, h3 w hw]
  · simp only [view, h3 w hw]
  · intro b; exact (h2 b w hw).1
  · simp only [view, h3 w hw]
  · simp only [view, h3 w hw]
  · intro b; exact (h2 b w hw).2

/-- what the harness's log of deposits and withdrawals records: the shares a successful operation adds
    to (removes from) the acting account's record for vault `v` are exactly what it adds to (removes
    from) the vault's total shares -/
theorem C11_multi_ledger (accts : List Addr) (m : MSt) (v : Nat) (o : Op) (a : Addr) (ha : a ∈ accts)
    (hact : o.actor = some a) (h : MInv accts m) (s' : St) (hs : step (view m v) o = .ok s') :
    amountOf ((mnext m (v, o)).recs a) v - amountOf (m.recs a) v =
      ((mnext m (v, o)).vault v).tot - (m.vault v).tot := by
  have hv := mnext_view accts m v o (fun b hb => by rw [hact] at hb; cases hb; exact ha) h
  have e : next (view m v) o = s' := by unfold next; rw [hs]
  have hd := step_delta accts (view m v) s' o a ha hact (h.1 v) hs
  rw [← e, ← hv] at hd
  exact hd

/-- "an account can always withdraw its redeemable value from every vault it holds": in any state of
    the several-vault world satisfying the invariant, an account whose `GetVaultAccountValue` in vault
    `v` is positive succeeds in withdrawing exactly that value from `v` (share price at most 10^18
    coins per whole share; that the strategy can pay is the monitored liquidity assumption). -/
theorem C11_multi_withdrawable (accts : List Addr) (m : MSt) (v : Nat) (a : Addr) (ha : a ∈ accts)
    (h : MInv accts m) (hpos : 0 < redeemable (view m v) a) (hprice : (m.vault v).val ≤ (m.vault v).tot)
    (hl : 0 ≤ (m.vault v).loose) :
    ∃ m', mstep m v (.withdraw a (redeemable (view m v) a) true true) = .ok m' := by
  obtain ⟨s', hs⟩ := withdraw_redeemable_ok accts (view m v) a ha (h.1 v) hpos hprice hl
  obtain ⟨m', hm, -⟩ := mstep_lift accts m v (.withdraw a (redeemable (view m v) a) true true) s'
    (fun b hb => by simp only [Op.actor, Option.some.injEq] at hb; subst hb; exact ha) h hs
  exact ⟨m', hm⟩

/-! ## Non-vacuity: concrete states meeting the hypotheses, on which the operations succeed -/

/-- a vault with three holders at share price 10/6 and an idle fourth account -/
def exEarn : St :=
  { found := true, tot := 6 * P,
    sh := fun a => if a = 0 then 3 * P else if a = 1 then 2 * P else if a = 2 then P else 0,
    val := 10, loose := 0, bal := fun _ => 100 }

example : Inv [0, 1, 2, 3] exEarn := by
  refine ⟨?_, by decide, by decide, by decide⟩
  intro a; unfold exEarn; simp only []; split <;> (try split) <;> (try split) <;> decide

example : NoStranded exEarn := by intro h; cases h
example : (deposit exEarn 3 7 true true true).isOk = true := by decide
example : (withdraw exEarn 0 4 true true).isOk = true := by decide        -- partial
example : (withdraw exEarn 0 5 true true).isOk = true := by decide        -- full (value 5)
example : (withdraw exEarn 0 6 true true).isOk = false := by decide       -- over-sized
example : (step exEarn (.accrue 3)).isOk = true := by decide
example : ¬ NoStranded cexState := by unfold NoStranded; decide

def exSav : Savings.St :=
  { bal := fun _ _ => 50, mod := fun d => if d = 0 then 30 else if d = 1 then 5 else 0,
    has := fun a => decide (a = 0 ∨ a = 1),
    dep := fun a d => if a = 0 then (if d = 0 then 10 else if d = 1 then 5 else 0)
                      else if a = 1 then (if d = 0 then 20 else 0) else 0 }

example : Savings.SInv [0, 1, 2] [0, 1] exSav := by
  refine ⟨?_, ?_, ?_, ?_⟩
  · intro a d; unfold exSav; simp only []; split <;> (try split) <;> (try split) <;> (try split) <;> decide
  · intro d; unfold exSav; simp only [sumOver]
    by_cases h0 : d = 0
    · subst h0; decide
    · by_cases h1 : d = 1
      · subst h1; decide
      · simp [h0, h1]
  · intro a d hd
    have h0 : d ≠ 0 := fun e => hd (by simp [e])
    have h1 : d ≠ 1 := fun e => hd (by simp [e])
    unfold exSav; simp [h0, h1]
  · intro a; unfold exSav
    by_cases h0 : a = 0
    · subst h0; decide
    · by_cases h1 : a = 1
      · subst h1; decide
      · simp [h0, h1]

example : (Savings.withdraw [0, 1] exSav 0 [(0, 99), (1, 2)]).isOk = true := by decide   -- capped + partial
example : (Savings.deposit (fun d => decide (d < 2)) exSav 2 [(1, 7)]).isOk = true := by decide

/-- an account holding vaults 0 and 3 opens a position in vault 2 (between), tops it up, withdraws
    part of it and all of it: `VaultShares.Add/Sub` on concrete records -/
example : add [(0, 5), (3, 7)] [(2, 1)] = .ok [(0, 5), (2, 1), (3, 7)] := by
  simp [add, merge, isSorted, removeZero]
example : add [(0, 5), (2, 1), (3, 7)] [(2, 4)] = .ok [(0, 5), (2, 5), (3, 7)] := by
  simp [add, merge, isSorted, removeZero]
example : sub [(0, 5), (2, 5), (3, 7)] [(2, 5)] = .ok [(0, 5), (3, 7)] := by
  simp [sub, negative, add, merge, isSorted, removeZero]
example : Valid [(0, 5), (2, 5), (3, 7)] := (isValid_iff _).mp (by decide)

/-! ### app wiring (regenerated from app/app.go on every run) -/

/-- "In savings the module account balance always equals the sum of all recorded deposits" presupposes that coins
    reach the savings module account only through the module's own Deposit: the account must be a blocked
    address of x/bank, i.e. NOT among the module accounts app.go exempts from the blocked list (the earn module
    account is exempt by design: its funds sit in the strategies, not in its own balance). -/
theorem C11_savings_module_account_blocked :
    "savingstypes.ModuleAccountName" ∉ KV.Gen.C07.unblockedModuleAccounts ∧
    "savingstypes.ModuleName" ∉ KV.Gen.C07.unblockedModuleAccounts := by decide

end KV.C11
