/-
  C17 — Committees enact only what permissions allow, once, and only when passed.

  "A committee can enact only proposals its permissions allow: an enacted parameter-change proposal
   alters only the parameter fields explicitly listed as changeable for that committee and leaves every
   other field and record unchanged. Submitting or voting never applies the proposal's effects; a
   proposal is enacted at most once, only on a passing tally (threshold, plus quorum for token
   committees) of votes cast before its deadline (at once for first-past-the-post committees,
   otherwise in the first block at or after the deadline), and is closed afterwards. A proposal whose
   handler would fail is rejected at submission or closed as invalid without halting the chain."

  Two models. (a) `KV.Perm` (Model/Permissions.lean): x/committee/types/permissions.go — the permission
  checker over decoded JSON — and the amino-JSON applier used by the params proposal handler.
  (b) `KV.Com` (Model/Committee.lean): submit / vote / begin block / committee change.
  `KV.Gen.committeeRouterRoutes` is regenerated from app/app.go on every run.
  Only property statements live here; helper lemmas are in Proofs/CommitteePerm.lean and
  Proofs/CommitteeLife.lean.
-/
import KavaVerif.Proofs.CommitteePerm
import KavaVerif.Proofs.CommitteeLife
import KavaVerif.Generated.C17Router
import KavaVerif.Proofs.TieFnCommittee
set_option linter.unusedSimpArgs false
set_option linter.unusedVariables false

namespace KV.C17
open KV KV.Perm KV.Com

/-! ## (a) permission checker versus applier -/

/-- "alters only the parameter fields explicitly listed as changeable … leaves every other field …
    unchanged", for one record, over ALL current and incoming documents, schemas and allow-lists:
    whenever the checker accepts, every field that is not on the allow-list reads back, after the applier
    decoded the incoming document, exactly as the store held it. `base` is what the destination held
    before decoding: the current record (top-level struct parameter) or the zero record (element of an
    array parameter).
    (History: false before fix 0a0bfec58 — an incoming document could drop an allow-listed key and add an
    `omitempty` field the current document omits; see findings/C17-omitted-field-set.md.) -/
theorem C17_only_allowed_fields (sch : Schema) (base : String → Json) (cur inc : Obj)
    (allow : List String) (hb : ∀ k, base k = recOf cur k ∨ base k = .null)
    (h : validate cur inc allow = true) (k : String) (hk : k ∉ allow) :
    applyRec sch base inc k = recOf cur k :=
  single_protected sch base cur inc allow hb h k hk

/-- …and the accepted document has exactly the keys of the current one (nothing added, nothing dropped). -/
theorem C17_only_allowed_fields_same_keys (cur inc : Obj) (allow : List String)
    (h : validate cur inc allow = true) :
    cur.length = inc.length ∧ ∀ k, k ∈ keys inc → k ∈ keys cur :=
  ⟨(validate_spec cur inc allow h).1, (validate_spec cur inc allow h).2.1⟩

/-- non-vacuity: an accepted change of an allow-listed field; a protected change, a dropped allow-listed
    key swapped for a new key (the former finding) and an extra key are refused -/
example : validate [("a", .str "x"), ("b", .num "1")] [("a", .str "x"), ("b", .num "2")] ["b"] = true := by decide
example : validate [("a", .str "x"), ("b", .num "1")] [("a", .str "y"), ("b", .num "1")] ["b"] = false := by decide
example : validate [("market_id", .str "bnb:usd"), ("oracles", .arr [.str "kava1…"])]
    [("active", .bool true), ("market_id", .str "bnb:usd")] ["oracles"] = false := by decide

/-- Duplicate keys: the document the checker compares (and the one amino's `map[string]json.RawMessage`
    gives the applier) maps every key to its LAST occurrence in the raw text. -/
theorem C17_duplicate_keys_last_wins (kvs : List (String × Json)) (o : Obj) (h : asMap (.obj kvs) = some o)
    (k : String) : o.lookup k = lastValue kvs k := by
  simp only [asMap, Option.some.injEq] at h
  subst h
  exact decodeObj_lookup kvs k

/-- What an accepting `allowsParamChange` has established about the raw documents: the current value
    is an object (or null) and the decoded pair passed `validate` with the single-record allow-list,
    or the current value is an array and the decoded lists passed `allowsMulti` — so the statements
    above apply to every raw document (reordered, missing, extra, duplicated keys and records). -/
theorem C17_checker_dispatch (a : APC) (curJ incJ : Json) (h : checkAgainst a (some curJ) (some incJ) = .yes) :
    (isArrayRaw (some curJ) = false ∧ ∃ cur inc, asMap curJ = some cur ∧ asMap incJ = some inc ∧
        validate cur inc a.single = true) ∨
    (isArrayRaw (some curJ) = true ∧ ∃ cur inc, asMaps curJ = some cur ∧ asMaps incJ = some inc ∧
        allowsMulti a.multi cur inc = true) := by
  have hob : ∀ b, Verdict.ofBool b = .yes → b = true := by
    intro b hb; unfold Verdict.ofBool at hb; split at hb
    · assumption
    · cases hb
  unfold checkAgainst at h
  split at h
  · rename_i harr
    refine Or.inr ⟨harr, ?_⟩
    simp only [Option.bind_some] at h
    split at h
    · cases h
    · rename_i inc hinc
      split at h
      · cases h
      · rename_i cur hcur
        exact ⟨cur, inc, hcur, hinc, hob _ h⟩
  · rename_i harr
    refine Or.inl ⟨by simpa using harr, ?_⟩
    simp only [Option.bind_some] at h
    split at h
    · cases h
    · rename_i inc hinc
      split at h
      · cases h
      · rename_i cur hcur
        exact ⟨cur, inc, hcur, hinc, hob _ h⟩

/-- non-vacuity of the dispatch: a duplicated key, the later (unchanged) value wins, accepted -/
example : checkAgainst { subspace := "s", key := "k", single := ["b"], multi := [] }
    (some (.obj [("a", .str "x"), ("b", .num "1")]))
    (some (.obj [("a", .str "EVIL"), ("b", .num "2"), ("a", .str "x")])) = .yes := by decide

/-- Multi-record parameters ("every current record matched by its requirement key to exactly one incoming
    record, each pair satisfying the single-record statement, nothing added or removed"): an accepted
    change has as many records as the current value, and the loop's assignment current ↦ incoming index
    is one-to-one and ONTO the incoming records; each current record and its incoming record satisfy the
    same requirement (the first one the current record satisfies) and obey the single-record statement.
    (History: the matching was not one-to-one before fix 060540892; see findings/C17-record-replaced.md.) -/
theorem C17_multi_bijection (sch : Schema) (reqs : List Req) (cur inc : List Obj)
    (h : allowsMulti reqs cur inc = true) :
    cur.length = inc.length ∧
    ∃ idxs : List Nat, idxs.length = cur.length ∧ idxs.Nodup ∧ (∀ j, j < inc.length → j ∈ idxs) ∧
      ∀ p, p ∈ cur.zip idxs → ∃ r i, r ∈ reqs ∧ inc[p.2]? = some i ∧
        matchesReq p.1 r = true ∧ matchesReq i r = true ∧
        ∀ k, k ∉ r.allowed → applyRec sch zeroRec i k = recOf p.1 k := by
  obtain ⟨hl, idxs, ha⟩ := allowsMulti_spec reqs cur inc h
  obtain ⟨hlen, hbound, hnd, hpairs⟩ := assign_spec reqs inc cur [] idxs ha
  refine ⟨hl, idxs, hlen, hnd, ?_, ?_⟩
  · exact pigeonhole inc.length idxs hnd (fun x hx => (hbound x hx).1) (by rw [hlen, hl])
  · intro p hp
    obtain ⟨r, v, hr, hv, hm, hval⟩ := hpairs p hp
    refine ⟨r, v, List.mem_of_find?_eq_some hr, hv, List.find?_some hr, hm, ?_⟩
    intro k hk
    exact single_protected sch zeroRec p.1 v r.allowed (fun _ => Or.inr rfl) hval k hk

/-- non-vacuity: a reordered two-record change is accepted; the former finding (two current records of
    the same requirement, second incoming record arbitrary) is refused -/
example : allowsMulti [{ key := "type", val := "a", allowed := ["fee"] }, { key := "type", val := "b", allowed := [] }]
    [[("fee", .str "1"), ("type", .str "a")], [("fee", .str "2"), ("type", .str "b")]]
    [[("fee", .str "2"), ("type", .str "b")], [("fee", .str "9"), ("type", .str "a")]] = true := by decide
example : allowsMulti [{ key := "denom", val := "bnb", allowed := ["type"] }]
    [[("denom", .str "bnb"), ("type", .str "a")], [("denom", .str "bnb"), ("type", .str "b")]]
    [[("denom", .str "bnb"), ("type", .str "a")], [("denom", .str "EVIL"), ("type", .str "z")]] = false := by decide

/-- A parameter (subspace, key) for which the permission lists no `AllowedParamsChange` is refused,
    whatever else the proposal contains and whatever the documents are. -/
theorem C17_unlisted_param_refused (apcs : List APC) (st : Store) (cs : List Change) (c : Change)
    (hc : c ∈ cs) (h : ∀ a, a ∈ apcs → ¬ (a.subspace = c.subspace ∧ a.key = c.key)) :
    (Permission.paramsChange apcs).allows st (.paramChange cs) ≠ .yes :=
  allowsChanges_unlisted apcs st cs c hc h

/-- …and so is it by a committee none of whose permissions is the god permission or a params
    permission listing that parameter. -/
theorem C17_unlisted_param_refused_committee (perms : List Permission) (st : Store) (cs : List Change)
    (c : Change) (hc : c ∈ cs)
    (h : ∀ p, p ∈ perms → match p with
      | .god => False
      | .paramsChange apcs => ∀ a, a ∈ apcs → ¬ (a.subspace = c.subspace ∧ a.key = c.key)
      | _ => True) :
    hasPermissionsFor st (.paramChange cs) perms ≠ .yes := by
  induction perms with
  | nil => simp [hasPermissionsFor]
  | cons p ps ih =>
    unfold hasPermissionsFor
    have hp := h p List.mem_cons_self
    have hrest := ih (fun q hq => h q (List.mem_cons_of_mem _ hq))
    cases p with
    | god => exact absurd hp id
    | paramsChange apcs =>
      have := allowsChanges_unlisted apcs st cs c hc hp
      simp only [Permission.allows]
      split
      · rename_i hy; exact absurd hy this
      · simp
      · exact hrest
    | text => simpa [Permission.allows] using hrest
    | softwareUpgrade => simpa [Permission.allows] using hrest
    | cdpRepayDebt => simpa [Permission.allows] using hrest
    | lendWithdraw => simpa [Permission.allows] using hrest
    | cdpWithdrawCollateral => simpa [Permission.allows] using hrest

/-- non-vacuity: a listed parameter with no sub-rules is allowed -/
example : (Permission.paramsChange [{ subspace := "cdp", key := "DebtParam", single := [], multi := [] }]).allows
    (fun _ _ => none) (.paramChange [{ subspace := "cdp", key := "DebtParam", value := none }]) = .yes := by decide

/-- The permission check returns a verdict (does not panic) whenever the stored value is an object,
    `null`, or an array of objects/nulls — i.e. for every parameter whose Go type is a struct or a slice
    of structs. -/
theorem C17_checker_no_panic_partial (a : APC) (st : Store) (c : Change)
    (h : ∀ raw, st c.subspace c.key = some raw →
      ∃ j, raw = some j ∧ ((asMap j).isSome = true ∨ ((∃ xs, j = .arr xs) ∧ (asMaps j).isSome = true))) :
    allowsParamChange a st c ≠ .panic := by
  unfold allowsParamChange
  split
  · simp
  · split
    · simp
    · split
      · simp
      · rename_i raw hraw
        obtain ⟨j, rfl, hj⟩ := h raw hraw
        have hob : ∀ b, Verdict.ofBool b ≠ .panic := by
          intro b; unfold Verdict.ofBool; split <;> simp
        unfold checkAgainst
        rcases hj with hm | ⟨⟨xs, rfl⟩, hms⟩
        · -- object or null: the single branch (a value that `asMap` accepts is not an array)
          have hna : isArrayRaw (some j) = false := by
            cases j <;> simp [asMap, isArrayRaw] at hm ⊢
          simp only [hna, Bool.false_eq_true, ite_false]
          split
          · simp
          · cases hq : asMap j with
            | none => rw [hq] at hm; cases hm
            | some cur => simp only [Option.bind_some, hq]; exact hob _
        · simp only [isArrayRaw, ite_true]
          split
          · simp
          · cases hq : asMaps (.arr xs) with
            | none => rw [hq] at hms; cases hms
            | some cur => simp only [Option.bind_some, hq]; exact hob _

/-- FALSE in general ("the permission check always returns a verdict"): sub-rules attached to a
    parameter that is a list of strings make `json.Unmarshal(currentRaw, &[]map…)` fail → `panic(err)`,
    while the same check returned `true` when the list was still empty. -/
theorem C17_checker_no_panic_counterexample :
    ¬ (∀ (a : APC) (st : Store) (c : Change), allowsParamChange a st c ≠ .panic) := by
  intro h
  exact h { subspace := "savings", key := "SupportedDenoms", single := [], multi := [{ key := "x", val := "y", allowed := [] }] }
    (fun _ _ => some (some (.arr [.str "ukava"])))
    { subspace := "savings", key := "SupportedDenoms", value := some (.arr []) } (by decide)

/-- The committee module's own proposals (create / change / delete a committee) have no route on the
    committee router built in app.go: a committee cannot edit committees. -/
theorem C17_no_committee_route :
    KV.Gen.committeeRouterKey ∉ KV.Gen.committeeRouterRoutes ∧
    KV.Gen.committeeRouterKey ∈ KV.Gen.govRouterRoutes := by decide

/-- …hence such a proposal is refused at submission and could not be enacted if it were stored. -/
theorem C17_no_committee_route_refused {Ext C Pm : Type} (env : Env Ext C Pm) (s : St Ext C Pm)
    (hr : env.routes = KV.Gen.committeeRouterRoutes) (c : C) (hc : env.route c = KV.Gen.committeeRouterKey)
    (now : Int) (pr : Addr) (cid : Nat) (p : Proposal C) (hp : p.content = c) :
    (∀ s', submit env s now pr cid c ≠ .ok s') ∧ (∀ s', enact env s p ≠ .ok s') := by
  have hv : ∀ e, validatePub env e c = false := by
    intro e
    unfold validatePub
    rw [hr, hc]
    have : KV.Gen.committeeRouterRoutes.contains KV.Gen.committeeRouterKey = false := by decide
    rw [this]; simp
  constructor
  · intro s' h
    obtain ⟨_, _, _, _, hval, _⟩ := submit_ok_shape env s s' now pr cid c h
    rw [hv] at hval; cases hval
  · intro s' h
    obtain ⟨_, _, _, _, hval, _⟩ := enact_ok_shape env s s' p h
    rw [hp, hv] at hval; cases hval

/-! ## (b) lifecycle -/

variable {Ext C Pm : Type}

/-- Submitting and voting touch nothing but the proposal and vote stores: the external state (params,
    balances, …), the committees and the event log are unchanged — the handler only ran as a dry run
    whose result is discarded. -/
theorem C17_submit_vote_no_effect (env : Env Ext C Pm) (s s' : St Ext C Pm) (op : Op Ext C Pm)
    (hop : (∃ now pr cid c, op = .submit now pr cid c) ∨ (∃ now pid v vt, op = .vote now pid v vt))
    (h : step env s op = .ok s') :
    s'.ext = s.ext ∧ s'.committees = s.committees ∧ s'.log = s.log := by
  rcases hop with ⟨now, pr, cid, c, rfl⟩ | ⟨now, pid, v, vt, rfl⟩
  · obtain ⟨_, _, _, _, _, rfl⟩ := submit_ok_shape env s s' now pr cid c h
    exact ⟨rfl, rfl, rfl⟩
  · obtain ⟨_, _, _, _, _, _, rfl⟩ := vote_ok_shape s s' now pid v vt h
    exact ⟨rfl, rfl, rfl⟩

/-- A re-vote replaces the earlier vote: after an accepted vote the store holds exactly one vote of that
    voter on that proposal — the option just cast — and every other vote is as before. The tally
    therefore counts the votes cast last. -/
theorem C17_revote_replaces (s s' : St Ext C Pm) (now : Int) (pid : Nat) (voter : Addr) (vt : VoteType)
    (h : vote s now pid voter vt = .ok s') :
    (⟨pid, voter, vt⟩ : Vote) ∈ s'.votes ∧
    (∀ v, v ∈ s'.votes → v.pid = pid → v.voter = voter → v = ⟨pid, voter, vt⟩) ∧
    (∀ v : Vote, ¬ (v.pid = pid ∧ v.voter = voter) → (v ∈ s'.votes ↔ v ∈ s.votes)) := by
  obtain ⟨_, _, _, _, _, _, rfl⟩ := vote_ok_shape s s' now pid voter vt h
  simp only [setVote, List.mem_append, List.mem_filter, List.mem_singleton, Bool.not_eq_true',
    Bool.and_eq_false_iff, beq_eq_false_iff_ne, ne_eq]
  refine ⟨Or.inr trivial, ?_, ?_⟩
  · intro v hv hp hvo
    rcases hv with ⟨_, hne⟩ | rfl
    · rcases hne with h1 | h1
      · exact absurd hp h1
      · exact absurd hvo h1
    · rfl
  · intro v hne
    constructor
    · intro hv
      rcases hv with ⟨hm, _⟩ | rfl
      · exact hm
      · exact absurd ⟨rfl, rfl⟩ hne
    · intro hm
      refine Or.inl ⟨hm, ?_⟩
      by_cases hp : v.pid = pid
      · exact Or.inr (fun hvo => hne ⟨hp, hvo⟩)
      · exact Or.inl hp

/-- non-vacuity: yes then no by the same voter leaves a single `no` vote -/
example : setVote (setVote [] ⟨1, 0, .yes⟩) ⟨1, 0, .no⟩ = [⟨1, 0, .no⟩] := by decide

/-- a refused submit / vote changes nothing at all (the message is rolled back) -/
theorem C17_refused_no_effect (env : Env Ext C Pm) (s s' : St Ext C Pm) (op : Op Ext C Pm)
    (h : step env s op = .err) (hr : run env s [op] = some s') : s' = s := by
  simp only [run, h] at hr; cases hr; rfl

/-- Over every history from a well-formed state (e.g. genesis: empty log): every proposal is enacted
    at most once and closed at most once; an enacted proposal is closed (as passed); a closed
    proposal is no longer in the store and has no votes left. -/
theorem C17_enact_once (env : Env Ext C Pm) (s0 s : St Ext C Pm) (ops : List (Op Ext C Pm))
    (h0 : Inv s0) (hr : run env s0 ops = some s) :
    (enactedPids s.log).Nodup ∧ (closedPids s.log).Nodup ∧
    (∀ pid, Event.enacted pid ∈ s.log → Event.closed pid .passed ∈ s.log) ∧
    (∀ e, e ∈ s.log → (∀ p, p ∈ s.proposals → p.id ≠ e.pid) ∧ (∀ v, v ∈ s.votes → v.pid ≠ e.pid)) := by
  have h := inv_run env ops s0 s h0 hr
  refine ⟨h.enacted_nodup, h.closed_nodup, h.enacted_closed, ?_⟩
  intro e he
  refine ⟨fun p hp heq => h.open_not_logged p hp e he heq.symm, ?_⟩
  intro v hv heq
  obtain ⟨p, hp, hpv⟩ := h.votes_open v hv
  exact h.open_not_logged p hp e he (by rw [hpv, heq])

/-- non-vacuity: a genesis state (committees, no proposals, empty log) satisfies the invariant -/
example (cs : List (Committee Pm)) (e : Ext) :
    Inv ({ committees := cs, proposals := [], votes := [], nextId := 1, ext := e, log := [] } : St Ext C Pm) := by
  constructor <;> simp [closedPids, enactedPids]

/-- Enactment happens only while a begin block processes that proposal, and only if, on the state at
    that moment, the committee still exists and still has permission, the tally passes, the proposal
    is due (deadline reached, or first-past-the-post), and the handler succeeds; the new external
    state is exactly the handler's result. -/
theorem C17_enact_only_if_passed (env : Env Ext C Pm) (now : Int) (s s' : St Ext C Pm) (p : Proposal C)
    (h : processOne env now s p = .ok s') (hne : s'.log ≠ s.log ++ [.closed p.id .failed])
    (hni : s'.log ≠ s.log ++ [.closed p.id .invalid]) (hch : s'.log ≠ s.log) :
    ∃ com e, getCommittee s p.cid = some com ∧ result env s com p.id = true ∧
      (p.deadline ≤ now ∨ com.fptp = true) ∧
      env.permits com.perms p.content s.ext = true ∧ env.handler p.content s.ext = some e ∧
      s'.ext = e ∧ s'.log = s.log ++ [.enacted p.id, .closed p.id .passed] := by
  have hE : ∀ com, getCommittee s p.cid = some com → result env s com p.id = true →
      (p.deadline ≤ now ∨ com.fptp = true) → enactAndClose env s p = .ok s' →
      ∃ com e, getCommittee s p.cid = some com ∧ result env s com p.id = true ∧
        (p.deadline ≤ now ∨ com.fptp = true) ∧
        env.permits com.perms p.content s.ext = true ∧ env.handler p.content s.ext = some e ∧
        s'.ext = e ∧ s'.log = s.log ++ [.enacted p.id, .closed p.id .passed] := by
    intro com hc hres hdue hr
    rcases enactAndClose_cases env s p with ⟨com', e, h1, h2, _, h4, heq⟩ | ⟨_, heq⟩
    · rw [heq] at hr; cases hr
      rw [hc] at h1; cases h1
      exact ⟨com, e, hc, hres, hdue, h2, h4, rfl, by simp [close]⟩
    · rw [heq] at hr; cases hr
      exact absurd (by simp [close]) hni
  unfold processOne at h
  split at h
  · cases h; exact absurd (by simp [close]) hne
  · rename_i com hc
    split at h
    · split at h
      · rename_i hf
        split at h
        · rename_i hres; exact hE com hc hres (Or.inr hf) h
        · cases h; exact absurd rfl hch
      · cases h; exact absurd rfl hch
    · rename_i hdue
      split at h
      · rename_i hres; exact hE com hc hres (Or.inl (by omega)) h
      · cases h; exact absurd (by simp [close]) hne

/-- the passing tally of a member committee: number of recorded votes ≥ threshold · number of members
    (sdk.Dec arithmetic, `Mul` rounding half-even at 10⁻¹⁸) -/
theorem C17_member_tally (env : Env Ext C Pm) (s : St Ext C Pm) (com : Committee Pm) (pid : Nat)
    (hm : com.token = false) :
    result env s com pid = true ↔
      (com.threshold.mul (Dec.ofInt com.members.length)).m ≤ ((votesFor s pid).length : Int) * P := by
  simp only [result, hm, Bool.false_eq_true, ite_false, memberResult, Dec.le, Dec.ofInt]
  exact decide_eq_true_iff

/-- the passing tally of a token committee: quorum first (total voted weight ≥ quorum · supply), then at
    least one yes or no weight counted, then threshold (yes ≥ threshold · (yes + no)); weights are the
    voters' balances at the time of tally -/
theorem C17_token_tally (env : Env Ext C Pm) (s : St Ext C Pm) (com : Committee Pm) (pid : Nat)
    (ht : com.token = true) :
    result env s com pid = true ↔
      (com.quorum.mul (Dec.ofInt (env.supply s.ext com.denom))).m
          ≤ sumBal env s.ext com.denom (votesFor s pid) * P ∧
      0 < sumBal env s.ext com.denom ((votesFor s pid).filter (fun v => v.vt == .yes)) * P
          + sumBal env s.ext com.denom ((votesFor s pid).filter (fun v => v.vt == .no)) * P ∧
      (((Dec.ofInt (sumBal env s.ext com.denom ((votesFor s pid).filter (fun v => v.vt == .yes)))).add
          (Dec.ofInt (sumBal env s.ext com.denom ((votesFor s pid).filter (fun v => v.vt == .no))))).mul com.threshold).m
          ≤ sumBal env s.ext com.denom ((votesFor s pid).filter (fun v => v.vt == .yes)) * P := by
  simp only [result, ht, ite_true, tokenResult, Dec.le, Dec.ofInt, Dec.add]
  by_cases hq : (com.quorum.mul ⟨env.supply s.ext com.denom * P⟩).m ≤ sumBal env s.ext com.denom (votesFor s pid) * P
  · simp only [hq, decide_true, ite_true, true_and, Bool.and_eq_true, decide_eq_true_eq]
    exact and_congr decide_eq_true_iff decide_eq_true_iff
  · simp [hq]

/-- "only on a passing tally": a token-committee tally in which no yes and no no weight was counted —
    everybody abstained, or nobody voted and the quorum is zero — does not pass, whatever the threshold and
    quorum are (repaired defect: the code compared `0 ≥ 0 · threshold` and enacted such proposals). -/
theorem C17_token_tally_needs_votes (env : Env Ext C Pm) (s : St Ext C Pm) (com : Committee Pm) (pid : Nat)
    (ht : com.token = true)
    (h0 : sumBal env s.ext com.denom ((votesFor s pid).filter (fun v => v.vt == .yes))
        + sumBal env s.ext com.denom ((votesFor s pid).filter (fun v => v.vt == .no)) = 0) :
    result env s com pid = false := by
  cases hr : result env s com pid with
  | false => rfl
  | true =>
    have := ((C17_token_tally env s com pid ht).1 hr).2.1
    have hP : (0 : Int) < P := by unfold P; decide
    have : 0 < (sumBal env s.ext com.denom ((votesFor s pid).filter (fun v => v.vt == .yes))
        + sumBal env s.ext com.denom ((votesFor s pid).filter (fun v => v.vt == .no))) * P := by
      rw [Int.add_mul]; exact this
    rw [h0] at this; simp at this

/-- non-vacuity: a token committee with quorum 0.1 and threshold 0.5; holders of 60 of 100 tokens abstain
    (quorum met) — the tally does not pass; with one holder of 30 voting yes instead it passes -/
example :
    let env : Env Unit Unit Unit := {
      route := (fun _ => "r"), routes := ["r"], validBasic := (fun _ => true),
      permits := (fun _ _ _ => true), handler := (fun _ e => some e),
      bal := (fun _ _ a => if a = 0 then 30 else if a = 1 then 30 else 40), supply := (fun _ _ => 100) }
    let com : Committee Unit := {
      id := 1, token := true, members := [0], perms := (), threshold := ⟨P / 2⟩,
      quorum := ⟨P / 10⟩, duration := 0, fptp := true, denom := "hard" }
    let s (vt : VoteType) : St Unit Unit Unit := {
      committees := [com], proposals := [⟨7, 1, 10, ()⟩],
      votes := [⟨7, 0, vt⟩, ⟨7, 1, .abstain⟩], nextId := 8, ext := (), log := [] }
    result env (s .abstain) com 7 = false ∧ result env (s .yes) com 7 = true := by
  decide +kernel

/-- no operation other than the begin block enacts anything -/
theorem C17_enact_only_by_begin_block (env : Env Ext C Pm) (s s' : St Ext C Pm) (op : Op Ext C Pm)
    (hnb : ∀ now, op ≠ .beginBlock now) (h : step env s op = .ok s') :
    enactedPids s'.log = enactedPids s.log := by
  cases op with
  | submit now pr cid c =>
    obtain ⟨_, _, _, _, _, rfl⟩ := submit_ok_shape env s s' now pr cid c h; rfl
  | vote now pid v vt =>
    obtain ⟨_, _, _, _, _, _, rfl⟩ := vote_ok_shape s s' now pid v vt h; rfl
  | beginBlock now => exact absurd rfl (hnb now)
  | setCommittee com => simp only [step] at h; cases h; exact closeAll_log_enacted _ s
  | deleteCommittee cid => simp only [step] at h; cases h; exact closeAll_log_enacted _ s
  | ext f => simp only [step] at h; cases h; rfl

/-- Timing, message side: a vote at or after the deadline is refused. -/
theorem C17_timing_vote_refused_at_deadline (s : St Ext C Pm) (now : Int) (pid : Nat) (voter : Addr)
    (vt : VoteType) (pr : Proposal C) (hp : getProposal s pid = some pr) (hd : pr.deadline ≤ now) :
    vote s now pid voter vt = .err := by
  unfold vote
  rw [hp]
  simp only [ge_iff_le, hd, ite_true]

/-- Timing, begin-block side, for one proposal of an existing committee: it is closed in this block
    iff the deadline is reached or (first-past-the-post and the tally passes now); otherwise it is left
    exactly as it was. -/
theorem C17_timing (env : Env Ext C Pm) (now : Int) (s s' : St Ext C Pm) (p : Proposal C)
    (com : Committee Pm) (hc : getCommittee s p.cid = some com) (h : processOne env now s p = .ok s') :
    (p.deadline ≤ now ∨ (com.fptp = true ∧ result env s com p.id = true) → ∀ q, q ∈ s'.proposals → q.id ≠ p.id) ∧
    (¬ (p.deadline ≤ now ∨ (com.fptp = true ∧ result env s com p.id = true)) → s' = s) := by
  have hE : ∀ s', enactAndClose env s p = .ok s' → ∀ q, q ∈ s'.proposals → q.id ≠ p.id := by
    intro s' h q hq
    rcases enactAndClose_cases env s p with ⟨com, e, _, _, _, _, heq⟩ | ⟨_, heq⟩
    · rw [heq] at h; cases h; exact close_removes _ _ _ q hq
    · rw [heq] at h; cases h; exact close_removes _ _ _ q hq
  constructor
  · intro hcond
    rcases hcond with hdue | ⟨hf, hres⟩
    · exact processOne_due_closes env now s s' p hdue h
    · by_cases hdue : p.deadline ≤ now
      · exact processOne_due_closes env now s s' p hdue h
      · unfold processOne at h
        rw [hc] at h
        have hlt : now < p.deadline := by omega
        simp only [hlt, ite_true, hf, hres] at h
        exact hE s' h
  · intro hcond
    simp only [not_or, not_and] at hcond
    obtain ⟨hnd, hnf⟩ := hcond
    have hlt : now < p.deadline := by omega
    unfold processOne at h
    rw [hc] at h
    simp only [hlt, ite_true] at h
    split at h
    · rename_i hf
      have := hnf hf
      simp only [this, Bool.false_eq_true, ite_false] at h
      cases h; rfl
    · cases h; rfl

/-- Whole begin block: a proposal whose deadline is reached is gone after the block; a proposal of a
    committee that tallies at the deadline survives every earlier block untouched — so it can only be
    closed (and enacted) by the first begin block with time ≥ deadline. -/
theorem C17_timing_block (env : Env Ext C Pm) (now : Int) (s s' : St Ext C Pm) (hi : Inv s)
    (h : beginBlock env now s = .ok s') (p : Proposal C) (hp : p ∈ s.proposals) :
    (p.deadline ≤ now → ∀ q, q ∈ s'.proposals → q.id ≠ p.id) ∧
    (∀ com, getCommittee s p.cid = some com → com.fptp = false → now < p.deadline → p ∈ s'.proposals) := by
  constructor
  · intro hdue
    exact processAll_due_closed env now s.proposals s s' p hp hdue h
  · intro com hc hf hearly
    exact processAll_early_kept env now s.proposals s s' p com hi.ids_nodup hp
      (fun q hq e => eq_of_mem_of_id_eq s.proposals hi.ids_nodup p q hp hq e) hc hf hearly h

/-- The begin block never panics and never fails — whatever the handlers do: a proposal whose
    handler fails at enactment time (or whose committee lost the permission) is closed with outcome
    `Invalid`, nothing of it applied. The "unexpected handler error" panic in `enactProposal` is
    unreachable because the dry run has just succeeded on the same state. -/
theorem C17_invalid_closed_not_halting (env : Env Ext C Pm) (now : Int) (s : St Ext C Pm) :
    beginBlock env now s ≠ .panic ∧ beginBlock env now s ≠ .err ∧
    ∀ p, enact env s p = .err → enactAndClose env s p = .ok (close s p.id .invalid) := by
  refine ⟨processAll_no_panic env now s.proposals s, processAll_no_err env now s.proposals s, ?_⟩
  intro p he
  unfold enactAndClose; rw [he]

/-- Sequential semantics of a begin block in which several proposals finish: for EVERY proposal `p` of the block
    (`pre` = the proposals with smaller ids, `post` = the later ones) there is the state `si` left by processing `pre`
    — in particular by the enactments before `p` in the same block — and `p` is decided on `si`, not on the state at
    the start of the block: it is left alone, closed without effect, or enacted, and it is enacted only if on `si` its
    committee exists and has permission for it and its handler runs, the handler's result on `si` being the new
    external state.  So when the committee has lost the permission on `si`, or the handler fails on `si` — because an
    earlier proposal of the same block used up what it needs — nothing of `p` is applied (and the block still neither
    panics nor fails: `C17_invalid_closed_not_halting`). -/
theorem C17_sequential_enactment (env : Env Ext C Pm) (now : Int) (s s' : St Ext C Pm)
    (pre post : List (Proposal C)) (p : Proposal C) (hps : s.proposals = pre ++ p :: post)
    (h : beginBlock env now s = .ok s') :
    ∃ si si', processAll env now s pre = .ok si ∧ processOne env now si p = .ok si' ∧
      processAll env now si' post = .ok s' ∧
      (si' = si ∨ (∃ o, o ≠ Outcome.passed ∧ si' = close si p.id o) ∨
        ∃ com e, getCommittee si p.cid = some com ∧ env.permits com.perms p.content si.ext = true ∧
          env.handler p.content si.ext = some e ∧
          si' = close { si with ext := e, log := si.log ++ [.enacted p.id] } p.id .passed) ∧
      (((∀ com, getCommittee si p.cid = some com → env.permits com.perms p.content si.ext = false) ∨
          env.handler p.content si.ext = none) →
        si'.ext = si.ext ∧ Event.enacted p.id ∉ si'.log.drop si.log.length) := by
  unfold beginBlock at h
  rw [hps] at h
  obtain ⟨si, si', ha, hb, hc⟩ := processAll_split env now pre p post s s' h
  have he := processOne_effect env now si si' p hb
  refine ⟨si, si', ha, hb, hc, he, ?_⟩
  intro hbad
  rcases he with rfl | ⟨o, _, rfl⟩ | ⟨com, e, hcom, hperm, hh, _⟩
  · simp
  · simp [close]
  · rcases hbad with hnp | hnh
    · rw [hnp com hcom] at hperm; cases hperm
    · rw [hnh] at hh; cases hh

/-- non-vacuity (the shape of the seeded defect this statement excludes): the external state is a lend position of
    1000; two proposals to withdraw it all finish in the same block with passing tallies; the handler fails when
    nothing is left.  The first is enacted, the second — valid on the state at the start of the block — is closed as
    Invalid on the state the first one left, and the block does not panic. -/
example :
    let env : Env Nat Nat Unit := {
      route := (fun _ => "r"), routes := ["r"], validBasic := (fun _ => true),
      permits := (fun _ _ _ => true),
      handler := (fun amt dep => if dep = 0 then none else some (dep - min amt dep)),
      bal := (fun _ _ _ => 0), supply := (fun _ _ => 0) }
    let com : Committee Unit := {
      id := 1, token := false, members := [0], perms := (), threshold := ⟨P / 2⟩,
      quorum := ⟨0⟩, duration := 10, fptp := false, denom := "" }
    let s : St Nat Nat Unit := {
      committees := [com], proposals := [⟨1, 1, 10, 1000⟩, ⟨2, 1, 10, 2000⟩],
      votes := [⟨1, 0, .yes⟩, ⟨2, 0, .yes⟩], nextId := 3, ext := 1000, log := [] }
    (env.handler 1000 s.ext).isSome = true ∧ (env.handler 2000 s.ext).isSome = true ∧
    (match beginBlock env 10 s with
      | .ok s' => decide (s'.ext = 0) && decide (s'.log = [.enacted 1, .closed 1 .passed, .closed 2 .invalid]) &&
          s'.proposals.isEmpty
      | _ => false) = true := by
  decide +kernel

/-- a failing handler (or a missing permission) at enactment time does give `.err` -/
theorem C17_handler_failure_is_invalid (env : Env Ext C Pm) (s : St Ext C Pm) (p : Proposal C)
    (h : env.handler p.content s.ext = none) : enact env s p = .err := by
  unfold enact
  split
  · rfl
  · split
    · rfl
    · split
      · rfl
      · rename_i hval
        simp only [validatePub, h, Option.isSome_none, Bool.and_false, Bool.not_false, not_true_eq_false] at hval

/-- …and a handler that would fail at submission makes the submission fail. -/
theorem C17_handler_failure_rejected_at_submit (env : Env Ext C Pm) (s : St Ext C Pm) (now : Int)
    (pr : Addr) (cid : Nat) (c : C) (h : env.handler c s.ext = none) : ∀ s', submit env s now pr cid c ≠ .ok s' := by
  intro s' hs
  obtain ⟨_, _, _, _, hval, _⟩ := submit_ok_shape env s s' now pr cid c hs
  simp [validatePub, h] at hval

/-! ## source tie (regenerated)

    `GoFn.Committee.*` (Generated/FnCommittee.lean) is regenerated on every run from the Go source of
    x/committee/types/committee.go by the function translator (tools/extract/fn*.go).
    Proof: Proofs/TieFnCommittee.lean. -/

/-- `Proposal.HasExpiredBy(now)` is `now ≥ deadline` — the deadline test the model's `vote` / close paths write
    inline ("all votes must be cast before deadline, those cast at time == deadline are not valid") -/
theorem C17_source_tie_HasExpiredBy (id cid deadline now : Int) :
    GoFn.Committee.HasExpiredBy_translated = true ∧
    GoFn.Committee.HasExpiredBy ⟨id, cid, deadline⟩ now = Go.R.ok (decide (now ≥ deadline)) :=
  TieFn.committee_HasExpiredBy id cid deadline now

end KV.C17
