import KavaVerif.Props.C15
#print axioms KV.Ante.C15_blocked_types
#print axioms KV.Ante.C15_scan_shape
#print axioms KV.Ante.C15_closure
#print axioms KV.Ante.C15_closure_converse
#print axioms KV.Ante.C15_closure_wellformed
#print axioms KV.Ante.C15_gate_closure
#print axioms KV.Ante.C15_vesting_top_level
#print axioms KV.Ante.C15_vesting_exact
#print axioms KV.Ante.C15_routing_several
#print axioms KV.Ante.C15_routing_unknown
#print axioms KV.Ante.C15_routing_eth_iff
#print axioms KV.Ante.C15_routing_eth_msgs_only_on_eth_path
#print axioms KV.Ante.C15_routing_eth_path_only_eth_msgs
#print axioms KV.Ante.C15_chain_order
#print axioms KV.Ante.C15_mempool
#print axioms KV.Ante.C15_mempool_block_execution_unaffected
#print axioms KV.Ante.C15_mempool_decorator
