import KavaVerif.Props.C03
#print axioms KV.PB.C03_conversion_factor
#print axioms KV.PB.C03_inv_send
#print axioms KV.PB.C03_send_exact
#print axioms KV.PB.C03_send_self_noop
#print axioms KV.PB.C03_send_never_panics
#print axioms KV.PB.C03_send_succeeds_iff
#print axioms KV.PB.C03_inv_mint
#print axioms KV.PB.C03_mint_exact
#print axioms KV.PB.C03_inv_burn
#print axioms KV.PB.C03_burn_exact
#print axioms KV.PB.C03_guards
#print axioms KV.PB.C03_inv_send_any
#print axioms KV.PB.C03_inv_step
#print axioms KV.PB.C03_reachable_inv
#print axioms KV.PB.C03_source_tie_subFromFractionalBalance
#print axioms KV.PB.C03_source_tie_addToFractionalBalance
