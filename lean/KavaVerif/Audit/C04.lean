import KavaVerif.Props.C04
#print axioms KV.Cdp.C04_source_index_paths
#print axioms KV.Cdp.C04_genesis_inv
#print axioms KV.Cdp.C04_invariant_all_histories
#print axioms KV.Cdp.C04_invariant_step
#print axioms KV.Cdp.C04_custody
#print axioms KV.Cdp.C04_no_orphan_deposits
#print axioms KV.Cdp.C04_cdp_collateral_eq_deposits
#print axioms KV.Cdp.C04_owner_index_exact
#print axioms KV.Cdp.C04_ratio_index_exact
#print axioms KV.Cdp.C04_ratio_index_paths_agree
#print axioms KV.Cdp.C04_stable_le_debt
#print axioms KV.Cdp.C04_close_returns_deposits
#print axioms KV.Cdp.C04_total_principal_partial
#print axioms KV.Cdp.C04_failed_noop
