import KavaVerif.Props.C12
#print axioms KV.Liquid.C12_live_configuration
#print axioms KV.Liquid.exSlashed_wf
#print axioms KV.Liquid.C12_backed
#print axioms KV.Liquid.C12_burn_keeps_margin
#print axioms KV.Liquid.C12_no_empty_delegation
#print axioms KV.Liquid.C12_bonded_tokens_unchanged
#print axioms KV.Liquid.C12_no_unbonding_entry
#print axioms KV.Liquid.C12_guards
#print axioms KV.Liquid.C12_value_within_two_units
#print axioms KV.Liquid.exWhale_ok
#print axioms KV.Liquid.C12_value_unchanged_at_rate_one
#print axioms KV.Liquid.exT_ok
#print axioms KV.Liquid.C12_tally_le_bonded
#print axioms KV.Liquid.C12_tally_counts_once
#print axioms KV.Liquid.C12_tally_no_panic
