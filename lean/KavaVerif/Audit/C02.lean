import KavaVerif.Props.C02
#print axioms KV.Safe.C02_all_panic_sites_reviewed
#print axioms KV.Safe.C02_sites_nonempty
#print axioms KV.Safe.C02_undischarged_sites_are_the_known_findings
#print axioms KV.Safe.C02_unwired_blockers
#print axioms KV.Safe.C02_all_routes_covered
#print axioms KV.Safe.C02_unregistered_routes_known
#print axioms KV.Safe.C02_blocker_order
#print axioms KV.Safe.C02_cdp_debt_split_exact
#print axioms KV.Safe.C02_cdp_debt_split_single
#print axioms KV.Safe.C02_cdp_debt_split_before_fix_witness
#print axioms KV.Safe.C02_kavadist_mint_step_never_panics
#print axioms KV.Safe.C02_kavadist_partner_rewards_counterexample
#print axioms KV.Safe.C02_kavadist_partner_rewards_partial
