import KavaVerif.Props.C14
#print axioms KV.Gx.C14_conversion_factor
#print axioms KV.Gx.C14_import_order
#print axioms KV.Gx.C14_precisebank_roundtrip
#print axioms KV.Gx.C14_precisebank_reexport
#print axioms KV.Gx.C14_precisebank_unbacked_rejected
#print axioms KV.Gx.C14_savings_roundtrip
#print axioms KV.Gx.C14_swap_roundtrip
#print axioms KV.Gx.C14_swap_share_mismatch_rejected
#print axioms KV.Gx.C14_bep3_roundtrip
#print axioms KV.Gx.C14_bep3_indexes_rebuilt
#print axioms KV.Gx.C14_bep3_supply_mismatch_rejected
