import KavaVerif.Props.C05
#print axioms KV.Cdp.C05_source_gate_table
#print axioms KV.Cdp.C05_user_gate_withdraw
#print axioms KV.Cdp.C05_user_gate_draw
#print axioms KV.Cdp.C05_user_gate_create
#print axioms KV.Cdp.C05_feed_gate_create
#print axioms KV.Cdp.C05_feed_gate_deposit
#print axioms KV.Cdp.C05_feed_gate_withdraw
#print axioms KV.Cdp.C05_feed_gate_draw
#print axioms KV.Cdp.C05_keeper_sound
#print axioms KV.Cdp.C05_block_sound
#print axioms KV.Cdp.C05_block_sound_state
#print axioms KV.Cdp.C05_block_index_bound
#print axioms KV.Cdp.C05_block_complete
#print axioms KV.Cdp.C05_block_complete_bound
#print axioms KV.Cdp.C05_debt_split_exact
#print axioms KV.Cdp.C05_debt_split_never_short
#print axioms KV.Cdp.C05_seize_whole
