import KavaVerif.Props.C09
#print axioms KV.Acc.C09_frame
#print axioms KV.Acc.C09_frame_own
#print axioms KV.Acc.C09_window_step
#print axioms KV.Acc.C09_window
#print axioms KV.Acc.C09_no_over_distribution
#print axioms KV.Acc.C09_fresh_start
#print axioms KV.Acc.C09_unhooked_write_counterexample
#print axioms KV.Acc.C09_integral
#print axioms KV.Acc.C09_integral_block
#print axioms KV.Acc.C09_claim
#print axioms KV.Acc.C09_multi_sync
#print axioms KV.Acc.C09_multi_frame
#print axioms KV.Acc.C09_multi_claim
#print axioms KV.Acc.C09_all_share_writes_hooked
#print axioms KV.Acc.C09_sources_wired
#print axioms KV.Acc.C09_savings_not_wired
#print axioms KV.Acc.C09_source_tie_getTimeElapsedWithinLimits
