import KavaVerif.Props.C11
#print axioms KV.C11.C11_savings_solvent
#print axioms KV.C11.C11_savings_solvent_init
#print axioms KV.C11.C11_savings_withdraw_exact
#print axioms KV.C11.C11_savings_deposit_exact
#print axioms KV.C11.C11_savings_frame
#print axioms KV.C11.C11_earn_shares_sum
#print axioms KV.C11.C11_earn_shares_sum_init
#print axioms KV.C11.C11_earn_redeemable_le_value
#print axioms KV.C11.C11_withdraw_le_value
#print axioms KV.C11.C11_deposit_withdraw_no_profit_counterexample
#print axioms KV.C11.C11_deposit_withdraw_no_profit_witness
#print axioms KV.C11.C11_deposit_withdraw_no_profit_partial
#print axioms KV.C11.C11_stranded_only_by_dust_sweep
#print axioms KV.C11.C11_deposit_withdraw_no_profit_patched
#print axioms KV.C11.C11_frame
