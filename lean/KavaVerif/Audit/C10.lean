import KavaVerif.Props.C10
#print axioms KV.EU.C10_scale
#print axioms KV.EU.C10_module_account_blocked
#print axioms KV.EU.C10_genesis
#print axioms KV.EU.C10_cosmos_backed
#print axioms KV.EU.C10_evm_native_backed
#print axioms KV.EU.C10_ledger_total
#print axioms KV.EU.C10_value_conserved_coin_to_erc20
#print axioms KV.EU.C10_value_conserved_erc20_to_coin
#print axioms KV.EU.C10_value_conserved_cosmos_to_erc20
#print axioms KV.EU.C10_value_conserved_cosmos_from_erc20
#print axioms KV.EU.C10_round_trip_native
#print axioms KV.EU.C10_round_trip_cosmos
#print axioms KV.EU.C10_dust_stays
#print axioms KV.EU.C10_dust_refused
#print axioms KV.EU.C10_failed_changes_nothing
#print axioms KV.EU.C10_disabled_refused
