/-
  Run-time prelude of the Go → Lean FUNCTION TRANSLATOR (tools/extract/fn*.go, "tie 1b").

  The regenerated files `KavaVerif/Generated/Fn<Module>.lean` import only this file (and, through it,
  `Num/Dec.lean`).  It fixes the meaning of the Go constructs the translator maps to something other
  than a plain `Int`/`Dec` operation:

  * `R α`  — the three outcomes of a Go call: a value, an ordinary `error`, a panic.  A translated
    function body is a `do` block in this monad; panics and errors propagate by `bind`.
  * operations of `math/big`, `sdkmath.Int`, `sdkmath.LegacyDec`, `sdk.Coin` that PANIC on some
    operands (division by zero, negative coin, negative square root) return `R`;
  * `big.Int.Cmp`, `Sign`, `time.Time.Sub` (saturating), `sdkmath.MinInt/MaxInt`.

  NOT modelled (documented in design_notes/translator.md): the 256-bit (Int) / 315-bit (Dec) overflow
  panics of sdkmath, int64/uint64 wrap-around, denominations of coins (assumed equal where Go checks
  them), nil `sdkmath.Int`/`Dec` values (the translator rejects a read of an unassigned `var`).

  Core Lean only.  Everything here is a definition plus `simp` lemmas used by the tie proofs
  (`Proofs/TieFn*.lean`); the lemmas are proved, only the definitions are trusted.
-/
import KavaVerif.Num.Dec

namespace KV.Go

/-- outcome of a Go call -/
inductive R (α : Type) where
  | ok (v : α)
  | err
  | panic
deriving Repr, DecidableEq

@[inline] def R.bind {α β : Type} (x : R α) (f : α → R β) : R β :=
  match x with
  | .ok v => f v
  | .err => .err
  | .panic => .panic

instance : Monad R where
  pure := R.ok
  bind := R.bind

@[simp] theorem R.ok_bind {α β : Type} (v : α) (f : α → R β) : (R.ok v >>= f) = f v := rfl
@[simp] theorem R.panic_bind {α β : Type} (f : α → R β) : ((R.panic : R α) >>= f) = R.panic := rfl
@[simp] theorem R.err_bind {α β : Type} (f : α → R β) : ((R.err : R α) >>= f) = R.err := rfl
@[simp] theorem R.pure_eq {α : Type} (v : α) : (pure v : R α) = R.ok v := rfl

/-- a hand model that writes a panic as `none` -/
def R.ofOption {α : Type} : Option α → R α
  | none => .panic
  | some v => .ok v

@[simp] theorem R.ofOption_none {α : Type} : (R.ofOption (none : Option α)) = R.panic := rfl
@[simp] theorem R.ofOption_some {α : Type} (v : α) : R.ofOption (some v) = R.ok v := rfl

/-! ### math/big -/

/-- `z.Quo(x, y)`: truncated division, panics on `y = 0` -/
def bigQuo (a b : Int) : R Int := if b = 0 then .panic else .ok (tquo a b)

/-- `z.Rem(x, y)`: truncated remainder, panics on `y = 0` -/
def bigRem (a b : Int) : R Int := if b = 0 then .panic else .ok (a - b * tquo a b)

/-- `z.QuoRem(x, y, r)`: both at once -/
def bigQuoRem (a b : Int) : R (Int × Int) :=
  if b = 0 then .panic else .ok (tquo a b, a - b * tquo a b)

/-- `z.Div(x, y)`: Euclidean division (Lean's `/` on `Int`), panics on `y = 0` -/
def bigDiv (a b : Int) : R Int := if b = 0 then .panic else .ok (a / b)

/-- `z.Mod(x, y)`: Euclidean modulus (Lean's `%` on `Int`), panics on `y = 0` -/
def bigMod (a b : Int) : R Int := if b = 0 then .panic else .ok (a % b)

/-- `x.Cmp(y)` ∈ {−1, 0, 1} -/
def cmp (a b : Int) : Int := if a < b then -1 else if a = b then 0 else 1

/-- `x.Sign()` ∈ {−1, 0, 1} -/
def sign (a : Int) : Int := if a < 0 then -1 else if a = 0 then 0 else 1

def abs (a : Int) : Int := if a < 0 then -a else a

/-- ⌊√n⌋ by two bits per step (the same recursion as `KV.SW.isqrt`, which Proofs/Swap.lean proves exact) -/
def isqrtAux : Nat → Nat → Nat
  | 0, n => n
  | fuel + 1, n =>
    if n < 2 then n
    else
      let r := 2 * isqrtAux fuel (n / 4)
      if (r + 1) * (r + 1) ≤ n then r + 1 else r

/-- `z.Sqrt(x)`: ⌊√x⌋, panics on a negative operand -/
def bigSqrt (a : Int) : R Int :=
  if a < 0 then .panic else .ok (Int.ofNat (isqrtAux a.toNat a.toNat))

/-! ### sdkmath.Int -/

/-- `i.Quo(j)` (truncated), panics on zero -/
def intQuo (a b : Int) : R Int := bigQuo a b
/-- `i.Mod(j)` (`big.Int.Mod`, Euclidean), panics on zero -/
def intMod (a b : Int) : R Int := bigMod a b
/-- `sdkmath.MinInt(i1, i2)`: `i2` when `i1 > i2` -/
def minInt (a b : Int) : Int := if a > b then b else a
/-- `sdkmath.MaxInt(i1, i2)`: `i2` when `i1 < i2` -/
def maxInt (a b : Int) : Int := if a < b then b else a

/-! ### int64 / uint64 operators (no wrap-around modelled) -/

/-- Go `/` on integers: truncated, run-time panic on zero -/
def i64Quo (a b : Int) : R Int := bigQuo a b
/-- Go `%` on integers: truncated remainder, run-time panic on zero -/
def i64Rem (a b : Int) : R Int := bigRem a b

/-! ### sdkmath.LegacyDec -/

def decQuo (a b : Dec) : R Dec := if b.m = 0 then .panic else .ok (Dec.quo a b)
def decQuoTruncate (a b : Dec) : R Dec := if b.m = 0 then .panic else .ok (Dec.quoTruncate a b)
def decQuoRoundUp (a b : Dec) : R Dec := if b.m = 0 then .panic else .ok (Dec.quoRoundUp a b)
/-- `d.QuoInt(i)`, `d.QuoInt64(i)` -/
def decQuoInt (a : Dec) (i : Int) : R Dec := if i = 0 then .panic else .ok (Dec.quoInt a i)
/-- `sdk.NewDecFromIntWithPrec(i, prec)` = `i · 10^(18 − prec)`; `precisionMultiplier` panics unless 0 ≤ prec ≤ 18 -/
def decFromIntWithPrec (i prec : Int) : R Dec :=
  if prec < 0 ∨ prec > 18 then .panic else .ok ⟨i * 10 ^ (18 - prec).toNat⟩
def decAbs (a : Dec) : Dec := ⟨abs a.m⟩
/-- `d.TruncateDec()` -/
def decTruncateDec (a : Dec) : Dec := Dec.ofInt (Dec.truncateInt a)
def decEq (a b : Dec) : Bool := decide (a.m = b.m)

/-! ### sdk.Coin (amount only; denominations are assumed equal where Go compares them) -/

/-- `sdk.NewCoin(denom, amount)`: panics on a negative amount -/
def newCoin (a : Int) : R Int := if a < 0 then .panic else .ok a
/-- `c.Sub(d)`: panics on a negative result -/
def coinSub (a b : Int) : R Int := if a - b < 0 then .panic else .ok (a - b)

/-! ### time -/

/-- `maxDuration` = 2^63 − 1 ns, `minDuration` = −2^63 ns -/
def maxDur : Int := 9223372036854775807
def minDur : Int := -9223372036854775808

/-- `t.Sub(u)` in nanoseconds: saturates at ±2^63 (≈ 292 years) -/
def timeSub (t u : Int) : Int :=
  if t - u > maxDur then maxDur else if t - u < minDur then minDur else t - u

/-- `t.Unix()`: whole seconds since the epoch (floor) -/
def timeUnix (t : Int) : Int := t / 1000000000

/-! ### lemmas for the tie proofs -/

@[simp] theorem cmp_le_zero (a b : Int) : (cmp a b ≤ 0) ↔ a ≤ b := by
  unfold cmp; split <;> (try split) <;> omega
@[simp] theorem cmp_lt_zero (a b : Int) : (cmp a b < 0) ↔ a < b := by
  unfold cmp; split <;> (try split) <;> omega
@[simp] theorem cmp_eq_neg_one (a b : Int) : (cmp a b = -1) ↔ a < b := by
  unfold cmp; split <;> (try split) <;> omega
@[simp] theorem cmp_eq_zero (a b : Int) : (cmp a b = 0) ↔ a = b := by
  unfold cmp; split <;> (try split) <;> omega
@[simp] theorem cmp_eq_one (a b : Int) : (cmp a b = 1) ↔ b < a := by
  unfold cmp; split <;> (try split) <;> omega
@[simp] theorem cmp_gt_zero (a b : Int) : (0 < cmp a b) ↔ b < a := by
  unfold cmp; split <;> (try split) <;> omega
@[simp] theorem cmp_ge_zero (a b : Int) : (0 ≤ cmp a b) ↔ b ≤ a := by
  unfold cmp; split <;> (try split) <;> omega
@[simp] theorem sign_eq_zero (a : Int) : (sign a = 0) ↔ a = 0 := by
  unfold sign; split <;> (try split) <;> omega
@[simp] theorem sign_eq_one (a : Int) : (sign a = 1) ↔ 0 < a := by
  unfold sign; split <;> (try split) <;> omega
@[simp] theorem sign_eq_neg_one (a : Int) : (sign a = -1) ↔ a < 0 := by
  unfold sign; split <;> (try split) <;> omega

theorem timeSub_eq (t u : Int) (h1 : minDur ≤ t - u) (h2 : t - u ≤ maxDur) : timeSub t u = t - u := by
  unfold timeSub; unfold minDur at h1; unfold maxDur at h2; unfold maxDur minDur
  split
  · omega
  · split <;> omega

end KV.Go
