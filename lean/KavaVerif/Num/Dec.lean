/-
  Bit-exact model of cosmossdk.io/math v1.3.0 `LegacyDec` (18 decimals, mantissa in `Int`)
  and of the `sdkmath.Int` operations Kava uses.  Core Lean only (no Mathlib) so that the
  driver links as a `lean_exe`.  Tied to the Go library by the `num` correspondence stream.
-/
namespace KV

/-- 10^18, the Dec precision multiplier (`precisionReuse`). -/
def P : Int := 1000000000000000000
/-- 5·10^17 (`fivePrecision`). -/
def H : Int := 500000000000000000

/-- `big.Int.Quo`: truncated division (toward zero). Division by zero panics in Go; here 0. -/
def tquo (a b : Int) : Int :=
  if 0 ≤ a then (if 0 ≤ b then a / b else -(a / (-b)))
  else (if 0 ≤ b then -((-a) / b) else (-a) / (-b))

/-- `big.Int.Mod` is Euclidean, like Lean's `%` on `Int` for positive modulus. -/
def emod (a b : Int) : Int := a % b

/-- `chopPrecisionAndRound` on a non-negative argument: banker's rounding at 10^-18. -/
def chopRoundNonneg (d : Int) : Int :=
  if d % P = 0 then d / P
  else if d % P < H then d / P
  else if d % P > H then d / P + 1
  else if (d / P) % 2 = 0 then d / P else d / P + 1

def chopRound (d : Int) : Int :=
  if d < 0 then - chopRoundNonneg (-d) else chopRoundNonneg d

/-- `chopPrecisionAndTruncate`: `d.Quo(d, 10^18)`. -/
def chopTrunc (d : Int) : Int := tquo d P

/-- `chopPrecisionAndRoundUp`. -/
def chopRoundUp (d : Int) : Int :=
  if d < 0 then -(chopTrunc (-d))
  else if d % P = 0 then d / P else d / P + 1

structure Dec where
  m : Int
deriving DecidableEq, Repr, Inhabited

namespace Dec
def zero : Dec := ⟨0⟩
def one : Dec := ⟨P⟩
def smallest : Dec := ⟨1⟩
def ofInt (i : Int) : Dec := ⟨i * P⟩
def add (a b : Dec) : Dec := ⟨a.m + b.m⟩
def sub (a b : Dec) : Dec := ⟨a.m - b.m⟩
def neg (a : Dec) : Dec := ⟨-a.m⟩
def mul (a b : Dec) : Dec := ⟨chopRound (a.m * b.m)⟩
def mulTruncate (a b : Dec) : Dec := ⟨chopTrunc (a.m * b.m)⟩
def mulRoundUp (a b : Dec) : Dec := ⟨chopRoundUp (a.m * b.m)⟩
def mulInt (a : Dec) (i : Int) : Dec := ⟨a.m * i⟩
def quo (a b : Dec) : Dec := ⟨chopRound (tquo (a.m * P * P) b.m)⟩
def quoTruncate (a b : Dec) : Dec := ⟨chopTrunc (tquo (a.m * P * P) b.m)⟩
def quoRoundUp (a b : Dec) : Dec := ⟨chopRoundUp (tquo (a.m * P * P) b.m)⟩
def quoInt (a : Dec) (i : Int) : Dec := ⟨tquo a.m i⟩
def roundInt (a : Dec) : Int := chopRound a.m
def truncateInt (a : Dec) : Int := chopTrunc a.m
def ceil (a : Dec) : Dec :=
  let q := tquo a.m P
  let r := a.m - q * P
  if r ≤ 0 then ofInt q else ofInt (q + 1)
def lt (a b : Dec) : Bool := decide (a.m < b.m)
def le (a b : Dec) : Bool := decide (a.m ≤ b.m)
def isZero (a : Dec) : Bool := decide (a.m = 0)
def isPositive (a : Dec) : Bool := decide (0 < a.m)
def isNegative (a : Dec) : Bool := decide (a.m < 0)
def min (a b : Dec) : Dec := if a.m < b.m then a else b
def max (a b : Dec) : Dec := if a.m < b.m then b else a
end Dec

/-! ### Lemmas (proved once, reused by the property proofs) -/

theorem tquo_nonneg_eq (a b : Int) (ha : 0 ≤ a) (hb : 0 ≤ b) : tquo a b = a / b := by
  unfold tquo; simp [ha, hb]

theorem chopTrunc_nonneg_eq (a : Int) (ha : 0 ≤ a) : chopTrunc a = a / P := by
  unfold chopTrunc; exact tquo_nonneg_eq a P ha (by decide)

theorem chopRoundNonneg_bound (d : Int) (hd : 0 ≤ d) :
    2 * (chopRoundNonneg d * P - d) ≤ P ∧ 2 * (d - chopRoundNonneg d * P) ≤ P := by
  unfold chopRoundNonneg P H
  split
  · omega
  · split
    · omega
    · split
      · omega
      · split <;> omega

theorem chopRoundNonneg_mono (a b : Int) (ha : 0 ≤ a) (hab : a ≤ b) :
    chopRoundNonneg a ≤ chopRoundNonneg b := by
  unfold chopRoundNonneg P H
  split <;> split <;> (try split) <;> (try split) <;> (try split) <;> (try split) <;> omega

theorem chopRoundNonneg_zero : chopRoundNonneg 0 = 0 := by decide

theorem chopRoundNonneg_nonneg (a : Int) (ha : 0 ≤ a) : 0 ≤ chopRoundNonneg a := by
  have := chopRoundNonneg_mono 0 a (by omega) ha
  rw [chopRoundNonneg_zero] at this; exact this

theorem chopRound_mono (a b : Int) (hab : a ≤ b) : chopRound a ≤ chopRound b := by
  unfold chopRound
  split <;> split
  · have := chopRoundNonneg_mono (-b) (-a) (by omega) (by omega); omega
  · have h1 := chopRoundNonneg_nonneg (-a) (by omega)
    have h2 := chopRoundNonneg_nonneg b (by omega)
    omega
  · omega
  · exact chopRoundNonneg_mono a b (by omega) hab

theorem chopRound_mul_P (a : Int) : chopRound (a * P) = a := by
  unfold chopRound chopRoundNonneg
  by_cases h : a * P < 0
  · simp only [h, ite_true]
    have h1 : (-(a * P)) % P = 0 := by
      have : -(a * P) = (-a) * P := by rw [Int.neg_mul]
      rw [this]; exact Int.mul_emod_left _ _
    simp only [h1, ite_true]
    have : -(a * P) = (-a) * P := by rw [Int.neg_mul]
    rw [this, Int.mul_ediv_cancel _ (by decide : P ≠ 0)]; omega
  · simp only [h, ite_false]
    have h1 : a * P % P = 0 := Int.mul_emod_left a P
    simp only [h1, ite_true]
    exact Int.mul_ediv_cancel a (by decide)

/-- Dec `mul` by a factor ≥ 1 never decreases a non-negative value. -/
theorem chopRound_mul_ge_of_one_le (a f : Int) (ha : 0 ≤ a) (hf : P ≤ f) :
    a ≤ chopRound (a * f) := by
  have h : a * P ≤ a * f := Int.mul_le_mul_of_nonneg_left hf ha
  have hm := chopRound_mono (a * P) (a * f) h
  rw [chopRound_mul_P] at hm; exact hm

theorem chopRound_nonneg (a : Int) (ha : 0 ≤ a) : 0 ≤ chopRound a := by
  have := chopRound_mono 0 a ha
  have h0 : chopRound 0 = 0 := by decide
  omega

end KV
