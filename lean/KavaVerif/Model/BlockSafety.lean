/-
  C02 — blocks always process; registered invariants hold.

  Hand-written review tables for the generated tables `KV.Gen.C02.panicSites` (every `panic(` reachable
  from a begin/end blocker) and `KV.Gen.C02.invariantRoutes` (routes registered with the crisis keeper),
  plus small transcriptions of the two arithmetic facts behind the known begin-block panics.
  Core Lean only (linked into the driver).
-/
import KavaVerif.Num.Dec
import KavaVerif.Generated.C02PanicSites
import KavaVerif.Generated.C02Wiring

namespace KV.Safe
open KV KV.Gen.C02

/-- why a panic site cannot fire (or that it can) -/
inductive Disp
  /-- (un)marshalling a value this module itself wrote with the same codec: fires only on store corruption -/
  | codec
  /-- excluded by params / genesis validation (`what` names the validated fact) -/
  | config (what : String)
  /-- unreachable under the owning module's proved state invariant (`prop` = property whose theorems carry it) -/
  | invariant (prop : String) (what : String)
  /-- a documented finding: the site fires on a reachable state -/
  | finding (id : String) (what : String)
  /-- the blocker that contains the site is never called by the application (dead code) -/
  | deadCode (what : String)
  /-- no proof in this framework: explored by the history runner only -/
  | monitored (what : String)
deriving Repr

structure Review where
  module : String
  fn : String
  callee : String
  disp : Disp
deriving Repr

/-- The reviewed panic sites, keyed by (module, function, escalated call / panic text prefix). -/
def reviews : List Review := [
  ⟨"x/auction", "BeginBlocker", "k.CloseExpiredAuctions", .invariant "C06" "auction custody: the module account holds lot and bid of every open auction, so close-out payments cannot fail"⟩,
  ⟨"x/bep3", "Keeper.GetPreviousBlockTime", "blockTime.UnmarshalBinary", .codec⟩,
  ⟨"x/bep3", "Keeper.SetPreviousBlockTime", "blockTime.MarshalBinary", .codec⟩,
  ⟨"x/cdp", "BeginBlocker", "k.AccumulateInterest", .monitored "error only when the interest mint/send fails; cdp and liquidator are minter module accounts"⟩,
  ⟨"x/cdp", "BeginBlocker", "k.SynchronizeInterestForRiskyCDPs", .monitored "errors of MintDebtCoins / UpdateCdpAndCollateralRatioIndex on existing cdps"⟩,
  ⟨"x/cdp", "BeginBlocker", "k.LiquidateCdps", .invariant "C02/C05" "the per-deposit debt shares add up to exactly the debt moved to the liquidator (C02_cdp_debt_split_exact, C05_debt_split_exact) — F2 fixed by bfd342e03; other errors of LiquidateCdps (auction start, index updates) rest on C04/C06 accounting"⟩,
  ⟨"x/cdp", "BeginBlocker", "k.RunSurplusAndDebtAuctions", .monitored "netting and auction start use balances the liquidator account holds (C04/C06 accounting)"⟩,
  ⟨"x/cdp", "Keeper.AccumulateInterest", "fmt.Sprintf(\"Debt parameters for %s not found\", types.DefaultStableDenom)", .config "cdp params validation requires the usdx debt param"⟩,
  ⟨"x/cdp", "Keeper.SynchronizeInterestForRiskyCDPs", "fmt.Sprintf(\"global interest factor not found for type %s\", cp.Type)", .config "genesis validation: an accumulation time and factor per collateral type"⟩,
  ⟨"x/cdp", "Keeper.SynchronizeInterestForRiskyCDPs", "fmt.Sprintf(\"previous accrual time not found for type %s\", cp.Type)", .config "genesis validation: an accumulation time and factor per collateral type"⟩,
  ⟨"x/cdp", "Keeper.SynchronizeInterestForRiskyCDPs", "fmt.Sprintf(\"cdp %d does not exist\", cdpID)", .invariant "C04" "ratio index entries point at existing cdps (index exactness)"⟩,
  ⟨"x/cdp", "Keeper.SynchronizeInterestForRiskyCDPs", "fmt.Sprintf(\"unknown debt param %s\", cdp.GetTotalPrincipal().Denom)", .config "every cdp's principal denom is the single debt param denom"⟩,
  ⟨"x/cdp", "Keeper.GetPreviousAccrualTime", "previousAccrualTime.UnmarshalBinary", .codec⟩,
  ⟨"x/cdp", "Keeper.SetPreviousAccrualTime", "previousAccrualTime.MarshalBinary", .codec⟩,
  ⟨"x/cdp", "Keeper.GetTotalPrincipal", "total.Unmarshal", .codec⟩,
  ⟨"x/cdp", "Keeper.GetInterestFactor", "interestFactor.Unmarshal", .codec⟩,
  ⟨"x/cdp", "Keeper.SetInterestFactor", "interestFactor.Marshal", .codec⟩,
  ⟨"x/cdp", "Keeper.getFeeRate", "fmt.Sprintf(\"could not get fee rate for %s, collateral not found\", collateralType)", .config "called for collateral types taken from params"⟩,
  ⟨"x/cdp", "Keeper.SetTotalPrincipal", "fmt.Sprintf(\"collateral not found: %s\", collateralType)", .config "called for collateral types taken from params"⟩,
  ⟨"x/cdp", "Keeper.SetTotalPrincipal", "total.Marshal", .codec⟩,
  ⟨"x/committee", "Keeper.GetCommittee", "k.cdc.UnmarshalInterface", .codec⟩,
  ⟨"x/community", "Keeper.CheckAndDisableMintAndKavaDistInflation", "k.StartCommunityFundConsolidation", .monitored "one-off upgrade-time consolidation of the legacy community pool"⟩,
  ⟨"x/community", "Keeper.PayoutAccumulatedStakingRewards", "k.bankKeeper.SendCoinsFromModuleToModule", .invariant "C19" "calculateStakingRewards caps the payout at the community pool balance"⟩,
  ⟨"x/community", "Keeper.mustGetParams", "\"invalid state: module parameters not found\"", .config "InitGenesis always sets params"⟩,
  ⟨"x/community", "Keeper.disableInflation", "k.mintKeeper.SetParams", .config "zero inflation is a valid mint parameter set"⟩,
  ⟨"x/community", "Keeper.disableCommunityTax", "k.distrKeeper.SetParams", .config "zero community tax is a valid distribution parameter set"⟩,
  ⟨"x/community", "Keeper.SetParams", "params.Validate", .config "the begin blocker only zeroes the upgrade time and copies an already validated rate"⟩,
  ⟨"x/community", "Keeper.SetStakingRewardsState", "state.Validate", .invariant "C19" "last accumulation time moves forward, truncation error stays in [0,1)"⟩,
  ⟨"x/hard", "Keeper.ApplyInterestRateUpdates", "k.AccrueInterest", .monitored "AccrueInterest fails only on a missing money market / interest factor for a market taken from params (C08 models the arithmetic)"⟩,
  ⟨"x/incentive", "BeginBlocker", "k.AccumulateEarnRewards", .monitored "liquid-staking value lookups for bkava vault denoms (derivative denoms parse by construction)"⟩,
  ⟨"x/incentive", "Keeper.AccumulateUSDXMintingRewards", "\"could not find factor that should never be missing when accumulating usdx rewards\"", .invariant "C09" "the accumulator writes the factor before it is read"⟩,
  ⟨"x/incentive", "Keeper.GetPreviousUSDXMintingAccrualTime", "blockTime.UnmarshalBinary", .codec⟩,
  ⟨"x/incentive", "Keeper.GetUSDXMintingRewardFactor", "factor.Unmarshal", .codec⟩,
  ⟨"x/incentive", "Keeper.SetPreviousUSDXMintingAccrualTime", "blockTime.MarshalBinary", .codec⟩,
  ⟨"x/incentive", "Keeper.SetUSDXMintingRewardFactor", "factor.Marshal", .codec⟩,
  ⟨"x/incentive", "Keeper.GetPreviousHardSupplyRewardAccrualTime", "blockTime.UnmarshalBinary", .codec⟩,
  ⟨"x/incentive", "Keeper.SetPreviousHardSupplyRewardAccrualTime", "blockTime.MarshalBinary", .codec⟩,
  ⟨"x/incentive", "Keeper.GetPreviousHardBorrowRewardAccrualTime", "blockTime.UnmarshalBinary", .codec⟩,
  ⟨"x/incentive", "Keeper.SetPreviousHardBorrowRewardAccrualTime", "blockTime.MarshalBinary", .codec⟩,
  ⟨"x/incentive", "Keeper.GetPreviousDelegatorRewardAccrualTime", "blockTime.UnmarshalBinary", .codec⟩,
  ⟨"x/incentive", "Keeper.SetPreviousDelegatorRewardAccrualTime", "blockTime.MarshalBinary", .codec⟩,
  ⟨"x/incentive", "Keeper.GetSwapRewardAccrualTime", "blockTime.UnmarshalBinary", .codec⟩,
  ⟨"x/incentive", "Keeper.SetSwapRewardAccrualTime", "blockTime.MarshalBinary", .codec⟩,
  ⟨"x/incentive", "Keeper.GetSavingsRewardAccrualTime", "blockTime.UnmarshalBinary", .codec⟩,
  ⟨"x/incentive", "Keeper.SetSavingsRewardAccrualTime", "blockTime.MarshalBinary", .codec⟩,
  ⟨"x/issuance", "BeginBlocker", "k.SeizeCoinsForBlockableAssets", .deadCode "F10 mechanism (seizure sends GetAllBalances, which includes vesting-locked coins) exists, but x/issuance AppModule.BeginBlock is empty: issuance.BeginBlocker never runs (replayed: a blocked periodic-vesting account with locked asset coins is neither seized nor does the block panic)"⟩,
  ⟨"x/issuance", "Keeper.GetPreviousBlockTime", "blockTime.UnmarshalBinary", .codec⟩,
  ⟨"x/issuance", "Keeper.SetPreviousBlockTime", "blockTime.MarshalBinary", .codec⟩,
  ⟨"x/kavadist", "BeginBlocker", "k.MintPeriodInflation", .finding "F11" "partner rewards × elapsed time above the minted amount returns \"negative coins\" (a configuration that passes params validation): kavadist-partner-rewards-exceed-mint. (F12, the nil amount on a zero mint, is fixed in /repo.)"⟩,
  ⟨"x/kavadist", "Keeper.SetPreviousBlockTime", "blockTime.MarshalBinary", .codec⟩
]

def review (s : PanicSite) : Option Review :=
  reviews.find? (fun r => r.module == s.module && r.fn == s.fn && r.callee == s.callee)

def isDeadCode : Disp → Bool
  | .deadCode _ => true
  | _ => false

/-- a site is reviewed when it is in the table, and a `deadCode` review is only accepted while the
    translator still reports the enclosing blocker as not wired -/
def reviewed (s : PanicSite) : Bool :=
  match review s with
  | some r => if isDeadCode r.disp then !s.wired else true
  | none => false

def isFinding : Disp → Bool
  | .finding _ _ => true
  | _ => false

/-- the sites whose review says "fires on a reachable state" -/
def findingSites : List (String × String) :=
  (panicSites.filter (fun s => match review s with | some r => isFinding r.disp | none => false)).map
    (fun s => (s.module, s.callee))

/-- which property's invariant theorems cover a registered route -/
def coveredRoutes : List (String × String × String) := [
  ("earn", "vault-records", "C11"), ("earn", "share-records", "C11"), ("earn", "vault-shares", "C11"),
  ("evmutil", "cosmos-coins-fully-backed", "C10"),
  ("precisebank", "reserve-backs-fractions", "C03"), ("precisebank", "balance-remainder-total", "C03"),
  ("precisebank", "valid-fractional-balances", "C03"), ("precisebank", "valid-remainder-amount", "C03"),
  ("precisebank", "fractional-denom-not-in-bank", "C03"),
  ("savings", "deposits", "C11"), ("savings", "solvency", "C11"),
  ("swap", "pool-records", "C07"), ("swap", "share-records", "C07"), ("swap", "pool-reserves", "C07"), ("swap", "pool-shares", "C07")
]

def routeCovered (r : String × String × String) : Bool :=
  coveredRoutes.any (fun c => c.1 == r.1 && c.2.1 == r.2.1)

/-- routes defined but deliberately not registered (reported in evidence; their predicates are C06's) -/
def knownUnregistered : List (String × String) := [
  ("auction", "module-account"), ("auction", "valid-auctions"), ("auction", "valid-index")
]

def indexOf? (l : List String) (x : String) : Option Nat := l.findIdx? (· == x)

def before (l : List String) (a b : String) : Bool :=
  match indexOf? l a, indexOf? l b with
  | some i, some j => i < j
  | _, _ => false

/-! ### cdp `AuctionCollateral`: the per-deposit debt split (x/cdp/keeper/auctions.go)

    `debtCoveredByDeposit = (Dec(dep) / Dec(total)) * Dec(debt)` rounded half-even to an integer; since the
    fix "cdp liquidation debt shares could exceed the seized debt and panic the begin blocker" (bfd342e03)
    no share may exceed the debt still unassigned and the last deposit takes the remainder. -/

def debtShare (dep total debt : Int) : Int :=
  Dec.roundInt (Dec.mul (Dec.quo (Dec.ofInt dep) (Dec.ofInt total)) (Dec.ofInt debt))

def sumInts (l : List Int) : Int := l.foldl (· + ·) 0

/-- the loop of `AuctionCollateral`: `rem` is `remainingDebt` -/
def splitCapped (total debt : Int) : List Int → Int → List Int
  | [], _ => []
  | [_], rem => [rem]
  | d :: d2 :: rest, rem =>
    let s := debtShare d total debt
    let s' := if s > rem then rem else s
    s' :: splitCapped total debt (d2 :: rest) (rem - s')

/-- debt shares handed to the per-deposit collateral auctions (current code) -/
def debtShares (deps : List Int) (debt : Int) : List Int := splitCapped (sumInts deps) debt deps debt

/-- the split before the fix (kept to document finding F2): every share rounded independently -/
def debtSharesBeforeFix (deps : List Int) (debt : Int) : List Int :=
  deps.map (fun d => debtShare d (sumInts deps) debt)

/-! ### kavadist `mintInfrastructurePeriods` / `distributeInfrastructureCoins` (x/kavadist/keeper)

    After the fix "kavadist begin blocker panics when an infrastructure period mints zero coins",
    `mintInflationaryCoins` returns a well-formed zero coin when the amount to mint truncates to zero
    (before, it returned `sdk.Coin{}` and the caller's `coins.IsZero()` dereferenced a nil amount: F12). -/

inductive R (α : Type) | ok (a : α) | panic
deriving DecidableEq, Repr

/-- result coin of `mintInflationaryCoins`: `none` would be the nil-amount `sdk.Coin{}` -/
def mintResult (amountToMint : Int) : Option Int := some amountToMint

/-- `if !coins.IsZero() { coinsMinted = coinsMinted.Add(coins) }` on the returned coin -/
def infraAccumulate (minted : Int) (coin : Option Int) : R Int :=
  match coin with
  | none => .panic
  | some a => .ok (if a == 0 then minted else minted + a)

def infraStep (minted amountToMint : Int) : R Int := infraAccumulate minted (mintResult amountToMint)

/-- partner loop of `distributeInfrastructureCoins`: every partner is paid `rps · elapsed`; when the coins
    still to distribute do not cover it, `safeSub` reports "negative coins", the error is returned to
    `BeginBlocker` and escalated to a panic -/
def payPartners (toDistribute elapsed : Int) : List Int → R Int
  | [] => .ok toDistribute
  | rps :: rest =>
    if toDistribute < rps * elapsed then .panic
    else payPartners (toDistribute - rps * elapsed) elapsed rest

end KV.Safe
