/-
  Model of x/savings (keeper/deposit.go, keeper/withdraw.go, types/msg.go ValidateBasic),
  transcribed branch by branch.

  State:
    bal a d  – x/bank balance of account a in denom d
    mod d    – x/bank balance of the savings module account
    has a    – a Deposit record exists for a
    dep a d  – amount of denom d in a's Deposit record (0 = denom absent)
  `sdk.Coins` = list of (denom, amount); a valid set is strictly sorted by denom with positive
  amounts.  Denoms are `Nat` indices assigned in the lexicographic order of the denom strings.
  `ds` is the finite universe of denoms that can appear in a record (the supported denoms).
  Core Lean only.
-/
namespace KV.Savings

abbrev Addr := Nat
abbrev Denom := Nat
abbrev Coins := List (Denom × Int)

def upd2 (f : Addr → Denom → Int) (a : Addr) (g : Denom → Int) : Addr → Denom → Int :=
  fun x => if x = a then g else f x

def updB (f : Addr → Bool) (a : Addr) (v : Bool) : Addr → Bool := fun x => if x = a then v else f x

structure St where
  bal : Addr → Denom → Int
  mod : Denom → Int
  has : Addr → Bool
  dep : Addr → Denom → Int

inductive Res where
  | ok (s : St)
  | err
  | panic
deriving Inhabited

def Res.isOk : Res → Bool
  | .ok _ => true
  | _ => false

/-- `Coins.AmountOf` -/
def amountOf (cs : Coins) (d : Denom) : Int :=
  match cs.lookup d with
  | some n => n
  | none => 0

/-- strictly ascending denoms -/
def sortedDenoms : Coins → Bool
  | [] => true
  | [_] => true
  | c1 :: c2 :: rest => decide (c1.1 < c2.1) && sortedDenoms (c2 :: rest)

/-- `Coins.IsValid()`: sorted, no duplicates, all amounts positive -/
def validCoins (cs : Coins) : Bool := cs.all (fun c => decide (0 < c.2)) && sortedDenoms cs

/-- `CalculateWithdrawAmount`'s loop: each requested coin capped at the deposited amount -/
def calcWithdraw (avail : Denom → Int) (req : Coins) : Coins :=
  req.map (fun c => (c.1, if c.2 > avail c.1 then avail c.1 else c.2))

/-- `MsgDeposit.ValidateBasic` + `Keeper.Deposit` -/
def deposit (supported : Denom → Bool) (s : St) (a : Addr) (cs : Coins) : Res :=
  -- ValidateBasic: !IsValid || IsZero
  if ¬ validCoins cs ∨ cs.isEmpty then .err
  -- ValidateDeposit
  else if ¬ cs.all (fun c => supported c.1) then .err
  -- SendCoinsFromAccountToModule
  else if ¬ cs.all (fun c => decide (c.2 ≤ s.bal a c.1)) then .err
  else
    -- deposit.Amount = coins (+ current amount when a record exists); SetDeposit
    .ok { bal := upd2 s.bal a (fun d => s.bal a d - amountOf cs d),
          mod := fun d => s.mod d + amountOf cs d,
          has := updB s.has a true,
          dep := upd2 s.dep a (fun d => s.dep a d + amountOf cs d) }

/-- `MsgWithdraw.ValidateBasic` + `Keeper.Withdraw` -/
def withdraw (ds : List Denom) (s : St) (a : Addr) (cs : Coins) : Res :=
  if ¬ validCoins cs ∨ cs.isEmpty then .err
  else if ¬ s.has a then .err                                  -- ErrNoDepositFound
  -- request.DenomsSubsetOf(available)
  else if ¬ cs.all (fun c => decide (0 < s.dep a c.1)) then .err   -- ErrInvalidWithdrawDenom
  else
    let amount := calcWithdraw (s.dep a) cs
    -- SendCoinsFromModuleToAccount
    if ¬ amount.all (fun c => decide (c.2 ≤ s.mod c.1)) then .err
    else
      let dep' : Denom → Int := fun d => s.dep a d - amountOf amount d
      -- Coins.Sub panics on a negative result
      if ds.any (fun d => decide (dep' d < 0)) then .panic
      else
        -- deposit.Amount.Empty() → DeleteDeposit, else SetDeposit
        .ok { bal := upd2 s.bal a (fun d => s.bal a d + amountOf amount d),
              mod := fun d => s.mod d - amountOf amount d,
              has := updB s.has a (ds.any (fun d => decide (0 < dep' d))),
              dep := upd2 s.dep a dep' }

inductive Op where
  | deposit (a : Addr) (cs : Coins)
  | withdraw (a : Addr) (cs : Coins)

def Op.actor : Op → Addr
  | .deposit a _ => a
  | .withdraw a _ => a

def step (supported : Denom → Bool) (ds : List Denom) (s : St) : Op → Res
  | .deposit a cs => deposit supported s a cs
  | .withdraw a cs => withdraw ds s a cs

def next (supported : Denom → Bool) (ds : List Denom) (s : St) (o : Op) : St :=
  match step supported ds s o with
  | .ok s' => s'
  | _ => s

def run (supported : Denom → Bool) (ds : List Denom) (s : St) (ops : List Op) : St :=
  ops.foldl (next supported ds) s

def empty : St :=
  { bal := fun _ _ => 0, mod := fun _ => 0, has := fun _ => false, dep := fun _ _ => 0 }

end KV.Savings
