/-
  Model of the collateral auctions a seizure creates: x/cdp/keeper/auctions.go `AuctionCollateral` and
  `CreateAuctionsFromDeposit` (as of /repo cb3596bb2), transcribed statement by statement in the code's own
  evaluation order.  Core Lean only.

  `Model/Cdp.lean` represents this code only by its NET bank effect (`auctionDeps`: the deposit and its share of
  the debt leave the liquidator account).  Here the individual `StartCollateralAuction` calls are modelled: for one
  deposit (depositor `ret`, collateral `c`, debt share `d`), auction size `A` and liquidation penalty `pen` the list
  of auctions `(return address, lot, corresponding debt, max bid)` exactly as the code produces them:

    * `c / A` whole lots of size `A`, then one remainder lot `c % A` if that is positive;
    * debt per whole lot `dpa = d·A / c`, debt of the remainder lot `d·(c % A) / c` (both truncated); the units that
      the truncations leave over (`unallocatedDebt`) are handed out one each by the largest-remainder rule: first to
      the remainder lot if its truncation error is the larger one, then to the whole lots starting with the first
      created, then (never reached, see `Proofs/CdpAuctions.lean`) to the remainder lot;
    * the penalty is computed PER LOT on that lot's own debt, `round-half-even(debt_i · pen)`
      (`ApplyLiquidationPenalty`), and the max bid is `debt_i + penalty_i`;
    * lot returns: the single address `ret` with weight = the lot.

  Zero / degenerate inputs: a zero auction size or a zero deposit is a Go panic (`Int.Quo` by zero); a zero debt
  share produces the same lots with debt 0 and max bid 0 (the auction module accepts them).  The constant `dump` of
  auctions.go plays no role here (it prices the initial lot of DEBT auctions in `RunSurplusAndDebtAuctions`).
  The bank sends inside `StartCollateralAuction` are `auctionDeps` of `Model/Cdp.lean`; `lots_net_effect`
  (`Proofs/CdpAuctions.lean`) shows the lots add up to exactly the amounts sent there.
-/
import KavaVerif.Model.Cdp

namespace KV.Cdp
open KV

/-- one collateral auction as `StartCollateralAuction` stores it: `LotReturns = {[ret], [lot]}`,
    `CorrespondingDebt = debt`, `MaxBid = maxBid` -/
structure Lot where
  ret : Acct
  lot : Int
  debt : Int
  maxBid : Int
deriving DecidableEq, Repr, Inhabited

/-- `ApplyLiquidationPenalty`: `sdk.NewDecFromInt(debt).Mul(penalty).RoundInt()` -/
def penaltyOf (debt : Int) (pen : Dec) : Int := Dec.roundInt (Dec.mul (Dec.ofInt debt) pen)

/-- the arguments of one `StartCollateralAuction` call: the penalty is applied to THIS lot's debt -/
def mkLot (ret : Acct) (lot debt : Int) (pen : Dec) : Lot :=
  { ret := ret, lot := lot, debt := debt, maxBid := debt + penaltyOf debt pen }

/-- the loop "create whole auctions": `n` lots of size `A`; while `unallocatedDebt` is positive a lot takes one
    extra unit.  Returns the lots and the unallocated debt left after the loop. -/
def wholeLots (ret : Acct) (A dpa : Int) (pen : Dec) : Nat → Int → List Lot × Int
  | 0, un => ([], un)
  | n + 1, un =>
    let debtAmount := if 0 < un then dpa + 1 else dpa
    let un1 := if 0 < un then un - 1 else un
    let r := wholeLots ret A dpa pen n un1
    (mkLot ret A debtAmount pen :: r.1, r.2)

/-- `CreateAuctionsFromDeposit(collateral = c, returnAddr = ret, debt = d, auctionSize = A)` with the liquidation
    penalty `pen` of the collateral type: the auctions in creation order.  `.panic` = Go panic (division by zero). -/
def createAuctions (ret : Acct) (c d A : Int) (pen : Dec) : Res (List Lot) :=
  if A = 0 then .panic else              -- `collateral.Amount.Quo(auctionSize)`
  if c = 0 then .panic else              -- `debt.Mul(auctionSize).Quo(collateral.Amount)`
  let numberOfAuctions := tquo c A
  let debtPerAuction := tquo (d * A) c
  let lastAuctionCollateral := emod c A
  let lastAuctionDebt := tquo (d * lastAuctionCollateral) c
  let unallocatedDebt := d - (numberOfAuctions * debtPerAuction + lastAuctionDebt)
  let wholeAuctionError := emod (d * A) c
  let lastAuctionError := emod (d * lastAuctionCollateral) c
  let lastAuctionDebt1 := if lastAuctionError > wholeAuctionError then lastAuctionDebt + 1 else lastAuctionDebt
  let unallocatedDebt1 := if lastAuctionError > wholeAuctionError then unallocatedDebt - 1 else unallocatedDebt
  let w := wholeLots ret A debtPerAuction pen numberOfAuctions.toNat unallocatedDebt1
  if ¬ 0 < lastAuctionCollateral then .ok w.1 else
  let lastAuctionDebt2 := if 0 < w.2 then lastAuctionDebt1 + 1 else lastAuctionDebt1
  .ok (w.1 ++ [mkLot ret lastAuctionCollateral lastAuctionDebt2 pen])

/-- `AuctionCollateral(deposits, collateralType, debt, bidDenom)`: every deposit, in depositor-address order, is
    auctioned for its capped share of the debt (`debtCovered` / `cappedShare` of `Model/Cdp.lean`);
    `remaining` = `remainingDebt`, `total` = `deposits.SumCollateral()`. -/
def auctionLots (A : Int) (pen : Dec) (total debt : Int) : Int → List (Acct × Int) → Res (List Lot)
  | _, [] => .ok []
  | remaining, (a, amt) :: rest =>
    if total = 0 then .panic else          -- `Dec.Quo` by zero total collateral
    match createAuctions a amt (cappedShare (debtCovered amt total debt) remaining rest.isEmpty) A pen with
    | .err => .err
    | .panic => .panic
    | .ok l =>
      match auctionLots A pen total debt (remaining - cappedShare (debtCovered amt total debt) remaining rest.isEmpty) rest with
      | .err => .err
      | .panic => .panic
      | .ok l2 => .ok (l ++ l2)

/-- the auctions of one seizure: `SeizeCollateral` calls `AuctionCollateral(deposits, type, debt, …)` with the
    deposit records it read and the (clamped) debt it moved to the liquidator -/
def seizeLots (A : Int) (pen : Dec) (deps : List (Acct × Int)) (debt : Int) : Res (List Lot) :=
  auctionLots A pen (sumDeps deps) debt debt deps

/-- the deposit records a keeper liquidation hands to the seizure: the reward is taken from the first deposit that
    can pay it (`payoutKeeperLiquidationReward`, `payReward` of `Model/Cdp.lean`); a block liquidation hands over the
    records unchanged -/
def depsAfterReward (reward : Option Int) (deps : List (Acct × Int)) : List (Acct × Int) :=
  match reward with
  | none => deps
  | some r => match payReward r deps with
    | none => deps
    | some (_, deps') => deps'

/-- the lots of a successful run (`[]` for a panic / error): lets examples compare lists -/
def lotsOrNil : Res (List Lot) → List Lot
  | .ok l => l
  | _ => []

def lotSum : List Lot → Int
  | [] => 0
  | x :: rest => x.lot + lotSum rest

def lotDebtSum : List Lot → Int
  | [] => 0
  | x :: rest => x.debt + lotDebtSum rest

end KV.Cdp
