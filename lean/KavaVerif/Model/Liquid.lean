/-
  Model of x/liquid (keeper/derivative.go, keeper/staking.go), of the x/staking primitives it calls
  (types/validator.go: SharesFromTokens, TokensFromShares(Truncated), AddTokensFromDel, RemoveDelShares;
  keeper/delegation.go: ValidateUnbondAmount, Unbond, Delegate, Undelegate, BeginRedelegation — modelled,
  not verified), of x/router's four composite messages, and of app/tally_handler.go.

  Everything the chain stores under one validator address is one `VSt` component; the chain is
  `Nat → VSt`.  Addresses are `Nat`; `M` is the module account of x/liquid.  Dec values are bit-exact
  `KV.Dec` (18 decimals).  Core Lean only.

  The code is transcribed *as it is*.  Three defects found with this model (findings/C12-*.md) were repaired
  in /repo by the fix commits 932d1f99a, 96498654b, 66dfa73a4; each repair is a switch in `Cfg`.  `cfg` (bottom
  of the first section) is the configuration of the code that exists in /repo — all three switches on — and is
  the only thing the driver uses; the property theorems are about `cfg`.  `Cfg.current` (all off) is the code
  before the three commits, kept for the historical witnesses in Props/C12.lean.
-/
import KavaVerif.Num.Dec

namespace KV.Liquid

abbrev Addr := Nat

/-- which repairs are applied.  `false` everywhere = the tree before the three fix commits. -/
structure Cfg where
  /-- F6 repair: MintDerivative mints ⌊shares received by the module⌋ instead of ⌊shares sent⌋ -/
  mintReceived : Bool
  /-- F7 repair: TransferDelegation does not re-delegate when the unbonded token amount is zero
      (it returns zero received shares, as the maintainers' own test expects, without storing a delegation) -/
  skipZeroDelegate : Bool
  /-- F8 repair: the tally skips derivatives whose validator is not in the bonded set -/
  tallySkipUnbonded : Bool
deriving DecidableEq, Repr

def Cfg.current : Cfg := { mintReceived := false, skipZeroDelegate := false, tallySkipUnbonded := false }
def Cfg.fixed : Cfg := { mintReceived := true, skipZeroDelegate := true, tallySkipUnbonded := true }

/-- THE ONE-LINE SWITCH: the configuration of the code in /repo (used by the driver and by Props/C12.lean).
    All three repairs are committed in /repo (932d1f99a, 96498654b, 66dfa73a4). -/
def cfg : Cfg := { mintReceived := true, skipZeroDelegate := true, tallySkipUnbonded := true }

inductive Status where
  | unbonded | unbonding | bonded
deriving DecidableEq, Repr, Inhabited

structure Val where
  tokens : Int
  shares : Dec          -- DelegatorShares
  status : Status
  minSelf : Int         -- MinSelfDelegation
  jailed : Bool
  oper : Addr           -- the account whose address equals the operator address
deriving DecidableEq, Repr, Inhabited

inductive Res (α : Type) where
  | ok (a : α)
  | err          -- ordinary error: baseapp rolls the message back
  | panic        -- Go panic
deriving Inhabited

def Res.isOk {α : Type} : Res α → Bool
  | .ok _ => true
  | _ => false
def Res.isErr {α : Type} : Res α → Bool
  | .err => true
  | _ => false

/-- everything stored under one validator address -/
structure VSt where
  val : Option Val
  del : Addr → Option Dec     -- x/staking delegations to this validator (delegator ↦ shares)
  redel : Addr → Bool         -- HasReceivingRedelegation(delegator, this validator)
  ubd : Addr → Int            -- total balance of the unbonding-delegation entries of (delegator, this validator)
  bal : Addr → Int            -- x/bank balances of this validator's derivative denom
  supply : Int                -- x/bank supply of this validator's derivative denom

def updD (f : Addr → Option Dec) (a : Addr) (v : Option Dec) : Addr → Option Dec :=
  fun x => if x = a then v else f x
def updI (f : Addr → Int) (a : Addr) (v : Int) : Addr → Int := fun x => if x = a then v else f x
def updN (f : Addr → Nat) (a : Addr) (v : Nat) : Addr → Nat := fun x => if x = a then v else f x
def updB (f : Addr → Bool) (a : Addr) (v : Bool) : Addr → Bool := fun x => if x = a then v else f x

/-! ### x/staking/types/validator.go -/

/-- `TokensFromShares`: `shares.MulInt(tokens).Quo(delegatorShares)` -/
def Val.tokensFromShares (v : Val) (sh : Dec) : Dec := (sh.mulInt v.tokens).quo v.shares

/-- `TokensFromSharesTruncated` -/
def Val.tokensFromSharesTruncated (v : Val) (sh : Dec) : Dec := (sh.mulInt v.tokens).quoTruncate v.shares

/-- `SharesFromTokens`: `none` = ErrInsufficientShares (validator has no tokens) -/
def Val.sharesFromTokens (v : Val) (amt : Int) : Option Dec :=
  if v.tokens = 0 then none else some ((v.shares.mulInt amt).quoInt v.tokens)

/-- `SharesFromTokensTruncated` -/
def Val.sharesFromTokensTruncated (v : Val) (amt : Int) : Option Dec :=
  if v.tokens = 0 then none else some ((v.shares.mulInt amt).quoTruncate (Dec.ofInt v.tokens))

/-- `InvalidExRate` -/
def Val.invalidExRate (v : Val) : Bool := decide (v.tokens = 0) && decide (0 < v.shares.m)

/-- `AddTokensFromDel`; `none` = panic (SharesFromTokens failed) -/
def Val.addTokensFromDel (v : Val) (amt : Int) : Option (Val × Dec) :=
  if v.shares.m = 0 then
    some ({ v with tokens := v.tokens + amt, shares := v.shares.add (Dec.ofInt amt) }, Dec.ofInt amt)
  else
    match v.sharesFromTokens amt with
    | none => none
    | some sh => some ({ v with tokens := v.tokens + amt, shares := v.shares.add sh }, sh)

/-- `RemoveDelShares`; `none` = panic (negative tokens, or a division by zero shares) -/
def Val.removeDelShares (v : Val) (sh : Dec) : Option (Val × Int) :=
  let remaining := v.shares.sub sh
  if remaining.m = 0 then
    -- last delegation share gets any trimmings
    some ({ v with tokens := 0, shares := remaining }, v.tokens)
  else if v.shares.m = 0 then none
  else
    let issued := (v.tokensFromShares sh).truncateInt
    if v.tokens - issued < 0 then none
    else some ({ v with tokens := v.tokens - issued, shares := remaining }, issued)

/-- x/liquid `isBelowMinSelfDelegation` -/
def Val.belowMinSelf (v : Val) (sh : Dec) : Bool := decide ((v.tokensFromShares sh).truncateInt < v.minSelf)

/-! ### x/staking/keeper/delegation.go (one validator) -/

/-- `ValidateUnbondAmount`; `none` = error -/
def validateUnbondAmount (c : VSt) (d : Addr) (amt : Int) : Option Dec :=
  match c.val with
  | none => none
  | some v =>
    match c.del d with
    | none => none
    | some delShares =>
      match v.sharesFromTokens amt with
      | none => none
      | some shares =>
        match v.sharesFromTokensTruncated amt with
        | none => none
        | some sharesTruncated =>
          if delShares.m < sharesTruncated.m then none
          else if delShares.m < shares.m then some delShares   -- the cap
          else some shares

/-- The only way a hook touches the modelled behaviour: x/distribution's `BeforeDelegationSharesModified`
    (called by `Unbond` and by `Delegate` for an *existing* delegation) withdraws the delegator's rewards and
    computes `validator.TokensFromShares(delegation.Shares)`, i.e. divides by the validator's delegator shares.
    With zero shares — possible only next to a zero-share delegation record (finding F7) — the Go code panics. -/
def hookPanics (c : VSt) : Bool :=
  match c.val with
  | some v => decide (v.shares.m = 0)
  | none => false

/-- `Unbond`: remove `sh` shares of delegator `d`, return the token amount.  Hooks: see `hookPanics`. -/
def unbond (c : VSt) (d : Addr) (sh : Dec) : Res (VSt × Int) :=
  match c.del d with
  | none => .err
  | some delShares =>
    if hookPanics c then .panic
    else if delShares.m < sh.m then .err
    else
      match c.val with
      | none => .err
      | some v =>
        let newDel := delShares.sub sh
        -- an operator going below the minimum self delegation is jailed
        let v1 := if d = v.oper ∧ v.jailed = false ∧ v.belowMinSelf newDel = true then { v with jailed := true } else v
        let del1 := if newDel.m = 0 then updD c.del d none else updD c.del d (some newDel)
        match v1.removeDelShares sh with
        | none => .panic
        | some (v2, amt) =>
          -- a validator without shares that is already unbonded is removed
          let val2 := if v2.shares.m = 0 ∧ v2.status = .unbonded then none else some v2
          .ok ({ c with val := val2, del := del1 }, amt)

/-- `Delegate(…, validator, subtractAccount = true)` with the validator as stored in `c`.
    The bank movement of the bond denom is not modelled. -/
def delegate (c : VSt) (d : Addr) (amt : Int) : Res (VSt × Dec) :=
  match c.val with
  | none => .err
  | some v =>
    if v.invalidExRate then .err
    else if (c.del d).isSome ∧ hookPanics c then .panic
    else
      match v.addTokensFromDel amt with
      | none => .panic
      | some (v1, newShares) =>
        let cur := match c.del d with | none => Dec.zero | some x => x
        .ok ({ c with val := some v1, del := updD c.del d (some (cur.add newShares)) }, newShares)

/-! ### x/liquid/keeper/staking.go -/

/-- `TransferDelegation` -/
def transfer (g : Cfg) (c : VSt) (frm to : Addr) (sh : Dec) : Res (VSt × Dec) :=
  if c.redel frm then .err
  else if sh.m < 0 then .err
  else if sh.m = 0 then .err
  else
    match c.del frm with
    | none => .err
    | some fromShares =>
      match c.val with
      | none => .err
      | some v =>
        if frm = v.oper ∧ v.belowMinSelf (fromShares.sub sh) = true then .err
        else
          -- fastUndelegate
          match unbond c frm sh with
          | .err => .err
          | .panic => .panic
          | .ok (c1, returnAmount) =>
            if g.skipZeroDelegate = true ∧ returnAmount = 0 then .ok (c1, Dec.zero)
            else
              -- SendCoins(from, to, returnAmount) then delegateFromAccount
              match delegate c1 to returnAmount with
              | .err => .err
              | .panic => .panic
              | .ok (c2, received) => .ok (c2, received)

/-! ### x/liquid/keeper/derivative.go -/

/-- `MintDerivative(delegator d, amount of the bond denom)`; returns the derivative amount minted.
    `denomOk` = the coin carries the bond denom. -/
def mint (g : Cfg) (M : Addr) (c : VSt) (d : Addr) (denomOk : Bool) (amount : Int) : Res (VSt × Int) :=
  if denomOk = false then .err
  else if amount ≤ 0 then .err
  else
    match validateUnbondAmount c d amount with
    | none => .err
    | some shares =>
      match transfer g c d M shares with
      | .err => .err
      | .panic => .panic
      | .ok (c1, received) =>
        let derivative := if g.mintReceived then received.truncateInt else shares.truncateInt
        -- MintCoins(liquid) + SendCoinsFromModuleToAccount(liquid → d)
        .ok ({ c1 with bal := updI c1.bal d (c1.bal d + derivative), supply := c1.supply + derivative }, derivative)

/-- `BurnDerivative(holder d, amount of this validator's derivative denom)`; returns the shares received. -/
def burn (g : Cfg) (M : Addr) (c : VSt) (d : Addr) (amount : Int) : Res (VSt × Dec) :=
  if amount < 0 then .panic            -- sdk.NewCoins panics on a negative coin
  else if c.bal d < amount then .err   -- SendCoinsFromAccountToModule: insufficient funds
  else
    let c1 := { c with bal := updI c.bal d (c.bal d - amount), supply := c.supply - amount }
    transfer g c1 M d (Dec.ofInt amount)

/-- `DerivativeFromTokens` (uses the *module's* delegation) -/
def derivativeFromTokens (M : Addr) (c : VSt) (denomOk : Bool) (amount : Int) : Option Int :=
  if denomOk = false then none
  else if amount ≤ 0 then none
  else match validateUnbondAmount c M amount with
    | none => none
    | some sh => some sh.truncateInt

/-- `GetStakedTokensForDerivatives` for one coin; `none` = the Go code panics dividing by zero shares -/
def stakedTokens (v : Val) (amount : Int) : Option Int :=
  if v.shares.m = 0 then none
  else some (v.tokensFromSharesTruncated (Dec.ofInt amount)).truncateInt

/-! ### x/staking messages of other actors (environment of the liquid module) -/

/-- MsgDelegate -/
def stkDelegate (c : VSt) (d : Addr) (amt : Int) : Res VSt :=
  if amt ≤ 0 then .err else
  match delegate c d amt with
  | .ok (c1, _) => .ok c1
  | .err => .err
  | .panic => .panic

/-- `Undelegate(d, shares)`: Unbond + an unbonding-delegation entry holding the returned tokens
    (this SDK version creates the entry whatever the validator's status) -/
def stkUndelegateShares (c : VSt) (d : Addr) (sh : Dec) : Res (VSt × Int) :=
  match c.val with
  | none => .err
  | some _ =>
    match unbond c d sh with
    | .err => .err
    | .panic => .panic
    | .ok (c1, amt) => .ok ({ c1 with ubd := updI c1.ubd d (c1.ubd d + amt) }, amt)

/-- MsgUndelegate (token amount) -/
def stkUndelegate (c : VSt) (d : Addr) (amt : Int) : Res VSt :=
  if amt ≤ 0 then .err else
  match validateUnbondAmount c d amt with
  | none => .err
  | some sh =>
    match stkUndelegateShares c d sh with
    | .ok (c1, _) => .ok c1
    | .err => .err
    | .panic => .panic

/-- source half of MsgBeginRedelegate: unbond `amt` tokens worth of shares, return the tokens -/
def stkRedelegateOut (c : VSt) (d : Addr) (amt : Int) : Res (VSt × Int) :=
  if amt ≤ 0 then .err else
  if c.redel d then .err else   -- transitive redelegation refused
  match validateUnbondAmount c d amt with
  | none => .err
  | some sh =>
    match unbond c d sh with
    | .err => .err
    | .panic => .panic
    | .ok (c1, tokens) => if tokens = 0 then .err else .ok (c1, tokens)   -- ErrTinyRedelegationAmount

/-- destination half of MsgBeginRedelegate -/
def stkRedelegateIn (c : VSt) (d : Addr) (tokens : Int) (fromBonded : Bool) : Res VSt :=
  match delegate c d tokens with
  | .ok (c1, _) => .ok (if fromBonded then { c1 with redel := updB c1.redel d true } else c1)
  | .err => .err
  | .panic => .panic

/-- slashing burns `burnt` tokens of the validator (shares unchanged) -/
def stkSlash (c : VSt) (burnt : Int) : Res VSt :=
  match c.val with
  | none => .err
  | some v => if burnt < 0 ∨ v.tokens < burnt then .panic else .ok { c with val := some { v with tokens := v.tokens - burnt } }

/-- jail / unjail / bonded ↔ unbonding ↔ unbonded transitions done by x/slashing and the staking end blocker -/
def stkSetStatus (c : VSt) (st : Status) (jailed : Bool) : Res VSt :=
  match c.val with
  | none => .err
  | some v =>
    if st = .unbonded ∧ v.shares.m = 0 then .ok { c with val := none }
    else .ok { c with val := some { v with status := st, jailed := jailed } }

/-- a redelegation into this validator matures -/
def stkRedelDone (c : VSt) (d : Addr) : VSt := { c with redel := updB c.redel d false }

/-- x/bank send of the derivative denom -/
def bankSend (c : VSt) (a b : Addr) (amt : Int) : Res VSt :=
  if amt < 0 then .err
  else if c.bal a < amt then .err
  else
    let b1 := updI c.bal a (c.bal a - amt)
    .ok { c with bal := updI b1 b (b1 b + amt) }

/-! ### x/router/keeper/msg_server.go — compositions.  The earn vault `E` is a holder of the derivative. -/

/-- MsgMintDeposit: mint, then deposit everything minted into earn -/
def mintDeposit (g : Cfg) (M E : Addr) (c : VSt) (d : Addr) (denomOk : Bool) (amount : Int) : Res VSt :=
  match mint g M c d denomOk amount with
  | .err => .err
  | .panic => .panic
  | .ok (c1, der) =>
    if der ≤ 0 then .err     -- earn refuses a zero deposit
    else match bankSend c1 d E der with
      | .ok c2 => .ok c2
      | .err => .err
      | .panic => .panic

/-- MsgDelegateMintDeposit -/
def delegateMintDeposit (g : Cfg) (M E : Addr) (c : VSt) (d : Addr) (denomOk : Bool) (amount : Int) : Res VSt :=
  if denomOk = false then .err else
  match delegate c d amount with
  | .err => .err
  | .panic => .panic
  | .ok (c1, _) => mintDeposit g M E c1 d denomOk amount

/-- MsgWithdrawBurn: `amount` tokens → derivative amount by `DerivativeFromTokens` → earn withdraw → burn.
    `earnOk` = the earn keeper accepted the withdrawal of exactly that derivative amount. -/
def withdrawBurn (g : Cfg) (M E : Addr) (c : VSt) (d : Addr) (denomOk : Bool) (amount : Int) (earnOk : Bool) :
    Res (VSt × Dec) :=
  match derivativeFromTokens M c denomOk amount with
  | none => .err
  | some der =>
    if der ≤ 0 then .err
    else if earnOk = false then .err
    else match bankSend c E d der with
      | .ok c1 => burn g M c1 d der
      | .err => .err
      | .panic => .panic

/-- MsgWithdrawBurnUndelegate -/
def withdrawBurnUndelegate (g : Cfg) (M E : Addr) (c : VSt) (d : Addr) (denomOk : Bool) (amount : Int)
    (earnOk : Bool) : Res VSt :=
  match withdrawBurn g M E c d denomOk amount earnOk with
  | .err => .err
  | .panic => .panic
  | .ok (c1, sharesReturned) =>
    match stkUndelegateShares c1 d sharesReturned with
    | .ok (c2, _) => .ok c2
    | .err => .err
    | .panic => .panic

/-! ### Histories: the chain is a family of validator components -/

abbrev Chain := Nat → VSt

def updC (s : Chain) (v : Nat) (c : VSt) : Chain := fun x => if x = v then c else s x

inductive Op where
  | mint (d v : Nat) (amount : Int)
  | burn (d v : Nat) (amount : Int)
  | send (a b v : Nat) (amount : Int)            -- bank send of a derivative denom
  | delegate (d v : Nat) (amount : Int)
  | undelegate (d v : Nat) (amount : Int)
  | redelegate (d src dst : Nat) (amount : Int)
  | slash (v : Nat) (burnt : Int)
  | setStatus (v : Nat) (st : Status) (jailed : Bool)
  | redelDone (d v : Nat)

def liftV {α : Type} (s : Chain) (v : Nat) (r : Res (VSt × α)) : Res Chain :=
  match r with
  | .ok (c, _) => .ok (updC s v c)
  | .err => .err
  | .panic => .panic

def lift0 (s : Chain) (v : Nat) (r : Res VSt) : Res Chain :=
  match r with
  | .ok c => .ok (updC s v c)
  | .err => .err
  | .panic => .panic

/-- one message / event.  The module account `M` has no key: it never signs staking or bank messages. -/
def step (g : Cfg) (M : Addr) (s : Chain) : Op → Res Chain
  | .mint d v a => if d = M then .err else liftV s v (mint g M (s v) d true a)
  | .burn d v a => if d = M then .err else liftV s v (burn g M (s v) d a)
  | .send a b v n => if a = M then .err else lift0 s v (bankSend (s v) a b n)
  | .delegate d v a => if d = M then .err else lift0 s v (stkDelegate (s v) d a)
  | .undelegate d v a => if d = M then .err else lift0 s v (stkUndelegate (s v) d a)
  | .redelegate d src dst a =>
    if d = M ∨ src = dst then .err else
    match stkRedelegateOut (s src) d a with
    | .err => .err
    | .panic => .panic
    | .ok (c1, tokens) =>
      -- `getBeginInfo`: a redelegation entry is recorded unless the source validator is (still there and) unbonded
      let fromBonded := match c1.val with | some v => decide (v.status ≠ .unbonded) | none => true
      lift0 (updC s src c1) dst (stkRedelegateIn (s dst) d tokens fromBonded)
  | .slash v b => lift0 s v (stkSlash (s v) b)
  | .setStatus v st j => lift0 s v (stkSetStatus (s v) st j)
  | .redelDone d v => .ok (updC s v (stkRedelDone (s v) d))

/-- run a history; a failed message leaves the state unchanged (baseapp), a panic aborts -/
def run (g : Cfg) (M : Addr) : Chain → List Op → Option Chain
  | s, [] => some s
  | s, op :: ops =>
    match step g M s op with
    | .ok s' => run g M s' ops
    | .err => run g M s ops
    | .panic => none

/-! ### app/tally_handler.go -/

/-- what the tally reads of one validator -/
structure TVal where
  tokens : Int
  shares : Dec
  bonded : Bool        -- the validator is in `currValidators` (IterateBondedValidatorsByPower)
deriving Repr, Inhabited

/-- one stored vote with everything the handler looks up for its voter -/
structure TVote where
  oper : Option Nat              -- index of the validator whose operator address equals the voter
  opts : List (Nat × Dec)        -- weighted options: (option 1..4, weight)
  dels : List (Nat × Dec)        -- the voter's delegations (validator index, shares), store order
  wallet : List (Nat × Int)      -- derivative balances in x/bank (validator index, amount)
  savings : List (Nat × Int)     -- derivative coins of the voter's savings deposit
  earn : List (Nat × Int)        -- derivative value of the voter's earn shares (ConvertToAssets)
deriving Inhabited

structure TAcc where
  res : Nat → Int                -- results[option] (Dec mantissa)
  total : Int                    -- totalVotingPower (Dec mantissa)
  ded : Nat → Int                -- DelegatorDeductions per validator (Dec mantissa)
  vote : Nat → List (Nat × Dec)  -- recorded validator votes

def TAcc.init : TAcc := { res := fun _ => 0, total := 0, ded := fun _ => 0, vote := fun _ => [] }

/-- the validator at index `v`; an index outside the table behaves like a validator that is not in the set -/
def tvAt (vals : List TVal) (v : Nat) : TVal :=
  match vals[v]? with
  | some tv => tv
  | none => { tokens := 0, shares := ⟨0⟩, bonded := false }

/-- `currValidators[v]` exists -/
def inMap (vals : List TVal) (v : Nat) : Bool := (tvAt vals v).bonded

def bump (f : Nat → Int) (v : Nat) (d : Int) : Nat → Int := fun x => if x = v then f x + d else f x

def amountOf (l : List (Nat × Int)) (v : Nat) : Int :=
  match l with
  | [] => 0
  | (w, a) :: t => (if w = v then a else 0) + amountOf t v

/-- `getAddrBkava(...).toCoins()`: wallet + savings + earn per denom, zero entries dropped, denom order -/
def addrBkava (n : Nat) (t : TVote) : List (Nat × Int) :=
  (List.range n).filterMap fun v =>
    let a := amountOf t.wallet v + amountOf t.savings v + amountOf t.earn v
    if a > 0 then some (v, a) else none

/-- `for _, option := range options { results[option] += power.Mul(weight) }` -/
def addWeighted (res : Nat → Int) (power : Dec) : List (Nat × Dec) → Nat → Int
  | [] => res
  | (o, w) :: t => addWeighted (bump res o (power.mul w).m) power t

/-- `delegation.GetShares().MulInt(val.BondedTokens).Quo(val.DelegatorShares)` -/
def sharePower (tv : TVal) (sh : Dec) : Dec := (sh.mulInt tv.tokens).quo tv.shares

/-- `GetStakedTokensForDerivatives` for one coin of a validator with these tokens and shares -/
def stakedTok (tv : TVal) (amount : Int) : Int :=
  (((Dec.ofInt amount).mulInt tv.tokens).quoTruncate tv.shares).truncateInt

/-- the `IterateDelegations` callback for one delegation of the voter -/
def delStep (vals : List TVal) (opts : List (Nat × Dec)) (a : TAcc) (v : Nat) (sh : Dec) : TAcc :=
  if (tvAt vals v).bonded then
    let p := sharePower (tvAt vals v) sh
    { a with ded := bump a.ded v sh.m, res := addWeighted a.res p opts, total := a.total + p.m }
  else a

def delLoop (vals : List TVal) (opts : List (Nat × Dec)) (a : TAcc) : List (Nat × Dec) → TAcc
  | [] => a
  | (v, sh) :: t => delLoop vals opts (delStep vals opts a v sh) t

/-- the body of the loop over the voter's derivative coins; `none` = panic -/
def bkStep (g : Cfg) (vals : List TVal) (opts : List (Nat × Dec)) (a : TAcc) (v : Nat) (amt : Int) : Option TAcc :=
  let tv := tvAt vals v
  -- F8 repair: `if !ok { continue }`
  if g.tallySkipUnbonded = true ∧ tv.bonded = false then some a
  -- GetStakedTokensForDerivatives: validator not found → error → panic (excluded by IsDerivativeDenom)
  else if vals[v]?.isNone then none
  -- TokensFromSharesTruncated divides by the validator's shares
  else if tv.shares.m = 0 then none
  else
    let a1 := if tv.bonded then { a with ded := bump a.ded v (amt * P) } else a
    let p := Dec.ofInt (stakedTok tv amt)
    some { a1 with res := addWeighted a1.res p opts, total := a1.total + p.m }

def bkLoop (g : Cfg) (vals : List TVal) (opts : List (Nat × Dec)) (a : TAcc) : List (Nat × Int) → Option TAcc
  | [] => some a
  | (v, amt) :: t =>
    match bkStep g vals opts a v amt with
    | none => none
    | some a1 => bkLoop g vals opts a1 t

/-- the `IterateVotes` callback -/
def voteStep (g : Cfg) (vals : List TVal) (a : TAcc) (t : TVote) : Option TAcc :=
  let a1 := match t.oper with
    | some v => if inMap vals v then { a with vote := fun x => if x = v then t.opts else a.vote x } else a
    | none => a
  let a2 := delLoop vals t.opts a1 t.dels
  bkLoop g vals t.opts a2 (addrBkava vals.length t)

def voteLoop (g : Cfg) (vals : List TVal) (a : TAcc) : List TVote → Option TAcc
  | [] => some a
  | t :: ts =>
    match voteStep g vals a t with
    | none => none
    | some a1 => voteLoop g vals a1 ts

/-- one iteration of the second loop, over `currValidators` (a Go map: the sums do not depend on the order) -/
def valStep (vals : List TVal) (a : TAcc) (b : TAcc) (v : Nat) : TAcc :=
  let tv := tvAt vals v
  if tv.bonded ∧ ¬ (a.vote v).isEmpty then
    let after : Dec := ⟨tv.shares.m - a.ded v⟩
    let p := sharePower tv after
    { b with res := addWeighted b.res p (a.vote v), total := b.total + p.m }
  else b

def valLoop (vals : List TVal) (a : TAcc) : Nat → TAcc
  | 0 => a
  | v + 1 => valStep vals a (valLoop vals a v) v

structure TallyOut where
  yes : Int
  abstain : Int
  no : Int
  veto : Int
  total : Int      -- totalVotingPower mantissa
deriving DecidableEq, Repr

/-- option numbering: 1 yes, 2 abstain, 3 no, 4 no-with-veto (gov v1 enum values) -/
def tally (g : Cfg) (vals : List TVal) (votes : List TVote) : Option TallyOut :=
  match voteLoop g vals TAcc.init votes with
  | none => none
  | some a =>
    let b := valLoop vals a vals.length
    some { yes := chopTrunc (b.res 1), abstain := chopTrunc (b.res 2), no := chopTrunc (b.res 3),
           veto := chopTrunc (b.res 4), total := b.total }

def TallyOut.counted (o : TallyOut) : Int := o.yes + o.abstain + o.no + o.veto

def sumTo : Nat → (Nat → Int) → Int
  | 0, _ => 0
  | n + 1, f => sumTo n f + f n

/-- the tokens of the validators in the handler's set (≤ `TotalBondedTokens`) -/
def bondedTotal (vals : List TVal) : Int :=
  sumTo vals.length (fun v => if (tvAt vals v).bonded then (tvAt vals v).tokens else 0)

end KV.Liquid
