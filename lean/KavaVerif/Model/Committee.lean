/-
  Model of the committee proposal lifecycle: x/committee/keeper/proposal.go (SubmitProposal, AddVote,
  ValidatePubProposal, ProcessProposals, GetProposalResult, Tally*, attemptEnactProposal, enactProposal,
  CloseProposal), x/committee/abci.go (BeginBlocker = ProcessProposals) and the gov-routed
  x/committee/proposal_handler.go (committee change / delete close the committee's pending proposals).

  Everything outside the committee store (params, balances, upgrade plan, …) is the abstract external
  state `Ext`; the proposal handlers and `Committee.HasPermissionsFor` are parameters (`Env`).
  A handler is a function of (content, external state): `none` = error or a panic recovered by
  ValidatePubProposal's `recover()`.

  `log` is a ghost field: the proposal_close events (and enactments) emitted so far.
  Core Lean only.
-/
import KavaVerif.Num.Dec
namespace KV.Com
open KV

abbrev Addr := Nat

inductive VoteType where
  | yes | no | abstain
  deriving DecidableEq, Repr, Inhabited

inductive Outcome where
  | passed | failed | invalid
  deriving DecidableEq, Repr, Inhabited

inductive Event where
  | enacted (pid : Nat)
  | closed (pid : Nat) (o : Outcome)
  deriving DecidableEq, Repr, Inhabited

def Event.pid : Event → Nat
  | .enacted p => p
  | .closed p _ => p

/-- Member or token committee. `threshold`, `quorum` are sdk.Dec; `duration` in ns. -/
structure Committee (Pm : Type) where
  id : Nat
  token : Bool
  members : List Addr
  perms : Pm
  threshold : Dec
  quorum : Dec
  duration : Int
  fptp : Bool
  denom : String

structure Proposal (C : Type) where
  id : Nat
  cid : Nat
  deadline : Int
  content : C

structure Vote where
  pid : Nat
  voter : Addr
  vt : VoteType
  deriving DecidableEq, Repr, Inhabited

structure St (Ext C Pm : Type) where
  committees : List (Committee Pm)
  proposals : List (Proposal C)    -- ascending id (store key order)
  votes : List Vote
  nextId : Nat
  ext : Ext
  log : List Event

/-- what the keeper is wired to -/
structure Env (Ext C Pm : Type) where
  route : C → String
  routes : List String                 -- routes registered on the committee router (app.go)
  validBasic : C → Bool
  permits : Pm → C → Ext → Bool        -- Committee.HasPermissionsFor on the current state
  handler : C → Ext → Option Ext       -- the routed proposal handler
  bal : Ext → String → Addr → Int      -- bank balance of the tally denom
  supply : Ext → String → Int          -- bank supply of the tally denom

inductive Res (σ : Type) where
  | ok (s : σ)
  | err
  | panic

variable {Ext C Pm : Type}

def getCommittee (s : St Ext C Pm) (cid : Nat) : Option (Committee Pm) :=
  s.committees.find? (fun c => c.id == cid)

def getProposal (s : St Ext C Pm) (pid : Nat) : Option (Proposal C) :=
  s.proposals.find? (fun p => p.id == pid)

def votesFor (s : St Ext C Pm) (pid : Nat) : List Vote := s.votes.filter (fun v => v.pid == pid)

/-- `ValidatePubProposal`: ValidateBasic, route registered, dry run of the handler on a cache that is
    then discarded (panics recovered into an error) -/
def validatePub (env : Env Ext C Pm) (ext : Ext) (c : C) : Bool :=
  env.validBasic c && env.routes.contains (env.route c) && (env.handler c ext).isSome

/-- `SubmitProposal` at block time `now` -/
def submit (env : Env Ext C Pm) (s : St Ext C Pm) (now : Int) (proposer : Addr) (cid : Nat) (c : C) :
    Res (St Ext C Pm) :=
  match getCommittee s cid with
  | none => .err
  | some com =>
    if !com.members.contains proposer then .err
    else if !env.permits com.perms c s.ext then .err
    else if !validatePub env s.ext c then .err
    else
      .ok { s with proposals := s.proposals ++ [{ id := s.nextId, cid := cid, deadline := now + com.duration, content := c }]
                   nextId := s.nextId + 1 }

/-- `SetVote`: overwrite any prior vote of the voter on the proposal -/
def setVote (vs : List Vote) (v : Vote) : List Vote :=
  vs.filter (fun w => !(w.pid == v.pid && w.voter == v.voter)) ++ [v]

/-- `AddVote` at block time `now` -/
def vote (s : St Ext C Pm) (now : Int) (pid : Nat) (voter : Addr) (vt : VoteType) : Res (St Ext C Pm) :=
  match getProposal s pid with
  | none => .err
  | some pr =>
    if now ≥ pr.deadline then .err          -- HasExpiredBy: !now.Before(deadline)
    else
      match getCommittee s pr.cid with
      | none => .err
      | some com =>
        if !com.token && !com.members.contains voter then .err
        else if !com.token && vt != .yes then .err
        else .ok { s with votes := setVote s.votes ⟨pid, voter, vt⟩ }

def sumBal (env : Env Ext C Pm) (ext : Ext) (denom : String) (vs : List Vote) : Int :=
  vs.foldl (fun acc v => acc + env.bal ext denom v.voter) 0

/-- `GetMemberCommitteeProposalResult` -/
def memberResult (s : St Ext C Pm) (com : Committee Pm) (pid : Nat) : Bool :=
  Dec.le (com.threshold.mul (Dec.ofInt com.members.length)) (Dec.ofInt (votesFor s pid).length)

/-- `GetTokenCommitteeProposalResult` (weights are the balances at the time of the tally) -/
def tokenResult (env : Env Ext C Pm) (s : St Ext C Pm) (com : Committee Pm) (pid : Nat) : Bool :=
  let vs := votesFor s pid
  let yes := Dec.ofInt (sumBal env s.ext com.denom (vs.filter (fun v => v.vt == .yes)))
  let no := Dec.ofInt (sumBal env s.ext com.denom (vs.filter (fun v => v.vt == .no)))
  let total := Dec.ofInt (sumBal env s.ext com.denom vs)
  let possible := Dec.ofInt (env.supply s.ext com.denom)
  if Dec.le (com.quorum.mul possible) total then
    -- since the fix "committee token tally without any yes or no vote must not pass": `nonAbstainVotes.IsPositive() &&`
    decide (0 < (yes.add no).m) && Dec.le ((yes.add no).mul com.threshold) yes
  else false

/-- `GetProposalResult` -/
def result (env : Env Ext C Pm) (s : St Ext C Pm) (com : Committee Pm) (pid : Nat) : Bool :=
  if com.token then tokenResult env s com pid else memberResult s com pid

/-- `CloseProposal`: delete the proposal and its votes, emit proposal_close -/
def close (s : St Ext C Pm) (pid : Nat) (o : Outcome) : St Ext C Pm :=
  { s with proposals := s.proposals.filter (fun p => p.id != pid)
           votes := s.votes.filter (fun v => v.pid != pid)
           log := s.log ++ [.closed pid o] }

/-- `attemptEnactProposal` ∘ `enactProposal`: `.err` = an error was returned (outcome Invalid) -/
def enact (env : Env Ext C Pm) (s : St Ext C Pm) (p : Proposal C) : Res (St Ext C Pm) :=
  match getCommittee s p.cid with
  | none => .err
  | some com =>
    if !env.permits com.perms p.content s.ext then .err
    else if !validatePub env s.ext p.content then .err
    else
      match env.handler p.content s.ext with
      | none => .panic                         -- "unexpected handler error"
      | some ext' => .ok { s with ext := ext', log := s.log ++ [.enacted p.id] }

/-- enact then close with the resulting outcome -/
def enactAndClose (env : Env Ext C Pm) (s : St Ext C Pm) (p : Proposal C) : Res (St Ext C Pm) :=
  match enact env s p with
  | .ok s1 => .ok (close s1 p.id .passed)
  | .err => .ok (close s p.id .invalid)
  | .panic => .panic

/-- callback of `ProcessProposals` for one proposal at block time `now` -/
def processOne (env : Env Ext C Pm) (now : Int) (s : St Ext C Pm) (p : Proposal C) : Res (St Ext C Pm) :=
  match getCommittee s p.cid with
  | none => .ok (close s p.id .failed)
  | some com =>
    if now < p.deadline then
      if com.fptp then
        if result env s com p.id then enactAndClose env s p else .ok s
      else .ok s
    else
      if result env s com p.id then enactAndClose env s p
      else .ok (close s p.id .failed)

def processAll (env : Env Ext C Pm) (now : Int) : St Ext C Pm → List (Proposal C) → Res (St Ext C Pm)
  | s, [] => .ok s
  | s, p :: ps =>
    match processOne env now s p with
    | .ok s1 => processAll env now s1 ps
    | .err => .err
    | .panic => .panic

/-- `BeginBlocker`: iterate the proposals present at the start, in id order -/
def beginBlock (env : Env Ext C Pm) (now : Int) (s : St Ext C Pm) : Res (St Ext C Pm) :=
  processAll env now s s.proposals

def closeAll (s : St Ext C Pm) : List (Proposal C) → St Ext C Pm
  | [] => s
  | p :: ps => closeAll (close s p.id .failed) ps

/-- gov-routed `handleCommitteeChangeProposal`: pending proposals of the committee are closed as failed -/
def setCommittee (s : St Ext C Pm) (com : Committee Pm) : St Ext C Pm :=
  let s1 := closeAll s (s.proposals.filter (fun p => p.cid == com.id))
  { s1 with committees := s1.committees.filter (fun c => c.id != com.id) ++ [com] }

/-- gov-routed `handleCommitteeDeleteProposal` -/
def deleteCommittee (s : St Ext C Pm) (cid : Nat) : St Ext C Pm :=
  let s1 := closeAll s (s.proposals.filter (fun p => p.cid == cid))
  { s1 with committees := s1.committees.filter (fun c => c.id != cid) }

inductive Op (Ext C Pm : Type) where
  | submit (now : Int) (proposer : Addr) (cid : Nat) (c : C)
  | vote (now : Int) (pid : Nat) (voter : Addr) (vt : VoteType)
  | beginBlock (now : Int)
  | setCommittee (com : Committee Pm)
  | deleteCommittee (cid : Nat)
  | ext (f : Ext → Ext)              -- anything else in the app: transfers, governance, other modules

def step (env : Env Ext C Pm) (s : St Ext C Pm) : Op Ext C Pm → Res (St Ext C Pm)
  | .submit now pr cid c => submit env s now pr cid c
  | .vote now pid v vt => vote s now pid v vt
  | .beginBlock now => beginBlock env now s
  | .setCommittee com => .ok (setCommittee s com)
  | .deleteCommittee cid => .ok (deleteCommittee s cid)
  | .ext f => .ok { s with ext := f s.ext }

/-- run a history; a failed message leaves the state unchanged (baseapp), a panic stops the chain -/
def run (env : Env Ext C Pm) : St Ext C Pm → List (Op Ext C Pm) → Option (St Ext C Pm)
  | s, [] => some s
  | s, op :: ops =>
    match step env s op with
    | .ok s1 => run env s1 ops
    | .err => run env s ops
    | .panic => none

end KV.Com
