/-
  Model of x/swap: types/base_pool.go (BasePool), types/denominated_pool.go (token order),
  keeper/deposit.go, keeper/withdraw.go, keeper/swap.go, transcribed branch by branch in the
  code's own evaluation order.  Core Lean only (linked into the driver executable).

  sdkmath.Int = `Int` (unbounded; the 256-bit overflow panics of sdkmath are not modelled, the
  correspondence harness classes them separately), big.Int `Quo` = `KV.tquo`, sdk.Dec = `KV.Dec`.
  A Go panic is `none` at the BasePool level and `.panic` at the keeper level; an ordinary error is
  `.err` and leaves the state unchanged (baseapp discards the cached store).
-/
import KavaVerif.Num.Dec

namespace KV.SW

/-! ## BasePool (types/base_pool.go) -/

/-- `big.Int.Sqrt`: ⌊√n⌋ (two bits per step; `fuel ≥ n` is always enough). -/
def isqrtAux : Nat → Nat → Nat
  | 0, n => n
  | fuel + 1, n =>
    if n < 2 then n
    else
      let r := 2 * isqrtAux fuel (n / 4)
      if (r + 1) * (r + 1) ≤ n then r + 1 else r

def isqrt (n : Nat) : Nat := isqrtAux n n

/-- `calculateInitialShares`: ⌊√(A·B)⌋ -/
def initialShares (a b : Int) : Int := Int.ofNat (isqrt (a * b).toNat)

/-- reserves A, B and total shares -/
structure Pool where
  a : Int
  b : Int
  s : Int
deriving DecidableEq, Repr, Inhabited

/-- `big.Int.Quo` with Go's division-by-zero panic -/
def pquo (x d : Int) : Option Int := if d = 0 then none else some (tquo x d)

/-- `NewBasePool` (error = `none`) -/
def newBasePool (a b : Int) : Option Pool :=
  if a ≤ 0 ∨ b ≤ 0 then none else some ⟨a, b, initialShares a b⟩

/-- `NewBasePoolWithExistingShares` (error = `none`) -/
def newBasePoolWithShares (a b s : Int) : Option Pool :=
  if a ≤ 0 ∨ b ≤ 0 then none else if s ≤ 0 then none else some ⟨a, b, s⟩

/-- `AddLiquidity`: (pool', depositA, depositB, shares); `none` = panic -/
def addLiquidity (p : Pool) (da db : Int) : Option (Pool × Int × Int × Int) :=
  -- assertDepositsArePositive
  if ¬ 0 < da then none
  else if ¬ 0 < db then none
  -- IsEmpty: re-initialise
  else if p.a = 0 ∧ p.b = 0 then
    let s := initialShares da db
    some (⟨da, db, s⟩, da, db, s)
  -- assertReservesArePositive
  else if ¬ 0 < p.a then none
  else if ¬ 0 < p.b then none
  else
    let productA := p.b * da
    let productB := p.a * db
    let actualB := if productA ≤ productB then tquo productA p.a else db
    let actualA := if productA ≤ productB then da else tquo productB p.b
    let sharesA := tquo (actualA * p.s) p.a
    let sharesB := tquo (actualB * p.s) p.b
    let shares := if sharesA ≤ sharesB then sharesA else sharesB
    some (⟨p.a + actualA, p.b + actualB, p.s + shares⟩, actualA, actualB, shares)

/-- `ShareValue`; `none` = panic -/
def shareValue (p : Pool) (sh : Int) : Option (Int × Int) :=
  if ¬ 0 < sh then none
  else if sh > p.s then none
  else some (tquo (p.a * sh) p.s, tquo (p.b * sh) p.s)

/-- `RemoveLiquidity`: (pool', withdrawA, withdrawB); `none` = panic -/
def removeLiquidity (p : Pool) (sh : Int) : Option (Pool × Int × Int) :=
  match shareValue p sh with
  | none => none
  | some (wa, wb) =>
    let p' : Pool := ⟨p.a - wa, p.b - wb, p.s - sh⟩
    -- assertReservesAreNotNegative
    if p'.a < 0 then none else if p'.b < 0 then none else some (p', wa, wb)

/-- `assertInvariantAndUpdateReserves` -/
def assertInvariantAndUpdate (p : Pool) (newA feeA newB feeB : Int) : Option Pool :=
  if p.a * p.b > (newA - feeA) * (newB - feeB) then none
  else some { p with a := newA, b := newB }

/-- `calculateOutputForExactInput`: (out, feeValue) -/
def outputForExactInput (x inR outR : Int) (fee : Dec) : Option (Int × Int) :=
  if ¬ 0 < x then none                                    -- assertSwapInputIsValid
  else if fee.m < 0 ∨ P ≤ fee.m then none                 -- assertFeeIsValid
  else
    let inAfterFee := (Dec.mul (Dec.ofInt x) (Dec.sub Dec.one fee)).truncateInt
    match pquo (outR * inAfterFee) (inR + inAfterFee) with
    | none => none
    | some out => some (out, x - inAfterFee)

/-- `calculateInputForExactOutput`: (in, feeValue) -/
def inputForExactOutput (out outR inR : Int) (fee : Dec) : Option (Int × Int) :=
  if ¬ 0 < out then none                                  -- assertSwapOutputIsValid
  else if out ≥ outR then none
  else if fee.m < 0 ∨ P ≤ fee.m then none                 -- assertFeeIsValid
  else
    let result := inR * out
    let newOut := outR - out
    -- QuoRem, both operands non-negative here
    let q := tquo result newOut
    let rem := result - q * newOut
    let inWithoutFee := if rem ≠ 0 then q + 1 else q
    let inp := ((Dec.quo (Dec.ofInt inWithoutFee) (Dec.sub Dec.one fee)).ceil).truncateInt
    some (inp, inp - inWithoutFee)

/-- `SwapExactAForB`: (pool', b out, fee paid in a) -/
def swapExactAForB (p : Pool) (x : Int) (fee : Dec) : Option (Pool × Int × Int) :=
  match outputForExactInput x p.a p.b fee with
  | none => none
  | some (b, fv) =>
    match assertInvariantAndUpdate p (p.a + x) fv (p.b - b) 0 with
    | none => none
    | some p' => some (p', b, fv)

/-- `SwapExactBForA`: (pool', a out, fee paid in b) -/
def swapExactBForA (p : Pool) (x : Int) (fee : Dec) : Option (Pool × Int × Int) :=
  match outputForExactInput x p.b p.a fee with
  | none => none
  | some (a, fv) =>
    match assertInvariantAndUpdate p (p.a - a) 0 (p.b + x) fv with
    | none => none
    | some p' => some (p', a, fv)

/-- `SwapAForExactB`: (pool', a in, fee paid in a) -/
def swapAForExactB (p : Pool) (y : Int) (fee : Dec) : Option (Pool × Int × Int) :=
  match inputForExactOutput y p.b p.a fee with
  | none => none
  | some (a, fv) =>
    match assertInvariantAndUpdate p (p.a + a) fv (p.b - y) 0 with
    | none => none
    | some p' => some (p', a, fv)

/-- `SwapBForExactA`: (pool', b in, fee paid in b) -/
def swapBForExactA (p : Pool) (y : Int) (fee : Dec) : Option (Pool × Int × Int) :=
  match inputForExactOutput y p.a p.b fee with
  | none => none
  | some (b, fv) =>
    match assertInvariantAndUpdate p (p.a - y) 0 (p.b + b) fv with
    | none => none
    | some p' => some (p', b, fv)

/-- the four swap entry points as data, for statements over sequences of swaps -/
inductive SwapOp where
  | exactAForB (x : Int)
  | exactBForA (x : Int)
  | aForExactB (y : Int)
  | bForExactA (y : Int)
deriving DecidableEq, Repr

def applySwap (p : Pool) (fee : Dec) : SwapOp → Option (Pool × Int × Int)
  | .exactAForB x => swapExactAForB p x fee
  | .exactBForA x => swapExactBForA p x fee
  | .aForExactB y => swapAForExactB p y fee
  | .bForExactA y => swapBForExactA p y fee

/-- a sequence of swaps on a pool nobody else touches; a panicking swap changes nothing.
    The fee may differ from swap to swap (governance may change it). -/
def runSwaps (p : Pool) : List (Dec × SwapOp) → Pool
  | [] => p
  | (fee, op) :: rest =>
    match applySwap p fee op with
    | none => runSwaps p rest
    | some (p', _, _) => runSwaps p' rest

/-- exchanging the names of the two tokens -/
def Pool.flip (p : Pool) : Pool := ⟨p.b, p.a, p.s⟩

/-! ## Keeper (keeper/deposit.go, withdraw.go, swap.go) -/

abbrev Addr := Nat
/-- denominations are numbered in their lexical order -/
abbrev Denom := Nat

/-- pool id `lo:hi` (`types.PoolID` sorts the two denoms) -/
structure PoolId where
  lo : Denom
  hi : Denom
deriving DecidableEq, Repr

def poolId (x y : Denom) : PoolId := if y < x then ⟨y, x⟩ else ⟨x, y⟩

def upd {α : Type} [DecidableEq α] {β : Type} (f : α → β) (a : α) (v : β) : α → β :=
  fun x => if x = a then v else f x

structure KSt where
  /-- pool records (`none` = no record) -/
  pool : PoolId → Option Pool
  /-- share records; `0` = no record (records are validated positive, zero deletes) -/
  sh : Addr → PoolId → Int
  /-- x/bank balances -/
  bal : Addr → Denom → Int

structure Params where
  fee : Dec
  allowed : PoolId → Bool

inductive Res where
  | ok (s : KSt)
  | err
  | panic
deriving Inhabited

def Res.isOk : Res → Bool
  | .ok _ => true
  | _ => false

inductive Out (α : Type) where
  | ok (v : α)
  | err
  | panic

/-- x/bank transfer of one coin; `none` = insufficient funds -/
def sendCoin (bal : Addr → Denom → Int) (frm to : Addr) (d : Denom) (amt : Int) :
    Option (Addr → Denom → Int) :=
  if bal frm d < amt then none
  else
    let b1 := upd bal frm (upd (bal frm) d (bal frm d - amt))
    some (upd b1 to (upd (b1 to) d (b1 to d + amt)))

/-- `SetPool`: panics on an invalid record -/
def setPool (s : KSt) (pid : PoolId) (p : Pool) : Option KSt :=
  if p.a ≤ 0 ∨ p.b ≤ 0 ∨ p.s ≤ 0 then none
  else some { s with pool := upd s.pool pid (some p) }

/-- `updatePool`: delete when no shares remain -/
def updatePool (s : KSt) (pid : PoolId) (p : Pool) : Option KSt :=
  if p.s = 0 then some { s with pool := upd s.pool pid none } else setPool s pid p

/-- `updateDepositorShares`: delete on zero, `SetDepositorShares` panics on a negative record -/
def updateShares (s : KSt) (who : Addr) (pid : PoolId) (v : Int) : Option KSt :=
  if v < 0 then none
  else some { s with sh := upd s.sh who (upd (s.sh who) pid v) }

/-- `NewDenominatedPoolWithExistingShares(record.Reserves(), record.TotalShares)` -/
def loadRecord (r : Pool) : Option Pool := newBasePoolWithShares r.a r.b r.s

/-- the pool part of `Deposit`: `addLiquidityToPool` / `initializePool` -/
def depositPool (prm : Params) (pid : PoolId) (rec : Option Pool) (xLo xHi : Int) :
    Out (Pool × Int × Int × Int) :=
  match rec with
  | some r =>
    match loadRecord r with
    | none => .err
    | some p =>
      match addLiquidity p xLo xHi with
      | none => .panic
      | some v => .ok v
  | none =>
    if ¬ prm.allowed pid then .err
    else
      match newBasePool xLo xHi with
      | none => .err
      | some p => .ok (p, p.a, p.b, p.s)

/-- `Deposit` (after `MsgDeposit.ValidateBasic`) -/
def deposit (M : Addr) (prm : Params) (s : KSt) (who : Addr) (dA : Denom) (xA : Int)
    (dB : Denom) (xB : Int) (slip : Dec) : Res :=
  if ¬ 0 < xA ∨ ¬ 0 < xB ∨ dA = dB ∨ slip.m < 0 then .err else
  let pid := poolId dA dB
  let xLo := if dB < dA then xB else xA
  let xHi := if dB < dA then xA else xB
  match depositPool prm pid (s.pool pid) xLo xHi with
  | .err => .err
  | .panic => .panic
  | .ok (p', depLo, depHi, shares) =>
    let depA := if dB < dA then depHi else depLo
    let depB := if dB < dA then depLo else depHi
    if depA = 0 ∨ depB = 0 then .err
    else if shares = 0 then .err
    else
      let maxChange := Dec.max (Dec.quo (Dec.ofInt xA) (Dec.ofInt depA))
                               (Dec.quo (Dec.ofInt xB) (Dec.ofInt depB))
      let slippage := Dec.sub maxChange Dec.one
      if slippage.m > slip.m then .err
      else
        match updatePool s pid p' with
        | none => .panic
        | some s1 =>
          match updateShares s1 who pid (s1.sh who pid + shares) with
          | none => .panic
          | some s2 =>
            match sendCoin s2.bal who M pid.lo depLo with
            | none => .err
            | some b1 =>
              match sendCoin b1 who M pid.hi depHi with
              | none => .err
              | some b2 => .ok { s2 with bal := b2 }

/-- `Withdraw` (after `MsgWithdraw.ValidateBasic`) -/
def withdraw (M : Addr) (s : KSt) (who : Addr) (shares : Int) (dA : Denom) (minA : Int)
    (dB : Denom) (minB : Int) : Res :=
  if ¬ 0 < shares ∨ ¬ 0 < minA ∨ ¬ 0 < minB ∨ dA = dB then .err else
  let pid := poolId dA dB
  let owned := s.sh who pid
  if owned = 0 then .err                               -- ErrDepositNotFound
  else if shares > owned then .err                     -- ErrInvalidShares
  else
    match s.pool pid with
    | none => .panic
    | some r =>
      match loadRecord r with
      | none => .panic
      | some p =>
        match removeLiquidity p shares with
        | none => .panic
        | some (p', wLo, wHi) =>
          let wA := if dB < dA then wHi else wLo
          let wB := if dB < dA then wLo else wHi
          if wA = 0 ∨ wB = 0 then .err
          else if wA < minA ∨ wB < minB then .err
          else
            match updatePool s pid p' with
            | none => .panic
            | some s1 =>
              match updateShares s1 who pid (owned - shares) with
              | none => .panic
              | some s2 =>
                match sendCoin s2.bal M who pid.lo wLo with
                | none => .panic
                | some b1 =>
                  match sendCoin b1 M who pid.hi wHi with
                  | none => .panic
                  | some b2 => .ok { s2 with bal := b2 }

/-- `assertSlippageWithinLimit`: `true` = within the limit -/
def slippageOk (priceChange slip : Dec) : Bool :=
  ! decide ((Dec.sub Dec.one priceChange).m > slip.m)

/-- `commitSwap` -/
def commitSwap (M : Addr) (s : KSt) (pid : PoolId) (p' : Pool) (who : Addr)
    (dIn : Denom) (xIn : Int) (dOut : Denom) (xOut : Int) : Res :=
  match setPool s pid p' with
  | none => .panic
  | some s1 =>
    match sendCoin s1.bal who M dIn xIn with
    | none => .err
    | some b1 =>
      match sendCoin b1 M who dOut xOut with
      | none => .panic
      | some b2 => .ok { s1 with bal := b2 }

/-- `SwapExactForTokens` (after `ValidateBasic`) -/
def swapExactForTokens (M : Addr) (prm : Params) (s : KSt) (who : Addr) (dIn : Denom) (xIn : Int)
    (dOut : Denom) (minOut : Int) (slip : Dec) : Res :=
  if ¬ 0 < xIn ∨ ¬ 0 < minOut ∨ dIn = dOut ∨ slip.m < 0 then .err else
  let pid := poolId dIn dOut
  match s.pool pid with
  | none => .err
  | some r =>
    match loadRecord r with
    | none => .panic
    | some p =>
      -- SwapWithExactInput: the input denom selects the direction
      match (if dIn = pid.lo then swapExactAForB p xIn prm.fee else swapExactBForA p xIn prm.fee) with
      | none => .panic
      | some (p', out, _) =>
        if out = 0 then .err
        else if ! slippageOk (Dec.quo (Dec.ofInt out) (Dec.ofInt minOut)) slip then .err
        else commitSwap M s pid p' who dIn xIn dOut out

/-- `SwapForExactTokens` (after `ValidateBasic`) -/
def swapForExactTokens (M : Addr) (prm : Params) (s : KSt) (who : Addr) (dIn : Denom) (maxIn : Int)
    (dOut : Denom) (xOut : Int) (slip : Dec) : Res :=
  if ¬ 0 < maxIn ∨ ¬ 0 < xOut ∨ dIn = dOut ∨ slip.m < 0 then .err else
  let pid := poolId dIn dOut
  match s.pool pid with
  | none => .err
  | some r =>
    match loadRecord r with
    | none => .panic
    | some p =>
      if xOut ≥ (if dOut = pid.lo then p.a else p.b) then .err
      else
        -- SwapWithExactOutput: the output denom selects the direction
        match (if dOut = pid.lo then swapBForExactA p xOut prm.fee else swapAForExactB p xOut prm.fee) with
        | none => .panic
        | some (p', inp, feePaid) =>
          if ! slippageOk (Dec.quo (Dec.ofInt maxIn) (Dec.ofInt (inp - feePaid))) slip then .err
          else commitSwap M s pid p' who dIn inp dOut xOut

inductive Op where
  | deposit (who : Addr) (dA : Denom) (xA : Int) (dB : Denom) (xB : Int) (slip : Dec)
  | withdraw (who : Addr) (shares : Int) (dA : Denom) (minA : Int) (dB : Denom) (minB : Int)
  | swapExact (who : Addr) (dIn : Denom) (xIn : Int) (dOut : Denom) (minOut : Int) (slip : Dec)
  | swapForExact (who : Addr) (dIn : Denom) (maxIn : Int) (dOut : Denom) (xOut : Int) (slip : Dec)

def Op.who : Op → Addr
  | .deposit w .. => w
  | .withdraw w .. => w
  | .swapExact w .. => w
  | .swapForExact w .. => w

def kstep (M : Addr) (prm : Params) (s : KSt) : Op → Res
  | .deposit who dA xA dB xB slip => deposit M prm s who dA xA dB xB slip
  | .withdraw who sh dA mA dB mB => withdraw M s who sh dA mA dB mB
  | .swapExact who dI xI dO mO slip => swapExactForTokens M prm s who dI xI dO mO slip
  | .swapForExact who dI mI dO xO slip => swapForExactTokens M prm s who dI mI dO xO slip

/-- a history: failed and panicking messages leave the state unchanged; the parameters may change
    between messages (governance) -/
def runOps (M : Addr) (s : KSt) : List (Params × Op) → KSt
  | [] => s
  | (prm, op) :: rest =>
    match kstep M prm s op with
    | .ok s' => runOps M s' rest
    | _ => runOps M s rest

end KV.SW
