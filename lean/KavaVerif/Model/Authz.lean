/-
  Model of the authorisation logic of Kava's privileged message handlers (property C16).

  Every handler is transcribed with its checks in the code's own order, over an abstract address type
  `α` with decidable equality: one theorem therefore covers ordinary accounts, other modules'
  principals and module accounts at once.  The *gating comparison* of each handler is not typed by hand:
  it is the interpretation (`condTrue`/`passes`/`searchHit`) of the guard shape that
  `tools/extract/c16.go` regenerates from the source on every run (`KavaVerif/Generated/C16Guards.lean`),
  so an inverted or dropped comparison in /repo changes the model the same way.

  Numeric routines that belong to other properties (CDP collateral ratios, hard LTV, earn share
  conversion, interest accrual) are parameters (`…Env` structures); nothing proved here depends on them.

  A Go error is `.err` (baseapp discards the message's cache: `after` returns the old state), a Go
  panic is `.panic`.  Core Lean only.

  Sources: x/pricefeed/keeper/{msg_server,params,keeper}.go, x/issuance/keeper/{issuance,supply,params}.go,
  x/bep3/keeper/{swap,asset}.go, x/committee/keeper/proposal.go, x/committee/types/committee.go,
  x/community/keeper/msg_server.go, x/cdp/keeper/{draw,deposit}.go, x/hard/keeper/withdraw.go,
  x/swap/keeper/withdraw.go, x/earn/keeper/withdraw.go, x/savings/keeper/withdraw.go.
-/
import KavaVerif.Generated.C16Guards

namespace KV.Authz
open KV.Gen.C16

/-- result of a message handler -/
inductive Res (σ : Type) where
  | ok (s : σ)
  | err         -- ordinary error: baseapp rolls the message back
  | panic       -- Go panic (also rolled back)

def Res.isOk {σ : Type} : Res σ → Bool
  | .ok _ => true
  | _ => false

def Res.cls {σ : Type} : Res σ → String
  | .ok _ => "ok"
  | .err => "err"
  | .panic => "panic"

/-- the state after a message, as baseapp leaves it (`runMsgs`: write the cache only on success) -/
def after {σ : Type} (s : σ) : Res σ → σ
  | .ok s' => s'
  | _ => s

def upd {κ β : Type} [DecidableEq κ] (f : κ → β) (k : κ) (v : β) : κ → β :=
  fun x => if x = k then v else f x

/-! ## Interpretation of the regenerated guard shapes -/

/-- Truth value of a guard's `if` condition, given the truth value `fact` of the relation it tests
    (lhs equals rhs / the predicate call holds / the looked-up record exists). -/
def condTrue (g : Guard) (fact : Bool) : Bool :=
  if g.op = "!=" ∨ g.op = "!" ∨ g.op = "!found" ∨ g.op = "err != nil" ∨ g.op = "!ok" then !fact
  else if g.op = "==" ∨ g.op = "" ∨ g.op = "found" ∨ g.op = "err == nil" ∨ g.op = "ok" then fact
  else false   -- "missing" / "unchecked" / unknown: the branch is never taken

/-- control continues past a guard whose true branch leaves the function -/
def passes (g : Guard) (fact : Bool) : Bool := !(g.exits && condTrue g fact)

/-- `for _, x := range l { if <g>(x, v) { return hit } } return miss` -/
def searchHit {α : Type} [DecidableEq α] (g : Guard) (l : List α) (v : α) : Bool :=
  g.exits && l.any (fun x => condTrue g (decide (x = v)))

def gPostPrice := guardOf "pricefeed.PostPrice"
def gGetOracle := guardOf "pricefeed.GetOracle"
def gIssue := guardOf "issuance.IssueTokens"
def gRedeem := guardOf "issuance.RedeemTokens"
def gBlock := guardOf "issuance.BlockAddress"
def gUnblock := guardOf "issuance.UnblockAddress"
def gPause := guardOf "issuance.SetPauseStatus"
def gBep3 := guardOf "bep3.CreateAtomicSwap"
def gSubmit := guardOf "committee.SubmitProposal"
def gVote := guardOf "committee.AddVote"
def gHasMember := guardOf "committee.HasMember"
def gCommunity := guardOf "community.UpdateParams"
def gCdpDraw := guardOf "cdp.AddPrincipal"
def gCdpRepay := guardOf "cdp.RepayPrincipal"
def gCdpWdDep := guardOf "cdp.WithdrawCollateral"
def gCdpWdCdp := guardOf "cdp.WithdrawCollateral.cdp"
def gCdpWdCap := guardOf "cdp.WithdrawCollateral.cap"
def gHard := guardOf "hard.Withdraw"
def gHardCap := guardOf "hard.Withdraw.cap"
def gSwap := guardOf "swap.Withdraw"
def gSwapCap := guardOf "swap.Withdraw.cap"
def gEarn := guardOf "earn.Withdraw"
def gEarnCap := guardOf "earn.Withdraw.cap"
def gSavings := guardOf "savings.Withdraw"
def gSavingsCap := guardOf "savings.Withdraw.cap"

/-! ## Coins (association list denom ↦ amount; denominations are numbered) -/

abbrev Coins := List (Nat × Int)

def amountOf (cs : Coins) (d : Nat) : Int :=
  match cs.find? (fun c => c.1 == d) with
  | some c => c.2
  | none => 0

/-- `request.DenomsSubsetOf(available)` -/
def denomsSubset (req avail : Coins) : Bool := req.all (fun c => avail.any (fun a => a.1 == c.1))

/-- `CalculateWithdrawAmount` of hard and savings: the request capped, coin by coin, by the record -/
def calcWithdraw (g : Guard) (avail req : Coins) : Option Coins :=
  if !denomsSubset req avail then none
  else some (req.map fun c => if condTrue g (decide (c.2 > amountOf avail c.1)) then (c.1, amountOf avail c.1) else c)

/-- `sdk.Coins.Sub`: zero coins disappear -/
def subCoins (a b : Coins) : Coins :=
  (a.map fun c => (c.1, c.2 - amountOf b c.1)).filter (fun c => c.2 != 0)

/-- per-denomination balances of all accounts -/
abbrev Bal (α : Type) := Nat → α → Int

def credit {α : Type} [DecidableEq α] (b : Bal α) (a : α) (cs : Coins) : Bal α :=
  cs.foldl (fun b c => fun d x => if d = c.1 ∧ x = a then b d x + c.2 else b d x) b

def covers (m : Nat → Int) (cs : Coins) : Bool := cs.all (fun c => c.2 ≤ m c.1)

def debit (m : Nat → Int) (cs : Coins) : Nat → Int :=
  cs.foldl (fun m c => fun d => if d = c.1 then m d - c.2 else m d) m

/-! ## pricefeed: PostPrice → GetOracle → SetPrice -/

structure Market (α : Type) where
  id : Nat
  oracles : List α

structure PF (α : Type) where
  markets : List (Market α)
  raw : Nat → α → Option (Int × Int)   -- (market, oracle) ↦ (price mantissa, expiry)
  now : Int

section pricefeed
variable {α : Type} [DecidableEq α]

/-- `GetOracles`: the oracle list of the first market with that id -/
def getOracles (s : PF α) (m : Nat) : Option (List α) :=
  (s.markets.find? (fun k => k.id == m)).map (·.oracles)

/-- `GetOracle` succeeds -/
def getOracle (s : PF α) (m : Nat) (a : α) : Bool :=
  match getOracles s m with
  | none => false
  | some os => searchHit gGetOracle os a

def postPrice (s : PF α) (signer : α) (m : Nat) (price expiry : Int) : Res (PF α) :=
  if !passes gPostPrice (getOracle s m signer) then .err
  else if !(expiry > s.now) then .err                       -- SetPrice: ErrExpired
  else .ok { s with raw := fun m' a' => if m' = m ∧ a' = signer then some (price, expiry) else s.raw m' a' }

end pricefeed

/-! ## issuance -/

structure Asset (α : Type) where
  denom : Nat
  owner : α
  blocked : List α
  paused : Bool
  blockable : Bool
  rlActive : Bool
  rlLimit : Int

structure Iss (α : Type) where
  assets : List (Asset α)
  curSupply : Nat → Option Int      -- issuance AssetSupply.CurrentSupply (none: no supply record)
  bal : Nat → α → Int               -- x/bank balances
  total : Nat → Int                 -- x/bank supply
  isModAcc : α → Bool               -- the account exists and is a module account
  hasAcc : α → Bool                 -- an account exists
  bankBlocked : α → Bool            -- x/bank refuses module→account sends to it

section issuance
variable {α : Type} [DecidableEq α]

def getAsset (s : Iss α) (d : Nat) : Option (Asset α) := s.assets.find? (fun a => a.denom == d)

def setAsset (s : Iss α) (a : Asset α) : Iss α :=
  { s with assets := s.assets.map (fun x => if x.denom == a.denom then a else x) }

/-- `removeBlockedAddress`: swap entry `i` with the last one, drop the last -/
def removeAt (l : List α) (i : Nat) : List α :=
  match l.getLast? with
  | none => l
  | some z => (l.set i z).dropLast

/-- `IncrementCurrentAssetSupply` -/
def incSupply (s : Iss α) (a : Asset α) (amt : Int) : Option (Iss α) :=
  match s.curSupply a.denom with
  | none => none
  | some cur =>
    if a.rlActive then
      if a.rlLimit < cur + amt then none
      else some { s with curSupply := upd s.curSupply a.denom (some (cur + amt)) }
    else some s

def issueTokens (s : Iss α) (signer receiver : α) (d : Nat) (amt : Int) : Res (Iss α) :=
  if amt ≤ 0 then .err else                                -- MsgIssueTokens.ValidateBasic
  match getAsset s d with
  | none => .err
  | some a =>
    if !passes gIssue (decide (signer = a.owner)) then .err
    else if a.paused then .err
    else if a.blockable && decide (receiver ∈ a.blocked) then .err
    else if s.isModAcc receiver then .err
    else
      match (if a.rlActive then incSupply s a amt else some s) with
      | none => .err
      | some s1 =>
        if s1.bankBlocked receiver then .err                -- SendCoinsFromModuleToAccount
        else .ok { s1 with bal := fun d' x => if d' = d ∧ x = receiver then s1.bal d' x + amt else s1.bal d' x,
                           total := upd s1.total d (s1.total d + amt) }

def redeemTokens (s : Iss α) (signer : α) (d : Nat) (amt : Int) : Res (Iss α) :=
  if amt ≤ 0 then .err else
  match getAsset s d with
  | none => .err
  | some a =>
    if !passes gRedeem (decide (signer = a.owner)) then .err
    else if a.paused then .err
    else if s.bal d signer < amt then .err                  -- SendCoinsFromAccountToModule
    else .ok { s with bal := fun d' x => if d' = d ∧ x = signer then s.bal d' x - amt else s.bal d' x,
                      total := upd s.total d (s.total d - amt) }

def blockAddress (s : Iss α) (signer : α) (d : Nat) (x : α) : Res (Iss α) :=
  match getAsset s d with
  | none => .err
  | some a =>
    if !a.blockable then .err
    else if !passes gBlock (decide (signer = a.owner)) then .err
    else if decide (x ∈ a.blocked) then .err
    else if !s.hasAcc x then .err
    else .ok (setAsset s { a with blocked := a.blocked ++ [x] })

def unblockAddress (s : Iss α) (signer : α) (d : Nat) (x : α) : Res (Iss α) :=
  match getAsset s d with
  | none => .err
  | some a =>
    if !a.blockable then .err
    else if !passes gUnblock (decide (signer = a.owner)) then .err
    else if !decide (x ∈ a.blocked) then .err
    else .ok (setAsset s { a with blocked := removeAt a.blocked (a.blocked.idxOf x) })

def setPauseStatus (s : Iss α) (signer : α) (d : Nat) (status : Bool) : Res (Iss α) :=
  match getAsset s d with
  | none => .err
  | some a =>
    if !passes gPause (decide (signer = a.owner)) then .err
    else if a.paused == status then .ok s
    else .ok (setAsset s { a with paused := !a.paused })

end issuance

/-! ## bep3: CreateAtomicSwap (one supported asset) -/

structure Swap (α : Type) where
  rnh : Nat            -- random number hash
  sender : α
  senderOther : Nat
  recipient : α
  amount : Int
  incoming : Bool
  expire : Nat
  timestamp : Int

structure B3 (α : Type) where
  deputy : α
  active : Bool
  minAmt : Int
  maxAmt : Int
  fee : Int
  minLock : Nat
  maxLock : Nat
  limit : Int
  timeLimited : Bool
  timeLimit : Int
  cur : Int            -- AssetSupply.CurrentSupply
  incoming : Int
  outgoing : Int
  tlCur : Int          -- TimeLimitedCurrentSupply
  isMacc : α → Bool    -- k.Maccs
  hasAcc : α → Bool
  bal : α → Int
  swaps : List (Swap α)
  now : Int            -- block time, unix seconds
  height : Nat

section bep3
variable {α : Type} [DecidableEq α]

/-- swap id = hash(randomNumberHash, sender, senderOtherChain) -/
def sameId (w : Swap α) (rnh : Nat) (sender : α) (so : Nat) : Bool :=
  w.rnh == rnh && decide (w.sender = sender) && w.senderOther == so

/-- the checks of `CreateAtomicSwap` that precede the direction decision, in the code's order -/
def preChecks (s : B3 α) (rnh : Nat) (ts : Int) (sender recipient : α) (so : Nat) (amt : Int)
    (denomOk : Bool) : Bool :=
  !(s.swaps.any (fun w => sameId w rnh sender so))           -- ErrAtomicSwapAlreadyExists
  && !s.isMacc recipient                                     -- "… is a module account"
  && denomOk                                                 -- one coin, of the supported denom
  && s.active                                                -- ValidateLiveAsset
  && !(decide (amt < s.minAmt) || decide (amt > s.maxAmt))
  && !(decide (ts < s.now - 900) || decide (ts ≥ s.now + 1800))

/-- SWAP_DIRECTION_INCOMING -/
def createIncoming (s : B3 α) (w : Swap α) : Res (B3 α) :=
  if w.recipient = s.deputy then .err
  else if s.limit < s.cur + s.incoming + w.amount then .err
  else if s.timeLimited && decide (s.timeLimit < s.tlCur + s.incoming + w.amount) then .err
  else .ok { s with hasAcc := upd s.hasAcc w.recipient true, incoming := s.incoming + w.amount,
                    swaps := { w with incoming := true } :: s.swaps }

/-- SWAP_DIRECTION_OUTGOING -/
def createOutgoing (s : B3 α) (w : Swap α) (span : Nat) : Res (B3 α) :=
  if !decide (w.recipient = s.deputy) then .err
  else if span < s.minLock || span > s.maxLock then .err
  else if w.amount ≤ s.fee + s.minAmt then .err
  else if s.cur < s.outgoing + w.amount then .err
  else if s.bal w.sender < w.amount then .err
  else .ok { s with outgoing := s.outgoing + w.amount, bal := upd s.bal w.sender (s.bal w.sender - w.amount),
                    swaps := { w with incoming := false } :: s.swaps }

def createSwap (s : B3 α) (rnh : Nat) (ts : Int) (span : Nat) (sender recipient : α) (so : Nat)
    (amt : Int) (denomOk : Bool) : Res (B3 α) :=
  if !preChecks s rnh ts sender recipient so amt denomOk then .err
  else
    let w : Swap α := { rnh := rnh, sender := sender, senderOther := so, recipient := recipient, amount := amt,
                        incoming := true, expire := s.height + span, timestamp := ts }
    -- the generated guard: true branch = INCOMING, else branch = OUTGOING
    if condTrue gBep3 (decide (sender = s.deputy)) then createIncoming s w else createOutgoing s w span

end bep3

/-! ## committee: SubmitProposal, AddVote -/

structure Committee (α : Type) where
  id : Nat
  members : List α
  isMember : Bool      -- MemberCommittee (true) or TokenCommittee (false)
  duration : Int

structure Proposal where
  id : Nat
  committee : Nat
  deadline : Int

structure Vote (α : Type) where
  proposal : Nat
  voter : α
  option : Nat         -- 1 = yes, 2 = no, 3 = abstain

structure Com (α : Type) where
  committees : List (Committee α)
  proposals : List Proposal
  votes : List (Vote α)
  nextId : Nat
  now : Int

section committee
variable {α : Type} [DecidableEq α]

def getCommittee (s : Com α) (id : Nat) : Option (Committee α) := s.committees.find? (fun c => c.id == id)
def getProposal (s : Com α) (id : Nat) : Option Proposal := s.proposals.find? (fun p => p.id == id)

/-- `BaseCommittee.HasMember` -/
def hasMember (c : Committee α) (a : α) : Bool := searchHit gHasMember c.members a

/-- `permOk`: `com.HasPermissionsFor(proposal)`; `valid`: `ValidatePubProposal` (both about the content) -/
def submitProposal (s : Com α) (signer : α) (cid : Nat) (permOk valid : Bool) : Res (Com α) :=
  match getCommittee s cid with
  | none => .err
  | some c =>
    if !passes gSubmit (hasMember c signer) then .err
    else if !permOk then .err
    else if !valid then .err
    else .ok { s with proposals := s.proposals ++ [{ id := s.nextId, committee := cid, deadline := s.now + c.duration }],
                      nextId := s.nextId + 1 }

/-- `SetVote`: one vote per (proposal, voter), overwritten -/
def setVote (vs : List (Vote α)) (v : Vote α) : List (Vote α) :=
  v :: vs.filter (fun w => !(w.proposal == v.proposal && decide (w.voter = v.voter)))

def addVote (s : Com α) (signer : α) (pid : Nat) (opt : Nat) : Res (Com α) :=
  if opt = 0 ∨ opt > 3 then .err else                        -- MsgVote.ValidateBasic
  match getProposal s pid with
  | none => .err
  | some p =>
    if !(s.now < p.deadline) then .err                      -- HasExpiredBy
    else
      match getCommittee s p.committee with
      | none => .err
      | some c =>
        if c.isMember && !passes gVote (hasMember c signer) then .err
        else if c.isMember && opt != 1 then .err
        else .ok { s with votes := setVote s.votes { proposal := pid, voter := signer, option := opt } }

end committee

/-! ## community: UpdateParams -/

structure Comm (α : Type) where
  authority : α
  params : Nat         -- the parameter set, abstract

section community
variable {α : Type} [DecidableEq α]

def updateParams (s : Comm α) (signer : α) (p : Nat) (valid : Bool) : Res (Comm α) :=
  if !passes gCommunity (decide (s.authority = signer)) then .err
  else if !valid then .err
  else .ok { s with params := p }

end community

/-! ## cdp: AddPrincipal, RepayPrincipal, WithdrawCollateral
    A CDP and the deposits on it form one record keyed by (owner, collateral type). -/

structure Cdp (α : Type) where
  collateral : Int
  principal : Int
  fees : Int
  deps : List (α × Int)      -- deposits on this CDP: (depositor, amount)

structure CdpSt (α : Type) where
  cdp : α → Nat → Option (Cdp α)     -- GetCdpByOwnerAndCollateralType
  usdx : α → Int                     -- debt-denom balances
  coll : Nat → α → Int               -- collateral balances per collateral type
  totalPrincipal : Nat → Int
  debtFloor : Int

/-- numeric routines of C04/C05, parameters here -/
structure CdpEnv (α : Type) where
  accrued : Cdp α → Int              -- SynchronizeInterest: newly accumulated fees
  drawValid : Nat → Int → Bool       -- ValidatePrincipalDraw ∧ ValidateDebtLimit
  ratioOk : Nat → Int → Int → Bool   -- collateralization ratio ≥ liquidation ratio (type, collateral, debt)
  collValid : Nat → Int → Bool       -- ValidateCollateral
  payValid : Nat → Bool              -- ValidatePaymentCoins

section cdp
variable {α : Type} [DecidableEq α]

def sync (e : CdpEnv α) (c : Cdp α) : Cdp α := { c with fees := c.fees + e.accrued c }

def setCdp (s : CdpSt α) (o : α) (t : Nat) (c : Option (Cdp α)) : CdpSt α :=
  { s with cdp := fun o' t' => if o' = o ∧ t' = t then c else s.cdp o' t' }

def drawDebt (e : CdpEnv α) (s : CdpSt α) (signer : α) (t : Nat) (p : Int) : Res (CdpSt α) :=
  let r := s.cdp signer t
  if !passes gCdpDraw r.isSome then .err else
  match r with
  | none => .err                                             -- (zero-value CDP: ValidatePrincipalDraw fails)
  | some c0 =>
    if !e.drawValid t p then .err else
    let c := sync e c0
    if !e.ratioOk t c.collateral (c.principal + p + c.fees) then .err else
    .ok { setCdp s signer t (some { c with principal := c.principal + p }) with
          usdx := upd s.usdx signer (s.usdx signer + p),
          totalPrincipal := upd s.totalPrincipal t (s.totalPrincipal t + p) }

/-- `calculatePayment`: (fee part, principal part) -/
def splitPayment (owed fees pay : Int) : Int × Int :=
  if pay ≤ 0 then (0, 0) else
  let pay := if pay > owed then owed else pay
  if fees = 0 then (0, pay)
  else if pay > fees then (fees, pay - fees) else (pay, 0)

/-- `ReturnCollateral` -/
def refund (coll : α → Int) (deps : List (α × Int)) : α → Int :=
  deps.foldl (fun b d => upd b d.1 (b d.1 + d.2)) coll

def repayDebt (e : CdpEnv α) (s : CdpSt α) (signer : α) (t : Nat) (pay : Int) : Res (CdpSt α) :=
  let r := s.cdp signer t
  if !passes gCdpRepay r.isSome then .err else
  match r with
  | none => .err
  | some c0 =>
    if !e.payValid t then .err
    else if s.usdx signer < pay then .err                    -- ValidateBalance
    else
      let c := sync e c0
      let fp := splitPayment (c.principal + c.fees) c.fees pay
      let left := c.principal - fp.2
      if left > 0 && decide (left < s.debtFloor) then .err   -- validatePrincipalPayment
      else
        let s1 := { s with usdx := upd s.usdx signer (s.usdx signer - (fp.1 + fp.2)),
                           totalPrincipal := upd s.totalPrincipal t (s.totalPrincipal t - (fp.1 + fp.2)) }
        let c1 : Cdp α := { c with principal := left, fees := c.fees - fp.1 }
        if c1.principal = 0 ∧ c1.fees = 0 then
          .ok { setCdp s1 signer t none with coll := upd s1.coll t (refund (s1.coll t) c1.deps) }
        else .ok (setCdp s1 signer t (some c1))

def depositOf (c : Cdp α) (a : α) : Option Int := (c.deps.find? (fun d => decide (d.1 = a))).map (·.2)

def setDeposit (c : Cdp α) (a : α) (v : Int) : Cdp α :=
  { c with deps := if v = 0 then c.deps.filter (fun d => !decide (d.1 = a))
                   else c.deps.map (fun d => if d.1 = a then (a, v) else d) }

/-- `WithdrawCollateral(owner, depositor, …)`: the signer is the depositor -/
def withdrawCollateral (e : CdpEnv α) (s : CdpSt α) (owner signer : α) (t : Nat) (x : Int) : Res (CdpSt α) :=
  if !e.collValid t x then .err else
  let r := s.cdp owner t
  if !passes gCdpWdCdp r.isSome then .err else
  match r with
  | none => .err
  | some c0 =>
    let dep := depositOf c0 signer
    if !passes gCdpWdDep dep.isSome then .err else
    let d := dep.getD 0
    if !passes gCdpWdCap (decide (x > d)) then .err else
    let c := sync e c0
    if !e.ratioOk t (c.collateral - x) (c.principal + c.fees) then .err else
    .ok { setCdp s owner t (some (setDeposit { c with collateral := c.collateral - x } signer (d - x))) with
          coll := upd s.coll t (upd (s.coll t) signer (s.coll t signer + x)) }

end cdp

/-! ## hard: Withdraw -/

structure Hard (α : Type) where
  dep : α → Option Coins
  bor : α → Option Coins
  supplied : Nat → Int
  modBal : Nat → Int
  bal : Bal α
  bankBlocked : α → Bool

structure HardEnv (α : Type) where
  syncDep : α → Coins → Coins        -- SyncSupplyInterest on that depositor's deposit
  syncBor : α → Coins → Coins        -- SyncBorrowInterest on that depositor's borrow
  ltvOk : Coins → Coins → Bool       -- IsWithinValidLtvRange(proposed deposit, borrow) without error

section hard
variable {α : Type} [DecidableEq α]

def hardWithdraw (e : HardEnv α) (s : Hard α) (signer : α) (req : Coins) : Res (Hard α) :=
  let r := s.dep signer
  if !passes gHard r.isSome then .err else
  let avail := e.syncDep signer (r.getD [])
  let borrow := (s.bor signer).map (e.syncBor signer)
  match calcWithdraw gHardCap avail req with
  | none => .err
  | some amt =>
    let rest := subCoins avail amt
    if !e.ltvOk rest (borrow.getD []) then .err
    else if s.bankBlocked signer || !covers s.modBal amt then .err
    else .ok { s with dep := upd s.dep signer (if rest.isEmpty then none else some rest),
                      bor := upd s.bor signer borrow,
                      supplied := fun d => if s.supplied d < amountOf amt d then 0 else s.supplied d - amountOf amt d,
                      modBal := debit s.modBal amt,
                      bal := credit s.bal signer amt }

end hard

/-! ## savings: Withdraw -/

structure Sav (α : Type) where
  dep : α → Option Coins
  modBal : Nat → Int
  bal : Bal α
  bankBlocked : α → Bool

section savings
variable {α : Type} [DecidableEq α]

def savWithdraw (s : Sav α) (signer : α) (req : Coins) : Res (Sav α) :=
  let r := s.dep signer
  if !passes gSavings r.isSome then .err else
  let avail := r.getD []
  match calcWithdraw gSavingsCap avail req with
  | none => .err
  | some amt =>
    if s.bankBlocked signer || !covers s.modBal amt then .err
    else
      let rest := subCoins avail amt
      .ok { s with dep := upd s.dep signer (if rest.isEmpty then none else some rest),
                   modBal := debit s.modBal amt,
                   bal := credit s.bal signer amt }

end savings

/-! ## swap: Withdraw -/

structure Pool where
  resA : Int
  resB : Int
  total : Int

structure SwapSt (α : Type) where
  shares : α → Nat → Option Int      -- GetDepositorShares(owner, poolID)
  pool : Nat → Option Pool
  balA : Nat → α → Int               -- per pool: balances of its two denominations
  balB : Nat → α → Int

section swap
variable {α : Type} [DecidableEq α]

def swapWithdraw (s : SwapSt α) (signer : α) (p : Nat) (sh minA minB : Int) : Res (SwapSt α) :=
  let r := s.shares signer p
  if !passes gSwap r.isSome then .err else
  let owned := r.getD 0
  if !passes gSwapCap (decide (sh > owned)) then .err else
  match s.pool p with
  | none => .panic
  | some q =>
    if q.total ≤ 0 then .panic else
    let a := q.resA * sh / q.total                           -- RemoveLiquidity (big.Int Quo, all non-negative)
    let b := q.resB * sh / q.total
    if a = 0 ∨ b = 0 then .err
    else if a < minA ∨ b < minB then .err
    else
      let q' : Pool := { resA := q.resA - a, resB := q.resB - b, total := q.total - sh }
      .ok { s with pool := upd s.pool p (if q'.total = 0 then none else some q'),
                   shares := fun o p' => if o = signer ∧ p' = p then (if owned - sh = 0 then none else some (owned - sh)) else s.shares o p',
                   balA := upd s.balA p (upd (s.balA p) signer (s.balA p signer + a)),
                   balB := upd s.balB p (upd (s.balB p) signer (s.balB p signer + b)) }

end swap

/-! ## earn: Withdraw -/

structure Earn (α : Type) where
  shares : α → Option Coins          -- VaultShareRecord (share mantissas per vault denom)
  totalShares : Nat → Int
  bal : Bal α
  bankBlocked : α → Bool

structure EarnEnv (α : Type) where
  vaultOk : Nat → Nat → Bool         -- allowed vault ∧ strategy allowed ∧ vault record exists
  toShares : Nat → Int → Int         -- ConvertToShares
  toAssets : Nat → Int → Int         -- ConvertToAssets
  valueOf : Nat → α → Int            -- GetVaultAccountValue
  stratOk : Nat → Int → Bool         -- strategy.Withdraw succeeds
  isDust : Nat → Int → Bool          -- ShareIsDust

section earn
variable {α : Type} [DecidableEq α]

def earnWithdraw (e : EarnEnv α) (s : Earn α) (signer : α) (d : Nat) (want : Int) (strat : Nat) : Res (Earn α) :=
  if !e.vaultOk d strat then .err
  else if want = 0 then .err else
  let r := s.shares signer
  if !passes gEarn r.isSome then .err else
  let rec_ := r.getD []
  let wsh := e.toShares d want
  let curSh := amountOf rec_ d
  if !passes gEarnCap (decide (curSh < wsh)) then .err else
  let amt := e.toAssets d wsh
  if amt > e.valueOf d signer then .err
  else if !e.stratOk d amt then .err
  else if s.bankBlocked signer then .err
  else
    let wsh' := if e.isDust d (curSh - wsh) then curSh else wsh
    let rest := subCoins rec_ [(d, wsh')]
    .ok { s with shares := upd s.shares signer (if rest.isEmpty then none else some rest),
                 totalShares := upd s.totalShares d (s.totalShares d - wsh'),
                 bal := credit s.bal signer [(d, amt)] }

end earn

end KV.Authz
