/-
  Model of the time-locked reward payout (property C20), transcribed branch by branch from
    /repo/x/incentive/keeper/payout.go   SendTimeLockedCoinsToAccount (+ …ToPeriodicVestingAccount,
                                         …ToBaseAccount), addCoinsToVestingSchedule, GetPeriodLength
    cosmos-sdk x/auth/vesting/types      PeriodicVestingAccount.GetVestedCoins / GetVestingCoins /
                                         LockedCoins, BaseVestingAccount.LockedCoinsFromVesting
    cosmos-sdk x/bank/keeper/view.go     spendableCoins
  Times and lengths are Unix seconds (`ctx.BlockTime().Unix()`), `Int`.  Amounts are `sdkmath.Int = Int`.
  `Coins = Nat → Int` maps a denom index to an amount (0 = absent); `sdk.Coins.Add/Sub/Min` are
  pointwise.  Every branch of the schedule code is chosen by comparing times only, never amounts, so the
  model is the same function for every denom; theorems are stated per denom `d`.
  Core Lean only.
-/
import KavaVerif.Generated.Consts

namespace KV.Vest

/-! ## Coins -/

abbrev Denom := Nat
abbrev Coins := Denom → Int

/-- size of the denom universe used by the *decidable* checks (`IsAllGTE`, `SafeSub` hasNeg) -/
def ND : Nat := 4

def Coins.zero : Coins := fun _ => 0
def Coins.add (a b : Coins) : Coins := fun d => a d + b d
def Coins.sub (a b : Coins) : Coins := fun d => a d - b d
def Coins.min (a b : Coins) : Coins := fun d => if a d ≤ b d then a d else b d

/-- `a.IsAllGTE(b)` over the denom universe -/
def isAllGTE (a b : Coins) : Bool := (List.range ND).all fun d => decide (b d ≤ a d)

/-! ## Periodic vesting account (x/auth/vesting) -/

structure Period where
  length : Int
  amount : Coins

structure PVA where
  start : Int
  endT : Int
  ov : Coins              -- BaseVestingAccount.OriginalVesting
  dv : Coins              -- BaseVestingAccount.DelegatedVesting
  periods : List Period

def totalLen : List Period → Int
  | [] => 0
  | p :: ps => p.length + totalLen ps

def totalAmt : List Period → Coins
  | [] => fun _ => 0
  | p :: ps => fun d => p.amount d + totalAmt ps d

/-- the loop of `GetVestedCoins`: `cur` = currentPeriodStartTime; stops at the first unfinished period -/
def vestedFrom (cur : Int) : List Period → Int → Coins
  | [], _ => fun _ => 0
  | p :: ps, t => fun d => if t - cur < p.length then 0 else p.amount d + vestedFrom (cur + p.length) ps t d

/-- `PeriodicVestingAccount.GetVestedCoins(t)` -/
def vested (a : PVA) (t : Int) : Coins := fun d =>
  if t ≤ a.start then 0
  else if t ≥ a.endT then a.ov d
  else vestedFrom a.start a.periods t d

/-- `GetVestingCoins(t) = OriginalVesting − GetVestedCoins(t)` -/
def vesting (a : PVA) (t : Int) : Coins := fun d => a.ov d - vested a t d

/-- `LockedCoins(t) = vesting − min(vesting, DelegatedVesting)` -/
def locked (a : PVA) (t : Int) : Coins := fun d =>
  vesting a t d - Coins.min (vesting a t) a.dv d

/-- x/bank `spendableCoins`: `total.SafeSub(locked)`; if any denom would be negative everything is unspendable -/
def spendable (bal lockedC : Coins) : Coins := fun d =>
  if (List.range ND).any (fun e => decide (bal e < lockedC e)) then 0 else bal d - lockedC d

/-- every period length is positive (what `MsgCreatePeriodicVestingAccount.ValidateBasic` demands) -/
def allPos : List Period → Prop
  | [] => True
  | p :: ps => 0 < p.length ∧ allPos ps

/-- A well-formed periodic vesting account: `PeriodicVestingAccount.Validate()` (start before end, period
    lengths sum to end − start, period amounts sum to the original vesting) plus positive lengths. -/
structure WF (a : PVA) : Prop where
  startLtEnd : a.start < a.endT
  pos : allPos a.periods
  lenSum : totalLen a.periods = a.endT - a.start
  amtSum : ∀ d, totalAmt a.periods d = a.ov d

/-! ## addCoinsToVestingSchedule -/

/-- "edge case two": the first period is lengthened by `k = StartTime − now` -/
def bumpFirst (k : Int) : List Period → List Period
  | [] => []
  | p :: ps => { p with length := k + p.length } :: ps

/-- The insertion loop (`for _, period := range vacc.VestingPeriods`), `cnt` = lengthCounter before this
    period = total length of `newPeriods` so far, `target = elapsedTime + length`. After the period that
    receives the coins the rest is appended unchanged (`appendRemaining`). -/
def ins (cnt target : Int) (amt : Coins) : List Period → List Period
  | [] => []
  | p :: ps =>
    if cnt + p.length < target then p :: ins (cnt + p.length) target amt ps
    else if cnt + p.length = target then ⟨p.length, Coins.add p.amount amt⟩ :: ps
    else ⟨target - cnt, amt⟩ :: ⟨p.length - (target - cnt), p.amount⟩ :: ps

/-- `addCoinsToVestingSchedule(ctx, addr, amt, length)` on the stored account, `now = ctx.BlockTime().Unix()` -/
def addCoins (now : Int) (a : PVA) (amt : Coins) (length : Int) : PVA :=
  let ov' := Coins.add a.ov amt
  if a.endT < now then
    -- edge case one: every period has completed; append one period reaching to now+length
    { a with ov := ov', periods := a.periods ++ [⟨(now - a.endT) + length, amt⟩], endT := now + length }
  else
    -- edge case two: not started yet; move the start to now, lengthen the first period
    let periods1 := if a.start > now then bumpFirst (a.start - now) a.periods else a.periods
    let start1 := if a.start > now then now else a.start
    let remaining := a.endT - now
    let elapsed := now - start1
    if remaining < length then
      { a with ov := ov', start := start1, periods := periods1 ++ [⟨length - remaining, amt⟩],
               endT := now + length }
    else
      { a with ov := ov', start := start1, periods := ins 0 (elapsed + length) amt periods1 }

/-- a history of payouts to one account: block time, coins, lock-up length of each -/
structure Claim where
  now : Int
  amt : Coins
  length : Int

def applyClaims (a : PVA) : List Claim → PVA
  | [] => a
  | c :: cs => applyClaims (addCoins c.now a c.amt c.length) cs

/-- coins of the history `cs` that are still inside their lock-up at time `t` -/
def stillLocked (t : Int) : List Claim → Coins
  | [] => fun _ => 0
  | c :: cs => fun d => (if t < c.now + c.length then c.amt d else 0) + stillLocked t cs d

/-! ## SendTimeLockedCoinsToAccount -/

/-- what `accountKeeper.GetAccount(recipient)` returns, by Go type -/
inductive Acct where
  | none                    -- no account
  | base                    -- *authtypes.BaseAccount
  | periodic (a : PVA)      -- *vestingtypes.PeriodicVestingAccount
  | continuous              -- *vestingtypes.ContinuousVestingAccount
  | delayed                 -- *vestingtypes.DelayedVestingAccount
  | permanent               -- *vestingtypes.PermanentLockedAccount
  | module                  -- authtypes.ModuleAccountI
  | other                   -- any other implementation (e.g. ethermint EthAccount)

structure World where
  modBal : Coins            -- balances of the sender module account (incentive → kavadist)
  bal : Coins               -- balances of the recipient
  acct : Acct               -- the recipient's account
  blocked : Bool            -- x/bank BlockedAddr(recipient)

inductive Res where
  | ok (w : World)
  | err                     -- ordinary error: rolled back by baseapp
  | panic
deriving Inhabited

def Res.isOk : Res → Bool
  | .ok _ => true
  | _ => false

/-- `bankKeeper.SendCoinsFromModuleToAccount`: refused for blocked recipients; the module account has no
    locked coins and sufficiency was checked by the caller (`IsAllGTE`) -/
def bankSend (w : World) (amt : Coins) : Res :=
  if w.blocked then .err
  else if !isAllGTE w.modBal amt then .err
  else .ok { w with modBal := Coins.sub w.modBal amt, bal := Coins.add w.bal amt }

/-- `SendTimeLockedCoinsToBaseAccount`: `NewBaseVestingAccount(bacc, amt, now+length)` (delegated coins
    empty) wrapped by `NewPeriodicVestingAccountRaw(bva, now, {Period{amt, length}})` -/
def newPVA (now : Int) (amt : Coins) (length : Int) : PVA :=
  { start := now, endT := now + length, ov := amt, dv := fun _ => 0, periods := [⟨length, amt⟩] }

def Acct.isNone : Acct → Bool
  | .none => true
  | _ => false

/-- `SendTimeLockedCoinsToAccount(ctx, IncentiveMacc, recipient, amt, length)` in the code's order -/
def sendTimeLocked (now : Int) (w : World) (amt : Coins) (length : Int) : Res :=
  if !isAllGTE w.modBal amt then .err                 -- ErrInsufficientModAccountBalance
  else if w.acct.isNone then .err                      -- ErrAccountNotFound
  else if length = 0 then bankSend w amt
  else match w.acct with
    | .continuous => .err                              -- ErrInvalidAccountType
    | .module => .err
    | .periodic a =>
      match bankSend w amt with
      | .ok w1 => .ok { w1 with acct := .periodic (addCoins now a amt length) }
      | r => r
    | .base =>
      match bankSend w amt with
      | .ok w1 => .ok { w1 with acct := .periodic (newPVA now amt length) }
      | r => r
    | _ => .err                                        -- default: ErrInvalidAccountType

/-- recipients that can receive a payout with a lock-up -/
def Acct.lockable : Acct → Bool
  | .base => true
  | .periodic _ => true
  | _ => false

/-- the account the recipient holds after a successful payout with a lock-up -/
def Acct.after (now : Int) (amt : Coins) (length : Int) : Acct → Acct
  | .base => .periodic (newPVA now amt length)
  | .periodic a => .periodic (addCoins now a amt length)
  | k => k

/-- vesting (still-locked-by-schedule) coins of a recipient of any modelled kind; only periodic vesting
    accounts are produced/changed by the payout, other kinds carry no periodic schedule -/
def Acct.vesting : Acct → Int → Coins
  | .periodic a, t => KV.Vest.vesting a t
  | _, _ => fun _ => 0

def Acct.locked : Acct → Int → Coins
  | .periodic a, t => KV.Vest.locked a t
  | _, _ => fun _ => 0

/-! ## The keeper's own context after the call (no transaction rollback)

`sendTimeLocked` above answers `.err` without a post-state: a failed message is rolled back by baseapp.
The property, however, says that an over-balance payout is "refused without moving funds", which is a
statement about what the keeper call itself leaves behind.  The functions below return the world the
keeper's own context holds after the call together with the success flag.  The bank is modelled as it
is written: `SendCoins` = `subUnlockedCoins` (sender, coin by coin in denom order, every new balance is
stored before the next coin is looked at; the first uncovered coin aborts with `ErrInsufficientFunds` and
the earlier debits stay) followed by `addCoins` (recipient).  Consequently "a refusal moves nothing" is
a theorem about the *up-front guard over all denoms* of `SendTimeLockedCoinsToAccount`, not about the bank. -/

/-- `setBalance(addr, denom d := v)` -/
def Coins.set (c : Coins) (d : Denom) (v : Int) : Coins := fun e => if e = d then v else c e

/-- x/bank `subUnlockedCoins` on the sending module account (it has no locked coins): the loop over the
    denoms `d, d+1, …, d+n-1` of `amt` (an absent denom is amount 0: debiting 0 changes nothing).
    Result: the balances left in the context and whether the loop ran to its end. -/
def subUnlockedFrom (amt : Coins) : Denom → Nat → Coins → Coins × Bool
  | _, 0, bal => (bal, true)
  | d, n + 1, bal =>
    if bal d < amt d then (bal, false)                                    -- ErrInsufficientFunds, earlier writes stay
    else subUnlockedFrom amt (d + 1) n (bal.set d (bal d - amt d))

/-- `bankKeeper.SendCoinsFromModuleToAccount` as the keeper's context sees it: blocked recipients are
    refused before anything is touched; otherwise the sender is debited coin by coin and only after the
    whole debit succeeded the recipient is credited. -/
def bankSendK (w : World) (amt : Coins) : World × Bool :=
  if w.blocked then (w, false)
  else
    let r := subUnlockedFrom amt 0 ND w.modBal
    if r.2 then ({ w with modBal := r.1, bal := Coins.add w.bal amt }, true)
    else ({ w with modBal := r.1 }, false)

/-- `SendTimeLockedCoinsToAccount` in the code's order, returning the keeper's own context after the call
    (first component) and whether it returned `nil` (second component) -/
def sendTimeLockedK (now : Int) (w : World) (amt : Coins) (length : Int) : World × Bool :=
  if !isAllGTE w.modBal amt then (w, false)            -- ErrInsufficientModAccountBalance, nothing touched yet
  else if w.acct.isNone then (w, false)                 -- ErrAccountNotFound
  else if length = 0 then bankSendK w amt
  else match w.acct with
    | .continuous => (w, false)                         -- ErrInvalidAccountType
    | .module => (w, false)
    | .periodic a =>
      let r := bankSendK w amt
      if r.2 then ({ r.1 with acct := .periodic (addCoins now a amt length) }, true) else r
    | .base =>
      let r := bankSendK w amt
      if r.2 then ({ r.1 with acct := .periodic (newPVA now amt length) }, true) else r
    | _ => (w, false)                                   -- default: ErrInvalidAccountType

/-! ## Civil calendar (proleptic Gregorian, UTC) and GetPeriodLength -/

namespace Cal

structure YMD where
  y : Int
  m : Int
  d : Int
deriving DecidableEq, Repr

/-- days from 1 March of year 0 to 1 March of (March-based) year `Y`: ⌊146097·C/4⌋ + ⌊1461·Z/4⌋ -/
def yearStart (Y : Int) : Int := 146097 * (Y / 100) / 4 + 1461 * (Y % 100) / 4

/-- days from 1 March to the first of March-based month `mp` (0 = March … 11 = February) -/
def monthStart (mp : Int) : Int := (153 * mp + 2) / 5

/-- days since 1970-01-01 of the civil date y-m-d (what `time.Date(y,m,d,…,UTC).Unix()/86400` is) -/
def daysFromCivil (y m d : Int) : Int :=
  let Y := if m ≤ 2 then y - 1 else y
  let mp := if m ≤ 2 then m + 9 else m - 3
  yearStart Y + monthStart mp + (d - 1) - 719468

/-- civil date of a day number (what `t.Date()` returns): Euclidean-affine chain century → year → month -/
def civilFromDays (z : Int) : YMD :=
  let N := z + 719468
  let C := (4 * N + 3) / 146097
  let NC := (4 * N + 3) % 146097 / 4
  let Z := (4 * NC + 3) / 1461
  let NY := (4 * NC + 3) % 1461 / 4
  let mp := (5 * NY + 2) / 153
  let d0 := (5 * NY + 2) % 153 / 5
  let Y := 100 * C + Z
  let m := if mp < 10 then mp + 3 else mp - 9
  ⟨if m ≤ 2 then Y + 1 else Y, m, d0 + 1⟩

/-- Gregorian leap-year rule and month lengths (used only in theorem statements) -/
abbrev isLeap (y : Int) : Prop := y % 4 = 0 ∧ (y % 100 ≠ 0 ∨ y % 400 = 0)

def daysInMonth (y m : Int) : Int :=
  if m = 2 then (if isLeap y then 29 else 28)
  else if m = 4 ∨ m = 6 ∨ m = 9 ∨ m = 11 then 30 else 31

/-- `time.Date(y, m, d, …)` month normalisation (`norm(year, month-1, 12)`), day assumed in range -/
def normMonth (y m : Int) : Int × Int := (y + (m - 1) / 12, (m - 1) % 12 + 1)

abbrev BeginningOfMonth : Int := KV.Gen.incentiveBeginningOfMonth
abbrev MidMonth : Int := KV.Gen.incentiveMidMonth
abbrev PaymentHour : Int := KV.Gen.incentivePaymentHour

inductive LenRes where
  | ok (len : Int)
  | panic
deriving DecidableEq, Repr

/-- `currentDay < MidMonth || (currentDay == MidMonth && blockTime.Hour() < PaymentHour)` -/
def isEarly (day hour : Int) : Bool :=
  decide (day < MidMonth) || (decide (day = MidMonth) && decide (hour < PaymentHour))

/-- the pay day of the month chosen for block time `now` -/
def payDayOf (now : Int) : Int :=
  if isEarly (civilFromDays (now / 86400)).d (now % 86400 / 3600) then MidMonth else BeginningOfMonth

/-- the extra month when this month's mid-month pay date has passed -/
def payOffOf (now : Int) : Int :=
  if isEarly (civilFromDays (now / 86400)).d (now % 86400 / 3600) then 0 else 1

/-- civil (year, month) `months + offset` months after the block time's month -/
def payMonthOf (now months : Int) : Int × Int :=
  normMonth (civilFromDays (now / 86400)).y ((civilFromDays (now / 86400)).m + (months + payOffOf now))

/-- Unix time of the pay date chosen by `GetPeriodLength(blockTime, months)`, `months > 0`:
    `time.Date(year, month, payDay, PaymentHour, 0,0,0, UTC).AddDate(0, months+offset, 0).Unix()` -/
def payDate (now months : Int) : Int :=
  let c := civilFromDays (now / 86400)
  let early := isEarly c.d (now % 86400 / 3600)
  let payDay := if early then MidMonth else BeginningOfMonth
  let off : Int := if early then 0 else 1
  -- time.Date(...) builds the instant; AddDate reads its civil date back …
  let c0 := civilFromDays (daysFromCivil c.y c.m payDay)
  -- … and calls Date(year, month + months, day, hour, …), which normalises the month
  let ym := normMonth c0.y (c0.m + (months + off))
  daysFromCivil ym.1 ym.2 c0.d * 86400 + PaymentHour * 3600

/-- `GetPeriodLength(blockTime, monthsLockup)`, `now = blockTime.Unix()` (blockTime is UTC) -/
def getPeriodLength (now months : Int) : LenRes :=
  if months < 0 then .panic
  else if months = 0 then .ok 0
  else .ok (payDate now months - now)

end Cal

end KV.Vest
