/-
  Model of x/liquid, part 2: the MESSAGE MsgBurnDerivative{sender, validator, amount coin}.

  `KV.Liquid.burn` (Model/Liquid.lean) is `keeper.BurnDerivative` after its first statement, on the slice stored
  under ONE validator address — it takes for granted that the coin burnt is that validator's derivative.  The
  message has two independent fields: the validator it names and the denom of the coin.  The first statement of
  `BurnDerivative`,

      if amount.Denom != k.GetLiquidStakingTokenDenom(valAddr) { return ErrInvalidDenom }

  is what ties them.  Here the denom is a parameter: `burnMsg` (one slice, `denomOk` = the comparison above),
  `stepBurn` (the chain: named validator `v`, coin denom `dn`) and — for the statement of what the guard is
  for — `burnUnguarded`, the same message WITHOUT the comparison (coins of validator `a` are burnt, shares of the
  module's delegation to validator `v` are handed out).  Core Lean only.
-/
import KavaVerif.Model.Liquid

namespace KV.Liquid

/-- the denom of the coin in MsgBurnDerivative -/
inductive CoinDenom where
  /-- `bkava-<address of validator a>` (whether or not a validator is stored under that address) -/
  | deriv (a : Nat)
  /-- anything else: the bond denom, `bkava` without an address, another module's coin -/
  | other
deriving DecidableEq, Repr

/-- `keeper.BurnDerivative(holder d, validator of the slice c, coin)`;
    `denomOk` = `amount.Denom == GetLiquidStakingTokenDenom(valAddr)` -/
def burnMsg (g : Cfg) (M : Addr) (c : VSt) (d : Addr) (denomOk : Bool) (amount : Int) : Res (VSt × Dec) :=
  if denomOk = false then .err else burn g M c d amount

/-- MsgBurnDerivative on the chain: sender `d`, validator field `v`, coin `amount` of denom `dn` -/
def stepBurn (g : Cfg) (M : Addr) (s : Chain) (d v : Nat) (dn : CoinDenom) (amount : Int) : Res Chain :=
  if d = M then .err else liftV s v (burnMsg g M (s v) d (decide (dn = .deriv v)) amount)

/-- the message WITHOUT the denom comparison (NOT the code: the statement of what the guard prevents): `amount`
    units of validator `a`'s derivative are burnt from `d`, then `amount` shares of the module's delegation to the
    NAMED validator `v` are transferred to `d`. -/
def burnUnguarded (g : Cfg) (M : Addr) (s : Chain) (d a v : Nat) (amount : Int) : Res Chain :=
  if d = M then .err
  else if amount < 0 then .panic
  else if (s a).bal d < amount then .err
  else
    let ca := { s a with bal := updI (s a).bal d ((s a).bal d - amount), supply := (s a).supply - amount }
    let s1 := updC s a ca
    liftV s1 v (transfer g (s1 v) M d (Dec.ofInt amount))

/-- histories of MESSAGES: `Op` plus the burn message with its two independent fields -/
inductive MOp where
  | burnCoin (d v : Nat) (dn : CoinDenom) (amount : Int)
  | plain (op : Op)

def stepM (g : Cfg) (M : Addr) (s : Chain) : MOp → Res Chain
  | .burnCoin d v dn a => stepBurn g M s d v dn a
  | .plain op => step g M s op

/-- as `run`: a failed message leaves the state unchanged, a panic aborts -/
def runM (g : Cfg) (M : Addr) : Chain → List MOp → Option Chain
  | s, [] => some s
  | s, op :: ops =>
    match stepM g M s op with
    | .ok s' => runM g M s' ops
    | .err => runM g M s ops
    | .panic => none

/-- the `Op` a message amounts to; a burn whose coin is not the named validator's derivative amounts to nothing -/
def MOp.toOp : MOp → Option Op
  | .burnCoin d v dn a => if dn = .deriv v then some (.burn d v a) else none
  | .plain op => some op

end KV.Liquid
