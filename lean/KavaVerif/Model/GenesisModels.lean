/-
  C14 — genesis export / import of the simple modules: precisebank, savings, swap, bep3.

  Small self-contained models of `x/<m>/genesis.go` (`InitGenesis`, `ExportGenesis`) and
  `x/<m>/types/genesis.go` (`Validate`): what is iterated, what is validated, which indexes are rebuilt.
  A KV store is modelled as an association list kept in key order (`Store.set` = ordered insert / replace),
  so "export iterates the store" is the list itself and "import writes record after record" is a fold of
  `set`. Derived indexes are functions of the primary records. Core Lean only.
-/
import KavaVerif.Generated.Consts

namespace KV.Gx

/-! ### ordered stores -/

/-- write `k ↦ v` into a store kept in ascending key order -/
def set {V : Type} : List (Nat × V) → Nat → V → List (Nat × V)
  | [], k, v => [(k, v)]
  | (k', v') :: r, k, v =>
    if k = k' then (k, v) :: r
    else if k < k' then (k, v) :: (k', v') :: r
    else (k', v') :: set r k v

/-- import: write the records one after the other into an empty store -/
def fromList {V : Type} (l : List (Nat × V)) : List (Nat × V) := l.foldl (fun st kv => set st kv.1 kv.2) []

/-- keys strictly ascending (what iterating a store yields) -/
def Sorted {V : Type} (l : List (Nat × V)) : Prop := l.Pairwise (fun a b => a.1 < b.1)

def keys {V : Type} (l : List (Nat × V)) : List Nat := l.map (·.1)

/-- duplicate check of the `Validate` functions (a `map[key]bool` of seen keys) -/
def noDup (l : List Nat) : Bool :=
  match l with
  | [] => true
  | x :: xs => !xs.contains x && noDup xs

def sumInt (l : List Int) : Int := l.foldl (· + ·) 0

/-! ### precisebank (x/precisebank/genesis.go, types/genesis.go) -/

/-- the conversion factor regenerated from the source -/
def C : Int := KV.Gen.pbConversionFactor

structure PBState where
  /-- fractional balances, in store order: account ↦ amount -/
  frac : List (Nat × Int)
  rem : Int
deriving DecidableEq, Repr

structure PBGenesis where
  balances : List (Nat × Int)
  remainder : Int
deriving DecidableEq, Repr

/-- `ExportGenesis`: IterateFractionalBalances, GetRemainderAmount -/
def pbExport (s : PBState) : PBGenesis := ⟨s.frac, s.rem⟩

def pbTotal (g : PBGenesis) : Int := sumInt (g.balances.map (·.2)) + g.remainder

/-- `GenesisState.Validate`: every balance in (0, C), no duplicate address, remainder in [0, C),
    sum of balances + remainder a multiple of C -/
def pbValidate (g : PBGenesis) : Bool :=
  g.balances.all (fun b => decide (0 < b.2) && decide (b.2 < C)) && noDup (keys g.balances) &&
  decide (0 ≤ g.remainder) && decide (g.remainder < C) && decide (pbTotal g % C = 0)

/-- `InitGenesis` with `reserve` = the module account's ukava balance set by the bank genesis:
    validate, compare the reserve with the total, then write balances and remainder -/
def pbInit (g : PBGenesis) (reserve : Int) : Option PBState :=
  if !pbValidate g then none
  else if pbTotal g != reserve * C then none
  else some ⟨fromList g.balances, g.remainder⟩

/-- state invariant of C03 restricted to what genesis sees (`reserve` is x/bank state) -/
def PBInv (s : PBState) (reserve : Int) : Prop :=
  Sorted s.frac ∧ (∀ b ∈ s.frac, 0 < b.2 ∧ b.2 < C) ∧ 0 ≤ s.rem ∧ s.rem < C ∧
  reserve * C = sumInt (s.frac.map (·.2)) + s.rem

/-! ### savings (x/savings/genesis.go) -/

abbrev Coins := List (Nat × Int)

/-- `sdk.Coins.IsValid`: denoms strictly ascending, amounts positive -/
def coinsValid (c : Coins) : Bool :=
  c.all (fun x => decide (0 < x.2)) &&
  (match c with
   | [] => true
   | _ :: t => (c.zip t).all (fun p => decide (p.1.1 < p.2.1)))

structure SavState where
  denoms : List Nat                 -- params.SupportedDenoms
  deposits : List (Nat × Coins)     -- depositor ↦ amount, store order
deriving DecidableEq, Repr

structure SavGenesis where
  denoms : List Nat
  deposits : List (Nat × Coins)
deriving DecidableEq, Repr

def savExport (s : SavState) : SavGenesis := ⟨s.denoms, s.deposits⟩

/-- `GenesisState.Validate`: params (no duplicate denom), every deposit valid, no duplicate depositor -/
def savValidate (g : SavGenesis) : Bool :=
  noDup g.denoms && g.deposits.all (fun d => coinsValid d.2) && noDup (keys g.deposits)

def savInit (g : SavGenesis) : Option SavState :=
  if !savValidate g then none else some ⟨g.denoms, fromList g.deposits⟩

def SavInv (s : SavState) : Prop :=
  noDup s.denoms = true ∧ Sorted s.deposits ∧ ∀ d ∈ s.deposits, coinsValid d.2 = true

/-! ### swap (x/swap/genesis.go) -/

structure Pool where
  resA : Int
  resB : Int
  total : Int
deriving DecidableEq, Repr

structure SwapState where
  pools : List (Nat × Pool)           -- pool id ↦ record
  /-- share records keyed by depositor ‖ pool id (one key space), value = (pool id, shares owned) -/
  shares : List (Nat × (Nat × Int))
deriving DecidableEq, Repr

structure SwapGenesis where
  pools : List (Nat × Pool)
  shares : List (Nat × (Nat × Int))
deriving DecidableEq, Repr

def swapExport (s : SwapState) : SwapGenesis := ⟨s.pools, s.shares⟩

/-- shares owned in pool `p` summed over the share records -/
def ownedIn (shares : List (Nat × (Nat × Int))) (p : Nat) : Int :=
  sumInt ((shares.filter (fun s => s.2.1 == p)).map (·.2.2))

/-- `GenesisState.Validate`: pool records valid and unique, share records valid and unique, and for every
    pool id appearing in either list the pool's total shares equal the depositors' shares
    (a share record of an unknown pool compares a positive amount with zero and is rejected) -/
def swapValidate (g : SwapGenesis) : Bool :=
  g.pools.all (fun p => decide (0 < p.2.resA) && decide (0 < p.2.resB) && decide (0 < p.2.total)) &&
  noDup (keys g.pools) &&
  g.shares.all (fun s => decide (0 < s.2.2)) && noDup (keys g.shares) &&
  g.pools.all (fun p => decide (p.2.total = ownedIn g.shares p.1)) &&
  g.shares.all (fun s => (keys g.pools).contains s.2.1)

def swapInit (g : SwapGenesis) : Option SwapState :=
  if !swapValidate g then none else some ⟨fromList g.pools, fromList g.shares⟩

/-- the module's state invariant (C07: pool-records, share-records, pool-shares routes) -/
def SwapInv (s : SwapState) : Prop :=
  Sorted s.pools ∧ Sorted s.shares ∧
  (∀ p ∈ s.pools, 0 < p.2.resA ∧ 0 < p.2.resB ∧ 0 < p.2.total ∧ p.2.total = ownedIn s.shares p.1) ∧
  (∀ sh ∈ s.shares, 0 < sh.2.2 ∧ sh.2.1 ∈ keys s.pools)

/-! ### bep3 (x/bep3/genesis.go), one asset -/

inductive Status | open_ | completed | expired
deriving DecidableEq, Repr

structure Swap where
  incoming : Bool
  status : Status
  amount : Int
  expireHeight : Nat
  closedBlock : Nat
deriving DecidableEq, Repr

structure Supply where
  incoming : Int
  outgoing : Int
  current : Int
deriving DecidableEq, Repr

structure Bep3State where
  swaps : List (Nat × Swap)             -- swap id ↦ swap (primary records)
  byBlock : List (Nat × Nat)            -- derived: (expire height, id) of open swaps
  longterm : List (Nat × Nat)           -- derived: (closed block, id) of completed swaps
  supply : Supply
  limit : Int
  prevBlockTime : Int
deriving DecidableEq, Repr

structure Bep3Genesis where
  swaps : List (Nat × Swap)
  supply : Supply
  limit : Int
  prevBlockTime : Int
deriving DecidableEq, Repr

/-- `ExportGenesis`: params, GetAllAtomicSwaps, GetAllAssetSupplies, previous block time — no index is exported -/
def bep3Export (s : Bep3State) : Bep3Genesis := ⟨s.swaps, s.supply, s.limit, s.prevBlockTime⟩

/-- the by-block index as a function of the primary records -/
def byBlockOf (swaps : List (Nat × Swap)) : List (Nat × Nat) :=
  (swaps.filter (fun s => s.2.status == .open_)).map (fun s => (s.2.expireHeight, s.1))

/-- the long-term index as a function of the primary records -/
def longtermOf (swaps : List (Nat × Swap)) : List (Nat × Nat) :=
  (swaps.filter (fun s => s.2.status == .completed)).map (fun s => (s.2.closedBlock, s.1))

/-- coins held in incoming (resp. outgoing) swaps that are open or expired -/
def pendingOf (swaps : List (Nat × Swap)) (incoming : Bool) : Int :=
  sumInt ((swaps.filter (fun s => s.2.incoming == incoming && s.2.status != .completed)).map (·.2.amount))

/-- `GenesisState.Validate`: no duplicate swap id, every swap valid (positive amount), supplies non-negative -/
def bep3Validate (g : Bep3Genesis) : Bool :=
  noDup (keys g.swaps) && g.swaps.all (fun s => decide (0 < s.2.amount)) &&
  decide (0 ≤ g.supply.incoming) && decide (0 ≤ g.supply.outgoing) && decide (0 ≤ g.supply.current)

/-- `InitGenesis`: validate; write every swap and rebuild both indexes from status; then check the supplies
    against the swaps and the limit -/
def bep3Init (g : Bep3Genesis) : Option Bep3State :=
  if !bep3Validate g then none
  else if g.supply.incoming != pendingOf g.swaps true then none
  else if g.supply.outgoing != pendingOf g.swaps false then none
  else if g.supply.current > g.limit || g.supply.incoming > g.limit ||
          g.supply.incoming + g.supply.current > g.limit || g.supply.outgoing > g.limit then none
  else some ⟨fromList g.swaps, byBlockOf g.swaps, longtermOf g.swaps, g.supply, g.limit, g.prevBlockTime⟩

/-- the module's state invariant (C13: index exactness and supply accounting) -/
def Bep3Inv (s : Bep3State) : Prop :=
  Sorted s.swaps ∧ (∀ x ∈ s.swaps, 0 < x.2.amount) ∧
  s.byBlock = byBlockOf s.swaps ∧ s.longterm = longtermOf s.swaps ∧
  s.supply.incoming = pendingOf s.swaps true ∧ s.supply.outgoing = pendingOf s.swaps false ∧
  0 ≤ s.supply.current ∧ 0 ≤ s.supply.incoming ∧ 0 ≤ s.supply.outgoing ∧
  s.supply.current ≤ s.limit ∧ s.supply.incoming ≤ s.limit ∧
  s.supply.incoming + s.supply.current ≤ s.limit ∧ s.supply.outgoing ≤ s.limit

end KV.Gx
