/-
  x/earn, the per-account share record and the several-vault world (property C11).

  Part 1 — `VaultShares` (x/earn/types/share.go) as a sorted association list denom ↦ amount:
    `isSorted`, `removeZeroShares`, the merge loop of `safeAdd`, `Add`, `negative`, `SafeSub`/`Sub`,
    `AmountOf`/`GetShare`, `IsZero`, `Validate`, transcribed branch by branch (denoms are indices
    into the lexicographically sorted denom universe, so `strings.Compare` is `Nat` comparison;
    amounts are sdk.Dec mantissas).  A Go panic (`NewVaultShare` on a negative sum inside
    `VaultShare.Add`, unsorted operands, "negative share amount" in `Sub`) is `R.panic`.

  Part 2 — the world of several vaults: one `VaultShareRecord` per account (`recs a`, the list
    itself; `[]` = no record, `UpdateVaultShareRecord` deletes an empty one), one `VaultRecord`,
    strategy value and module balance per vault denom, bank balances per (account, denom).
    `view m v` is the single-vault state of Model/Earn.lean that `Keeper.Deposit/Withdraw` on vault
    `v` read (`Shares.AmountOf(denom)`, `GetShare(denom)`); `mstep` runs that single-vault step and
    writes the result back the way the keeper does: `Shares.Add(shares)` on a deposit,
    `Shares.Sub(withdrawShares)` on a withdrawal.
  Core Lean only.
-/
import KavaVerif.Model.Earn

namespace KV.Earn

-- a denom is its index in the lexicographically sorted denom universe (a plain `Nat`)
abbrev Shares := List (Nat × Int)

namespace Shares

/-- `VaultShares.isSorted`: ascending but NOT strict (`shares[i-1].Nat > shares[i].Nat` fails) -/
def isSorted : Shares → Bool
  | [] => true
  | [_] => true
  | a :: b :: r => decide (a.1 ≤ b.1) && isSorted (b :: r)

/-- `removeZeroShares` -/
def removeZero (l : Shares) : Shares := l.filter fun s => decide (s.2 ≠ 0)

/-- the loop of `safeAdd`; `none` = Go panic (`VaultShare.Add` → `NewVaultShare` validates the sum
    and panics when it is negative) -/
def merge : Shares → Shares → Option Shares
  | [], B => some (removeZero B)
  | a :: A, [] => some (removeZero (a :: A))
  | a :: A, b :: B =>
    if a.1 < b.1 then
      -- share A denom < share B denom: keep A's share unless zero
      (merge A (b :: B)).map fun r => if a.2 = 0 then r else a :: r
    else if a.1 = b.1 then
      if a.2 + b.2 < 0 then none
      else (merge A B).map fun r => if a.2 + b.2 = 0 then r else (a.1, a.2 + b.2) :: r
    else
      (merge (a :: A) B).map fun r => if b.2 = 0 then r else b :: r
termination_by A B => A.length + B.length

/-- `VaultShares.Add(sharesB...)` = `safeAdd` -/
def add (A B : Shares) : R Shares :=
  if ¬ isSorted A then .panic          -- "Shares (self) must be sorted"
  else if ¬ isSorted B then .panic     -- "Wrong argument: shares must be sorted"
  else match merge A B with
    | some r => .ok r
    | none => .panic

/-- `VaultShares.negative` -/
def negative (B : Shares) : Shares := B.map fun s => (s.1, -s.2)

/-- `VaultShares.Sub(sharesB...)`: `SafeSub` = `safeAdd(negative)` + `IsAnyNegative`, panic if any -/
def sub (A B : Shares) : R Shares :=
  match add A (negative B) with
  | .ok d => if d.any (fun s => decide (s.2 < 0)) then .panic else .ok d
  | .err => .err
  | .panic => .panic

/-- `VaultShares.AmountOf(denom)` / `GetShare(denom).Amount`: the first entry of that denom, else 0 -/
def amountOf : Shares → Nat → Int
  | [], _ => 0
  | s :: r, d => if s.1 = d then s.2 else amountOf r d

/-- `VaultShares.IsZero` -/
def isZero (l : Shares) : Bool := l.all fun s => decide (s.2 = 0)

/-- `VaultShares.Validate() == nil`: strictly ascending denoms (hence duplicate-free), positive amounts -/
def isValid : Shares → Bool
  | [] => true
  | [a] => decide (0 < a.2)
  | a :: b :: r => decide (0 < a.2) && decide (a.1 < b.1) && isValid (b :: r)

end Shares

open Shares

/-! ## several vaults -/

/-- the per-vault part of the store: VaultRecord (found, TotalShares), the strategy value and the
    earn module account's own bank balance in the vault denom -/
structure VCore where
  found : Bool
  tot : Int
  val : Int
  loose : Int
deriving BEq, DecidableEq

structure MSt where
  recs : Addr → Shares           -- VaultShareRecord.Shares of the account ([] = no record)
  vault : Nat → VCore
  bal : Addr → Nat → Int

/-- what the keeper reads when it works on vault `v` -/
def view (m : MSt) (v : Nat) : St :=
  { found := (m.vault v).found, tot := (m.vault v).tot, sh := fun a => amountOf (m.recs a) v,
    val := (m.vault v).val, loose := (m.vault v).loose, bal := fun a => m.bal a v }

def coreOf (s : St) : VCore := ⟨s.found, s.tot, s.val, s.loose⟩

def updRec (f : Addr → Shares) (a : Addr) (r : Shares) : Addr → Shares := fun x => if x = a then r else f x
def updVault (f : Nat → VCore) (v : Nat) (c : VCore) : Nat → VCore := fun x => if x = v then c else f x
def updBal (f : Addr → Nat → Int) (a : Addr) (v : Nat) (x : Int) : Addr → Nat → Int :=
  fun b w => if b = a ∧ w = v then x else f b w

inductive MRes where
  | ok (m : MSt)
  | err
  | panic

/-- one keeper call / environment step on vault `v`.  The single-vault step decides the outcome and
    the numbers; the account's record is then rewritten as the keeper does it:
    deposit  — `vaultShareRecord.Shares = vaultShareRecord.Shares.Add(shares)`, `SetVaultShareRecord`;
    withdraw — `vaultShareRecord.Shares = vaultShareRecord.Shares.Sub(withdrawShares)`,
               `UpdateVaultShareRecord` (deletes the record when `Shares.IsZero()`: the empty list). -/
def mstep (m : MSt) (v : Nat) (o : Op) : MRes :=
  match step (view m v) o with
  | .err => .err
  | .panic => .panic
  | .ok s' =>
    match o with
    | .accrue _ => .ok { m with vault := updVault m.vault v (coreOf s') }
    | .deposit a _ _ _ _ =>
      match add (m.recs a) [(v, s'.sh a - amountOf (m.recs a) v)] with
      | .ok r => .ok { recs := updRec m.recs a r, vault := updVault m.vault v (coreOf s'),
                       bal := updBal m.bal a v (s'.bal a) }
      | _ => .panic
    | .withdraw a _ _ _ =>
      match sub (m.recs a) [(v, amountOf (m.recs a) v - s'.sh a)] with
      | .ok r => .ok { recs := updRec m.recs a (if isZero r then [] else r),
                       vault := updVault m.vault v (coreOf s'), bal := updBal m.bal a v (s'.bal a) }
      | _ => .panic

/-- a failed or panicking message leaves the state unchanged (baseapp) -/
def mnext (m : MSt) (vo : Nat × Op) : MSt :=
  match mstep m vo.1 vo.2 with
  | .ok m' => m'
  | _ => m

def mrun (m : MSt) (ops : List (Nat × Op)) : MSt := ops.foldl mnext m

def mempty : MSt :=
  { recs := fun _ => [], vault := fun _ => ⟨false, 0, 0, 0⟩, bal := fun _ _ => 0 }

end KV.Earn
