/-
  Model of Kava's ante gating (property C15), transcribed from
    /repo/app/ante/authz.go       AuthzLimiterDecorator.checkForDisabledMsg / isDisabled
    /repo/app/ante/vesting.go     VestingAccountDecorator.AnteHandle
    /repo/app/ante/authorized.go  AuthenticatedMempoolDecorator.AnteHandle / commonAddressesExist
    /repo/app/ante/ante.go        NewAnteHandler (router), newCosmosAnteHandler, newEthAnteHandler, Recover
    ethermint app/ante            RejectMessagesDecorator, EthSigVerificationDecorator (message-type test only)

  Every table (disabled lists, option URLs, chain order, guard shape, flags) comes from
  KavaVerif/Generated/C15Ante.lean, regenerated from the source on every run.  Core Lean only.

  A transaction's message list is a forest of `Msg`.  `plain u` is any message whose Go type is neither
  `*authz.MsgGrant` nor `*authz.MsgExec`, with `sdk.MsgTypeURL = u`; `grant t` is a MsgGrant whose unpacked
  authorization answers `MsgTypeURL() = t`; `exec ms` is a MsgExec wrapping `ms`.  `grantBad` / `execBad` are the
  two authz messages whose packed content cannot be unpacked (`GetAuthorization` / `GetMessages` return an error):
  they cannot come out of the transaction decoder but can be handed to the decorator directly.
-/
import KavaVerif.Generated.C15Ante

namespace KV.Ante
open KV.Gen

inductive Msg where
  | plain (url : String)
  | grant (target : String)
  | grantBad
  | exec (inner : List Msg)
  | execBad

/-- `sdk.MsgTypeURL(msg)` -/
def Msg.url : Msg → String
  | .plain u => u
  | .grant _ => c15MsgGrantURL
  | .grantBad => c15MsgGrantURL
  | .exec _ => c15MsgExecURL
  | .execBad => c15MsgExecURL

/-- result of the recursive scan: nil error, an error, or a Go panic ("unexpected msg type") -/
inductive Res where
  | ok | err | panic
  deriving DecidableEq, Repr

/-- `isDisabled`: linear scan with string equality -/
def isDisabled (bl : List String) (u : String) : Bool := bl.contains u

mutual
/-- `checkForDisabledMsg(msgs, searchOnlyInAuthzMsgs)`: the `for` loop, first non-nil result returns -/
def checkList (bl : List String) : List Msg → Bool → Res
  | [], _ => .ok
  | m :: ms, only =>
    match checkOne bl m only with
    | .ok => checkList bl ms only
    | r => r
/-- the body of the loop: the `switch` in source order
    (1) `!searchOnlyInAuthzMsgs && isDisabled(typeURL)`, (2) `typeURL == MsgGrant`, (3) `typeURL == MsgExec`;
    no case matching = fall out of the switch = continue -/
def checkOne (bl : List String) : Msg → Bool → Res
  | .plain u, only =>
    if !only && isDisabled bl u then .err
    -- a message carrying an authz URL that is not the authz Go type: `msg.(*authz.MsgGrant)` fails → panic
    else if u == c15MsgGrantURL || u == c15MsgExecURL then .panic
    else .ok
  | .grant t, only =>
    if !only && isDisabled bl c15MsgGrantURL then .err
    else if isDisabled bl t then .err
    else .ok
  | .grantBad, _ => .err            -- case (1) or the error of `GetAuthorization`
  | .exec ms, only =>
    if !only && isDisabled bl c15MsgExecURL then .err
    else checkList bl ms c15AuthzInnerFlag
  | .execBad, _ => .err             -- case (1) or the error of `GetMessages`
end

/-- `AuthzLimiterDecorator.AnteHandle`: the scan of the transaction's own messages -/
def authzLimiter (bl : List String) (msgs : List Msg) : Res := checkList bl msgs c15AuthzTopFlag

/-- `VestingAccountDecorator.AnteHandle`: true = passes on to `next` -/
def vestingDec (vl : List String) (msgs : List Msg) : Bool :=
  msgs.all fun m => !vl.contains m.url

/-- the Go type test `msg.(*evmtypes.MsgEthereumTx)` -/
def isType (url : String) : Msg → Bool
  | .plain u => u == url
  | _ => false

/-- ethermint `RejectMessagesDecorator`: true = passes on -/
def rejectMsgsDec (msgs : List Msg) : Bool := msgs.all fun m => !isType c15RejectMsgsURL m

/-- ethermint `EthSigVerificationDecorator`, message-type test only: every message must be a MsgEthereumTx -/
def ethOnlyDec (msgs : List Msg) : Bool := msgs.all fun m => isType c15EthOnlyURL m

/-- execution mode as the decorators see it -/
structure Mode where
  isCheckTx : Bool
  isReCheckTx : Bool
  simulate : Bool
  deriving DecidableEq, Repr

def Mode.check : Mode := ⟨true, false, false⟩
def Mode.recheck : Mode := ⟨true, true, false⟩
def Mode.sim : Mode := ⟨true, false, true⟩      -- baseapp simulates on the check state
def Mode.deliver : Mode := ⟨false, false, false⟩

def atomVal (md : Mode) : String → Option Bool
  | "ctx.IsCheckTx()" => some md.isCheckTx
  | "ctx.IsReCheckTx()" => some md.isReCheckTx
  | "simulate" => some md.simulate
  | _ => none

/-- a generated guard `a₁ && !a₂ && …` evaluated in a mode (unknown atom: guard does not hold) -/
def guardHolds (g : List (String × Bool)) (md : Mode) : Bool :=
  g.all fun aw => atomVal md aw.1 == some aw.2

/-- `commonAddressesExist` -/
def commonAddressesExist (l1 l2 : List Nat) : Bool := l1.any fun a => l2.any fun b => a == b

/-- `AuthenticatedMempoolDecorator.AnteHandle`: true = passes on -/
def mempoolDec (md : Mode) (signers authorised : List Nat) : Bool :=
  if guardHolds c15MempoolGuard md then commonAddressesExist signers authorised else true

structure Tx where
  msgs : List Msg
  /-- type URLs of `body.extension_options` (`GetExtensionOptions`) -/
  opts : List String
  /-- `GetSigners()`, as small indices -/
  signers : List Nat

structure Cfg where
  /-- app option `MempoolEnableAuth` -/
  mempoolAuth : Bool
  /-- what the configured fetchers return, concatenated -/
  authorised : List Nat

/-- `len(options.AddressFetchers) > 0` -/
def hasFetchers (cfg : Cfg) : Bool := cfg.mempoolAuth && decide (c15Fetchers.length > 0)

inductive Verdict where
  | pass                       -- every modelled gate let the transaction through
  | reject (by_ : String)
  deriving DecidableEq, Repr

def Verdict.isPass : Verdict → Bool
  | .pass => true
  | _ => false

/-- the decorators the property is about; every other constructor name is `other` -/
inductive DecKind where
  | rejectMsgs | extOpts | mempool | vesting | authz | ethOnly | other
  deriving DecidableEq, Repr

/-- constructor name (as written in ante.go) → which modelled decorator it is -/
def classifyDec (name : String) : DecKind :=
  if name == "evmante.RejectMessagesDecorator" then .rejectMsgs
  else if name == "authante.NewExtensionOptionsDecorator" then .extOpts
  else if name == "NewAuthenticatedMempoolDecorator" then .mempool
  else if name == "NewVestingAccountDecorator" then .vesting
  else if name == "NewAuthzLimiterDecorator" then .authz
  else if name == "evmante.NewEthSigVerificationDecorator" then .ethOnly
  else .other

/-- the `if` conditions under which newCosmosAnteHandler appends a decorator -/
inductive CondKind where
  | always | notEIP712 | isEIP712 | hasFetchers | unknown
  deriving DecidableEq, Repr

def classifyCond (c : String) : CondKind :=
  if c == "" then .always
  else if c == "!isEIP712" then .notEIP712
  else if c == "isEIP712" then .isEIP712
  else if c == "hasFetchers" then .hasFetchers
  else .unknown

/-- the generated chains, classified -/
def cosmosChainK : List (CondKind × DecKind) := c15CosmosChain.map fun cn => (classifyCond cn.1, classifyDec cn.2)
def ethChainK : List (CondKind × DecKind) := c15EthChain.map fun cn => (classifyCond cn.1, classifyDec cn.2)

/-- one decorator.  Decorators that are not part of the property (context set-up, fees, memo, signatures,
    sequence, IBC, the EVM account / balance / gas checks) are the identity here: they may still refuse a
    transaction, which only makes fewer transactions accepted. -/
def decStep (cfg : Cfg) (md : Mode) (tx : Tx) : DecKind → Verdict
  | .rejectMsgs => if rejectMsgsDec tx.msgs then .pass else .reject "reject-msgs"
  | .extOpts => if c15ExtensionOptionCheckerNil && !tx.opts.isEmpty then .reject "ext-options" else .pass
  | .mempool => if mempoolDec md tx.signers cfg.authorised then .pass else .reject "mempool"
  | .vesting => if vestingDec c15VestingDisabled tx.msgs then .pass else .reject "vesting"
  | .authz =>
    match authzLimiter c15AuthzDisabled tx.msgs with
    | .ok => .pass
    | .err => .reject "authz"
    | .panic => .reject "panic"          -- `defer Recover(…)` in NewAnteHandler turns the panic into ErrPanic
  | .ethOnly => if ethOnlyDec tx.msgs then .pass else .reject "eth-only"
  | .other => .pass

def condHolds (cfg : Cfg) (eip712 : Bool) : CondKind → Bool
  | .always => true
  | .notEIP712 => !eip712
  | .isEIP712 => eip712
  | .hasFetchers => hasFetchers cfg
  | .unknown => false

/-- `sdk.ChainAnteDecorators`: run in order, the first refusal returns -/
def runChain (cfg : Cfg) (md : Mode) (eip712 : Bool) (tx : Tx) : List (CondKind × DecKind) → Verdict
  | [] => .pass
  | cn :: rest =>
    if condHolds cfg eip712 cn.1 then
      match decStep cfg md tx cn.2 with
      | .pass => runChain cfg md eip712 tx rest
      | r => r
    else runChain cfg md eip712 tx rest

inductive Route where
  | cosmos (eip712 : Bool)
  | eth
  | reject (by_ : String)
  deriving DecidableEq, Repr

/-- handler constructor name (as written in NewAnteHandler) → chain; an unset handler is a nil call = panic -/
def handlerRoute (h : String) (eip712 : Bool) : Route :=
  if h == "newEthAnteHandler" then .eth
  else if h == "newCosmosAnteHandler" then .cosmos eip712
  else .reject "panic"

/-- the generated extension-option switch, classified -/
def extCasesK : List (String × Route) := c15ExtOptionCases.map fun c => (c.1, handlerRoute c.2.1 c.2.2)
def fallThroughK : Route := handlerRoute c15FallThrough.1 c15FallThrough.2

/-- the router of `NewAnteHandler` as a function of the extension-option type URLs -/
def route (opts : List String) : Route :=
  if opts.length > c15ExtOptsMax then .reject "ext-too-many"
  else if opts.length == c15ExtOptsRouteLen then
    match opts with
    | o :: _ =>
      match extCasesK.lookup o with
      | some r => r
      | none => if c15ExtDefaultRejects then .reject "ext-unknown" else .reject "panic"
    | [] => .reject "panic"            -- `opts[0]` on an empty slice
  else fallThroughK

/-- the composed ante handler, restricted to the gates of property C15 -/
def anteGate (cfg : Cfg) (md : Mode) (tx : Tx) : Verdict :=
  match route tx.opts with
  | .reject w => .reject w
  | .eth => runChain cfg md false tx ethChainK
  | .cosmos e => runChain cfg md e tx cosmosChainK

/-! ### The reachability predicate (decidable form, used by the driver on implementation observations) -/

mutual
/-- a blocked type is reachable in the forest: a message with a disabled URL inside an exec, or a grant
    (anywhere) whose target is disabled.  `inExec` says whether the forest itself is the content of an exec. -/
def reachList (bl : List String) : List Msg → Bool → Bool
  | [], _ => false
  | m :: ms, inExec => reachOne bl m inExec || reachList bl ms inExec
def reachOne (bl : List String) : Msg → Bool → Bool
  | .plain u, inExec => inExec && isDisabled bl u
  | .grant t, inExec => (inExec && isDisabled bl c15MsgGrantURL) || isDisabled bl t
  | .grantBad, inExec => inExec && isDisabled bl c15MsgGrantURL
  | .exec ms, inExec => (inExec && isDisabled bl c15MsgExecURL) || reachList bl ms true
  | .execBad, inExec => inExec && isDisabled bl c15MsgExecURL
end

mutual
/-- some message of the forest cannot be unpacked or carries an authz URL without being the authz type -/
def malfList : List Msg → Bool
  | [] => false
  | m :: ms => malfOne m || malfList ms
def malfOne : Msg → Bool
  | .plain u => u == c15MsgGrantURL || u == c15MsgExecURL
  | .grant _ => false
  | .grantBad => true
  | .exec ms => malfList ms
  | .execBad => true
end

mutual
def sizeList : List Msg → Nat
  | [] => 0
  | m :: ms => sizeOne m + sizeList ms
def sizeOne : Msg → Nat
  | .exec ms => 1 + sizeList ms
  | _ => 1
end

/-! ### The same notions said declaratively (what the property statements talk about) -/

/-- `InExec m ms`: message `m` occurs strictly inside some `exec` of the forest `ms`, at any depth -/
inductive InExec : Msg → List Msg → Prop
  | child {m : Msg} {inner ms : List Msg} : Msg.exec inner ∈ ms → m ∈ inner → InExec m ms
  | deeper {m : Msg} {inner ms : List Msg} : Msg.exec inner ∈ ms → InExec m inner → InExec m ms

/-- `Anywhere m ms`: `m` is one of the transaction's own messages or occurs inside an exec at any depth -/
def Anywhere (m : Msg) (ms : List Msg) : Prop := m ∈ ms ∨ InExec m ms

/-- a message the decorator cannot unpack, or one that carries an authz URL without being the authz type -/
def IsMalf (m : Msg) : Prop :=
  m = .grantBad ∨ m = .execBad ∨ ∃ u, m = .plain u ∧ (u = c15MsgGrantURL ∨ u = c15MsgExecURL)

def Malformed (ms : List Msg) : Prop := ∃ m, Anywhere m ms ∧ IsMalf m

end KV.Ante
