/-
  C14 — genesis export / import of further modules: kavadist, community, issuance, auction, committee,
  incentive (one reward kind), hard, pricefeed, cdp.

  Same style as Model/GenesisModels.lean: a store is an association list in ascending key order, export lists it,
  import folds `set` over the records, derived indexes are functions of the primary records.  Each model is a
  transcription of `x/<m>/genesis.go` (`InitGenesis`, `ExportGenesis`) and `x/<m>/types/genesis.go` (`Validate`)
  restricted to what decides the round trip; what is left out is said at each model.  Times are Unix seconds
  (`Int`; `goZeroTime` is Go's `time.Time{}`); decimals are mantissas.  Core Lean only.

  The point of several of these models is the state in which a module's PARAMETERS no longer mention something its
  STORE still holds (minting switched off with a recorded previous block time; a delisted money market with its
  interest factors; a deactivated price market with its last price).  `ExportGenesis` functions that walk the
  parameters instead of the store drop such records.
-/
import KavaVerif.Model.GenesisModels

namespace KV.Gx

/-- Go's zero `time.Time{}` (0001-01-01T00:00:00Z) in Unix seconds -/
def goZeroTime : Int := -62135596800

/-! ### kavadist (x/kavadist/genesis.go, types/genesis.go, types/params.go) -/

/-- `types.DefaultPreviousBlockTime` = `time.Unix(1, 0)`: what the export writes when the store has no entry -/
def kdDefaultPrev : Int := 1

structure KdPeriod where
  start : Int
  stop : Int
  inflation : Nat
deriving DecidableEq, Repr

structure KdState where
  active : Bool
  periods : List KdPeriod
  /-- store key 0x01; absent until the first begin block that runs with `active` -/
  prev : Option Int
deriving DecidableEq, Repr

structure KdGenesis where
  active : Bool
  periods : List KdPeriod
  prev : Int
deriving DecidableEq, Repr

/-- `ExportGenesis`: params, `GetPreviousBlockTime` or the default when not found -/
def kdExport (s : KdState) : KdGenesis := ⟨s.active, s.periods, s.prev.getD kdDefaultPrev⟩

/-- `validatePeriodsParams`: end not before start, chronological order, start and end after the epoch -/
def kdPeriodsValid : Int → List KdPeriod → Bool
  | _, [] => true
  | prevEnd, p :: r =>
    decide (p.start ≤ p.stop) && decide (prevEnd ≤ p.start) && decide (0 < p.start) && decide (0 < p.stop) &&
    kdPeriodsValid p.stop r

/-- `GenesisState.Validate`: params valid, previous block time set -/
def kdValidate (g : KdGenesis) : Bool := kdPeriodsValid 0 g.periods && decide (g.prev ≠ goZeroTime)

/-- `InitGenesis`: validate, set params, "only set the previous block time if it's different than default" -/
def kdInit (g : KdGenesis) : Option KdState :=
  if !kdValidate g then none
  else some ⟨g.active, g.periods, if g.prev ≠ kdDefaultPrev then some g.prev else none⟩

/-- the variant that restores the previous block time only while minting is active -/
def kdInitOnlyWhenActive (g : KdGenesis) : Option KdState :=
  if !kdValidate g then none
  else some ⟨g.active, g.periods, if g.active && decide (g.prev ≠ kdDefaultPrev) then some g.prev else none⟩

/-- reachable states: valid periods; a recorded time is a block time (neither the default nor Go's zero time) -/
def KdInv (s : KdState) : Prop :=
  kdPeriodsValid 0 s.periods = true ∧ ∀ t, s.prev = some t → t ≠ kdDefaultPrev ∧ t ≠ goZeroTime

/-- seconds the next begin block (at time `now`) mints for (`MintPeriodInflation`): nothing while inactive, nothing
    on the block that first records a time, otherwise the time since the recorded block -/
def kdElapsed (s : KdState) (now : Int) : Int :=
  if s.active then (match s.prev with | some t => now - t | none => 0) else 0

/-- governance switches minting on -/
def kdActivate (s : KdState) : KdState := { s with active := true }

/-! ### community (x/community/genesis.go, types/params.go, types/staking.go) -/

structure CmParams where
  upgradeTime : Int        -- UpgradeTimeDisableInflation (goZeroTime = not scheduled)
  rate : Int               -- StakingRewardsPerSecond (mantissa)
  upgradeRate : Int        -- UpgradeTimeSetStakingRewardsPerSecond
deriving DecidableEq, Repr

structure CmState where
  params : CmParams
  lastAccumulation : Int   -- StakingRewardsState.LastAccumulationTime (goZeroTime = unset)
  truncationError : Int    -- StakingRewardsState.LastTruncationError (mantissa, 18 decimals)
deriving DecidableEq, Repr

abbrev CmGenesis := CmState

def cmExport (s : CmState) : CmGenesis := s

def decOne : Int := 1000000000000000000

/-- `GenesisState.Validate`: rates non-negative; truncation error in [0, 1) and zero while no accumulation time -/
def cmValidate (g : CmGenesis) : Bool :=
  decide (0 ≤ g.params.rate) && decide (0 ≤ g.params.upgradeRate) &&
  decide (0 ≤ g.truncationError) && decide (g.truncationError < decOne) &&
  (decide (g.lastAccumulation ≠ goZeroTime) || decide (g.truncationError = 0))

/-- `InitGenesis`: `SetParams` (panics on invalid params), `SetStakingRewardsState` -/
def cmInit (g : CmGenesis) : Option CmState :=
  if decide (0 ≤ g.params.rate) && decide (0 ≤ g.params.upgradeRate) then some g else none

def CmInv (s : CmState) : Prop := cmValidate s = true

/-! ### issuance (x/issuance/genesis.go) -/

structure IssAsset where
  denom : Nat
  paused : Bool
  rateLimited : Bool
deriving DecidableEq, Repr

structure IssSupply where
  current : Int
  elapsed : Int
deriving DecidableEq, Repr

structure IssState where
  assets : List IssAsset                -- params
  supplies : List (Nat × IssSupply)     -- store: denom ↦ supply
deriving DecidableEq, Repr

abbrev IssGenesis := IssState

def issExport (s : IssState) : IssGenesis := s

/-- `GenesisState.Validate`: no duplicate asset denom; supplies non-negative -/
def issValidate (g : IssGenesis) : Bool :=
  noDup (g.assets.map (·.denom)) && g.supplies.all (fun x => decide (0 ≤ x.2.current) && decide (0 ≤ x.2.elapsed))

/-- the supply records the import creates for rate-limited assets that have none -/
def issCreateMissing : List IssAsset → List (Nat × IssSupply) → List (Nat × IssSupply)
  | [], st => st
  | a :: r, st =>
    if a.rateLimited && !(keys st).contains a.denom then issCreateMissing r (set st a.denom ⟨0, 0⟩)
    else issCreateMissing r st

def issInit (g : IssGenesis) : Option IssState :=
  if !issValidate g then none else some ⟨g.assets, issCreateMissing g.assets (fromList g.supplies)⟩

/-- state invariant: supplies in store order and valid; every rate-limited asset has its supply record (created when
    the asset is added; pausing an asset or switching its rate limit off leaves the record in place) -/
def IssInv (s : IssState) : Prop :=
  noDup (s.assets.map (·.denom)) = true ∧ Sorted s.supplies ∧
  (∀ x ∈ s.supplies, 0 ≤ x.2.current ∧ 0 ≤ x.2.elapsed) ∧
  (∀ a ∈ s.assets, a.rateLimited = true → (keys s.supplies).contains a.denom = true)

/-! ### auction (x/auction/genesis.go, types/genesis.go) -/

structure Auc where
  endTime : Int
  held : Int            -- GetModuleAccountCoins: what the module account holds for this auction
deriving DecidableEq, Repr

structure AucState where
  nextId : Nat
  auctions : List (Nat × Auc)       -- id ↦ auction (primary records)
  byTime : List (Int × Nat)         -- derived: (end time, id), written by SetAuction
deriving DecidableEq, Repr

structure AucGenesis where
  nextId : Nat
  auctions : List (Nat × Auc)
deriving DecidableEq, Repr

/-- `ExportGenesis`: next id, params, every auction — the by-time index is not exported -/
def aucExport (s : AucState) : AucGenesis := ⟨s.nextId, s.auctions⟩

def byTimeOf (a : List (Nat × Auc)) : List (Int × Nat) := a.map (fun x => (x.2.endTime, x.1))

/-- `GenesisState.Validate`: every auction valid, no duplicate id, every id below the next id -/
def aucValidate (g : AucGenesis) : Bool :=
  g.auctions.all (fun a => decide (0 ≤ a.2.held)) && noDup (keys g.auctions) &&
  g.auctions.all (fun a => decide (a.1 < g.nextId))

/-- `InitGenesis` with `macc` = the auction module account's balance set by the bank genesis -/
def aucInit (g : AucGenesis) (macc : Int) : Option AucState :=
  if !aucValidate g then none
  else if sumInt (g.auctions.map (·.2.held)) != macc then none
  else some ⟨g.nextId, fromList g.auctions, byTimeOf g.auctions⟩

def AucInv (s : AucState) (macc : Int) : Prop :=
  Sorted s.auctions ∧ (∀ a ∈ s.auctions, 0 ≤ a.2.held ∧ a.1 < s.nextId) ∧
  s.byTime = byTimeOf s.auctions ∧ sumInt (s.auctions.map (·.2.held)) = macc

/-! ### committee (x/committee/genesis.go, types/genesis.go) -/

structure CoState where
  nextProposalId : Nat
  committees : List (Nat × Nat)             -- id ↦ committee (opaque)
  proposals : List (Nat × (Nat × Nat))      -- id ↦ (committee id, content)
  votes : List (Nat × (Nat × Nat))          -- key proposal‖voter ↦ (proposal id, vote)
deriving DecidableEq, Repr

abbrev CoGenesis := CoState

def coExport (s : CoState) : CoGenesis := s

/-- `GenesisState.Validate`: unique committee ids; unique proposal ids below the next id, of existing committees;
    votes of existing proposals -/
def coValidate (g : CoGenesis) : Bool :=
  noDup (keys g.committees) && noDup (keys g.proposals) &&
  g.proposals.all (fun p => decide (p.1 < g.nextProposalId) && (keys g.committees).contains p.2.1) &&
  g.votes.all (fun v => (keys g.proposals).contains v.2.1)

def coInit (g : CoGenesis) : Option CoState :=
  if !coValidate g then none
  else some ⟨g.nextProposalId, fromList g.committees, fromList g.proposals, fromList g.votes⟩

def CoInv (s : CoState) : Prop :=
  Sorted s.committees ∧ Sorted s.proposals ∧ Sorted s.votes ∧
  (∀ p ∈ s.proposals, p.1 < s.nextProposalId ∧ (keys s.committees).contains p.2.1 = true) ∧
  (∀ v ∈ s.votes, (keys s.proposals).contains v.2.1 = true)

/-! ### incentive, one reward kind (x/incentive/genesis.go): claims, reward indexes, accrual times -/

structure IncClaim where
  reward : Coins
  indexes : List (Nat × Coins)      -- collateral type ↦ (denom ↦ factor)
deriving DecidableEq, Repr

structure IncState where
  periods : List Nat                          -- params: collateral types that have a reward period
  accrual : List (Nat × Int)                  -- collateral type ↦ previous accrual time (store)
  indexes : List (Nat × Coins)                -- collateral type ↦ global reward indexes (store)
  claims : List (Nat × IncClaim)              -- owner ↦ claim (store)
deriving DecidableEq, Repr

abbrev IncGenesis := IncState

/-- `ExportGenesis` iterates the STORE (accrual times, indexes, claims), not the parameters -/
def incExport (s : IncState) : IncGenesis := s

/-- `GenesisState.Validate` / `ValidateAccumulationTime`: accrual times set, no duplicate keys -/
def incValidate (g : IncGenesis) : Bool :=
  g.accrual.all (fun a => decide (a.2 ≠ goZeroTime)) && noDup (keys g.accrual) && noDup (keys g.indexes) &&
  noDup (keys g.claims)

def incInit (g : IncGenesis) : Option IncState :=
  if !incValidate g then none
  else some ⟨g.periods, fromList g.accrual, fromList g.indexes, fromList g.claims⟩

/-- nothing ties the stored records to the parameters: reward periods may have been removed -/
def IncInv (s : IncState) : Prop :=
  Sorted s.accrual ∧ Sorted s.indexes ∧ Sorted s.claims ∧ ∀ a ∈ s.accrual, a.2 ≠ goZeroTime

/-! ### hard (x/hard/genesis.go): deposits, borrows, totals, interest factors, accrual times -/

structure HardAccrual where
  time : Int
  supplyFactor : Int
  borrowFactor : Int
deriving DecidableEq, Repr

structure HardState where
  markets : List Nat                        -- params.MoneyMarkets (denoms)
  mmStore : List Nat                        -- money-market store records (derived from the parameters by the begin blocker / import)
  accrual : List (Nat × HardAccrual)        -- denom ↦ previous accrual time and interest factors (store)
  deposits : List (Nat × Coins)             -- depositor ↦ amount (interest settled)
  borrows : List (Nat × Coins)
  totalSupplied : Coins
  totalBorrowed : Coins
  totalReserves : Coins
deriving DecidableEq, Repr

structure HardGenesis where
  markets : List Nat
  accrual : List (Nat × HardAccrual)
  deposits : List (Nat × Coins)
  borrows : List (Nat × Coins)
  totalSupplied : Coins
  totalBorrowed : Coins
  totalReserves : Coins
deriving DecidableEq, Repr

/-- `ExportGenesis`: accrual time and interest factors are read `for _, mm := range params.MoneyMarkets` — only for
    the markets the parameters list (modelled in store order); deposits, borrows and totals come from the store -/
def hardExport (s : HardState) : HardGenesis :=
  ⟨s.markets, s.accrual.filter (fun a => s.markets.contains a.1), s.deposits, s.borrows,
   s.totalSupplied, s.totalBorrowed, s.totalReserves⟩

def hardValidate (g : HardGenesis) : Bool :=
  noDup g.markets && noDup (keys g.accrual) && noDup (keys g.deposits) && noDup (keys g.borrows) &&
  g.deposits.all (fun d => coinsValid d.2) && g.borrows.all (fun d => coinsValid d.2)

/-- `InitGenesis`: params, a money-market record per listed market, accrual records, deposits, borrows, totals -/
def hardInit (g : HardGenesis) : Option HardState :=
  if !hardValidate g then none
  else some ⟨g.markets, g.markets, fromList g.accrual, fromList g.deposits, fromList g.borrows,
             g.totalSupplied, g.totalBorrowed, g.totalReserves⟩

/-- the invariant the round trip needs: the store holds money-market and accrual records exactly for listed markets -/
def HardInv (s : HardState) : Prop :=
  noDup s.markets = true ∧ s.mmStore = s.markets ∧ Sorted s.accrual ∧ Sorted s.deposits ∧ Sorted s.borrows ∧
  (∀ a ∈ s.accrual, s.markets.contains a.1 = true) ∧
  (∀ d ∈ s.deposits, coinsValid d.2 = true) ∧ (∀ d ∈ s.borrows, coinsValid d.2 = true)

/-! ### pricefeed (x/pricefeed/genesis.go): posted prices, current prices rebuilt -/

structure Post where
  market : Nat
  price : Int
  expiry : Int
deriving DecidableEq, Repr

structure PfState where
  markets : List (Nat × Bool)          -- params: market id ↦ active
  posts : List (Nat × Post)            -- key market‖oracle ↦ raw posted price
  current : List (Nat × Int)           -- market ↦ current price (derived by SetCurrentPrices)
deriving DecidableEq, Repr

structure PfGenesis where
  markets : List (Nat × Bool)
  posts : List (Nat × Post)
deriving DecidableEq, Repr

/-- `ExportGenesis`: params and the raw prices of every market (modelled in store order); no current price -/
def pfExport (s : PfState) : PfGenesis := ⟨s.markets, s.posts⟩

def livePosts (now : Int) (p : List (Nat × Post)) : List (Nat × Post) := p.filter (fun x => decide (now < x.2.expiry))

/-- the current prices `InitGenesis` rebuilds: for every ACTIVE market with at least one raw price, the aggregate
    (`agg` = median of the unexpired prices, `none` = no valid price) -/
def currentOf (agg : List Int → Option Int) (markets : List (Nat × Bool)) (posts : List (Nat × Post)) : List (Nat × Int) :=
  markets.filterMap fun m =>
    if m.2 then
      match (posts.filter (fun x => x.2.market == m.1)).map (·.2.price) with
      | [] => none
      | ps => (agg ps).map (fun v => (m.1, v))
    else none

/-- `InitGenesis` at block time `now` (no validation is run): only unexpired posts are written, then the current
    price of every active market that has raw prices is recomputed -/
def pfInit (agg : List Int → Option Int) (now : Int) (g : PfGenesis) : PfState :=
  ⟨g.markets, fromList (livePosts now g.posts), currentOf agg g.markets (livePosts now g.posts)⟩

def PfInv (agg : List Int → Option Int) (now : Int) (s : PfState) : Prop :=
  Sorted s.posts ∧ s.current = currentOf agg s.markets (livePosts now s.posts)

/-! ### cdp (x/cdp/genesis.go): cdps, deposits, totals, accumulation times; ratio and owner indexes rebuilt -/

structure CdpRec where
  owner : Nat
  ctype : Nat
  collateral : Int
  principal : Int
  fees : Int
deriving DecidableEq, Repr

structure CdpAccum where
  time : Int
  factor : Int
deriving DecidableEq, Repr

structure CdpState where
  types : List Nat                          -- params.CollateralParams (types)
  nextId : Nat
  cdps : List (Nat × CdpRec)                -- key type‖id ↦ cdp (interest settled)
  deposits : List (Nat × Int)               -- key cdp id‖depositor ↦ amount
  principals : List (Nat × Int)             -- collateral type ↦ total principal
  accum : List (Nat × CdpAccum)             -- collateral type ↦ previous accrual time, interest factor
  ownerIndex : List (Nat × Nat)             -- derived: (owner, key)
  ratioIndex : List (Nat × Int × Nat)       -- derived: (type, collateral:debt ratio, key)
deriving DecidableEq, Repr

structure CdpGenesis where
  types : List Nat
  nextId : Nat
  cdps : List (Nat × CdpRec)
  deposits : List (Nat × Int)
  principals : List (Nat × Int)
  accum : List (Nat × CdpAccum)
deriving DecidableEq, Repr

/-- `CalculateCollateralToDebtRatio` up to the fixed conversion factors: collateral·10¹⁸ / (principal + fees) -/
def ratioOf (c : CdpRec) : Int := c.collateral * decOne / (c.principal + c.fees)

def ownerIndexOf (cdps : List (Nat × CdpRec)) : List (Nat × Nat) := cdps.map (fun c => (c.2.owner, c.1))
def ratioIndexOf (cdps : List (Nat × CdpRec)) : List (Nat × Int × Nat) := cdps.map (fun c => (c.2.ctype, ratioOf c.2, c.1))

/-- `ExportGenesis`: cdps and deposits from the store; accumulation times, interest factors and total principals
    `for _, cp := range params.CollateralParams` — only for the listed collateral types; no index is exported -/
def cdpExport (s : CdpState) : CdpGenesis :=
  ⟨s.types, s.nextId, s.cdps, s.deposits,
   s.principals.filter (fun a => s.types.contains a.1), s.accum.filter (fun a => s.types.contains a.1)⟩

def cdpValidate (g : CdpGenesis) : Bool :=
  noDup g.types && noDup (keys g.cdps) && noDup (keys g.deposits) && noDup (keys g.principals) && noDup (keys g.accum) &&
  g.cdps.all (fun c => decide (0 < c.2.collateral) && decide (0 < c.2.principal) && decide (0 ≤ c.2.fees)) &&
  g.deposits.all (fun d => decide (0 < d.2)) && g.principals.all (fun p => decide (0 ≤ p.2))

/-- `InitGenesis`: validate; accumulation records; total principals; every cdp written and indexed by owner and by
    ratio (a cdp carrying the starting id is refused); next id; deposits -/
def cdpInit (g : CdpGenesis) : Option CdpState :=
  if !cdpValidate g then none
  else if g.cdps.any (fun c => c.1 == g.nextId) then none
  else some ⟨g.types, g.nextId, fromList g.cdps, fromList g.deposits, fromList g.principals, fromList g.accum,
             ownerIndexOf g.cdps, ratioIndexOf g.cdps⟩

def CdpInv (s : CdpState) : Prop :=
  noDup s.types = true ∧ Sorted s.cdps ∧ Sorted s.deposits ∧ Sorted s.principals ∧ Sorted s.accum ∧
  (∀ c ∈ s.cdps, 0 < c.2.collateral ∧ 0 < c.2.principal ∧ 0 ≤ c.2.fees ∧ c.1 ≠ s.nextId) ∧
  (∀ d ∈ s.deposits, 0 < d.2) ∧ (∀ p ∈ s.principals, 0 ≤ p.2 ∧ s.types.contains p.1 = true) ∧
  (∀ a ∈ s.accum, s.types.contains a.1 = true) ∧
  s.ownerIndex = ownerIndexOf s.cdps ∧ s.ratioIndex = ratioIndexOf s.cdps

end KV.Gx
