/-
  Model of x/earn (keeper/deposit.go, withdraw.go, vault_share.go, vault.go, strategy_*.go),
  one vault, transcribed branch by branch in the code's own evaluation order.

  State of one vault (one denom):
    found  – a VaultRecord exists in the store (UpdateVaultRecord deletes it when total shares reach 0)
    tot    – VaultRecord.TotalShares, an sdk.Dec (mantissa, 18 decimals)
    sh a   – the account's shares of this vault in its VaultShareRecord (sdk.Dec mantissa, 0 = none)
    val    – the strategy's value V = Strategy.GetEstimatedTotalAssets: the earn module account's
             x/savings deposit (savings strategy) or its GetSyncedDeposit in x/hard (hard strategy).
             The strategies move it exactly (Deposit: +x, Withdraw: −min(x, V)); interest accrual
             in the underlying market is the environment step `accrue`.
    loose  – x/bank balance of the earn module account in the vault denom (coins pass through it)
    bal a  – x/bank balance of account a in the vault denom
  Core Lean only.
-/
import KavaVerif.Num.Dec

namespace KV.Earn

abbrev Addr := Nat

def upd (f : Addr → Int) (a : Addr) (v : Int) : Addr → Int := fun x => if x = a then v else f x

structure St where
  found : Bool
  tot : Int
  sh : Addr → Int
  val : Int
  loose : Int
  bal : Addr → Int

/-- result of a keeper helper: value, ordinary error, Go panic -/
inductive R (α : Type) where
  | ok (v : α)
  | err
  | panic
deriving Inhabited

inductive Res where
  | ok (s : St)
  | err         -- ordinary error: the message is rolled back by baseapp
  | panic       -- Go panic
deriving Inhabited

def Res.isOk : Res → Bool
  | .ok _ => true
  | _ => false

/-- `ConvertToShares(assets)`: vault_share.go. `NewVaultShare` panics on a negative amount. -/
def convertToShares (s : St) (x : Int) : R Int :=
  if ¬ s.found then
    -- no shares issued yet: 1:1
    (if (Dec.ofInt x).m < 0 then .panic else .ok (Dec.ofInt x).m)
  else if s.val = 0 then .err          -- "total value of vault is zero"
  else
    let issued := Dec.quoTruncate (Dec.mul (Dec.ofInt x) ⟨s.tot⟩) (Dec.ofInt s.val)
    if issued.m = 0 then .err          -- "share count is zero"
    else if issued.m < 0 then .panic
    else .ok issued.m

/-- `ConvertToAssets(share)`: vault_share.go. `QuoTruncate` by a zero total panics (big.Int.Quo);
    `sdk.NewCoin` panics on a negative amount. -/
def convertToAssets (s : St) (share : Int) : R Int :=
  if ¬ s.found then .err               -- "vault for %s not found"
  else if s.tot = 0 then .panic
  else
    let value := Dec.quoTruncate (Dec.mul (Dec.ofInt s.val) ⟨share⟩) ⟨s.tot⟩
    if value.truncateInt < 0 then .panic else .ok value.truncateInt

/-- `Keeper.Deposit`. `vaultOk` = GetAllowedVault found, `stratOk` = IsStrategyAllowed,
    `acctOk` = IsAccountAllowed (private vaults). -/
def deposit (s : St) (a : Addr) (x : Int) (vaultOk stratOk acctOk : Bool) : Res :=
  if ¬ vaultOk then .err
  else if x = 0 then .err
  else if ¬ stratOk then .err
  else if ¬ acctOk then .err
  else if x < 0 then .panic            -- sdk.NewCoins(amount) panics on a negative coin
  -- bankKeeper.SendCoinsFromAccountToModule(depositor, earn, amount)
  else if s.bal a < x then .err
  else
    -- ConvertToShares reads the vault record and the strategy value *before* the strategy deposit
    match convertToShares s x with
    | .err => .err
    | .panic => .panic
    | .ok shares =>
      -- records += shares; strategy.Deposit(amount) moves the coins on: module balance unchanged
      .ok { found := true,
            tot := s.tot + shares,
            sh := upd s.sh a (s.sh a + shares),
            val := s.val + x,
            loose := s.loose + x - x,
            bal := upd s.bal a (s.bal a - x) }

/-- what `strategy.Withdraw(amt)` pays into the module account: savings/hard `Withdraw` cap the
    request at the deposit (`CalculateWithdrawAmount`) -/
def stratPaid (amt val : Int) : Int := if amt > val then val else amt

/-- the shares finally removed: the requested shares, or the whole balance when the rest is dust -/
def sweep (s : St) (a : Addr) (w dustVal : Int) : Int := if dustVal = 0 then s.sh a else w

/-- the tail of `Withdraw`: decrement the records by the (possibly swept) shares.
    `VaultShares.Sub` / `VaultShare.Sub` panic on a negative result; `UpdateVaultRecord` deletes
    the vault record when the total reaches zero. -/
def withdrawRecords (s : St) (a : Addr) (w' amt paid : Int) : Res :=
  if s.sh a - w' < 0 then .panic
  else if s.tot - w' < 0 then .panic
  else
    .ok { found := decide (s.tot - w' ≠ 0),
          tot := s.tot - w',
          sh := upd s.sh a (s.sh a - w'),
          val := s.val - paid,
          loose := s.loose + paid - amt,
          bal := upd s.bal a (s.bal a + amt) }

/-- `Keeper.Withdraw`, in the code's order:
    shares for the wanted amount → share balance check → truncated asset value of those shares →
    account value check → strategy.Withdraw → send → dust test of the remaining shares against the
    *stored* total shares and the *post-withdraw* strategy value → records. -/
def withdraw (s : St) (a : Addr) (want : Int) (vaultOk stratOk : Bool) : Res :=
  if ¬ vaultOk then .err
  else if want = 0 then .err
  else if ¬ stratOk then .err
  else if ¬ s.found then .err          -- ErrVaultRecordNotFound
  else
    -- (a missing VaultShareRecord is an error; so is a record with fewer shares than needed)
    match convertToShares s want with
    | .err => .err
    | .panic => .panic
    | .ok w =>
      if s.sh a < w then .err          -- ErrInsufficientValue (shares)
      else
        match convertToAssets s w with
        | .err => .err
        | .panic => .panic
        | .ok amt =>
          match convertToAssets s (s.sh a) with     -- GetVaultAccountValue
          | .err => .err
          | .panic => .panic
          | .ok accVal =>
            if amt > accVal then .err  -- ErrInsufficientValue (value)
            -- strategy.Withdraw(amt): savings/hard `Withdraw` of the module account's deposit;
            -- no deposit → error
            else if s.val = 0 then .err
            -- bankKeeper.SendCoinsFromModuleToAccount(earn, from, amt)
            else if s.loose + stratPaid amt s.val < amt then .err
            else
              -- ShareIsDust(shares − withdrawShares): stored total shares, post-withdraw value
              match convertToAssets { s with val := s.val - stratPaid amt s.val } (s.sh a - w) with
              | .err => .err
              | .panic => .panic
              | .ok dustVal => withdrawRecords s a (sweep s a w dustVal) amt (stratPaid amt s.val)

/-- `GetVaultAccountValue` as a total function (0 when the vault record does not exist). -/
def redeemable (s : St) (a : Addr) : Int :=
  match convertToAssets s (s.sh a) with
  | .ok v => v
  | _ => 0

inductive Op where
  | deposit (a : Addr) (x : Int) (vaultOk stratOk acctOk : Bool)
  | withdraw (a : Addr) (want : Int) (vaultOk stratOk : Bool)
  /-- interest accruing in the underlying market: a positive strategy value grows by `dv ≥ 0` -/
  | accrue (dv : Int)

def step (s : St) : Op → Res
  | .deposit a x v st ac => deposit s a x v st ac
  | .withdraw a w v st => withdraw s a w v st
  -- the environment can only grow an existing position (nothing accrues on an empty one)
  | .accrue dv => if dv < 0 ∨ (s.val = 0 ∧ dv ≠ 0) then .err else .ok { s with val := s.val + dv }

/-- a failed or panicking message leaves the state unchanged (baseapp) -/
def next (s : St) (o : Op) : St :=
  match step s o with
  | .ok s' => s'
  | _ => s

def run (s : St) (ops : List Op) : St := ops.foldl next s

/-- the account on whose behalf an operation acts (none for the environment step) -/
def Op.actor : Op → Option Addr
  | .deposit a _ _ _ _ => some a
  | .withdraw a _ _ _ => some a
  | .accrue _ => none

/-- several vaults: an operation on vault `v` steps that vault's state only -/
def wnext (w : Nat → St) (v : Nat) (o : Op) : Nat → St :=
  fun u => if u = v then next (w v) o else w u

def empty : St :=
  { found := false, tot := 0, sh := fun _ => 0, val := 0, loose := 0, bal := fun _ => 0 }

end KV.Earn
