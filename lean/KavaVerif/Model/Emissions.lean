/-
  C19 — Emissions.  Executable model (core Lean only) of

  (a) x/community/keeper/staking.go        `calculateStakingRewards`, `PayoutAccumulatedStakingRewards`
  (b) x/community/keeper/disable_inflation.go `CheckAndDisableMintAndKavaDistInflation`
      x/community/abci.go                   `BeginBlocker` (disable, then payout)
  (c) x/kavadist/keeper/mint.go             `MintPeriodInflation`, `mintIncentivePeriods`, `mintInflationaryCoins`
      x/kavadist/keeper/infrastructure.go   `mintInfrastructurePeriods`
  (d) app/app.go                            begin-blocker order of community / mint / kavadist (generated)

  Times are `Int` nanoseconds since the Unix epoch; Go's zero `time.Time{}` is `none`.
  `time.Time.Unix()` is `t / 10^9` (floor).  `Time.Sub` saturates at ±2^63 ns (≈ 292 years); the model
  uses plain subtraction (assumption: block times lie within 292 years of each other).
  The model follows the code that exists; the kavadist "period has ended" case of the current code
  measures from `previousBlockTime` without clipping to `period.Start` (finding F9).  The repaired code
  (findings/C19-kavadist-window.diff) is the `Variant.fixed` model; `live` says which one the
  correspondence driver runs against /repo.
-/
import KavaVerif.Num.Dec
import KavaVerif.Generated.Consts
import KavaVerif.Generated.C19Wiring

namespace KV.Em

inductive Res (α : Type) where
  | ok (a : α)
  | err
  | panic
deriving Repr, DecidableEq

def Res.isOk {α : Type} : Res α → Bool
  | .ok _ => true
  | _ => false

def Res.cls {α : Type} : Res α → String
  | .ok _ => "ok"
  | .err => "err"
  | .panic => "panic"

/-- `nanosecondsInOneSecond` of x/community/keeper/staking.go (regenerated from the source) -/
def NS : Int := KV.Gen.communityNanosPerSecond

/-! ## (a) staking rewards -/

/-- `sdk.Dec.TruncateDec` -/
def truncateDec (a : Dec) : Dec := Dec.ofInt (Dec.truncateInt a)

/-- `nanosecondsSinceLastPayout.Mul(stakingRewardsPerSecond).QuoInt64(nanosecondsInOneSecond).Add(lastTruncationError)` -/
def accrued (now last : Int) (err rate : Dec) : Dec :=
  Dec.add (Dec.quoInt (Dec.mul (Dec.ofInt (now - last)) rate) NS) err

/-- `calculateStakingRewards(currentBlockTime, lastAccumulationTime, lastTruncationError,
    stakingRewardsPerSecond, communityPoolBalance)` → (truncated rewards, truncation error) -/
def calculateStakingRewards (now last : Int) (err rate pool : Dec) : Int × Dec :=
  let acc1 := accrued now last err rate
  let acc := if pool.m < acc1.m then pool else acc1
  let truncated := truncateDec acc
  (Dec.truncateInt truncated, Dec.sub acc truncated)

/-- staking-rewards state + the two balances the payout moves -/
structure StakingSt where
  last : Option Int        -- `LastAccumulationTime`; `none` = zero time (un-initialised)
  err : Dec                -- `LastTruncationError`
  pool : Int               -- x/community module account, bond denom
  fee : Int                -- fee collector, bond denom
deriving Repr, DecidableEq

/-- `PayoutAccumulatedStakingRewards` (returns the amount paid as well) -/
def payout (rate : Dec) (now : Int) (s : StakingSt) : Res (StakingSt × Int) :=
  match s.last with
  | none => .ok ({ s with last := some now }, 0)
  | some last =>
    let r := calculateStakingRewards now last s.err rate (Dec.ofInt s.pool)
    if r.1 = 0 then .ok ({ s with last := some now, err := r.2 }, 0)
    else if r.1 < 0 then .panic                 -- sdk.NewCoin panics on a negative amount
    else if s.pool < r.1 then .panic            -- SendCoinsFromModuleToModule error ⇒ panic(err)
    else .ok ({ last := some now, err := r.2, pool := s.pool - r.1, fee := s.fee + r.1 }, r.1)

/-- A history of blocks `(block time, pool balance seen by that block)` run through
    `calculateStakingRewards` with the state threading of `PayoutAccumulatedStakingRewards`
    (initialised state).  Returns the per-block payouts, the final accumulation time and error.
    The pool balance is an input of every block: anything may happen to the pool between blocks. -/
def runBlocks (rate : Dec) : Int → Dec → List (Int × Int) → List Int × Int × Dec
  | last, err, [] => ([], last, err)
  | last, err, (now, pool) :: bs =>
    let r := calculateStakingRewards now last err rate (Dec.ofInt pool)
    let rest := runBlocks rate now r.2 bs
    (r.1 :: rest.1, rest.2.1, rest.2.2)

/-- the cap `if communityPoolBalance.LT(accumulatedRewards)` is never taken along the history -/
def uncapped (rate : Dec) : Int → Dec → List (Int × Int) → Bool
  | _, _, [] => true
  | last, err, (now, pool) :: bs =>
    !decide ((Dec.ofInt pool).m < (accrued now last err rate).m) &&
      uncapped rate now (calculateStakingRewards now last err rate (Dec.ofInt pool)).2 bs

/-- the same history with a rate that may change from block to block (params update, or the switch-over
    copying the upgrade rate): block = `(time, pool balance seen, rate in force in that block)` -/
def runBlocksR : Int → Dec → List (Int × Int × Dec) → List Int × Int × Dec
  | last, err, [] => ([], last, err)
  | last, err, (now, pool, rate) :: bs =>
    let r := calculateStakingRewards now last err rate (Dec.ofInt pool)
    let rest := runBlocksR now r.2 bs
    (r.1 :: rest.1, rest.2.1, rest.2.2)

/-- `Σ_b rate_b · (t_b − t_{b−1})` in mantissa·nanosecond units -/
def rateTime : Int → List (Int × Int × Dec) → Int
  | _, [] => 0
  | last, (now, _, rate) :: bs => rate.m * (now - last) + rateTime now bs

/-- times non-decreasing, rates and pools non-negative -/
def okBlocksR : Int → List (Int × Int × Dec) → Prop
  | _, [] => True
  | t, (now, pool, rate) :: bs => t ≤ now ∧ 0 ≤ pool ∧ 0 ≤ rate.m ∧ okBlocksR now bs

def sumL : List Int → Int
  | [] => 0
  | x :: xs => x + sumL xs

/-- block times are non-decreasing, starting at `t` -/
def sortedFrom : Int → List (Int × Int) → Prop
  | _, [] => True
  | t, (now, _) :: bs => t ≤ now ∧ sortedFrom now bs

def lastTime : Int → List (Int × Int) → Int
  | t, [] => t
  | _, (now, _) :: bs => lastTime now bs

/-- every block's payout is non-negative and at most the pool balance that block saw -/
def paidWithin : List Int → List (Int × Int) → Prop
  | [], [] => True
  | p :: ps, (_, pool) :: bs => 0 ≤ p ∧ p ≤ pool ∧ paidWithin ps bs
  | _, _ => False

/-! ## (b) the one-shot switch-over -/

structure CommParams where
  upgradeTime : Option Int   -- `UpgradeTimeDisableInflation`; `none` = zero time
  rate : Dec                 -- `StakingRewardsPerSecond`
  upgradeRate : Dec          -- `UpgradeTimeSetStakingRewardsPerSecond`
deriving Repr, DecidableEq

/-- the other modules' parameters the switch-over writes -/
structure Infl where
  mintMin : Dec
  mintMax : Dec
  kavadistActive : Bool
  communityTax : Dec
deriving Repr, DecidableEq

/-- `CheckAndDisableMintAndKavaDistInflation`: (fired?, community params, inflation params) -/
def checkAndDisable (now : Int) (p : CommParams) (x : Infl) : Bool × CommParams × Infl :=
  match p.upgradeTime with
  | none => (false, p, x)
  | some u =>
    if u > now then (false, p, x)
    else (true,
          { upgradeTime := none, rate := p.upgradeRate, upgradeRate := p.upgradeRate },
          { mintMin := Dec.zero, mintMax := Dec.zero, kavadistActive := false, communityTax := Dec.zero })

structure CommSt where
  params : CommParams
  infl : Infl
  stk : StakingSt
deriving Repr, DecidableEq

/-- x/community `BeginBlocker`: switch-over first, then the payout with the (possibly new) rate.
    `inflow` is what `StartCommunityFundConsolidation` moves into the community account when the
    switch-over fires (the truncated x/distribution community pool; not modelled further). -/
def communityBeginBlock (now inflow : Int) (s : CommSt) : Res (CommSt × Bool × Int) :=
  let d := checkAndDisable now s.params s.infl
  let stk := if d.1 then { s.stk with pool := s.stk.pool + inflow } else s.stk
  match payout d.2.1.rate now stk with
  | .ok (stk', paid) => .ok ({ params := d.2.1, infl := d.2.2, stk := stk' }, d.1, paid)
  | .err => .err
  | .panic => .panic

/-- `Params.Validate` of x/community/types/params.go: both rates are non-negative (any upgrade time,
    including the zero time, is valid) -/
def CommParams.valid (p : CommParams) : Bool := decide (0 ≤ p.rate.m) && decide (0 ≤ p.upgradeRate.m)

/-- `msgServer.UpdateParams` (x/community/keeper/msg_server.go), the governance `MsgUpdateParams`:
    wrong authority ⇒ error, invalid params ⇒ error, otherwise the params are stored — and NOTHING else:
    the staking-rewards state (accumulation time, carried truncation error), the pool and the fee
    collector are not touched.  A failed message changes nothing (`authOk` = the message's authority is
    the keeper's authority, the x/gov module account). -/
def updateParamsMsg (authOk : Bool) (new : CommParams) (s : CommSt) : Res CommSt :=
  if !authOk then .err
  else if !new.valid then .err
  else .ok { s with params := new }

/-- One step of a staking-rewards history as governance and the chain interleave them:
    a block `(time, pool balance seen)` — its begin blocker pays at the rate stored at that moment —
    or a params-update message (executed after the begin blocker of its block, before the next block)
    that replaces the stored rate. -/
inductive HStep where
  | block (now pool : Int)
  | update (rate : Dec)
deriving Repr, DecidableEq

/-- run a history of blocks and params updates from (stored rate, accumulation time, carried error):
    a block is `calculateStakingRewards` with the stored rate, threaded as `PayoutAccumulatedStakingRewards`
    threads it; an update only replaces the stored rate (`updateParamsMsg` is the identity on the
    staking-rewards state).  Returns the per-block payouts, final accumulation time, error and rate. -/
def runHist : Dec → Int → Dec → List HStep → List Int × Int × Dec × Dec
  | rate, last, err, [] => ([], last, err, rate)
  | rate, last, err, .block now pool :: hs =>
    let r := calculateStakingRewards now last err rate (Dec.ofInt pool)
    let rest := runHist rate now r.2 hs
    (r.1 :: rest.1, rest.2)
  | _, last, err, .update rate' :: hs => runHist rate' last err hs

/-- the blocks of a history with the rate in force for each: the rate stored when its begin blocker ran -/
def blocksOf : Dec → List HStep → List (Int × Int × Dec)
  | _, [] => []
  | rate, .block now pool :: hs => (now, pool, rate) :: blocksOf rate hs
  | _, .update rate' :: hs => blocksOf rate' hs

/-- the cap is never taken along a history with per-block rates -/
def uncappedR : Int → Dec → List (Int × Int × Dec) → Bool
  | _, _, [] => true
  | last, err, (now, pool, rate) :: bs =>
    !decide ((Dec.ofInt pool).m < (accrued now last err rate).m) &&
      uncappedR now (calculateStakingRewards now last err rate (Dec.ofInt pool)).2 bs

/-- run the switch-over alone over a list of block times; returns the fired flags and the final state -/
def runDisable : CommParams → Infl → List Int → List Bool × CommParams × Infl
  | p, x, [] => ([], p, x)
  | p, x, now :: ts =>
    let d := checkAndDisable now p x
    let rest := runDisable d.2.1 d.2.2 ts
    (d.1 :: rest.1, rest.2)

/-! ## (c) kavadist -/

structure Period where
  start : Int
  end_ : Int
  inflation : Dec
deriving Repr, DecidableEq

/-- `time.Time.Unix()` -/
def unix (t : Int) : Int := t / 1000000000

/-- which code is modelled: the tree as it is, or the tree with findings/C19-kavadist-window.diff -/
inductive Variant where
  | current
  | fixed
deriving Repr, DecidableEq

/-- start of the interval the "period has ended" case mints for -/
def windowStart : Variant → Period → Int → Int
  | .current, _, prev => prev
  | .fixed, p, prev => if p.start > prev then p.start else prev

/-- THE SWITCH: the variant the correspondence driver ties to /repo.  When the fix is applied to
    /repo change `.current` to `.fixed` here (nothing else). -/
def live : Variant := .fixed

/-- SECOND SWITCH: does /repo still dereference the nil amount of a zero-coin infrastructure mint
    (findings/C19-infra-zero-mint-panic.md)?  Change to `false` when that fix is applied. -/
def liveZeroMintPanics : Bool := false

/-- the `switch` of mintIncentivePeriods / mintInfrastructurePeriods, case by case, in order -/
inductive PCase where
  | expired      -- Case 1: period.End.Before(previousBlockTime)
  | ended        -- Case 2: End.After(prev) && (End.Before(now) || End.Equal(now))
  | ongoing      -- Case 3: (Start.Before(prev) || Start.Equal(prev)) && End.After(now)
  | notStarted   -- Case 4: Start.After(now) || Start.Equal(now)
  | nomatch      -- no case matches: nothing happens
deriving Repr, DecidableEq

def classify (p : Period) (prev now : Int) : PCase :=
  if p.end_ < prev then .expired
  else if p.end_ > prev ∧ p.end_ ≤ now then .ended
  else if p.start ≤ prev ∧ p.end_ > now then .ongoing
  else if p.start ≥ now then .notStarted
  else .nomatch

/-- one call of `mintInflationaryCoins`: the interval `(lo, hi]` it is for and the `timePeriods` passed -/
structure Mint where
  idx : Nat          -- position of the period in the list
  period : Period
  lo : Int
  hi : Int
  secs : Int         -- `timeElapsed`
deriving Repr, DecidableEq

/-- `mintIncentivePeriods(ctx, periods, previousBlockTime)`; `i` is the index of the head period -/
def mintIncentivePeriods (v : Variant) (now : Int) : List Period → Int → Nat → List Mint
  | [], _, _ => []
  | p :: ps, prev, i =>
    match classify p prev now with
    | .ended =>
      let lo := windowStart v p prev
      ⟨i, p, lo, p.end_, unix p.end_ - unix lo⟩ :: mintIncentivePeriods v now ps p.end_ (i + 1)
    | .ongoing =>
      ⟨i, p, prev, now, unix now - unix prev⟩ :: mintIncentivePeriods v now ps prev (i + 1)
    | _ => mintIncentivePeriods v now ps prev (i + 1)

/-- `mintInfrastructurePeriods`: the same switch; additionally returns the last `timeElapsed` assigned
    (Case 4 assigns it too) — `te` is the value so far -/
def mintInfrastructurePeriods (v : Variant) (now : Int) : List Period → Int → Nat → Int → List Mint × Int
  | [], _, _, te => ([], te)
  | p :: ps, prev, i, te =>
    match classify p prev now with
    | .ended =>
      let lo := windowStart v p prev
      let s := unix p.end_ - unix lo
      let r := mintInfrastructurePeriods v now ps p.end_ (i + 1) s
      (⟨i, p, lo, p.end_, s⟩ :: r.1, r.2)
    | .ongoing =>
      let s := unix now - unix prev
      let r := mintInfrastructurePeriods v now ps prev (i + 1) s
      (⟨i, p, prev, now, s⟩ :: r.1, r.2)
    | .notStarted => mintInfrastructurePeriods v now ps prev (i + 1) (unix now - unix prev)
    | _ => mintInfrastructurePeriods v now ps prev (i + 1) te

/-- `validatePeriodsParams`: end not before start, chronological, non-overlapping -/
def validPeriods : Int → List Period → Prop
  | _, [] => True
  | prevEnd, p :: ps => p.start ≤ p.end_ ∧ prevEnd ≤ p.start ∧ validPeriods p.end_ ps

/-- the property's window predicate for one mint made in a block with `previousBlockTime = prev` and
    block time `now`: the interval lies in `[start, end] ∩ [prev, now]` and `timeElapsed` is its length -/
def Mint.windowOK (m : Mint) (prev now : Int) : Prop :=
  m.period.start ≤ m.lo ∧ m.hi ≤ m.period.end_ ∧ prev ≤ m.lo ∧ m.hi ≤ now ∧ m.lo ≤ m.hi ∧
    m.secs = unix m.hi - unix m.lo

instance (m : Mint) (prev now : Int) : Decidable (m.windowOK prev now) := by
  unfold Mint.windowOK; exact inferInstance

/-- `MintPeriodInflation` over a history of blocks `(block time, params.Active)`, starting with a stored
    `previousBlockTime = prev`: all `mintInflationaryCoins` calls made for the incentive periods, in
    order.  An inactive block returns before `SetPreviousBlockTime`. -/
def kdHistory (v : Variant) (ps : List Period) : Int → List (Int × Bool) → List Mint
  | _, [] => []
  | prev, (now, active) :: bs =>
    if active then mintIncentivePeriods v now ps prev 0 ++ kdHistory v ps now bs
    else kdHistory v ps prev bs

def sortedTimes : Int → List (Int × Bool) → Prop
  | _, [] => True
  | t, (now, _) :: bs => t ≤ now ∧ sortedTimes now bs

def lastTimeT : Int → List (Int × Bool) → Int
  | t, [] => t
  | _, (now, _) :: bs => lastTimeT now bs

/-- seconds (`timeElapsed`) minted for the period at list position `k` -/
def secsFor (k : Nat) : List Mint → Int
  | [] => 0
  | m :: ms => (if m.idx = k then m.secs else 0) + secsFor k ms

/-! ### amounts: `mintInflationaryCoins` with `RelativePow` as a parameter -/

/-- `mintInflationaryCoins`: the amount minted for `secs` periods at per-second rate `rate` on total
    supply `supply`; `pow x n` stands for `sdkmath.RelativePow(x, n, 10^18)` -/
def inflationInt (rate : Dec) : Int := Dec.truncateInt (Dec.mul rate (Dec.ofInt P))

def mintAmount (pow : Int → Int → Int) (supply : Int) (rate : Dec) (secs : Int) : Int :=
  let accumulator := Dec.mul ⟨pow (inflationInt rate) secs * P⟩ Dec.smallest
  Dec.truncateInt (Dec.sub (Dec.mul (Dec.ofInt supply) accumulator) (Dec.ofInt supply))

/-- thread the supply through a list of mints: (minted amounts, new supply) -/
def applyMints (pow : Int → Int → Int) : Int → List Mint → List Int × Int
  | supply, [] => ([], supply)
  | supply, m :: ms =>
    let a := mintAmount pow supply m.period.inflation m.secs
    let r := applyMints pow (supply + a) ms
    (a :: r.1, r.2)

/-- transcription of `sdkmath.RelativePow` (cosmossdk.io/math v1.3.0 uint.go); used by the driver only,
    the theorems take `pow` as a parameter.  256-bit overflow panics are not modelled. -/
def relPowLoop : Nat → Int → Int → Int → Int → Int
  | 0, _, _, z, _ => z
  | fuel + 1, x, n, z, b =>
    if n > 0 then
      let x' := (x * x + b / 2) / b
      let z' := if n % 2 = 1 then (z * x' + b / 2) / b else z
      relPowLoop fuel x' (n / 2) z' b
    else z

def relPow (x n b : Int) : Int :=
  if x = 0 then (if n = 0 then 1 else 0)
  else
    let z := if n % 2 = 0 then b else x
    relPowLoop 300 x (n / 2) z b

def relPow18 (x n : Int) : Int := relPow x n P

structure KdSt where
  prev : Option Int        -- `PreviousBlockTimeKey`; `none` = not found
  periods : List Period    -- `params.Periods`
  infra : List Period      -- `params.InfrastructureParams.InfrastructurePeriods`
deriving Repr, DecidableEq

/-- `MintPeriodInflation` with no partner / core rewards configured:
    (state, incentive mints, infrastructure mints, infrastructure timeElapsed) -/
def mintPeriodInflation (v : Variant) (active : Bool) (now : Int) (s : KdSt) : KdSt × List Mint × List Mint × Int :=
  if !active then (s, [], [], 0)
  else match s.prev with
    | none => ({ s with prev := some now }, [], [], 0)
    | some prev =>
      let inf := mintInfrastructurePeriods v now s.infra prev 0 0
      ({ s with prev := some now }, mintIncentivePeriods v now s.periods prev 0, inf.1, inf.2)

/-! ## (d) one chain block: community, mint, kavadist in the generated begin-blocker order -/

/-- the three modules of interest, in the order app/app.go gives them -/
def order3 : List String :=
  KV.Gen.c19BeginBlockers.filter (fun m => m == "community" || m == "mint" || m == "kavadist")

structure Chain where
  comm : CommSt
  kd : KdSt
  supply : Int                   -- bank supply of ukava
  fired : Bool := false          -- the switch-over fired in this block
  paid : Int := 0                -- staking rewards paid in this block
  kdMints : List Mint := []      -- kavadist mint calls of this block (incentive ++ infrastructure)
  kdMinted : Int := 0            -- coins kavadist minted in this block
deriving Repr, DecidableEq

/-- x/kavadist `BeginBlocker` (no partner / core rewards configured).  `mintInflationaryCoins` returns
    the empty `sdk.Coin{}` (nil amount) when it mints nothing, and `mintInfrastructurePeriods` then calls
    `coins.IsZero()` on it: a nil dereference, i.e. a begin-block panic, whenever an infrastructure
    period's mint call yields zero coins (finding, findings/C19-infra-zero-mint-panic.md).
    `mintIncentivePeriods` discards the coin, so a zero mint is harmless there.
    `zp` = "the tree still has that nil dereference" (`liveZeroMintPanics` for /repo as it is). -/
def kavadistBeginBlock (v : Variant) (zp : Bool) (pow : Int → Int → Int) (now : Int) (c : Chain) : Res Chain :=
  let r := mintPeriodInflation v c.comm.infl.kavadistActive now c.kd
  let a1 := applyMints pow c.supply r.2.1
  let a2 := applyMints pow a1.2 r.2.2.1
  if zp && a2.1.any (fun a => a == 0) then .panic
  else .ok { c with kd := r.1, supply := a2.2, kdMints := r.2.1 ++ r.2.2.1, kdMinted := a2.2 - c.supply }

def moduleStep (v : Variant) (zp : Bool) (pow : Int → Int → Int) (now inflow mintProv : Int) (c : Res Chain)
    (name : String) : Res Chain :=
  match c with
  | .ok c =>
    if name == "community" then
      match communityBeginBlock now inflow c.comm with
      | .ok (s, f, p) => .ok { c with comm := s, fired := f, paid := p }
      | .err => .err
      | .panic => .panic
    else if name == "mint" then
      -- x/mint: its provisions are a function of its own params and the supply (not modelled);
      -- `mintProv` is what it minted in this block
      .ok { c with supply := c.supply + mintProv }
    else if name == "kavadist" then kavadistBeginBlock v zp pow now c
    else .ok c
  | r => r

/-- the begin blockers of community, mint, kavadist in the order app/app.go registers them -/
def chainBeginBlock (v : Variant) (zp : Bool) (pow : Int → Int → Int) (now inflow mintProv : Int) (c : Chain) :
    Res Chain :=
  order3.foldl (moduleStep v zp pow now inflow mintProv)
    (.ok { c with fired := false, paid := 0, kdMints := [], kdMinted := 0 })

end KV.Em
