/-
  Model of x/pricefeed (keeper/keeper.go, keeper/msg_server.go, keeper/params.go, abci.go) and of the
  price gates of its consumers (x/cdp: ValidateCollateral + the status flags written by the begin
  blocker, CalculateCollateralizationRatio, ValidateLiquidation, LiquidateCdps; x/hard: ValidateBorrow,
  LoadLiquidationData / IsWithinValidLtvRange), transcribed branch by branch.

  Markets and oracles are `Nat` (their order is the store's key order); prices are `sdk.Dec` mantissas
  (`Int`, scale 10^18); times are `Int` nanoseconds.  Core Lean only.
-/
import KavaVerif.Num.Dec

namespace KV.PF

abbrev Market := Nat
abbrev Oracle := Nat

/-- `types.PostedPrice` -/
structure Post where
  market : Nat     -- Market
  oracle : Nat     -- Oracle
  price : Int      -- sdk.Dec mantissa
  expiry : Int     -- ns since the epoch
deriving DecidableEq, Repr, Inhabited

/-- `types.Market` (base/quote asset names are not used by any logic) -/
structure MarketP where
  id : Nat
  oracles : List Nat
  active : Bool
deriving DecidableEq, Repr, Inhabited

def updO {α : Type} (f : Nat → α) (k : Nat) (v : α) : Nat → α := fun x => if x = k then v else f x

/-- module store: raw prices in key order `0x01 | len market | market | len oracle | oracle`,
    current prices `0x00 | market` (none = key absent; `CurrentPrice{}` is stored as price 0) -/
structure St where
  raw : List Post
  cur : Market → Option Int

inductive Res (α : Type) where
  | ok (a : α)
  | err         -- ordinary error (baseapp rolls the message back)
  | panic       -- Go panic
deriving Inhabited

def Res.isOk {α : Type} : Res α → Bool
  | .ok _ => true
  | _ => false

def Res.isErr {α : Type} : Res α → Bool
  | .err => true
  | _ => false

/-! ### raw price store -/

def sameKey (p q : Post) : Bool := p.market == q.market && p.oracle == q.oracle

/-- byte order of `RawPriceKey` for equal-length ids: market first, then oracle -/
def keyLt (p q : Post) : Bool :=
  decide (p.market < q.market) || (p.market == q.market && decide (p.oracle < q.oracle))

/-- `store.Set(RawPriceKey(market, oracle), …)` on the ordered store -/
def rawSet (p : Post) : List Post → List Post
  | [] => [p]
  | q :: t =>
    if sameKey p q then p :: t
    else if keyLt p q then p :: q :: t
    else q :: rawSet p t

/-- `expiry.After(ctx.BlockTime())` -/
def live (now : Int) (p : Post) : Bool := decide (now < p.expiry)

/-- `SetPrice`: refuses `!expiry.After(blockTime)`, i.e. expiry ≤ now; otherwise writes the
    (market, oracle) slot.  It never touches the current price. -/
def setPrice (now : Int) (s : St) (p : Post) : Res St :=
  if !live now p then .err
  else .ok { s with raw := rawSet p s.raw }

/-- `GetMarket` / `GetOracles`: first market with that id -/
def findMarket (ms : List MarketP) (m : Market) : Option MarketP := ms.find? (fun x => x.id == m)

/-- `MsgPostPrice.ValidateBasic` (price ≥ 0, `Expiry.Unix() > 0`) followed by the msg server:
    `GetOracle` (market exists, sender is one of its oracles) then `SetPrice`. -/
def postPrice (now : Int) (ms : List MarketP) (s : St) (p : Post) : Res St :=
  if p.price < 0 then .err
  else if p.expiry / 1000000000 ≤ 0 then .err
  else match findMarket ms p.market with
    | none => .err
    | some mk =>
      if !mk.oracles.contains p.oracle then .err
      else setPrice now s p

/-! ### median -/

def ins (x : Int) : List Int → List Int
  | [] => [x]
  | y :: t => if x ≤ y then x :: y :: t else y :: ins x t

/-- `sort.Slice(prices, LT)`: any correct sort returns this list (`Proofs`: the sorted
    permutation of a list of `Dec`s is unique, so instability cannot show) -/
def isort : List Int → List Int
  | [] => []
  | x :: t => ins x (isort t)

/-- `calculateMeanPrice`: `a.Add(b).Quo(sdk.NewDec(2))` -/
def mean (a b : Int) : Int := (Dec.quo (Dec.add ⟨a⟩ ⟨b⟩) (Dec.ofInt 2)).m

/-- `CalculateMedianPrice` on a non-empty list -/
def median (l : List Int) : Int :=
  if l.length = 1 then l.getD 0 0
  else
    let s := isort l
    if l.length % 2 = 0 then mean (s.getD (l.length / 2 - 1) 0) (s.getD (l.length / 2) 0)
    else s.getD (l.length / 2) 0

/-- `CalculateMedianPrice` as a Go function: an empty slice indexes `prices[-1]` and panics
    (both callers guard `len == 0`). -/
def calculateMedianPrice (l : List Int) : Res Int :=
  if l.length = 0 then .panic else .ok (median l)

/-! ### sort-free specification of the median (used by the driver's predicate and by `Props`) -/

/-- `x` has rank `k` in `l`: at most `k` elements are smaller and at most `length − 1 − k` larger -/
def isKth (l : List Int) (k : Nat) (x : Int) : Bool :=
  decide (l.countP (fun y => decide (y < x)) ≤ k) &&
  decide (l.countP (fun y => decide (x < y)) + k + 1 ≤ l.length)

/-- the k-th smallest element, found by counting only -/
def kth (l : List Int) (k : Nat) : Int := (l.find? (isKth l k)).getD 0

/-- the median by rank: the middle element, or the Dec mean of the two middle elements -/
def specMedian (l : List Int) : Int :=
  if l.length % 2 = 0 then mean (kth l (l.length / 2 - 1)) (kth l (l.length / 2))
  else kth l (l.length / 2)

/-! ### current price -/

/-- `GetCurrentPrice`: absent or zero ⇒ `ErrNoValidPrice` -/
def getCurrentPrice (s : St) (m : Market) : Option Int :=
  match s.cur m with
  | none => none
  | some v => if v = 0 then none else some v

/-- `GetRawPrices(market)` then the expiry filter: prices of the unexpired posts of one market,
    in store order -/
def livePrices (now : Int) (raw : List Post) (m : Market) : List Int :=
  ((raw.filter (fun p => p.market == m)).filter (live now)).map (·.price)

/-- what both routines store for a market given its unexpired prices -/
def aggregate (ne : List Int) : Int := if ne.length = 0 then 0 else median ne

/-- `SetCurrentPrices(market)` (only used by InitGenesis and tests; not run under baseapp, so the
    store write that precedes `ErrNoValidPrice` is kept): returns the new store and `err != nil` -/
def setCurrentPrices (now : Int) (ms : List MarketP) (s : St) (m : Market) : St × Bool :=
  match findMarket ms m with
  | none => (s, true)
  | some _ =>
    let ne := livePrices now s.raw m
    if ne.length = 0 then ({ s with cur := updO s.cur m (some 0) }, true)
    else ({ s with cur := updO s.cur m (some (median ne)) }, false)

/-- first loop of `SetCurrentPricesForAllMarkets`: ids of the active markets in params order -/
def activeIds (ms : List MarketP) : List Market := (ms.filter (·.active)).map (·.id)

/-- second loop: one pass over the whole raw store, appending unexpired prices to the entry of
    their market when that market is in the map -/
def collect (now : Int) (act : List Market) (raw : List Post) : Market → List Int :=
  raw.foldl (fun acc p =>
    if !act.contains p.market then acc
    else if live now p then updO acc p.market (acc p.market ++ [p.price])
    else acc) (fun _ => [])

/-- third loop: store zero or the median for every active market -/
def storeAll (byId : Market → List Int) (act : List Market) (cur : Market → Option Int) :
    Market → Option Int :=
  act.foldl (fun c m => updO c m (some (aggregate (byId m)))) cur

/-- `SetCurrentPricesForAllMarkets` = pricefeed `EndBlocker` -/
def setAll (now : Int) (ms : List MarketP) (s : St) : St :=
  let act := activeIds ms
  { s with cur := storeAll (collect now act s.raw) act s.cur }

def endBlocker := setAll

/-! ### consumer gates (decision logic only; every check that does not read a price is an input) -/

/-- cdp `CollateralParam`: the two market ids -/
structure CP where
  spot : Market
  liq : Market
deriving DecidableEq, Repr, Inhabited

/-- `UpdatePricefeedStatus` -/
def updateStatus (price : Market → Option Int) (flags : Market → Bool) (m : Market) :
    (Market → Bool) × Bool :=
  match price m with
  | none => (updO flags m false, false)
  | some _ => (updO flags m true, true)

/-- one iteration of the cdp `BeginBlocker` loop, status part: spot first; `continue` when it is
    down (the liquidation market's flag is then left as it was) -/
def beginStep (price : Market → Option Int) (flags : Market → Bool) (cp : CP) : Market → Bool :=
  let r := updateStatus price flags cp.spot
  if !r.2 then r.1 else (updateStatus price r.1 cp.liq).1

def beginFlags (price : Market → Option Int) (cps : List CP) (flags : Market → Bool) : Market → Bool :=
  cps.foldl (beginStep price) flags

/-- `LiquidateCdps` price part: error before any seizure when the liquidation price is missing -/
def liquidateCdps (price : Market → Option Int) (cp : CP) : Res Unit :=
  match price cp.liq with
  | none => .err
  | some _ => .ok ()

/-- does the cdp `BeginBlocker` reach the seizure loop for this collateral type? -/
def beginSeizes (price : Market → Option Int) (cp : CP) (skipInterval : Bool) : Bool :=
  match price cp.spot with
  | none => false
  | some _ =>
    match price cp.liq with
    | none => false
    | some _ => if skipInterval then false else (liquidateCdps price cp).isOk

/-- `ValidateCollateral` -/
def validateCollateral (flags : Market → Bool) (found denomOk : Bool) (cp : CP) : Res Unit :=
  if !found then .err
  else if !denomOk then .err
  else if !flags cp.spot then .err
  else if !flags cp.liq then .err
  else .ok ()

/-- `CalculateCollateralizationRatio` followed by the comparison with the liquidation ratio:
    zero collateral short-cuts to ratio 0 without reading a price; otherwise `GetCurrentPrice`.
    `cmp p` = outcome of the caller's comparison at price `p`, `cmp0` = its outcome at ratio 0. -/
def ratioGate (price : Market → Option Int) (m : Market) (collZero : Bool) (cmp0 : Bool)
    (cmp : Int → Bool) : Res Unit :=
  if collZero then (if cmp0 then .ok () else .err)
  else match price m with
    | none => .err
    | some p => if cmp p then .ok () else .err

/-- non-price inputs of the cdp actions, in the order the code evaluates them -/
structure CdpIn where
  cdpFound : Bool := true     -- draw only: the CDP lookup that precedes `ValidateCollateral`
  found : Bool := true        -- collateral type exists
  denomOk : Bool := true
  pre : Bool := true          -- the non-price checks before the ratio check (cdp found, balance, limits …)
  collZero : Bool := false    -- the collateral the ratio is computed on is zero
  cmp0 : Bool := false        -- the action's ratio test at ratio 0 (false for create/draw/withdraw, true for liquidate)
  cmp : Int → Bool := fun _ => true

/-- `AddCdp` -/
def cdpCreate (price : Market → Option Int) (flags : Market → Bool) (cp : CP) (i : CdpIn) : Res Unit :=
  match validateCollateral flags i.found i.denomOk cp with
  | .ok _ => if !i.pre then .err else ratioGate price cp.spot i.collZero i.cmp0 i.cmp
  | r => r

/-- `DepositCollateral` -/
def cdpDeposit (flags : Market → Bool) (cp : CP) (i : CdpIn) : Res Unit :=
  match validateCollateral flags i.found i.denomOk cp with
  | .ok _ => if !i.pre then .err else .ok ()
  | r => r

/-- `WithdrawCollateral` -/
def cdpWithdraw (price : Market → Option Int) (flags : Market → Bool) (cp : CP) (i : CdpIn) : Res Unit :=
  match validateCollateral flags i.found i.denomOk cp with
  | .ok _ => if !i.pre then .err else ratioGate price cp.spot i.collZero i.cmp0 i.cmp
  | r => r

/-- `AddPrincipal` (draw): the CDP is looked up first (`cdpFound`), then `ValidateCollateral` on its
    collateral (both status flags, as for create / deposit / withdraw), then the remaining non-price
    checks, then the ratio check reads the spot price -/
def cdpDraw (price : Market → Option Int) (flags : Market → Bool) (cp : CP) (i : CdpIn) : Res Unit :=
  if !i.cdpFound then .err
  else match validateCollateral flags i.found i.denomOk cp with
    | .ok _ => if !i.pre then .err else ratioGate price cp.spot i.collZero i.cmp0 i.cmp
    | r => r

/-- `AttemptKeeperLiquidation`: `ValidateLiquidation` reads the liquidation-market price -/
def cdpLiquidate (price : Market → Option Int) (cp : CP) (i : CdpIn) : Res Unit :=
  if !i.pre then .err else ratioGate price cp.liq i.collZero i.cmp0 i.cmp

/-- hard: `GetMoneyMarket(denom)` then `GetCurrentPrice(mm.SpotMarketID)` for a list of denoms, in
    order; `mm d = none` = no money market.  `none` = the function returned an error. -/
def loadPrices (price : Market → Option Int) (mm : Nat → Option Market) : List Nat → Option (List Int)
  | [] => some []
  | d :: t =>
    match mm d with
    | none => none
    | some m =>
      match price m with
      | none => none
      | some p => (loadPrices price mm t).map (p :: ·)

/-- non-price inputs of the hard actions -/
structure HardIn where
  pre : Bool := true                                   -- the checks before the first price read
  final : List Int → Bool := fun _ => true             -- the value checks done on the loaded prices

/-- `ValidateBorrow`: prices of the requested coins, then of the deposit coins, then of the existing
    borrow coins (any miss ⇒ `ErrPriceNotFound`), then the value checks -/
def hardBorrow (price : Market → Option Int) (mm : Nat → Option Market) (req dep bor : List Nat)
    (i : HardIn) : Res Unit :=
  if !i.pre then .err
  else match loadPrices price mm req with
    | none => .err
    | some a =>
      match loadPrices price mm dep with
      | none => .err
      | some b =>
        match loadPrices price mm bor with
        | none => .err
        | some c => if i.final (a ++ b ++ c) then .ok () else .err

/-- `IsWithinValidLtvRange` → `LoadLiquidationData(deposit, borrow)`: borrow denoms then deposit denoms
    (`removeDuplicates` only merges and sorts them) -/
def ltvGate (price : Market → Option Int) (mm : Nat → Option Market) (dep bor : List Nat)
    (i : HardIn) : Res Unit :=
  if !i.pre then .err
  else match loadPrices price mm (bor ++ dep) with
    | none => .err
    | some a => if i.final a then .ok () else .err

/-- hard `Withdraw`: the LTV check runs on the deposit that would remain (`depAfter`) and the borrow -/
def hardWithdraw (price : Market → Option Int) (mm : Nat → Option Market) (depAfter bor : List Nat)
    (i : HardIn) : Res Unit := ltvGate price mm depAfter bor i

/-- hard `AttemptKeeperLiquidation`: the LTV check on the whole deposit and borrow -/
def hardLiquidate (price : Market → Option Int) (mm : Nat → Option Market) (dep bor : List Nat)
    (i : HardIn) : Res Unit := ltvGate price mm dep bor i

/-! ### the source shapes this model transcribes
  `Props/C18.lean` proves that the tables regenerated from /repo on every run (`KV.Gen.c18…`) equal these;
  a source edit that changes a guard, a filter, the comparator, the mean, the end blocker or the set of
  price readers / gate calls re-opens that obligation. -/
namespace Shape
/-- `live`/`setPrice`: refuse unless `expiry.After(blockTime)` -/
def setPriceGuard : String := "!expiry.After(ctx.BlockTime())"
/-- `livePrices` (per-market routine) -/
def perMarketFilter : String := "v.Expiry.After(ctx.BlockTime())"
/-- `collect` (all-markets routine) -/
def allMarketsFilter : String := "postedPrice.Expiry.After(ctx.BlockTime())"
/-- `aggregate` -/
def noPriceTest : String := "len(notExpiredPrices) == 0"
/-- `getCurrentPrice` -/
def zeroTest : String := "price.Price.Equal(sdk.ZeroDec())"
/-- `ins`/`isort` -/
def medianLess : String := "prices[i].Price.LT(prices[j].Price)"
/-- `mean` -/
def meanBody : List String := ["sum := priceA.Price.Add(priceB.Price)", "mean := sum.Quo(sdk.NewDec(2))", "return mean"]
/-- `endBlocker` -/
def endBlockerCalls : List String := ["k.SetCurrentPricesForAllMarkets"]
/-- the price readers covered by a gate model (ValidateRepay and the querier's
    CalculateCollateralizationRatioFromAbsoluteRatio read prices but are not among the listed actions) -/
def priceReaders : List (String × String × String × Nat) := [
  ("x/cdp/abci.go", "BeginBlocker", "UpdatePricefeedStatus", 2),
  ("x/cdp/genesis.go", "InitGenesis", "UpdatePricefeedStatus", 2),
  ("x/cdp/keeper/cdp.go", "CalculateCollateralizationRatio", "GetCurrentPrice", 1),
  ("x/cdp/keeper/cdp.go", "CalculateCollateralizationRatioFromAbsoluteRatio", "GetCurrentPrice", 1),
  ("x/cdp/keeper/cdp.go", "UpdatePricefeedStatus", "GetCurrentPrice", 1),
  ("x/cdp/keeper/cdp.go", "ValidateCollateral", "GetMarketStatus", 2),
  ("x/cdp/keeper/seize.go", "LiquidateCdps", "GetCurrentPrice", 1),
  ("x/hard/keeper/borrow.go", "ValidateBorrow", "GetCurrentPrice", 3),
  ("x/hard/keeper/liquidation.go", "LoadLiquidationData", "GetCurrentPrice", 1),
  ("x/hard/keeper/repay.go", "ValidateRepay", "GetCurrentPrice", 2)
]
/-- which gate each action calls (`cdpCreate` … `hardLiquidate`) -/
def gateCalls : List (String × String × List String) := [
  ("x/cdp/keeper/cdp.go", "AddCdp", ["ValidateCollateral", "ValidateCollateralizationRatio"]),
  ("x/cdp/keeper/deposit.go", "DepositCollateral", ["ValidateCollateral"]),
  ("x/cdp/keeper/deposit.go", "WithdrawCollateral", ["ValidateCollateral", "CalculateCollateralizationRatio"]),
  ("x/cdp/keeper/draw.go", "AddPrincipal", ["ValidateCollateral", "ValidateCollateralizationRatio"]),
  ("x/cdp/keeper/seize.go", "AttemptKeeperLiquidation", ["ValidateLiquidation"]),
  ("x/cdp/keeper/cdp.go", "ValidateCollateralizationRatio", ["CalculateCollateralizationRatio"]),
  ("x/cdp/keeper/seize.go", "ValidateLiquidation", ["CalculateCollateralizationRatio"]),
  ("x/hard/keeper/borrow.go", "Borrow", ["ValidateBorrow"]),
  ("x/hard/keeper/withdraw.go", "Withdraw", ["IsWithinValidLtvRange"]),
  ("x/hard/keeper/liquidation.go", "AttemptKeeperLiquidation", ["IsWithinValidLtvRange"]),
  ("x/hard/keeper/liquidation.go", "IsWithinValidLtvRange", ["LoadLiquidationData"])
]
end Shape

end KV.PF
