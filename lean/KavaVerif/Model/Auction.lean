/-
  Model of x/auction (keeper/math.go, keeper/auctions.go, keeper/keeper.go, types/auctions.go, abci.go),
  transcribed branch by branch in the code's own evaluation order.  Core Lean only.

  * §1  `splitIntIntoWeightedBuckets` (largest remainder method) and the decidable predicate
        `IsLRSplit` the Go output is checked against (any tie-break among equal remainders).
  * §2  bid rules as pure functions (minimum increment, max-bid clamp, end time).
  * §3  the keeper state machine: auction table, by-time index, bank balances of all parties.

  Conventions: addresses and denominations are `Nat`; `sdkmath.Int` is `Int`; times and durations are
  `Int` nanoseconds; a Go panic is `.panic`, an ordinary error `.err` (state unchanged: baseapp
  discards the cache).  `sdk.NewCoins(c)` drops a zero coin, so a transfer of amount 0 moves nothing.
-/
import KavaVerif.Num.Dec

namespace KV.Auc

/-! ## 0. sums -/

/-- `Σ_{i<n} f i` -/
def sumTo : Nat → (Nat → Int) → Int
  | 0, _ => 0
  | n + 1, f => sumTo n f + f n

def sumL : List Int → Int
  | [] => 0
  | x :: xs => x + sumL xs

/-! ## 1. `splitIntIntoWeightedBuckets` (keeper/math.go) -/

/-- `sort.Slice(quotients, rem_i > rem_j)` as the insertion sort Go runs for ≤ 12 elements:
    an element moves left only past strictly smaller remainders (equal remainders keep index order). -/
def insDesc (rf : Nat → Int) (x : Nat) : List Nat → List Nat
  | [] => [x]
  | y :: ys => if rf y > rf x then y :: insDesc rf x ys else x :: y :: ys

def sortIdx (rf : Nat → Int) : List Nat → List Nat
  | [] => []
  | x :: xs => insDesc rf x (sortIdx rf xs)

/-- the apportioning loop: `if !leftToAllocate.IsZero() { +1; left-- }` along the sorted order;
    returns the bucket indices that receive the extra unit -/
def allocIdx : Int → List Nat → List Nat
  | _, [] => []
  | left, i :: is => if left ≠ 0 then i :: allocIdx (left - 1) is else allocIdx left is

/-- result list given the set `E` of buckets that get the extra unit -/
def partsOf (n : Nat) (q : Nat → Int) (E : List Nat) : List Int :=
  (List.range' 0 n).map fun i => q i + (if i ∈ E then 1 else 0)

/-- the split, for an arbitrary order `σ` of the buckets used by the apportioning loop
    (`sort.Slice` is not stable: any order that is non-increasing in the remainder may come out) -/
def splitWith (σ : List Nat) (a : Int) (ws : List Int) : List Int :=
  let W := sumL ws
  let q := fun i => a * ws.getD i 0 / W
  partsOf ws.length q (allocIdx (a - sumTo ws.length q) σ)

/-- `sdkmath.Int` results must fit 256 bits, otherwise `Add`/`Mul` panic ("Int overflow") -/
def fits256 (x : Int) : Bool :=
  decide (x < 115792089237316195423570985008687907853269984665640564039457584007913129639936) &&
  decide (-115792089237316195423570985008687907853269984665640564039457584007913129639936 < x)

/-- `splitIntIntoWeightedBuckets`; `none` = one of its four panics or an `sdkmath.Int` overflow panic
    (weights are non-negative there, so partial sums of `totalInts` are bounded by the total).
    Operands of `Quo`/`Mod` are non-negative after the guards, where big.Int `Quo`/`Mod` are `/`,`%`. -/
def lrSplit (a : Int) (ws : List Int) : Option (List Int) :=
  if a < 0 then none                      -- panic("negative amount")
  else if ws.length < 1 then none         -- panic("no buckets")
  else if ws.any (· < 0) then none        -- panic("negative bucket")
  else if ¬ fits256 (sumL ws) then none   -- Int overflow in totalInts
  else if ¬ (0 < sumL ws) then none       -- panic("total weights must sum to > 0")
  else if ws.any (fun w => ¬ fits256 (a * w)) then none   -- Int overflow in amount.Mul(bucket)
  else
    let r := fun i => a * ws.getD i 0 % sumL ws
    some (splitWith (sortIdx r (List.range' 0 ws.length)) a ws)

/-- The largest-remainder predicate on an output `parts` (decidable; evaluated on every Go output):
    same length; every part is its quotient or its quotient plus one; the parts sum to the amount;
    every bucket that got the extra unit has a remainder ≥ that of every bucket that did not. -/
def IsLRSplit (a : Int) (ws parts : List Int) : Prop :=
  let W := sumL ws
  let q := fun i => a * ws.getD i 0 / W
  let r := fun i => a * ws.getD i 0 % W
  let e := fun i => parts.getD i 0 - q i
  parts.length = ws.length ∧
  (∀ i, i < ws.length → e i = 0 ∨ e i = 1) ∧
  sumTo ws.length (fun i => parts.getD i 0) = a ∧
  (∀ i, i < ws.length → ∀ j, j < ws.length → e i = 1 → e j = 0 → r j ≤ r i)

instance (a : Int) (ws parts : List Int) : Decidable (IsLRSplit a ws parts) := by
  unfold IsLRSplit; exact inferInstance

/-- admissible input of the split: what the guards of the Go function let through -/
def SplitInput (a : Int) (ws : List Int) : Prop :=
  0 ≤ a ∧ (∀ i, i < ws.length → 0 ≤ ws.getD i 0) ∧ 0 < sumL ws

/-! ## 2. bid rules (auctions.go) -/

/-- `sdk.MaxInt(1, sdk.NewDecFromInt(old).Mul(inc).RoundInt())` -/
def incOf (old : Int) (inc : Dec) : Int :=
  let x := Dec.roundInt (Dec.mul (Dec.ofInt old) inc)
  if 1 > x then 1 else x

/-- `minNewBidAmt` of a surplus auction -/
def minBidSurplus (old : Int) (inc : Dec) : Int := old + incOf old inc

/-- `minNewBidAmt` of a collateral auction in the forward phase: `MinInt(old + inc, maxBid)` -/
def minBidCollateral (old : Int) (inc : Dec) (maxBid : Int) : Int :=
  let m := old + incOf old inc
  if m < maxBid then m else maxBid

/-- `maxNewLotAmt` of a reverse bid -/
def maxLot (old : Int) (inc : Dec) : Int := old - incOf old inc

/-- `earliestTime(now.Add(d), maxEnd)` -/
def endTime (now d maxEnd : Int) : Int := if now + d < maxEnd then now + d else maxEnd

/-! ## 3. keeper state machine -/

abbrev Addr := Nat
abbrev Denom := Nat

inductive Kind where
  | surplus | debt | collateral
deriving DecidableEq, Repr, Inhabited

/-- `types.SurplusAuction` / `DebtAuction` / `CollateralAuction` (BaseAuction + extras).
    `bidder` is an address; the Go `nil` bidder is the reserved address `Env.nilAddr`.
    `bid` has denomination `bidD`; `maxBid` too. Fields a kind does not have are 0 / []. -/
structure Auction where
  id : Nat
  kind : Kind
  initiator : Addr
  lotD : Denom
  lot : Int
  bidder : Addr
  bidD : Denom
  bid : Int
  hasBids : Bool
  endT : Int
  maxEnd : Int
  debtD : Denom
  debt : Int
  maxBid : Int
  retAddrs : List Addr
  retW : List Int
deriving DecidableEq, Repr, Inhabited

structure Params where
  maxDur : Int
  fwdDur : Int
  revDur : Int
  incS : Dec
  incD : Dec
  incC : Dec

/-- static facts of the chain the keeper runs in -/
structure Env where
  M : Addr                 -- module account "auction"
  nilAddr : Addr           -- stands for the empty bidder address
  blocked : Addr → Bool    -- x/bank blocked addresses
  minter : Addr → Bool     -- module account has the Minter permission
  burner : Addr → Bool
  distantFuture : Int      -- types.DistantFuture

abbrev Bal := Addr → Denom → Int

structure St where
  auc : Nat → Option Auction      -- store prefix 0x00, keyed by id
  nextId : Nat                    -- store key 0x02
  index : List (Int × Nat)        -- store prefix 0x01: keys (end time, id) in byte order
  bal : Bal

inductive Res where
  | ok (s : St)
  | err
  | notFound     -- ErrAuctionNotFound (an ordinary error; CloseExpiredAuctions ignores it)
  | panic

def Res.isOk : Res → Bool
  | .ok _ => true
  | _ => false

/-! ### bank -/

def upd2 (f : Bal) (a : Addr) (d : Denom) (v : Int) : Bal :=
  fun x y => if x = a ∧ y = d then v else f x y

/-- x/bank `SendCoins(from, to, NewCoins(n d))`: zero moves nothing; `none` = insufficient funds -/
def send (b : Bal) (frm to : Addr) (d : Denom) (n : Int) : Option Bal :=
  if n = 0 then some b
  else if n < 0 ∨ b frm d < n then none
  else
    let b1 := upd2 b frm d (b frm d - n)
    some (upd2 b1 to d (b1 to d + n))

/-- `SendCoinsFromModuleToAccount`: the blocked-address check comes first -/
def sendM2A (env : Env) (b : Bal) (frm to : Addr) (d : Denom) (n : Int) : Option Bal :=
  if env.blocked to then none else send b frm to d n

/-- `BurnCoins` once the permission check passed -/
def burnFrom (b : Bal) (m : Addr) (d : Denom) (n : Int) : Option Bal :=
  if n = 0 then some b
  else if n < 0 ∨ b m d < n then none
  else some (upd2 b m d (b m d - n))

def mintTo (b : Bal) (m : Addr) (d : Denom) (n : Int) : Bal :=
  if n = 0 then b else upd2 b m d (b m d + n)

/-! ### store (keeper.go) -/

def updA (f : Nat → Option Auction) (i : Nat) (v : Option Auction) : Nat → Option Auction :=
  fun x => if x = i then v else f x

/-- byte order of `FormatTimeBytes(end) ++ Uint64ToBytes(id)` -/
def keyLt (x y : Int × Nat) : Bool := decide (x.1 < y.1) || (decide (x.1 = y.1) && decide (x.2 < y.2))

/-- `store.Set` on the by-time prefix: a map, kept in key order -/
def idxInsert (k : Int × Nat) : List (Int × Nat) → List (Int × Nat)
  | [] => [k]
  | y :: ys => if k = y then y :: ys else if keyLt k y then k :: y :: ys else y :: idxInsert k ys

/-- `store.Delete` -/
def idxRemove (k : Int × Nat) (l : List (Int × Nat)) : List (Int × Nat) := l.filter (fun x => x ≠ k)

/-- `SetAuction` -/
def setAuction (s : St) (a : Auction) : St :=
  let idx1 := match s.auc a.id with
    | some ex => idxRemove (ex.endT, ex.id) s.index
    | none => s.index
  { s with auc := updA s.auc a.id (some a), index := idxInsert (a.endT, a.id) idx1 }

/-- `DeleteAuction` -/
def deleteAuction (s : St) (id : Nat) : St :=
  let idx1 := match s.auc id with
    | some ex => idxRemove (ex.endT, id) s.index
    | none => s.index
  { s with auc := updA s.auc id none, index := idx1 }

/-- `StoreNewAuction` -/
def storeNew (s : St) (a : Auction) : St :=
  let s1 := setAuction s { a with id := s.nextId }
  { s1 with nextId := s.nextId + 1 }

/-! ### starting auctions -/

def newSurplus (env : Env) (seller : Addr) (lotD : Denom) (lot : Int) (bidD : Denom) : Auction :=
  { id := 0, kind := .surplus, initiator := seller, lotD := lotD, lot := lot, bidder := env.nilAddr,
    bidD := bidD, bid := 0, hasBids := false, endT := env.distantFuture, maxEnd := env.distantFuture,
    debtD := 0, debt := 0, maxBid := 0, retAddrs := [], retW := [] }

def newDebt (env : Env) (buyer : Addr) (bidD : Denom) (bid : Int) (lotD : Denom) (lot : Int)
    (debtD : Denom) (debt : Int) : Auction :=
  { id := 0, kind := .debt, initiator := buyer, lotD := lotD, lot := lot, bidder := buyer,
    bidD := bidD, bid := bid, hasBids := false, endT := env.distantFuture, maxEnd := env.distantFuture,
    debtD := debtD, debt := debt, maxBid := 0, retAddrs := [], retW := [] }

def newCollateral (env : Env) (seller : Addr) (lotD : Denom) (lot : Int) (bidD : Denom) (maxBid : Int)
    (addrs : List Addr) (ws : List Int) (debtD : Denom) (debt : Int) : Auction :=
  { id := 0, kind := .collateral, initiator := seller, lotD := lotD, lot := lot, bidder := env.nilAddr,
    bidD := bidD, bid := 0, hasBids := false, endT := env.distantFuture, maxEnd := env.distantFuture,
    debtD := debtD, debt := debt, maxBid := maxBid, retAddrs := addrs, retW := ws }

/-- `StartSurplusAuction` (`sdk.NewCoins(lot)` panics on a negative coin) -/
def startSurplus (env : Env) (s : St) (seller : Addr) (lotD : Denom) (lot : Int) (bidD : Denom) : Res :=
  if lot < 0 then .panic else
  match send s.bal seller env.M lotD lot with
  | none => .err
  | some b => .ok (storeNew { s with bal := b } (newSurplus env seller lotD lot bidD))

/-- `StartDebtAuction` -/
def startDebt (env : Env) (s : St) (buyer : Addr) (bidD : Denom) (bid : Int) (lotD : Denom) (lot : Int)
    (debtD : Denom) (debt : Int) : Res :=
  if ¬ env.minter buyer then .panic
  else if debt < 0 then .panic else
  match send s.bal buyer env.M debtD debt with
  | none => .err
  | some b => .ok (storeNew { s with bal := b } (newDebt env buyer bidD bid lotD lot debtD debt))

/-- `WeightedAddresses.Validate` -/
def weightsValid (addrs : List Addr) (ws : List Int) : Bool :=
  decide (1 ≤ ws.length) && decide (addrs.length = ws.length) && !(ws.any (· < 0)) && decide (0 < sumL ws)

/-- `StartCollateralAuction` -/
def startCollateral (env : Env) (s : St) (seller : Addr) (lotD : Denom) (lot : Int) (bidD : Denom)
    (maxBid : Int) (addrs : List Addr) (ws : List Int) (debtD : Denom) (debt : Int) : Res :=
  if ¬ weightsValid addrs ws then .err
  else if lot < 0 then .panic else
  match send s.bal seller env.M lotD lot with
  | none => .err
  | some b1 =>
    if debt < 0 then .panic else
    match send b1 seller env.M debtD debt with
    | none => .err
    | some b2 =>
      .ok (storeNew { s with bal := b2 } (newCollateral env seller lotD lot bidD maxBid addrs ws debtD debt))

/-! ### bids -/

inductive BidRes where
  | ok (b : Bal) (a : Auction)
  | err
  | panic

/-- "New bidder pays back old bidder": bidder → module → old bidder -/
def refund (env : Env) (b : Bal) (bidder old : Addr) (d : Denom) (n : Int) : Option Bal :=
  match send b bidder env.M d n with
  | none => none
  | some b1 => sendM2A env b1 env.M old d n

/-- the `HasReceivedBids` / `MaxEndTime` / `EndTime` update shared by all four bid functions -/
def touch (p : Params) (now : Int) (dur : Int) (a : Auction) : Auction :=
  let maxEnd := if a.hasBids then a.maxEnd else now + p.maxDur
  { a with hasBids := true, maxEnd := maxEnd, endT := endTime now dur maxEnd }

/-- `PlaceBidSurplus` -/
def bidSurplus (env : Env) (p : Params) (now : Int) (b : Bal) (a : Auction) (bidder : Addr)
    (denom : Denom) (amt : Int) : BidRes :=
  if denom ≠ a.bidD then .err
  else if amt < minBidSurplus a.bid p.incS then .err
  else
    match (if bidder ≠ a.bidder ∧ a.bid ≠ 0 then refund env b bidder a.bidder a.bidD a.bid else some b) with
    | none => .err
    | some b1 =>
      match send b1 bidder a.initiator a.bidD (amt - a.bid) with
      | none => .err
      | some b2 =>
        if ¬ env.burner a.initiator then .panic else
        match burnFrom b2 a.initiator a.bidD (amt - a.bid) with
        | none => .err
        | some b3 => .ok b3 (touch p now p.fwdDur { a with bidder := bidder, bid := amt })

/-- a bank step the code only performs under a condition -/
def sendIf (c : Prop) [Decidable c] (b : Bal) (frm to : Addr) (d : Denom) (n : Int) : Option Bal :=
  if c then send b frm to d n else some b

/-- debt coins a forward collateral bid hands back to the initiator:
    `MinInt(bidIncrement, CorrespondingDebt)` while the corresponding debt is positive -/
def fwdDebtReturn (a : Auction) (amt : Int) : Int :=
  if 0 < a.debt then (if amt - a.bid < a.debt then amt - a.bid else a.debt) else 0

/-- `PlaceForwardBidCollateral` (only dispatched to when `bid ≠ maxBid`) -/
def bidCollateralFwd (env : Env) (p : Params) (now : Int) (b : Bal) (a : Auction) (bidder : Addr)
    (denom : Denom) (amt : Int) : BidRes :=
  if denom ≠ a.bidD then .err
  else if a.bid = a.maxBid then .panic
  else if amt < minBidCollateral a.bid p.incC a.maxBid then .err
  else if a.maxBid < amt then .err
  else
    match (if bidder ≠ a.bidder ∧ a.bid ≠ 0 then refund env b bidder a.bidder a.bidD a.bid else some b) with
    | none => .err
    | some b1 =>
      match send b1 bidder a.initiator a.bidD (amt - a.bid) with
      | none => .err
      | some b2 =>
        match sendIf (0 < a.debt) b2 env.M a.initiator a.debtD (fwdDebtReturn a amt) with
        | none => .err
        | some b3 =>
          .ok b3 (touch p now (if amt = a.maxBid then p.revDur else p.fwdDur)
                    { a with debt := a.debt - fwdDebtReturn a amt, bidder := bidder, bid := amt })

/-- the payout loop of a reverse bid: positive parts only -/
def payAll (env : Env) (d : Denom) : Bal → List Addr → List Int → Option Bal
  | b, x :: xs, n :: ns =>
    if 0 < n then
      match sendM2A env b env.M x d n with
      | none => none
      | some b1 => payAll env d b1 xs ns
    else payAll env d b xs ns
  | b, _, _ => some b

/-- `PlaceReverseBidCollateral` (only dispatched to when `bid = maxBid`) -/
def bidCollateralRev (env : Env) (p : Params) (now : Int) (b : Bal) (a : Auction) (bidder : Addr)
    (denom : Denom) (amt : Int) : BidRes :=
  if denom ≠ a.lotD then .err
  else if a.bid ≠ a.maxBid then .panic
  else if amt > maxLot a.lot p.incC then .err
  else if amt < 0 then .err
  else
    match (if bidder ≠ a.bidder then refund env b bidder a.bidder a.bidD a.bid else some b) with
    | none => .err
    | some b1 =>
      match lrSplit (a.lot - amt) a.retW with
      | none => .panic
      | some parts =>
        match payAll env a.lotD b1 a.retAddrs parts with
        | none => .err
        | some b2 => .ok b2 (touch p now p.revDur { a with bidder := bidder, lot := amt })

/-- debt coins the first bid of a debt auction hands back to the initiator:
    `MinInt(Bid, CorrespondingDebt)` when the standing bidder is still the initiator module -/
def debtReturn (a : Auction) : Int :=
  if a.bidder = a.initiator then (if a.bid < a.debt then a.bid else a.debt) else 0

/-- "New bidder pays back old bidder" of a debt auction: on the first bid the old bidder is the
    initiator's module address and is paid module-to-module -/
def refundDebt (env : Env) (b : Bal) (a : Auction) (bidder : Addr) : Option Bal :=
  if bidder ≠ a.bidder then
    match send b bidder env.M a.bidD a.bid with
    | none => none
    | some b1 =>
      if a.bidder = a.initiator then send b1 env.M a.initiator a.bidD a.bid
      else sendM2A env b1 env.M a.bidder a.bidD a.bid
  else some b

/-- `PlaceBidDebt` (the initial bidder is the initiator's module address) -/
def bidDebt (env : Env) (p : Params) (now : Int) (b : Bal) (a : Auction) (bidder : Addr)
    (denom : Denom) (amt : Int) : BidRes :=
  if denom ≠ a.lotD then .err
  else if amt > maxLot a.lot p.incD then .err
  else if amt < 0 then .err
  else
    match refundDebt env b a bidder with
    | none => .err
    | some b1 =>
      match sendIf (a.bidder = a.initiator) b1 env.M a.initiator a.debtD (debtReturn a) with
      | none => .err
      | some b2 =>
        .ok b2 (touch p now p.fwdDur { a with debt := a.debt - debtReturn a, bidder := bidder, lot := amt })

/-- the dispatch of `PlaceBid` -/
def bidDispatch (env : Env) (p : Params) (now : Int) (b : Bal) (a : Auction) (bidder : Addr)
    (denom : Denom) (amt : Int) : BidRes :=
  match a.kind with
  | .surplus => bidSurplus env p now b a bidder denom amt
  | .debt => bidDebt env p now b a bidder denom amt
  | .collateral =>
    if a.bid ≠ a.maxBid then bidCollateralFwd env p now b a bidder denom amt
    else bidCollateralRev env p now b a bidder denom amt

/-- `PlaceBid` -/
def placeBid (env : Env) (p : Params) (now : Int) (s : St) (id : Nat) (bidder : Addr)
    (denom : Denom) (amt : Int) : Res :=
  match s.auc id with
  | none => .notFound
  | some a =>
    if now > a.endT then .err
    else
      match bidDispatch env p now s.bal a bidder denom amt with
      | .err => .err
      | .panic => .panic
      | .ok b a' => .ok (setAuction { s with bal := b } a')

/-! ### closing -/

/-- the three `Payout…Auction` functions; `none` = error, `.panic` only for a failed mint -/
def payout (env : Env) (b : Bal) (a : Auction) : Option (Option Bal) :=
  match a.kind with
  | .surplus => some (sendM2A env b env.M a.bidder a.lotD a.lot)
  | .debt =>
    if ¬ env.minter a.initiator then none    -- MintCoins panics / `panic(could not mint coins)`
    else
      let b1 := mintTo b a.initiator a.lotD a.lot
      match sendM2A env b1 a.initiator a.bidder a.lotD a.lot with
      | none => some none
      | some b2 => if ¬ (0 < a.debt) then some (some b2) else some (send b2 env.M a.initiator a.debtD a.debt)
  | .collateral =>
    match sendM2A env b env.M a.bidder a.lotD a.lot with
    | none => some none
    | some b1 => if ¬ (0 < a.debt) then some (some b1) else some (send b1 env.M a.initiator a.debtD a.debt)

/-- `CloseAuction` -/
def closeAuction (env : Env) (now : Int) (s : St) (id : Nat) : Res :=
  match s.auc id with
  | none => .notFound
  | some a =>
    if now < a.endT then .err
    else
      match payout env s.bal a with
      | none => .panic
      | some none => .err
      | some (some b) => .ok (deleteAuction { s with bal := b } id)

/-- the callback loop of `CloseExpiredAuctions` over the ids found by the iterator -/
def closeAll (env : Env) (now : Int) : St → List Nat → Res
  | s, [] => .ok s
  | s, id :: ids =>
    match closeAuction env now s id with
    | .ok s1 => closeAll env now s1 ids
    | .notFound => closeAll env now s ids     -- ErrAuctionNotFound is skipped
    | .err => .err
    | .panic => .panic

/-- `BeginBlocker`: `IterateAuctionsByTime(now)` visits every index key whose time is ≤ now, in key
    order; any error other than not-found panics. -/
def beginBlock (env : Env) (now : Int) (s : St) : Res :=
  match closeAll env now s ((s.index.filter (fun k => decide (k.1 ≤ now))).map (·.2)) with
  | .ok s1 => .ok s1
  | _ => .panic

/-! ### operations and histories -/

inductive Op where
  | startSurplus (seller : Addr) (lotD : Denom) (lot : Int) (bidD : Denom)
  | startDebt (buyer : Addr) (bidD : Denom) (bid : Int) (lotD : Denom) (lot : Int) (debtD : Denom) (debt : Int)
  | startCollateral (seller : Addr) (lotD : Denom) (lot : Int) (bidD : Denom) (maxBid : Int)
      (addrs : List Addr) (ws : List Int) (debtD : Denom) (debt : Int)
  | placeBid (id : Nat) (bidder : Addr) (denom : Denom) (amt : Int)
  | close (id : Nat)
  | beginBlock
  /-- any other activity of the chain: a transfer between two accounts other than the auction module
      account (x/bank refuses user sends to it: it is a blocked address) -/
  | xfer (frm to : Addr) (d : Denom) (n : Int)

def step (env : Env) (p : Params) (now : Int) (s : St) : Op → Res
  | .startSurplus seller lotD lot bidD => startSurplus env s seller lotD lot bidD
  | .startDebt buyer bidD bid lotD lot debtD debt => startDebt env s buyer bidD bid lotD lot debtD debt
  | .startCollateral seller lotD lot bidD maxBid addrs ws debtD debt =>
      startCollateral env s seller lotD lot bidD maxBid addrs ws debtD debt
  | .placeBid id bidder denom amt => placeBid env p now s id bidder denom amt
  | .close id => closeAuction env now s id
  | .beginBlock => beginBlock env now s
  | .xfer frm to d n =>
      if frm = env.M ∨ to = env.M then .err else
      match send s.bal frm to d n with
      | none => .err
      | some b => .ok { s with bal := b }

/-- a history: operations with the block time each runs at; a failed operation changes nothing
    (baseapp discards its cache), a panic in a transaction likewise -/
def run (env : Env) (p : Params) : St → List (Int × Op) → St
  | s, [] => s
  | s, (now, op) :: rest =>
    match step env p now s op with
    | .ok s1 => run env p s1 rest
    | _ => run env p s rest

/-- a history in which governance may change the module parameters between any two operations — hence
    while auctions are open: every operation carries the parameters in force when it runs -/
def runP (env : Env) : St → List (Params × Int × Op) → St
  | s, [] => s
  | s, (p, now, op) :: rest =>
    match step env p now s op with
    | .ok s1 => runP env s1 rest
    | _ => runP env s rest

/-- what the module account holds for one auction (`GetModuleAccountCoins`) -/
def modCoins (a : Auction) (d : Denom) : Int :=
  match a.kind with
  | .surplus => if a.lotD = d then a.lot else 0
  | .debt => if a.debtD = d then a.debt else 0
  | .collateral => (if a.lotD = d then a.lot else 0) + (if a.debtD = d then a.debt else 0)

def modCoinsO (o : Option Auction) (d : Denom) : Int :=
  match o with
  | some a => modCoins a d
  | none => 0

/-- `Σ GetModuleAccountCoins` over the stored auctions (ids are below `nextId`) -/
def totalCoins (s : St) (d : Denom) : Int := sumTo s.nextId (fun i => modCoinsO (s.auc i) d)

end KV.Auc
