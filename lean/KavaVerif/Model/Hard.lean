/-
  Model of x/hard (Kava lending): the three separately written loan-to-value routines
  (`ValidateBorrow`, `IsWithinValidLtvRange`, the valuation in `SeizeDeposits`/`StartAuctions`),
  interest sync/accrual, deposit / withdraw / borrow / repay / keeper liquidation.

  Transcribed from x/hard/keeper/{borrow,withdraw,deposit,repay,liquidation,interest}.go, defects included.
  Core Lean only.  Conventions:
  * denominations are indices into `cfg.ds` (the store's sorted denom order); `sdk.Coins` is a function
    `Denom → Int` (0 = absent; the coins a Go loop ranges over are `supp ds c`, the positive entries, in order);
  * a deposit/borrow record exists iff its coins are non-empty (the keeper deletes empty records);
  * an interest-factor entry is `Option Int` (the Dec mantissa; `none` = no entry / not found);
  * ordinary errors are `.err e` (baseapp discards the cached store: callers keep the old state),
    Go panics are `.panic`;
  * per-denom loops whose iterations are independent are written point-wise (`fun d => …`);
  * the per-second borrow factor (`APYToSPY` → `CalculateBorrowInterestFactor`: ApproxRoot, RelativePow)
    is the parameter `phi`; `apyPos` is `borrowRateApy.IsPositive()`.
-/
import KavaVerif.Num.Dec

namespace KV.Hard
open KV

abbrev Denom := Nat
abbrev User := Nat
abbrev Coins := Denom → Int

inductive Err
  | invalidDepositDenom | depositNotFound | invalidWithdrawAmount | depositsNotFound | insufficientLtv
  | marketNotFound | priceNotFound | borrowExceedsBalance | borrowedCoinsNotFound | borrowLimit
  | borrowEmptyCoins | borrowNotFound | insufficientBalanceForRepay | notLiquidatable | insufficientCoins
  | suppliedCoinsNotFound | invalidWithdrawDenom | invalidRepaymentDenom | invalidIndexFactorDenom
  | belowMinimumBorrow | exceedsProtocolBorrowable | reservesExceedCash | insufficientFunds | noValidPrice
deriving DecidableEq, Repr, Inhabited

inductive Res (α : Type) where
  | ok : α → Res α
  | err : Err → Res α
  | panic : Res α
deriving Repr, DecidableEq

def Res.isOk {α : Type} : Res α → Bool
  | .ok _ => true
  | _ => false

/-- money market parameters + the current pricefeed price (`price.m = 0`: `GetCurrentPrice` fails) -/
structure Market where
  cf : Int
  price : Dec
  ltv : Dec
  reserveFactor : Dec
  keeperReward : Dec
  hasMax : Bool
  maxLimit : Dec
deriving Repr, Inhabited

structure Cfg where
  ds : List Denom
  mkt : Denom → Market
  minBorrow : Dec

def upd {α : Type} (f : Nat → α) (k : Nat) (v : α) : Nat → α := fun x => if x = k then v else f x

/-- the coins a Go `for _, coin := range coins` visits: positive entries in denom order -/
def supp (ds : List Denom) (c : Coins) : List Denom := ds.filter (fun d => decide (0 < c d))

def sumD : List Denom → (Denom → Int) → Int
  | [], _ => 0
  | d :: t, g => g d + sumD t g

def addC (a b : Coins) : Coins := fun d => a d + b d
def subC (a b : Coins) : Coins := fun d => a d - b d
def zeroC : Coins := fun _ => 0

/-! ### valuation -/

/-- `sdk.NewDecFromInt(amount).Quo(sdk.NewDecFromInt(conversionFactor)).Mul(price)` -/
def usdValue (m : Market) (a : Int) : Dec := ((Dec.ofInt a).quo (Dec.ofInt m.cf)).mul m.price

/-- Σ over the coins of `usdValue` (mantissa) -/
def valueOf (cfg : Cfg) (c : Coins) : Int :=
  sumD (supp cfg.ds c) (fun d => (usdValue (cfg.mkt d) (c d)).m)

/-- Σ over the deposit coins of `usdValue.Mul(LoanToValue)` (mantissa) -/
def borrowable (cfg : Cfg) (dep : Coins) : Int :=
  sumD (supp cfg.ds dep) (fun d => ((usdValue (cfg.mkt d) (dep d)).mul (cfg.mkt d).ltv).m)

def pricesOk (cfg : Cfg) (c : Coins) : Bool :=
  (supp cfg.ds c).all (fun d => (cfg.mkt d).price.m != 0)

/-- liquidation.go `IsWithinValidLtvRange` (deposit, borrow): Σ over the *merged* borrow -/
def isWithinLtv (cfg : Cfg) (dep bor : Coins) : Res Bool :=
  if !(pricesOk cfg bor && pricesOk cfg dep) then .err .noValidPrice
  else .ok (decide (valueOf cfg bor ≤ borrowable cfg dep))

/-- first loop of `ValidateBorrow`: price, global borrow limit, Σ value of the *new* coins -/
def proposedLoop (cfg : Cfg) (totB new : Coins) : List Denom → Int → Res Int
  | [], acc => .ok acc
  | d :: t, acc =>
    if (cfg.mkt d).price.m = 0 then .err .priceNotFound
    else if (cfg.mkt d).hasMax && decide ((Dec.ofInt (totB d + new d)).m > (cfg.mkt d).maxLimit.m) then .err .borrowLimit
    else proposedLoop cfg totB new t (acc + (usdValue (cfg.mkt d) (new d)).m)

/-- borrow.go `ValidateBorrow`: Σ value(new) + Σ value(existing) against Σ value(deposit)·LTV, then
    `IsWithinValidLtvRange` on the merged position.
    `cash`: module account balance; `reserves`, `totB`: stored totals; `dep`,`bor`: the borrower's stored records. -/
def validateBorrow (cfg : Cfg) (cash reserves totB dep bor new : Coins) : Res Unit :=
  let nd := supp cfg.ds new
  if nd.isEmpty then .err .borrowEmptyCoins
  else if nd.any (fun d => decide (cash d < reserves d)) then .err .reservesExceedCash
  else if nd.any (fun d => decide (new d > cash d - reserves d) && decide (cash d - reserves d ≠ 0)) then
    .err .exceedsProtocolBorrowable
  else match proposedLoop cfg totB new nd 0 with
    | .err e => .err e
    | .panic => .panic
    | .ok proposed =>
      if (supp cfg.ds dep).isEmpty then .err .depositsNotFound
      else if !(pricesOk cfg dep) then .err .priceNotFound
      else if !(pricesOk cfg bor) then .err .priceNotFound
      else if proposed + valueOf cfg bor < cfg.minBorrow.m then .err .belowMinimumBorrow
      else if proposed > borrowable cfg dep - valueOf cfg bor then .err .insufficientLtv
      else
        -- fix 68803c96d: the position that will be stored (existing + new, merged per denom) must also pass the
        -- routine liquidation uses
        match isWithinLtv cfg dep (addC bor new) with
        | .err e => .err e
        | .panic => .panic
        | .ok false => .err .insufficientLtv
        | .ok true => .ok ()

/-! ### state -/

structure Auction where
  lotDenom : Denom
  lot : Int
  bidDenom : Denom
  maxBid : Int
deriving DecidableEq, Repr

structure St where
  dep : User → Coins
  depIdx : User → Denom → Option Int
  bor : User → Coins
  borIdx : User → Denom → Option Int
  supIdx : Denom → Option Int
  brwIdx : Denom → Option Int
  supplied : Coins
  borrowed : Coins
  reserves : Coins
  cash : Coins
  bal : User → Coins
  accr : Denom → Option Int
  aucs : List Auction

/-- `Decrement{Supplied,Borrowed}Coins`: subtract, clipping at zero per denom -/
def decCoins (tot c : Coins) : Coins := fun d =>
  if 0 < c d then (if tot d < c d then (if 0 < tot d then 0 else tot d) else tot d - c d) else tot d

/-! ### interest sync -/

/-- borrow-side (and `loadSynced*`) formula: `(stored.Quo(userFactor).Mul(globalFactor)).Sub(stored).TruncateInt()` -/
def interestQM (a ui g : Int) : Int :=
  ((((Dec.ofInt a).quo ⟨ui⟩).mul ⟨g⟩).sub (Dec.ofInt a)).truncateInt

/-- supply-side sync formula: `(stored.Mul(globalFactor).Quo(userFactor)).Sub(stored).TruncateInt()` -/
def interestMQ (a ui g : Int) : Int :=
  ((((Dec.ofInt a).mul ⟨g⟩).quo ⟨ui⟩).sub (Dec.ofInt a)).truncateInt

/-- `SyncBorrowInterest` for one denom of the borrow: new amount -/
def syncBorAmt (a : Int) (ui : Option Int) (g : Int) : Int :=
  match ui with
  | none => a
  | some ui => a + interestQM a ui g

/-- Go panics inside `SyncBorrowInterest` for one denom: division by a zero factor, negative coin -/
def syncBorPanics (a : Int) (ui : Option Int) (g : Int) : Bool :=
  match ui with
  | none => false
  | some ui => ui == 0 || decide (interestQM a ui g < 0)

def syncBorrow (cfg : Cfg) (s : St) (u : User) : Res St :=
  let sp := supp cfg.ds (s.bor u)
  if sp.isEmpty then .ok s
  else if sp.any (fun d => syncBorPanics (s.bor u d) (s.borIdx u d) ((s.brwIdx d).getD 0)) then .panic
  else .ok { s with
    bor := upd s.bor u (fun d => if 0 < s.bor u d then syncBorAmt (s.bor u d) (s.borIdx u d) ((s.brwIdx d).getD 0) else s.bor u d)
    borIdx := upd s.borIdx u (fun d => if 0 < s.bor u d then some ((s.brwIdx d).getD 0) else s.borIdx u d) }

/-- `SyncSupplyInterest` for one denom: interest is added only when its truncation is positive -/
def syncSupAmt (a : Int) (ui : Option Int) (g : Int) : Int :=
  match ui with
  | none => a
  | some ui => if 0 < interestMQ a ui g then a + interestMQ a ui g else a

def syncSupPanics (ui : Option Int) : Bool :=
  match ui with
  | none => false
  | some ui => ui == 0

def syncSupply (cfg : Cfg) (s : St) (u : User) : Res St :=
  let sp := supp cfg.ds (s.dep u)
  if sp.isEmpty then .ok s
  else if sp.any (fun d => syncSupPanics (s.depIdx u d)) then .panic
  else .ok { s with
    dep := upd s.dep u (fun d => if 0 < s.dep u d then syncSupAmt (s.dep u d) (s.depIdx u d) ((s.supIdx d).getD 0) else s.dep u d)
    depIdx := upd s.depIdx u (fun d => if 0 < s.dep u d then some ((s.supIdx d).getD 0) else s.depIdx u d) }

/-- `loadSyncedBorrow` / `loadSyncedDeposit` (queries, genesis export) for one denom: quo-then-mul, and the
    interest coin is built unconditionally (a negative interest panics).  `g = none`: factor not found. -/
def loadSyncedAmt (a : Int) (ui g : Option Int) : Res Int :=
  match g, ui with
  | some g, some ui =>
    if ui = 0 then .panic
    else if interestQM a ui g < 0 then .panic
    else .ok (a + interestQM a ui g)
  | _, _ => .ok a

/-! ### deposit / withdraw / borrow / repay -/

def deposit (cfg : Cfg) (s : St) (u : User) (coins : Coins) : Res St :=
  let s1 := { s with supIdx := fun d => if 0 < coins d ∧ (s.supIdx d).isNone then some P else s.supIdx d }
  match syncSupply cfg s1 u with
  | .err e => .err e
  | .panic => .panic
  | .ok s2 =>
    if (supp cfg.ds coins).any (fun d => decide (s2.bal u d < coins d)) then .err .borrowExceedsBalance
    else .ok { s2 with
      depIdx := upd s2.depIdx u (fun d => if 0 < coins d then (match s2.supIdx d with | some g => some g | none => s2.depIdx u d) else s2.depIdx u d)
      dep := upd s2.dep u (addC (s2.dep u) coins)
      supplied := addC s2.supplied coins
      cash := addC s2.cash coins
      bal := upd s2.bal u (subC (s2.bal u) coins) }

/-- `CalculateWithdrawAmount` / `CalculatePaymentAmount`: request capped per denom by what is available -/
def capAmount (avail req : Coins) : Coins := fun d =>
  if 0 < req d then (if req d > avail d then avail d else req d) else 0

def denomsSubset (ds : List Denom) (req avail : Coins) : Bool :=
  (supp ds req).all (fun d => decide (avail d ≠ 0))

def withdraw (cfg : Cfg) (s : St) (u : User) (coins : Coins) : Res St :=
  if (supp cfg.ds (s.dep u)).isEmpty then .err .depositNotFound else
  match syncBorrow cfg s u with
  | .err e => .err e
  | .panic => .panic
  | .ok s1 =>
  match syncSupply cfg s1 u with
  | .err e => .err e
  | .panic => .panic
  | .ok s2 =>
    if !(denomsSubset cfg.ds coins (s2.dep u)) then .err .invalidWithdrawDenom else
    let amount := capAmount (s2.dep u) coins
    let proposed := subC (s2.dep u) amount
    match isWithinLtv cfg proposed (s2.bor u) with
    | .err e => .err e
    | .panic => .panic
    | .ok false => .err .invalidWithdrawAmount
    | .ok true =>
      if (supp cfg.ds amount).any (fun d => decide (s2.cash d < amount d)) then .err .insufficientFunds
      else if (supp cfg.ds (s2.dep u)).any (fun d => decide (proposed d ≤ 0) && (s2.depIdx u d).isNone) then
        .err .invalidIndexFactorDenom
      else if (supp cfg.ds s2.supplied).isEmpty then .err .suppliedCoinsNotFound
      else .ok { s2 with
        depIdx := upd s2.depIdx u (fun d => if 0 < s2.dep u d ∧ proposed d ≤ 0 then none else s2.depIdx u d)
        dep := upd s2.dep u proposed
        supplied := decCoins s2.supplied amount
        cash := subC s2.cash amount
        bal := upd s2.bal u (addC (s2.bal u) amount) }

def borrow (cfg : Cfg) (s : St) (u : User) (coins : Coins) : Res St :=
  let s0 := { s with brwIdx := fun d => if 0 < coins d ∧ (s.brwIdx d).isNone then some P else s.brwIdx d }
  match syncSupply cfg s0 u with
  | .err e => .err e
  | .panic => .panic
  | .ok s1 =>
  match syncBorrow cfg s1 u with
  | .err e => .err e
  | .panic => .panic
  | .ok s2 =>
  match validateBorrow cfg s2.cash s2.reserves s2.borrowed (s2.dep u) (s2.bor u) coins with
  | .err e => .err e
  | .panic => .panic
  | .ok () =>
    if (supp cfg.ds coins).any (fun d => decide (s2.cash d < coins d)) then .err .borrowExceedsBalance
    else .ok { s2 with
      borIdx := upd s2.borIdx u (fun d => if 0 < coins d then (match s2.brwIdx d with | some g => some g | none => s2.borIdx u d) else s2.borIdx u d)
      bor := upd s2.bor u (addC (s2.bor u) coins)
      borrowed := addC s2.borrowed coins
      cash := subC s2.cash coins
      bal := upd s2.bal u (addC (s2.bal u) coins) }

/-- `ValidateRepay` (sender's spendable balance, minimum borrow value unless full repayment) -/
def validateRepay (cfg : Cfg) (s : St) (sender owner : User) (payment : Coins) : Res Unit :=
  if !(pricesOk cfg (s.bor owner)) then .err .priceNotFound
  else if (supp cfg.ds payment).any (fun d => decide (s.bal sender d < payment d)) then .err .insufficientBalanceForRepay
  else
    let proposedNew := valueOf cfg (s.bor owner) - valueOf cfg payment
    let full := cfg.ds.all (fun d => decide (payment d = s.bor owner d))
    if decide (proposedNew < cfg.minBorrow.m) && !full then .err .belowMinimumBorrow
    else .ok ()

def repay (cfg : Cfg) (s : St) (sender owner : User) (coins : Coins) : Res St :=
  if (supp cfg.ds (s.bor owner)).isEmpty then .err .borrowNotFound else
  match syncBorrow cfg s owner with
  | .err e => .err e
  | .panic => .panic
  | .ok s1 =>
    if !(denomsSubset cfg.ds coins (s1.bor owner)) then .err .invalidRepaymentDenom else
    let payment := capAmount (s1.bor owner) coins
    match validateRepay cfg s1 sender owner payment with
    | .err e => .err e
    | .panic => .panic
    | .ok () =>
      if (supp cfg.ds payment).any (fun d => decide (s1.bal sender d < payment d)) then .err .insufficientFunds
      else if (supp cfg.ds payment).any (fun d => decide (payment d = s1.bor owner d) && (s1.borIdx owner d).isNone) then
        .err .invalidIndexFactorDenom
      else if (supp cfg.ds s1.borrowed).isEmpty then .err .borrowedCoinsNotFound
      else .ok { s1 with
        borIdx := upd s1.borIdx owner (fun d => if 0 < payment d ∧ payment d = s1.bor owner d then none else s1.borIdx owner d)
        bor := upd s1.bor owner (subC (s1.bor owner) payment)
        borrowed := decCoins s1.borrowed payment
        cash := addC s1.cash payment
        bal := upd s1.bal sender (subC (s1.bal sender) payment) }

/-! ### interest accrual (begin blocker, per denom) -/

/-- `CalculateSupplyInterestFactor(newInterest, cash, borrows, reserves)` on integer arguments
    (fix 485ea145c: factor 1 when cash + borrows − reserves is not positive) -/
def supplyFactor (newInterest cash borrows reserves : Int) : Dec :=
  let total := ((Dec.ofInt cash).add (Dec.ofInt borrows)).sub (Dec.ofInt reserves)
  if total.m ≤ 0 then Dec.one else ((Dec.ofInt newInterest).quo total).add Dec.one

/-- `AccrueInterest(denom)` at block time `now` (unix seconds) -/
def accrue (cfg : Cfg) (s : St) (d : Denom) (now : Int) (phi : Dec) (apyPos : Bool) : Res St :=
  match s.accr d with
  | none => .ok { s with accr := upd s.accr d (some now) }
  | some prev =>
    if now - prev = 0 then .ok s
    else if s.borrowed d = 0 then .ok { s with accr := upd s.accr d (some now) }
    else
      let bI := (s.brwIdx d).getD P
      let sI := (s.supIdx d).getD P
      let s0 := { s with brwIdx := upd s.brwIdx d (some bI), supIdx := upd s.supIdx d (some sI) }
      -- CalculateBorrowRate → CalculateUtilizationRatio returns 1 when cash + borrows - reserves is not positive
      -- (fix 9da123695): no division by zero any more
      let interest := (phi.mul (Dec.ofInt (s.borrowed d))).truncateInt - s.borrowed d
      if interest = 0 && apyPos then .ok s0
      else
        let reservesNew := ((Dec.ofInt interest).mul (cfg.mkt d).reserveFactor).truncateInt
        let supplyNew := interest - reservesNew
        let f := supplyFactor supplyNew (s.cash d) (s.borrowed d) (s.reserves d)
        if interest < 0 ∨ supplyNew < 0 ∨ reservesNew < 0 then .panic
        else .ok { s0 with
          brwIdx := upd s.brwIdx d (some (Dec.mul ⟨bI⟩ phi).m)
          supIdx := upd s.supIdx d (some (Dec.mul ⟨sI⟩ f).m)
          borrowed := upd s.borrowed d (s.borrowed d + interest)
          supplied := upd s.supplied d (s.supplied d + supplyNew)
          reserves := upd s.reserves d (s.reserves d + reservesNew)
          accr := upd s.accr d (some now) }

/-! ### keeper liquidation -/

/-- local variables of `StartAuctions` -/
structure AS where
  dVal : Denom → Int
  bVal : Denom → Int
  borrows : Coins
  deposits : Coins
  cash : Coins
  supplied : Coins
  borrowed : Coins
  aucs : List Auction

/-- common tail of both branches of the nested loop of `StartAuctions`, after the lot has been clamped: the
    "sanity check", `StartCollateralAuction` (the bank send of the lot), the optimistic decrements of the totals
    (`borrows.Sub(bid)` panics on a negative result), and the updates of the local valuation maps (`bv`, `dv`:
    new values of the two map entries) and coins. -/
def commitCore (cfg : Cfg) (b d : Denom) (st : AS) (lot bid bv dv : Int) (insufficient : Bool) : Res AS :=
  if st.deposits d < lot then .err .insufficientCoins
  else if st.cash d < lot then .err .insufficientFunds
  else if (supp cfg.ds st.supplied).isEmpty then .err .suppliedCoinsNotFound
  else if (supp cfg.ds st.borrowed).isEmpty then .err .borrowedCoinsNotFound
  else if st.borrows b < bid then .panic
  else .ok { st with
    cash := upd st.cash d (st.cash d - lot)
    supplied := decCoins st.supplied (upd zeroC d lot)
    borrowed := decCoins st.borrowed (upd zeroC b bid)
    aucs := st.aucs ++ [⟨d, lot, b, bid⟩]
    bVal := upd st.bVal b bv
    dVal := upd st.dVal d dv
    borrows := upd st.borrows b (st.borrows b - bid)
    deposits := upd st.deposits d (if insufficient then 0 else st.deposits d - lot) }

/-- the `insufficientLotFunds` clamp against the spendable coins `mc` read before the loops, then `commitCore` -/
def commitAuction (cfg : Cfg) (mc : Coins) (b d : Denom) (st : AS) (lot0 bid bv dv : Int) : Res AS :=
  commitCore cfg b d st (if lot0 > mc d then mc d else lot0) bid bv dv (decide (lot0 > mc d))

/-- branch "we can start an auction for the whole borrow amount": lot = maxLotSize·cf/price of the deposit denom -/
def startFull (cfg : Cfg) (mc : Coins) (b d : Denom) (st : AS) (maxLot : Int) : Res (AS × Int) :=
  if (cfg.mkt d).price.m = 0 then .panic else
  let lotSize := ((Dec.mulInt ⟨maxLot⟩ (cfg.mkt d).cf).quo (cfg.mkt d).price).truncateInt
  if lotSize = 0 then .ok (st, maxLot)
  else if lotSize < 0 then .panic
  else match commitAuction cfg mc b d st lotSize (st.borrows b) 0 (st.dVal d - maxLot) with
    | .err e => .err e
    | .panic => .panic
    | .ok st' => .ok (st', 0)

/-- branch "only a partial auction": lot = the whole remaining deposit of the denom, bid = its value·ltv in borrow units -/
def startPartial (cfg : Cfg) (ltv : Dec) (mc : Coins) (b d : Denom) (st : AS) (maxLot : Int) : Res (AS × Int) :=
  if (cfg.mkt b).price.m = 0 then .panic else
  let maxBid := Dec.mul ⟨st.dVal d⟩ ltv
  let bid := ((Dec.mulInt maxBid (cfg.mkt b).cf).quo (cfg.mkt b).price).truncateInt
  if bid < 0 ∨ st.deposits d < 0 then .panic
  else if bid = 0 ∨ st.deposits d = 0 then .ok (st, maxLot)
  else if ltv.m = 0 then .panic
  else match commitAuction cfg mc b d st (st.deposits d) bid (st.bVal b - maxBid.m) 0 with
    | .err e => .err e
    | .panic => .panic
    | .ok st' => .ok (st', (Dec.quo ⟨st.bVal b - maxBid.m⟩ ltv).m)

/-- one (bKey, dKey) iteration of the nested loop of `StartAuctions`; `mc` = the module's spendable coins
    read once before the loops.  Returns the new locals and the new `maxLotSize`.
    `break` on `maxLotSize == 0` is the same as skipping every remaining dKey. -/
def startOne (cfg : Cfg) (ltv : Dec) (mc : Coins) (b d : Denom) (st : AS) (maxLot : Int) : Res (AS × Int) :=
  if maxLot = 0 then .ok (st, maxLot)
  else if st.dVal d ≥ maxLot then startFull cfg mc b d st maxLot
  else startPartial cfg ltv mc b d st maxLot

def startInner (cfg : Cfg) (ltv : Dec) (mc : Coins) (b : Denom) : List Denom → AS → Int → Res AS
  | [], st, _ => .ok st
  | d :: t, st, maxLot =>
    match startOne cfg ltv mc b d st maxLot with
    | .err e => .err e
    | .panic => .panic
    | .ok (st', ml') => startInner cfg ltv mc b t st' ml'

def startOuter (cfg : Cfg) (ltv : Dec) (mc : Coins) (dKeys : List Denom) : List Denom → AS → Res AS
  | [], st => .ok st
  | b :: t, st =>
    if ltv.m = 0 then .panic else
    match startInner cfg ltv mc b dKeys st (Dec.quo ⟨st.bVal b⟩ ltv).m with
    | .err e => .err e
    | .panic => .panic
    | .ok st' => startOuter cfg ltv mc dKeys t st'

/-- the final loop of `StartAuctions`: what is left of each deposit denom goes back to the borrower.
    Returns (cash, returned) -/
def returnLoop : List Denom → Coins → Coins → Coins → Res (Coins × Coins)
  | [], _, cash, ret => .ok (cash, ret)
  | d :: t, deposits, cash, ret =>
    if 0 < deposits d then
      if cash d < deposits d then .err .insufficientFunds
      else returnLoop t deposits (upd cash d (cash d - deposits d)) (upd ret d (ret d + deposits d))
    else returnLoop t deposits cash ret

/-- keeper reward per deposit denom: `KeeperRewardPercentage.MulInt(amount).TruncateInt()` -/
def keeperReward (cfg : Cfg) (dep : Coins) : Coins := fun d =>
  if 0 < dep d then (Dec.mulInt (cfg.mkt d).keeperReward (dep d)).truncateInt else 0

/-- result of `SeizeDeposits`: module-level effects of a liquidation -/
structure Seized where
  cash : Coins
  supplied : Coins
  borrowed : Coins
  aucs : List Auction
  reward : Coins
  returned : Coins

def seizeDeposits (cfg : Cfg) (s : St) (dep bor : Coins) : Res Seized :=
  let reward := fun d => if 0 < keeperReward cfg dep d then keeperReward cfg dep d else 0
  let hasReward := !(supp cfg.ds reward).isEmpty
  if hasReward && (supp cfg.ds s.supplied).isEmpty then .err .suppliedCoinsNotFound
  else if hasReward && (supp cfg.ds reward).any (fun d => decide (s.cash d < reward d)) then .err .insufficientFunds
  else
    let supplied1 := if hasReward then decCoins s.supplied reward else s.supplied
    let cash1 := subC s.cash reward
    let auc := subC dep reward
    let dKeys := supp cfg.ds auc
    let bKeys := supp cfg.ds bor
    let dVal : Denom → Int := fun d => if 0 < auc d then (usdValue (cfg.mkt d) (auc d)).m else 0
    let bVal : Denom → Int := fun d => if 0 < bor d then (usdValue (cfg.mkt d) (bor d)).m else 0
    let dSum := sumD dKeys dVal
    if dSum = 0 then .ok ⟨cash1, supplied1, s.borrowed, s.aucs, reward, zeroC⟩
    else
      let ltv := Dec.quo ⟨sumD bKeys bVal⟩ ⟨dSum⟩
      match startOuter cfg ltv cash1 dKeys bKeys ⟨dVal, bVal, bor, auc, cash1, supplied1, s.borrowed, s.aucs⟩ with
      | .err e => .err e
      | .panic => .panic
      | .ok st =>
        match returnLoop dKeys st.deposits st.cash zeroC with
        | .err e => .err e
        | .panic => .panic
        | .ok (cash2, ret) => .ok ⟨cash2, st.supplied, st.borrowed, st.aucs, reward, ret⟩

/-- liquidation.go `AttemptKeeperLiquidation(keeper, borrower)` -/
def liquidate (cfg : Cfg) (s : St) (keeper borrower : User) : Res St :=
  if (supp cfg.ds (s.dep borrower)).isEmpty then .err .depositNotFound
  else if (supp cfg.ds (s.bor borrower)).isEmpty then .err .borrowNotFound
  else
  match syncBorrow cfg s borrower with
  | .err e => .err e
  | .panic => .panic
  | .ok s1 =>
  match syncSupply cfg s1 borrower with
  | .err e => .err e
  | .panic => .panic
  | .ok s2 =>
    match isWithinLtv cfg (s2.dep borrower) (s2.bor borrower) with
    | .err e => .err e
    | .panic => .panic
    | .ok true => .err .notLiquidatable
    | .ok false =>
      match seizeDeposits cfg s2 (s2.dep borrower) (s2.bor borrower) with
      | .err e => .err e
      | .panic => .panic
      | .ok z =>
        let bal1 := upd s2.bal keeper (addC (s2.bal keeper) z.reward)
        let bal2 := upd bal1 borrower (addC (bal1 borrower) z.returned)
        .ok { s2 with
          dep := upd s2.dep borrower zeroC
          depIdx := upd s2.depIdx borrower (fun _ => none)
          bor := upd s2.bor borrower zeroC
          borIdx := upd s2.borIdx borrower (fun _ => none)
          cash := z.cash
          supplied := z.supplied
          borrowed := z.borrowed
          aucs := z.aucs
          bal := bal2 }

/-! ### governance: money markets listed, replaced and delisted through the params

  The money markets (and the minimum borrow value) are the `Cfg` every step takes as its own argument, so a params
  change is a change of `cfg` between two steps and touches no component of `St` (`SetParams` writes the params
  subspace only).  The params reach the store in the begin blocker, interest.go `ApplyInterestRateUpdates`:
  * for every money market of the params: if the denom has none in the store the params' one is written (listing), then
    `AccrueInterest(denom)` runs with the market now in the store, then the store's market is replaced if the params differ;
  * for every money market in the store that is no longer in the params: `AccrueInterest(denom)` with the store's market,
    then the market is deleted (delisting).  Deposits, borrows, totals, interest factors and the accrual time stay.
  * a denom with a market in neither is not visited.
  Hence per denom: `live d` (a market in the params or in the store) ⇒ one `accrue` with the effective market
  (`cfg.mkt d`: the store's, else the params'), otherwise nothing.  The iterations touch disjoint entries, so the
  params-then-store order of the Go loops is immaterial; an error of `AccrueInterest` is a Go `panic(err)`.
  While a denom has no money market the user messages fail wherever they look the market up: every such lookup is
  immediately followed by the price lookup with the same control flow, so the driver represents "no market" as price 0
  and reads `priceNotFound` / `noValidPrice` as `marketNotFound` (`Deposit`: `invalidDepositDenom`). -/
def applyRateUpdates (cfg : Cfg) (now : Int) (live : Denom → Bool) (phi : Denom → Dec) (apy : Denom → Bool) :
    List Denom → St → Res St
  | [], s => .ok s
  | d :: t, s =>
    if live d then
      match accrue cfg s d now (phi d) (apy d) with
      | .ok s1 => applyRateUpdates cfg now live phi apy t s1
      | _ => .panic
    else applyRateUpdates cfg now live phi apy t s

end KV.Hard
