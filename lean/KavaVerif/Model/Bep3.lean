/-
  Model of x/bep3 (keeper/swap.go, keeper/asset.go, keeper/keeper.go, keeper/params.go, abci.go),
  transcribed branch by branch in the code's own evaluation order.  Core Lean only.

  * Addresses, denominations, swap ids, hashes and other-chain sender strings are `Nat` (the harness
    interns the real byte strings injectively).
  * The two hash functions are abstract (`Hashes`): `H secret timestamp` is `CalculateRandomHash`,
    `sid hash sender senderOtherChain` is `CalculateSwapID`.  Every theorem is stated for all of them.
  * The block context (`ctx.BlockHeight()`, `ctx.BlockTime()` in ns) is part of the state; `beginBlock`
    advances it and runs the BeginBlocker.
  * x/bank is modelled for plain accounts: a send fails iff the balance is too small; module→account
    sends fail for blocked recipients.
  * A failed operation returns `.err`; the caller keeps the old state (baseapp rolls back).
-/
import KavaVerif.Generated.C13Bep3

namespace KV.Bep3

abbrev Addr := Nat
abbrev Denom := Nat
abbrev Id := Nat
abbrev Hash := Nat
abbrev Key := Nat × Id

/-- `types.DefaultLongtermStorageDuration`, regenerated from the source on every run -/
abbrev horizon : Nat := KV.Gen.bep3LongtermStorageDuration
/-- offsets of the timestamp window of `CreateAtomicSwap` (ns), regenerated from the source -/
abbrev pastOffset : Int := KV.Gen.bep3PastTimestampOffsetNs
abbrev futureOffset : Int := KV.Gen.bep3FutureTimestampOffsetNs

inductive Status where
  | open | completed | expired
deriving DecidableEq, Repr, Inhabited

inductive Dir where
  | incoming | outgoing
deriving DecidableEq, Repr, Inhabited

/-- protobuf codes (compared with the generated enum values in Props) -/
def Status.code : Status → Nat
  | .open => 1 | .completed => 2 | .expired => 3
def Dir.code : Dir → Nat
  | .incoming => 1 | .outgoing => 2

structure Swap where
  id : Id            -- store key
  denom : Denom      -- Amount[0].Denom
  amt : Int          -- Amount[0].Amount
  hash : Hash        -- RandomNumberHash
  ts : Int           -- Timestamp
  sender : Addr
  recipient : Addr
  other : Nat        -- lower-cased SenderOtherChain
  expire : Nat       -- ExpireHeight
  dir : Dir
  status : Status
  closed : Nat       -- ClosedBlock
deriving DecidableEq, Repr, Inhabited

structure Supply where
  incoming : Int
  outgoing : Int
  current : Int
  tlCurrent : Int    -- TimeLimitedCurrentSupply
  elapsed : Int      -- TimeElapsed (ns)
deriving DecidableEq, Repr, Inhabited

structure Asset where
  deputy : Addr
  limit : Int        -- SupplyLimit.Limit
  timeLimited : Bool
  period : Int       -- SupplyLimit.TimePeriod (ns)
  tbl : Int          -- SupplyLimit.TimeBasedLimit
  active : Bool
  fee : Int          -- FixedFee
  minAmt : Int
  maxAmt : Int
  minLock : Nat
  maxLock : Nat
deriving DecidableEq, Repr, Inhabited

/-- the abstract hash functions -/
structure Hashes where
  H : Nat → Int → Hash           -- CalculateRandomHash(randomNumber, timestamp)
  sid : Hash → Addr → Nat → Id   -- CalculateSwapID(randomNumberHash, sender, senderOtherChain)

/-- static wiring -/
structure Cfg where
  module : Addr            -- address of the bep3 module account
  macc : Addr → Bool       -- keeper.Maccs (all module accounts)
  blocked : Addr → Bool    -- x/bank blocked addresses

structure St where
  height : Nat                       -- ctx.BlockHeight()
  time : Int                         -- ctx.BlockTime() (ns)
  prevTime : Int                     -- PreviousBlockTime (ns)
  assets : List (Denom × Asset)      -- params.AssetParams
  supply : Denom → Supply            -- AssetSupply records
  swaps : List Swap                  -- AtomicSwap records
  byBlock : List Key                 -- AtomicSwapByBlock index: (expire height, id)
  longterm : List Key                -- AtomicSwapLongtermStorage index: (deletion height, id)
  bal : Addr → Denom → Int           -- x/bank balances
  bankSupply : Denom → Int           -- x/bank supply

inductive Res where
  | ok (s : St)
  | err
  | panic
deriving Inhabited

def Res.isOk : Res → Bool
  | .ok _ => true
  | _ => false

/-! ### stores -/

def upd {α : Type} (f : Nat → α) (a : Nat) (v : α) : Nat → α := fun x => if x = a then v else f x

def upd2 (f : Addr → Denom → Int) (a : Addr) (d : Denom) (v : Int) : Addr → Denom → Int :=
  fun x y => if x = a ∧ y = d then v else f x y

/-- `GetAtomicSwap` -/
def findSwap : List Swap → Id → Option Swap
  | [], _ => none
  | x :: xs, id => if x.id = id then some x else findSwap xs id

def replaceSwap (l : List Swap) (sw : Swap) : List Swap :=
  l.map (fun x => if x.id = sw.id then sw else x)

/-- `store.Set(key, record)`: overwrite or insert -/
def setSwap (l : List Swap) (sw : Swap) : List Swap :=
  match findSwap l sw.id with
  | some _ => replaceSwap l sw
  | none => sw :: l

/-- `store.Delete(key)` -/
def delSwap (l : List Swap) (id : Id) : List Swap := l.filter (fun x => x.id ≠ id)

def insKey (l : List Key) (k : Key) : List Key := if k ∈ l then l else k :: l
def delKey (l : List Key) (k : Key) : List Key := l.filter (fun x => x ≠ k)

/-- `GetAsset`: first entry with the denom -/
def getAsset : List (Denom × Asset) → Denom → Option Asset
  | [], _ => none
  | (d', a) :: xs, d => if d' = d then some a else getAsset xs d

/-- `AtomicSwap.GetSwapID()` -/
def getSwapID (hs : Hashes) (sw : Swap) : Id := hs.sid sw.hash sw.sender sw.other

/-- the record as `SetAtomicSwap` stores it: under the key `GetSwapID()` -/
def keyed (hs : Hashes) (sw : Swap) : Swap := { sw with id := getSwapID hs sw }

/-! ### x/bank (one coin) -/

def bankSend (bal : Addr → Denom → Int) (frm to : Addr) (d : Denom) (amt : Int) :
    Option (Addr → Denom → Int) :=
  if bal frm d < amt then none
  else
    let b1 := upd2 bal frm d (bal frm d - amt)
    some (upd2 b1 to d (b1 to d + amt))

/-! ### asset.go -/

/-- `IncrementCurrentAssetSupply` -/
def incCurrent (a : Asset) (sup : Supply) (amt : Int) : Option Supply :=
  if a.limit < sup.current + amt then none
  else if a.timeLimited then
    if a.tbl < sup.tlCurrent + amt then none
    else some { sup with tlCurrent := sup.tlCurrent + amt, current := sup.current + amt }
  else some { sup with current := sup.current + amt }

/-- `DecrementCurrentAssetSupply` -/
def decCurrent (sup : Supply) (amt : Int) : Option Supply :=
  if sup.current - amt < 0 then none else some { sup with current := sup.current - amt }

/-- `IncrementIncomingAssetSupply` -/
def incIncoming (a : Asset) (sup : Supply) (amt : Int) : Option Supply :=
  if a.limit < sup.current + sup.incoming + amt then none
  else if a.timeLimited = true ∧ a.tbl < sup.tlCurrent + sup.incoming + amt then none
  else some { sup with incoming := sup.incoming + amt }

/-- `DecrementIncomingAssetSupply` -/
def decIncoming (sup : Supply) (amt : Int) : Option Supply :=
  if sup.incoming - amt < 0 then none else some { sup with incoming := sup.incoming - amt }

/-- `IncrementOutgoingAssetSupply` -/
def incOutgoing (sup : Supply) (amt : Int) : Option Supply :=
  if sup.current < sup.outgoing + amt then none else some { sup with outgoing := sup.outgoing + amt }

/-- `DecrementOutgoingAssetSupply` -/
def decOutgoing (sup : Supply) (amt : Int) : Option Supply :=
  if sup.outgoing - amt < 0 then none else some { sup with outgoing := sup.outgoing - amt }

/-- one asset of `UpdateTimeBasedSupplyLimits` -/
def resetSupply (a : Asset) (sup : Supply) (dt : Int) : Supply :=
  if a.timeLimited = true ∧ sup.elapsed + dt < a.period then { sup with elapsed := sup.elapsed + dt }
  else { sup with elapsed := 0, tlCurrent := 0 }

def resetAll (dt : Int) : List (Denom × Asset) → (Denom → Supply) → (Denom → Supply)
  | [], f => f
  | (d, a) :: xs, f => resetAll dt xs (upd f d (resetSupply a (f d) dt))

/-- `UpdateTimeBasedSupplyLimits` (returns early, without touching the previous block time, when
    there are no assets) -/
def updateTimeLimits (s : St) : St :=
  match s.assets with
  | [] => s
  | _ :: _ => { s with supply := resetAll (s.time - s.prevTime) s.assets s.supply, prevTime := s.time }

/-! ### swap.go -/

/-- `time.Time.Unix()` of a time given in ns -/
def unixSec (ns : Int) : Int := ns / 1000000000

/-- the tail of `CreateAtomicSwap`: `SetAtomicSwap` + `InsertIntoByBlockIndex` -/
def storeNew (hs : Hashes) (s : St) (sw : Swap) (sup : Supply) (bal : Addr → Denom → Int) : St :=
  { s with swaps := setSwap s.swaps (keyed hs sw),
           byBlock := insKey s.byBlock (sw.expire, getSwapID hs sw),
           supply := upd s.supply sw.denom sup,
           bal := bal }

def newSwap (hs : Hashes) (s : St) (hash : Hash) (ts : Int) (span : Nat) (sender recipient : Addr)
    (other : Nat) (d : Denom) (amt : Int) (dir : Dir) : Swap :=
  { id := hs.sid hash sender other, denom := d, amt := amt, hash := hash, ts := ts, sender := sender,
    recipient := recipient, other := other,
    expire := (s.height + span) % 18446744073709551616,   -- uint64(ctx.BlockHeight()) + heightSpan
    dir := dir, status := .open, closed := 0 }

/-- `CreateAtomicSwap` -/
def create (cfg : Cfg) (hs : Hashes) (s : St) (hash : Hash) (ts : Int) (span : Nat)
    (sender recipient : Addr) (other : Nat) (coins : List (Denom × Int)) : Res :=
  -- duplicate swap
  match findSwap s.swaps (hs.sid hash sender other) with
  | some _ => .err
  | none =>
  -- cannot send coins to a module account
  if cfg.macc recipient = true then .err
  else
  match coins with
  | [(d, amt)] =>
    match getAsset s.assets d with
    | none => .err
    | some a =>
      if a.active = false then .err                                   -- ValidateLiveAsset
      else if amt < a.minAmt ∨ amt > a.maxAmt then .err
      else if ts < unixSec (s.time + pastOffset) ∨ ts ≥ unixSec (s.time + futureOffset) then .err
      else if sender = a.deputy then
        if recipient = a.deputy then .err
        else
          -- incoming
          match incIncoming a (s.supply d) amt with
          | none => .err
          | some sup =>
            .ok (storeNew hs s (newSwap hs s hash ts span sender recipient other d amt .incoming) sup s.bal)
      else if recipient ≠ a.deputy then .err
      else
        -- outgoing
        if span < a.minLock ∨ span > a.maxLock then .err
        else if amt ≤ a.fee + a.minAmt then .err
        else
          match incOutgoing (s.supply d) amt with
          | none => .err
          | some sup =>
            match bankSend s.bal sender cfg.module d amt with
            | none => .err
            | some bal' =>
              .ok (storeNew hs s (newSwap hs s hash ts span sender recipient other d amt .outgoing) sup bal')
  | _ => .err

/-- the common tail of claim and refund: status COMPLETED, closed block, `SetAtomicSwap`,
    (claim only) `RemoveFromByBlockIndex`, `InsertIntoLongtermStorage` -/
def closeSwap (hs : Hashes) (s : St) (sw : Swap) (rmByBlock : Bool) : St :=
  let sw' : Swap := { sw with status := .completed, closed := s.height }
  { s with swaps := setSwap s.swaps (keyed hs sw'),
           byBlock := if rmByBlock then delKey s.byBlock (sw'.expire, getSwapID hs sw') else s.byBlock,
           longterm := insKey s.longterm (sw'.closed + horizon, getSwapID hs sw') }

/-- `ClaimAtomicSwap` (the claimant `from` is only used in the event) -/
def claim (cfg : Cfg) (hs : Hashes) (s : St) (swapID : Id) (rn : Nat) : Res :=
  match findSwap s.swaps swapID with
  | none => .err
  | some sw =>
    if sw.status ≠ .open then .err
    else if hs.sid (hs.H rn sw.ts) sw.sender sw.other ≠ getSwapID hs sw then .err
    else
      match sw.dir with
      | .incoming =>
        match decIncoming (s.supply sw.denom) sw.amt with
        | none => .err
        | some sup1 =>
          match getAsset s.assets sw.denom with      -- GetSupplyLimit
          | none => .err
          | some a =>
            match incCurrent a sup1 sw.amt with
            | none => .err
            | some sup2 =>
              -- MintCoins to the module, then SendCoinsFromModuleToAccount to the recipient
              let bal1 := upd2 s.bal cfg.module sw.denom (s.bal cfg.module sw.denom + sw.amt)
              if cfg.blocked sw.recipient = true then .err
              else
                match bankSend bal1 cfg.module sw.recipient sw.denom sw.amt with
                | none => .err
                | some bal2 =>
                  .ok (closeSwap hs
                    { s with supply := upd s.supply sw.denom sup2, bal := bal2,
                             bankSupply := upd s.bankSupply sw.denom (s.bankSupply sw.denom + sw.amt) } sw true)
      | .outgoing =>
        match decOutgoing (s.supply sw.denom) sw.amt with
        | none => .err
        | some sup1 =>
          match decCurrent sup1 sw.amt with
          | none => .err
          | some sup2 =>
            -- BurnCoins from the module
            if s.bal cfg.module sw.denom < sw.amt then .err
            else
              .ok (closeSwap hs
                { s with supply := upd s.supply sw.denom sup2,
                         bal := upd2 s.bal cfg.module sw.denom (s.bal cfg.module sw.denom - sw.amt),
                         bankSupply := upd s.bankSupply sw.denom (s.bankSupply sw.denom - sw.amt) } sw true)

/-- `RefundAtomicSwap` -/
def refund (cfg : Cfg) (hs : Hashes) (s : St) (swapID : Id) : Res :=
  match findSwap s.swaps swapID with
  | none => .err
  | some sw =>
    if sw.status ≠ .expired then .err
    else
      match sw.dir with
      | .incoming =>
        match decIncoming (s.supply sw.denom) sw.amt with
        | none => .err
        | some sup1 => .ok (closeSwap hs { s with supply := upd s.supply sw.denom sup1 } sw false)
      | .outgoing =>
        match decOutgoing (s.supply sw.denom) sw.amt with
        | none => .err
        | some sup1 =>
          if cfg.blocked sw.sender = true then .err
          else
            match bankSend s.bal cfg.module sw.sender sw.denom sw.amt with
            | none => .err
            | some bal' =>
              .ok (closeSwap hs { s with supply := upd s.supply sw.denom sup1, bal := bal' } sw false)

/-- one callback of `UpdateExpiredAtomicSwaps` on the index entry `e` -/
def expireStep (hs : Hashes) (s : St) (e : Key) : St :=
  match findSwap s.swaps e.2 with
  | none => s
  | some sw =>
    let sw' : Swap := { sw with status := .expired }
    { s with byBlock := delKey s.byBlock (sw'.expire, getSwapID hs sw'),
             swaps := setSwap s.swaps (keyed hs sw') }

/-- `UpdateExpiredAtomicSwaps`: every by-block entry with height ≤ the block height -/
def updateExpired (hs : Hashes) (s : St) : St :=
  (s.byBlock.filter (fun e => e.1 ≤ s.height)).foldl (expireStep hs) s

/-- one callback of `DeleteClosedAtomicSwapsFromLongtermStorage` -/
def pruneStep (hs : Hashes) (s : St) (e : Key) : St :=
  match findSwap s.swaps e.2 with
  | none => s
  | some sw =>
    { s with swaps := delSwap s.swaps (getSwapID hs sw),
             longterm := delKey s.longterm (sw.closed + horizon, getSwapID hs sw) }

/-- `DeleteClosedAtomicSwapsFromLongtermStorage` -/
def deleteClosed (hs : Hashes) (s : St) : St :=
  (s.longterm.filter (fun e => e.1 ≤ s.height)).foldl (pruneStep hs) s

/-- a new block `dh` heights and `dt` ns later, then `BeginBlocker`:
    `UpdateTimeBasedSupplyLimits`, `UpdateExpiredAtomicSwaps`, `DeleteClosedAtomicSwapsFromLongtermStorage` -/
def beginBlock (hs : Hashes) (s : St) (dh : Nat) (dt : Int) : St :=
  deleteClosed hs (updateExpired hs (updateTimeLimits { s with height := s.height + dh, time := s.time + dt }))

/-- governance: replace the supply limit and the active flag of asset `d` (`SetAsset`) -/
def setLimit (s : St) (d : Denom) (limit : Int) (timeLimited : Bool) (period tbl : Int) (active : Bool) : St :=
  { s with assets := s.assets.map (fun da =>
      if da.1 = d then (da.1, { da.2 with limit := limit, timeLimited := timeLimited, period := period,
                                           tbl := tbl, active := active }) else da) }

/-- governance: replace the deputy address of asset `d` (a params change / `SetAsset`).  Only the asset
    parameter changes: stored swaps keep their direction, sender and recipient; the new deputy matters for
    swaps created from now on. -/
def setDeputy (s : St) (d : Denom) (dep : Addr) : St :=
  { s with assets := s.assets.map (fun da => if da.1 = d then (da.1, { da.2 with deputy := dep }) else da) }

/-! ### operation sequences -/

inductive Op where
  | create (hash : Hash) (ts : Int) (span : Nat) (sender recipient : Addr) (other : Nat)
      (coins : List (Denom × Int))
  | claim (frm : Addr) (swapID : Id) (rn : Nat)
  | refund (frm : Addr) (swapID : Id)
  | beginBlock (dh : Nat) (dt : Int)
  | setLimit (d : Denom) (limit : Int) (timeLimited : Bool) (period tbl : Int) (active : Bool)
  | setDeputy (d : Denom) (dep : Addr)

def apply (cfg : Cfg) (hs : Hashes) (s : St) : Op → Res
  | .create hash ts span sender recipient other coins => create cfg hs s hash ts span sender recipient other coins
  | .claim _ id rn => claim cfg hs s id rn
  | .refund _ id => refund cfg hs s id
  | .beginBlock dh dt => .ok (beginBlock hs s dh dt)
  | .setLimit d l tl p tbl act => .ok (setLimit s d l tl p tbl act)
  | .setDeputy d dep => .ok (setDeputy s d dep)

/-- baseapp: a failed message leaves the state unchanged -/
def step (cfg : Cfg) (hs : Hashes) (s : St) (op : Op) : St :=
  match apply cfg hs s op with
  | .ok s' => s'
  | _ => s

def run (cfg : Cfg) (hs : Hashes) (s : St) (ops : List Op) : St := ops.foldl (step cfg hs) s

/-! ### sums over swaps -/

/-- Σ amounts of the swaps satisfying `p` -/
def sumBy (p : Swap → Bool) : List Swap → Int
  | [] => 0
  | x :: xs => (if p x then x.amt else 0) + sumBy p xs

/-- a swap that still counts: direction `dir`, denomination `d`, not completed -/
def live (dir : Dir) (d : Denom) (sw : Swap) : Bool :=
  decide (sw.dir = dir ∧ sw.denom = d ∧ sw.status ≠ .completed)

end KV.Bep3
