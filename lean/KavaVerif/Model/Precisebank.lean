/-
  Model of x/precisebank (send.go, mint.go, burn.go, view.go), transcribed case by case.
  State: x/bank ukava balances and locked amounts, fractional balances, remainder.
  Addresses are `Nat`; `R` is the reserve (module account of precisebank).
  Core Lean only.
-/
import KavaVerif.Generated.Consts

namespace KV.PB

/-- conversion factor 10^12, regenerated from x/precisebank/types on every run -/
abbrev C : Int := KV.Gen.pbConversionFactor

abbrev Addr := Nat

def upd (f : Addr → Int) (a : Addr) (v : Int) : Addr → Int := fun x => if x = a then v else f x

structure St where
  bal : Addr → Int      -- x/bank ukava balance
  locked : Addr → Int   -- vesting-locked ukava (x/auth LockedCoins)
  frac : Addr → Int     -- x/precisebank fractional balance
  rem : Int             -- x/precisebank remainder
  supply : Int          -- x/bank ukava supply

inductive Res where
  | ok (s : St)
  | err         -- ordinary error: the transaction is rolled back by baseapp
  | panic       -- Go panic
deriving Inhabited

def Res.isOk : Res → Bool
  | .ok _ => true
  | _ => false

/-- x/bank `subUnlockedCoins` + `addCoins` for one denom (ukava). `none` = insufficient funds. -/
def bankSend (s : St) (frm to : Addr) (amt : Int) : Option St :=
  if s.bal frm < s.locked frm ∨ s.bal frm - s.locked frm < amt then none
  else
    let b1 := upd s.bal frm (s.bal frm - amt)
    some { s with bal := upd b1 to (b1 to + amt) }

def bankMint (s : St) (to : Addr) (amt : Int) : St :=
  { s with bal := upd s.bal to (s.bal to + amt), supply := s.supply + amt }

/-- x/bank BurnCoins: subUnlockedCoins from the module account then supply decrease -/
def bankBurn (s : St) (frm : Addr) (amt : Int) : Option St :=
  if s.bal frm < s.locked frm ∨ s.bal frm - s.locked frm < amt then none
  else some { s with bal := upd s.bal frm (s.bal frm - amt), supply := s.supply - amt }

/-- conditional bank steps (the code's `if cond { bank call }`) -/
def sendIf (c : Prop) [Decidable c] (s : St) (a b : Addr) (n : Int) : Option St :=
  if c then bankSend s a b n else some s
def mintIf (c : Prop) [Decidable c] (s : St) (a : Addr) (n : Int) : St :=
  if c then bankMint s a n else s
def burnIf (c : Prop) [Decidable c] (s : St) (a : Addr) (n : Int) : Option St :=
  if c then bankBurn s a n else some s

/-- `subFromFractionalBalance`: new balance; a borrow is required iff `cur - amt < 0` -/
def subFrac (cur amt : Int) : Int :=
  if cur - amt < 0 then cur - amt + C else cur - amt

/-- `addToFractionalBalance`: new balance; a carry is required iff `cur + amt ≥ C` -/
def addFrac (cur amt : Int) : Int :=
  if cur + amt ≥ C then cur + amt - C else cur + amt

/-- `GetBalance(addr, akava)`: the reserve's balance is hidden. -/
def extBal (R : Addr) (s : St) (a : Addr) : Int :=
  if a = R then 0 else s.bal a * C + s.frac a

/-- `SpendableCoin(addr, akava)` -/
def extSpendable (R : Addr) (s : St) (a : Addr) : Int :=
  if a = R then 0 else (if s.bal a < s.locked a then 0 else s.bal a - s.locked a) * C + s.frac a

/-- the un-hidden extended amount held by an address (used by the theorems) -/
def ext (s : St) (a : Addr) : Int := s.bal a * C + s.frac a

/-- `sendExtendedCoins` as written (after fix: a self transfer only checks the balance). -/
def sendExt (R : Addr) (s : St) (frm to : Addr) (amt : Int) : Res :=
  if frm = to then
    (if extSpendable R s frm < amt then .err else .ok s)
  else
  let sf := s.frac frm
  let rf := s.frac to
  let i := amt / C
  let fr := amt % C
  let sNew := subFrac sf fr
  let borrow := sf - fr < 0
  let rNew := addFrac rf fr
  let carry := rf + fr ≥ C
  let i' := if borrow ∧ carry then i + 1 else i
  -- integer transfer
  match sendIf (i' > 0) s frm to i' with
  | none => .err
  | some s1 =>
    -- case 2: borrow, no carry: sender → reserve 1
    match sendIf (borrow ∧ ¬carry) s1 frm R 1 with
    | none => .err
    | some s2 =>
      -- case 3: no borrow, carry: reserve → recipient 1 (failure panics)
      match sendIf (¬borrow ∧ carry) s2 R to 1 with
      | none => .panic
      | some s3 =>
        .ok { s3 with frac := upd (upd s3.frac frm sNew) to rNew }

/-- `SendCoins` restricted to ukava (passthrough `u`) and akava (`x`); both ≥ 0, not both 0
    is not required (an empty send succeeds). -/
def send (R : Addr) (s : St) (frm to : Addr) (u x : Int) : Res :=
  if frm = R ∨ to = R then .err else
  match sendIf (u > 0) s frm to u with
  | none => .err
  | some s1 => if x > 0 then sendExt R s1 frm to x else .ok s1

/-- `SendCoinsFromModuleToAccount` (sender is a module account at address `frm`). -/
def sendModuleToAccount (R : Addr) (blocked : Addr → Bool) (s : St) (frm to : Addr) (u x : Int) : Res :=
  if frm = R then .err
  else if blocked to then .err
  else send R s frm to u x

/-- `SendCoinsFromAccountToModule` (recipient is a module account at address `to`). -/
def sendAccountToModule (R : Addr) (s : St) (frm to : Addr) (u x : Int) : Res :=
  if to = R then .err else send R s frm to u x

/-- `mintExtendedCoin` -/
def mintExt (R : Addr) (s : St) (m : Addr) (amt : Int) : Res :=
  let f := s.frac m
  let i := amt / C
  let fr := amt % C
  let prevRem := s.rem
  let newRem := prevRem - fr
  let nf := f + fr
  -- carry from reserve to the module when the remainder covers the fraction
  match sendIf (nf ≥ C ∧ newRem ≥ 0) s R m 1 with
  | none => .err
  | some s1 =>
    let i' := if nf ≥ C ∧ newRem < 0 then i + 1 else i
    let nf' := if nf ≥ C then nf - C else nf
    let s2 := mintIf (i' > 0) s1 m i'
    let s3 := { s2 with frac := upd s2.frac m nf' }
    let wasCarried := f + fr ≥ C
    let s4 := mintIf (prevRem < fr ∧ ¬wasCarried) s3 R 1
    let newRem' := if newRem < 0 then newRem + C else newRem
    .ok { s4 with rem := newRem' }

/-- `MintCoins(module, u ukava + x akava)`; `minter` = the module account has the Minter permission -/
def mint (R : Addr) (s : St) (m : Addr) (minter : Bool) (u x : Int) : Res :=
  if m = R then .panic
  else if ¬ minter then .panic
  else
    let s1 := mintIf (u > 0) s m u
    if x > 0 then mintExt R s1 m x else .ok s1

/-- `burnExtendedCoin` -/
def burnExt (R : Addr) (s : St) (m : Addr) (amt : Int) : Res :=
  let pf := s.frac m
  let prevRem := s.rem
  let i := amt / C
  let fr := amt % C
  let nf := pf - fr
  let borrow := nf < 0
  let nr := prevRem + fr
  let over := nr ≥ C
  -- case 1
  let nf1 := if borrow then nf + C else nf
  let nr1 := if over then nr - C else nr
  let i' := if borrow ∧ over then i + 1 else i
  match sendIf (borrow ∧ ¬over) s m R 1 with
  | none => .err
  | some s1 =>
    match burnIf (¬borrow ∧ over) s1 R 1 with
    | none => .err
    | some s2 =>
      match burnIf (i' ≠ 0) s2 m i' with
      | none => .err
      | some s3 => .ok { s3 with frac := upd s3.frac m nf1, rem := nr1 }

def burn (R : Addr) (s : St) (m : Addr) (burner : Bool) (u x : Int) : Res :=
  if m = R then .panic
  else if ¬ burner then .panic
  else
    match burnIf (u > 0) s m u with
    | none => .err
    | some s1 => if x > 0 then burnExt R s1 m x else .ok s1

end KV.PB
