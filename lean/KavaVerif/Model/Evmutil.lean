/-
  Model of the x/evmutil conversions (keeper/conversion_evm_native.go, conversion_evm_native_bep3.go,
  conversion_cosmos_native.go, erc20.go, params.go, msg ValidateBasic of types/msg.go), transcribed in
  the keeper's own order: lock/mint, burn/unlock, the balance-delta check, the bep3 10^10 scaling.

  State: x/bank balances and supply per denom (`Bank`); per ERC20 contract a ledger (`Ledger`: balances,
  total supply);
  the registry of module-deployed contracts for cosmos coins; the params (enabled conversion pairs in
  params order, allowed cosmos denoms).

  TRUSTED, not modelled: the EVM and the contract bytecode. The ledger primitives `ercTransfer`,
  `ercMint`, `ercBurn` below ARE the assumption: standard (OpenZeppelin) ERC20 semantics — a transfer
  moves exactly `amount` or reverts, mint/burn are owner-only (the owner of a module-deployed
  contract is the module), no fee, no rebase, transfers/mints to the zero address revert.

  Addresses are `Nat` in one index space for bank and EVM (the module's EVM address is the bytes of its
  bank address): `M` = the evmutil module account / `types.ModuleEVMAddress`, `Z` = the zero address.
  Core Lean only.
-/
import KavaVerif.Generated.Consts

namespace KV.EU

/-- 10^10, regenerated from conversion_evm_native_bep3.go on every run -/
abbrev F : Int := KV.Gen.bep3ConversionFactor

abbrev Addr := Nat
abbrev Denom := String

/-- ERC20 contracts: `ext n` = deployed by somebody else (EVM-native asset), `dep k` = the k-th
    contract deployed by the module for a cosmos coin (CREATE gives a fresh address: trusted). -/
inductive Contract where
  | ext (n : Nat)
  | dep (k : Nat)
deriving DecidableEq, Repr

/-- the module account (bank) / module EVM address -/
def M : Addr := 0
/-- the zero address -/
def Z : Addr := 1

/-- `isBep3Asset`: membership in the generated `bep3Denoms` set -/
def isBep3 (d : Denom) : Bool := KV.Gen.bep3Denoms.contains d

/-- ERC20 units per sdk unit of a pair denom -/
def scale (d : Denom) : Int := if isBep3 d then F else 1

def upd {α : Type} [DecidableEq α] {β : Type} (f : α → β) (a : α) (v : β) : α → β :=
  fun x => if x = a then v else f x

def upd2 {α β : Type} [DecidableEq α] [DecidableEq β] {γ : Type} (f : α → β → γ) (a : α) (b : β) (v : γ) :
    α → β → γ :=
  fun x y => if x = a ∧ y = b then v else f x y

abbrev Pair := Contract × Denom

/-- x/bank: balances and supply per denom -/
structure Bank where
  bal : Denom → Addr → Int
  supply : Denom → Int

/-- the ERC20 ledgers: `balanceOf` and `totalSupply` per contract -/
structure Ledger where
  bal : Contract → Addr → Int
  total : Contract → Int

structure St where
  bank : Bank
  erc : Ledger
  reg : Denom → Option Nat         -- DeployedCosmosCoinContract store: denom ↦ k (contract `dep k`)
  nextC : Nat                      -- number of contracts the module has deployed
  pairs : List Pair                -- params.EnabledConversionPairs (params order)
  allowed : List Denom             -- params.AllowedCosmosDenoms

inductive Res where
  | ok (s : St)
  | err            -- the message fails: baseapp discards every write
deriving Inhabited

def Res.isOk : Res → Bool
  | .ok _ => true
  | .err => false

/-! ### x/bank primitives (one denom at a time) -/

/-- `subUnlockedCoins`: insufficient funds = `none` -/
def bankSub (b : Bank) (d : Denom) (a : Addr) (n : Int) : Option Bank :=
  if b.bal d a < n then none else some { b with bal := upd2 b.bal d a (b.bal d a - n) }

/-- `addCoins` -/
def bankAdd (b : Bank) (d : Denom) (a : Addr) (n : Int) : Bank :=
  { b with bal := upd2 b.bal d a (b.bal d a + n) }

def supplyAdd (b : Bank) (d : Denom) (n : Int) : Bank :=
  { b with supply := upd b.supply d (b.supply d + n) }

/-! ### ERC20 ledger primitives — the trusted standard semantics -/

def ercSub (e : Ledger) (c : Contract) (a : Addr) (n : Int) : Option Ledger :=
  if e.bal c a < n then none else some { e with bal := upd2 e.bal c a (e.bal c a - n) }

def ercAdd (e : Ledger) (c : Contract) (a : Addr) (n : Int) : Ledger :=
  { e with bal := upd2 e.bal c a (e.bal c a + n) }

def totalAdd (e : Ledger) (c : Contract) (n : Int) : Ledger :=
  { e with total := upd e.total c (e.total c + n) }

/-- `transfer(to, amount)` sent by `frm`: moves exactly `amount` or reverts (`none`) -/
def ercTransfer (e : Ledger) (c : Contract) (frm to : Addr) (n : Int) : Option Ledger :=
  if frm = Z ∨ to = Z then none
  else match ercSub e c frm n with
    | none => none
    | some e1 => some (ercAdd e1 c to n)

/-- `mint(to, amount)` sent by the owner -/
def ercMint (e : Ledger) (c : Contract) (to : Addr) (n : Int) : Option Ledger :=
  if to = Z then none else some (ercAdd (totalAdd e c n) c to n)

/-- `burn(from, amount)` sent by the owner -/
def ercBurn (e : Ledger) (c : Contract) (frm : Addr) (n : Int) : Option Ledger :=
  if frm = Z then none
  else match ercSub e c frm n with
    | none => none
    | some e1 => some (totalAdd e1 c (-n))

/-! ### params lookups (first match in params order, as the keeper's loops) -/

/-- `GetEnabledConversionPairFromDenom` -/
def findByDenom : List Pair → Denom → Option Pair
  | [], _ => none
  | p :: ps, d => if p.2 = d then some p else findByDenom ps d

/-- `GetEnabledConversionPairFromERC20Address` -/
def findByContract : List Pair → Contract → Option Pair
  | [], _ => none
  | p :: ps, c => if p.1 = c then some p else findByContract ps c

/-! ### the four conversion messages (ValidateBasic, then the keeper) -/

/-- MsgConvertCoinToERC20: burn the pair coin, unlock the ERC20 from the module's EVM account -/
def coinToErc (s : St) (ini rcv : Addr) (d : Denom) (amt : Int) : Res :=
  if amt ≤ 0 then .err else                       -- ValidateBasic
  match findByDenom s.pairs d with
  | none => .err                                   -- ErrEVMConversionNotEnabled
  | some p =>
    -- BurnConversionPairCoin: SendCoinsFromAccountToModule, BurnCoins
    match bankSub s.bank d ini amt with
    | none => .err
    | some b1 =>
      match bankSub (bankAdd b1 d M amt) d M amt with
      | none => .err
      | some b2 =>
        let unlock := if isBep3 p.2 then amt * F else amt
        -- UnlockERC20Tokens: transfer from the module, then the receiver's balance delta check
        match ercTransfer s.erc p.1 M rcv unlock with
        | none => .err
        | some e1 =>
          if s.erc.bal p.1 rcv + unlock ≠ e1.bal p.1 rcv then .err     -- ErrBalanceInvariance
          else .ok { s with bank := supplyAdd b2 d (-amt), erc := e1 }

/-- MsgConvertERC20ToCoin: lock the ERC20 in the module's EVM account, mint the pair coin -/
def ercToCoin (blocked : Addr → Bool) (s : St) (ini rcv : Addr) (c : Contract) (amt : Int) : Res :=
  if amt ≤ 0 then .err else                       -- ValidateBasic
  match findByContract s.pairs c with
  | none => .err                                   -- ErrEVMConversionNotEnabled
  | some p =>
    -- bep3ERC20AmountToCoinMintAndERC20LockAmount
    let mint := if isBep3 p.2 then amt / F else amt
    let lock := if isBep3 p.2 then amt / F * F else amt
    if isBep3 p.2 = true ∧ amt / F = 0 then .err else   -- ErrInsufficientConversionAmount
    -- LockERC20Tokens: transfer to the module, then the initiator's balance delta check
    match ercTransfer s.erc p.1 ini M lock with
    | none => .err
    | some e1 =>
      if s.erc.bal p.1 ini - lock ≠ e1.bal p.1 ini then .err else     -- ErrBalanceInvariance
      -- MintConversionPairCoin: MintCoins, SendCoinsFromModuleToAccount
      if blocked rcv then .err else
      match bankSub (bankAdd (supplyAdd s.bank p.2 mint) p.2 M mint) p.2 M mint with
      | none => .err
      | some b1 => .ok { s with bank := bankAdd b1 p.2 rcv mint, erc := e1 }

/-- MsgConvertCosmosCoinToERC20: lock the coin in the module account, (deploy and) mint the ERC20 -/
def cosmosToErc (s : St) (ini rcv : Addr) (d : Denom) (amt : Int) : Res :=
  if amt ≤ 0 then .err else                       -- ValidateBasic
  if ¬ d ∈ s.allowed then .err else               -- ErrSDKConversionNotEnabled
  match bankSub s.bank d ini amt with             -- SendCoinsFromAccountToModule
  | none => .err
  | some b1 =>
    -- GetOrDeployCosmosCoinERC20Contract, then MintERC20
    match s.reg d with
    | some k =>
      match ercMint s.erc (.dep k) rcv amt with
      | none => .err
      | some e1 => .ok { s with bank := bankAdd b1 d M amt, erc := e1 }
    | none =>
      match ercMint s.erc (.dep s.nextC) rcv amt with
      | none => .err
      | some e1 =>
        .ok { s with bank := bankAdd b1 d M amt, erc := e1, reg := upd s.reg d (some s.nextC), nextC := s.nextC + 1 }

/-- MsgConvertCosmosCoinFromERC20: burn the ERC20, unlock the coin from the module account.
    Note: only the registry is consulted, not the allow list (by design, see msg_server_test
    TestConvertCosmosCoinForRemovedDenom). -/
def cosmosFromErc (blocked : Addr → Bool) (s : St) (ini rcv : Addr) (d : Denom) (amt : Int) : Res :=
  if amt ≤ 0 then .err else                       -- ValidateBasic
  match s.reg d with
  | none => .err                                   -- ErrInvalidCosmosDenom
  | some k =>
    if s.erc.bal (.dep k) ini < amt then .err else   -- ErrInsufficientFunds
    match ercBurn s.erc (.dep k) ini amt with
    | none => .err
    | some e1 =>
      if blocked rcv then .err else               -- SendCoinsFromModuleToAccount
      match bankSub s.bank d M amt with
      | none => .err
      | some b1 => .ok { s with bank := bankAdd b1 d rcv amt, erc := e1 }

/-! ### environment steps -/

/-- an ordinary ERC20 `transfer` transaction of a user -/
def envTransfer (s : St) (c : Contract) (frm to : Addr) (amt : Int) : Res :=
  if amt < 0 then .err else
  match ercTransfer s.erc c frm to amt with
  | none => .err
  | some e1 => .ok { s with erc := e1 }

/-- an ordinary bank MsgSend -/
def envSend (blocked : Addr → Bool) (s : St) (d : Denom) (frm to : Addr) (amt : Int) : Res :=
  if amt ≤ 0 then .err else
  if blocked to then .err else
  match bankSub s.bank d frm amt with
  | none => .err
  | some b1 => .ok { s with bank := bankAdd b1 d to amt }

/-- the minter of an external token issues tokens; on a module-deployed contract only the module
    may mint (owner-only), so this is refused -/
def extMint (s : St) (c : Contract) (to : Addr) (amt : Int) : Res :=
  match c with
  | .dep _ => .err
  | .ext _ =>
    if amt < 0 then .err else
    match ercMint s.erc c to amt with
    | none => .err
    | some e1 => .ok { s with erc := e1 }

inductive Op where
  | coinToErc (ini rcv : Addr) (d : Denom) (amt : Int)
  | ercToCoin (ini rcv : Addr) (c : Contract) (amt : Int)
  | cosmosToErc (ini rcv : Addr) (d : Denom) (amt : Int)
  | cosmosFromErc (ini rcv : Addr) (d : Denom) (amt : Int)
  | transfer (c : Contract) (frm to : Addr) (amt : Int)
  | send (d : Denom) (frm to : Addr) (amt : Int)
  | extMint (c : Contract) (to : Addr) (amt : Int)
  | setPairs (l : List Pair)          -- governance: params change
  | setAllowed (l : List Denom)       -- governance: params change

def step (blocked : Addr → Bool) (s : St) : Op → Res
  | .coinToErc i r d a => coinToErc s i r d a
  | .ercToCoin i r c a => ercToCoin blocked s i r c a
  | .cosmosToErc i r d a => cosmosToErc s i r d a
  | .cosmosFromErc i r d a => cosmosFromErc blocked s i r d a
  | .transfer c f t a => envTransfer s c f t a
  | .send d f t a => envSend blocked s d f t a
  | .extMint c t a => extMint s c t a
  | .setPairs l => .ok { s with pairs := l }
  | .setAllowed l => .ok { s with allowed := l }

/-- a failed operation leaves the state as it was (baseapp rollback) -/
def apply (blocked : Addr → Bool) (s : St) (op : Op) : St :=
  match step blocked s op with
  | .ok s' => s'
  | .err => s

def run (blocked : Addr → Bool) (s : St) (ops : List Op) : St := ops.foldl (apply blocked) s

/-- the empty chain state -/
def init : St :=
  { bank := { bal := fun _ _ => 0, supply := fun _ => 0 }, erc := { bal := fun _ _ => 0, total := fun _ => 0 },
    reg := fun _ => none, nextC := 0, pairs := [], allowed := [] }

end KV.EU
