/-
  Model of x/committee/types/permissions.go (the permission *checker*) and of what the params proposal
  handler then does with the same JSON document (the *applier*: x/params Subspace.Update →
  go-amino JSON decoding into the parameter's Go type).

  `encoding/json` is a trusted dependency: the model starts from the parsed document (`Json`, objects as
  association lists in source order, duplicates kept, numbers by the canonical text of the float64 the
  decoder produces) and transcribes what decoding into `map[string]interface{}` does with it
  (`decode`: last duplicate key wins, maps have no order → key-sorted duplicate-free lists) and what the
  code does with the decoded values (`reflect.DeepEqual` = `Json.beq` on decoded values,
  `m[k]` of an absent key = nil = JSON null).

  Core Lean only.
-/
namespace KV.Perm

/-- A parsed JSON document. `num` carries the canonical text of the float64 value. -/
inductive Json where
  | null
  | bool (b : Bool)
  | num (repr : String)
  | str (s : String)
  | arr (xs : List Json)
  | obj (kvs : List (String × Json))
  deriving Inhabited

abbrev Obj := List (String × Json)

/-! ### reflect.DeepEqual on decoded values (structural; decoded objects are key-sorted and duplicate-free) -/
mutual
def Json.beq : Json → Json → Bool
  | .null, .null => true
  | .bool a, .bool b => a == b
  | .num a, .num b => a == b
  | .str a, .str b => a == b
  | .arr a, .arr b => beqList a b
  | .obj a, .obj b => beqObj a b
  | _, _ => false
def beqList : List Json → List Json → Bool
  | [], [] => true
  | x :: xs, y :: ys => Json.beq x y && beqList xs ys
  | _, _ => false
def beqObj : List (String × Json) → List (String × Json) → Bool
  | [], [] => true
  | (k, x) :: xs, (l, y) :: ys => k == l && Json.beq x y && beqObj xs ys
  | _, _ => false
end

/-! ### decoding into `interface{}` / `map[string]interface{}` -/

def hasKey (o : Obj) (k : String) : Bool := o.any (fun kv => kv.1 == k)

/-- insert into a key-sorted association list (the key is known to be absent) -/
def insertSorted (k : String) (v : Json) : Obj → Obj
  | [] => [(k, v)]
  | (l, w) :: rest => if k < l then (k, v) :: (l, w) :: rest else (l, w) :: insertSorted k v rest

mutual
/-- what `json.Unmarshal` stores in an `interface{}` -/
def decode : Json → Json
  | .arr xs => .arr (decodeList xs)
  | .obj kvs => .obj (decodeObj kvs)
  | .null => .null
  | .bool b => .bool b
  | .num r => .num r
  | .str s => .str s
def decodeList : List Json → List Json
  | [] => []
  | x :: xs => decode x :: decodeList xs
/-- a JSON object decoded into a Go map: a key that occurs again later is overwritten (last wins) -/
def decodeObj : List (String × Json) → Obj
  | [] => []
  | (k, v) :: rest =>
    let r := decodeObj rest
    if hasKey r k then r else insertSorted k (decode v) r
end

/-- `json.Unmarshal(text, &m)` with `m SubparamChanges`: object → map, `null` → nil map, else error -/
def asMap : Json → Option Obj
  | .obj kvs => some (decodeObj kvs)
  | .null => some []
  | _ => none

def asMapsList : List Json → Option (List Obj)
  | [] => some []
  | x :: xs => match asMap x, asMapsList xs with
    | some o, some os => some (o :: os)
    | _, _ => none

/-- `json.Unmarshal(text, &ms)` with `ms MultiSubparamChanges` -/
def asMaps : Json → Option (List Obj)
  | .arr xs => asMapsList xs
  | .null => some []
  | _ => none

/-- `m[k]` as an `interface{}`: absent key ↦ nil, which is also what JSON `null` decodes to -/
def get (o : Obj) (k : String) : Json := (o.lookup k).getD .null

def keys (o : Obj) : List String := o.map (·.1)

/-! ### the checker -/

/-- `validateParamChangesAreAllowed` (with the fix 0a0bfec58: every incoming attribute must exist in
    the current value) -/
def validate (current incoming : Obj) (allowList : List String) : Bool :=
  if current.length != incoming.length then false
  else if !(keys incoming).all (hasKey current) then false
  else (keys current).all fun k => allowList.contains k || Json.beq (get current k) (get incoming k)

structure Req where
  key : String
  val : String
  allowed : List String

/-- `current[v.Key] == v.Val` : an `interface{}` equals a Go string iff it holds that string -/
def matchesReq (o : Obj) (r : Req) : Bool :=
  match o.lookup r.key with
  | some (.str s) => s == r.val
  | _ => false

/-- `for i, v := range incomingRecords { if !matched[i] && v[req.Key] == req.Val {…break} }`:
    the first incoming index that is not matched yet and satisfies the requirement -/
def findFree (r : Req) (incoming : List Obj) (used : List Nat) : Option Nat :=
  (List.range incoming.length).find? fun i =>
    !used.contains i && (match incoming[i]? with
      | some v => matchesReq v r
      | none => false)

/-- the loop of `allowsMultiParamsChange` (with the fix 060540892: `matched` = `used`), returning the
    incoming index assigned to each current record; `none` = `return false` -/
def assign (reqs : List Req) (incoming : List Obj) : List Nat → List Obj → Option (List Nat)
  | _, [] => some []
  | used, current :: rest =>
    match reqs.find? (matchesReq current) with
    | none => none
    | some r =>
      match findFree r incoming used with
      | none => none
      | some i =>
        match incoming[i]? with
        | none => none
        | some inc =>
          if validate current inc r.allowed then
            (assign reqs incoming (i :: used) rest).map (i :: ·)
          else none

/-- `allowsMultiParamsChange` -/
def allowsMulti (reqs : List Req) (current incoming : List Obj) : Bool :=
  if current.length != incoming.length then false
  else (assign reqs incoming [] current).isSome

/-- `AllowedParamsChange` -/
structure APC where
  subspace : String
  key : String
  single : List String
  multi : List Req

/-- `paramsproposal.ParamChange`; `value = none` when the text is not valid JSON for `encoding/json` -/
structure Change where
  subspace : String
  key : String
  value : Option Json

inductive Verdict where
  | yes | no | panic
  deriving DecidableEq, Repr, Inhabited

def Verdict.ofBool (b : Bool) : Verdict := if b then .yes else .no

/-- the params keeper as the checker sees it: `none` = subspace not found; `some none` = empty raw value -/
abbrev Store := String → String → Option (Option Json)

/-- `len(tdata) > 0 && tdata[0] == '['` on the CURRENT raw value -/
def isArrayRaw : Option Json → Bool
  | some (.arr _) => true
  | _ => false

/-- second half of `allowsParamChange`: decode the incoming value, then the current one (a current
    value that does not decode is `panic(err)`), then compare -/
def checkAgainst (a : APC) (curRaw : Option Json) (value : Option Json) : Verdict :=
  if isArrayRaw curRaw then
    match value.bind asMaps with
    | none => .no
    | some inc =>
      match curRaw.bind asMaps with
      | none => .panic
      | some cur => .ofBool (allowsMulti a.multi cur inc)
  else
    match value.bind asMap with
    | none => .no
    | some inc =>
      match curRaw.bind asMap with
      | none => .panic
      | some cur => .ofBool (validate cur inc a.single)

/-- `allowsParamChange` (array / object dispatch on the first byte of the CURRENT raw value) -/
def allowsParamChange (a : APC) (st : Store) (c : Change) : Verdict :=
  if a.subspace != c.subspace && a.key != c.key then .no
  else if a.single.isEmpty && a.multi.isEmpty then .yes
  else
    match st c.subspace c.key with
    | none => .no
    | some curRaw => checkAgainst a curRaw c.value

/-- `filterByParamChange` -/
def filterByParamChange (apcs : List APC) (c : Change) : List APC :=
  apcs.filter fun p => c.subspace == p.subspace && c.key == p.key

/-- inner loop of `ParamsChangePermission.Allows`: first rule that allows wins -/
def anyAllows (st : Store) (c : Change) : List APC → Verdict
  | [] => .no
  | a :: rest =>
    match allowsParamChange a st c with
    | .yes => .yes
    | .panic => .panic
    | .no => anyAllows st c rest

/-- outer loop of `ParamsChangePermission.Allows` -/
def allowsChanges (apcs : List APC) (st : Store) : List Change → Verdict
  | [] => .yes
  | c :: cs =>
    match anyAllows st c (filterByParamChange apcs c) with
    | .yes => allowsChanges apcs st cs
    | v => v

inductive Permission where
  | god | text | softwareUpgrade
  | paramsChange (apcs : List APC)
  | cdpRepayDebt | lendWithdraw | cdpWithdrawCollateral

inductive Content where
  | text | softwareUpgrade
  | paramChange (cs : List Change)
  | cdpRepayDebt | lendWithdraw | cdpWithdrawCollateral
  | other

/-- `Permission.Allows` -/
def Permission.allows (st : Store) : Permission → Content → Verdict
  | .god, _ => .yes
  | .text, .text => .yes
  | .softwareUpgrade, .softwareUpgrade => .yes
  | .cdpRepayDebt, .cdpRepayDebt => .yes
  | .lendWithdraw, .lendWithdraw => .yes
  | .cdpWithdrawCollateral, .cdpWithdrawCollateral => .yes
  | .paramsChange apcs, .paramChange cs => allowsChanges apcs st cs
  | _, _ => .no

/-- `BaseCommittee.HasPermissionsFor`: the OR of all permissions, in order -/
def hasPermissionsFor (st : Store) (c : Content) : List Permission → Verdict
  | [] => .no
  | p :: ps =>
    match p.allows st c with
    | .yes => .yes
    | .panic => .panic
    | .no => hasPermissionsFor st c ps

/-! ### the applier: go-amino `decodeReflectJSONStruct` on the same decoded top-level object -/

/-- field set of the parameter's Go struct, with the `omitempty` flag of each JSON tag -/
structure Schema where
  fields : List String
  omitEmpty : String → Bool

/-- Value of field `k` after amino-JSON-decoding record `inc` into a destination that held `base`:
    present ↦ the given value (`null` ↦ zero value, written `null`); absent and not `omitempty` ↦ zero;
    absent and `omitempty` ↦ left as it was; keys that are no field are never looked at. -/
def applyRec (sch : Schema) (base : String → Json) (inc : Obj) (k : String) : Json :=
  match inc.lookup k with
  | some v => v
  | none => if sch.omitEmpty k then base k else .null

/-- the record the store currently holds, field by field (an omitted field is empty = zero = `null`) -/
def recOf (cur : Obj) (k : String) : Json := get cur k

/-- destination of an array element: amino makes a fresh slice, every element starts as the zero record -/
def zeroRec : String → Json := fun _ => .null

end KV.Perm
