/-
  Model of the x/incentive reward accumulator, one instance per (source, collateral type, reward denom):
    x/incentive/types/accumulator.go   Accumulate / AccumulateDecCoins / getTimeElapsedWithinLimits /
                                       calculateNewRewards / minTime / maxTime
    x/incentive/keeper/rewards_*.go    Accumulate<Source>Rewards, Initialize<Source>Reward,
                                       Synchronize<Source>Reward, CalculateRewards, CalculateSingleReward
    x/incentive/keeper/claim.go        Claim<Source>Reward (one reward denom)
  The six wired sources (USDX minting, hard supply, hard borrow, delegator, swap, earn) share this code
  shape; they differ only in where the total source shares `T` and the user's source shares `s` are read
  from (the source module), which are inputs here.

  Numbers: `sdk.Dec` values are their 18-decimal mantissas (`Int`), times are nanoseconds since the Unix
  epoch, durations nanoseconds, reward amounts `sdkmath.Int` = `Int`.  Core Lean only.
-/
import KavaVerif.Num.Dec

namespace KV.Acc

abbrev Addr := Nat

/-! ### `time.Duration.Seconds()` and `math.RoundToEven` on float64, modelled exactly on integers

  `durationSeconds := int64(math.RoundToEven(duration.Seconds()))` where
  `Seconds() = float64(d / 1e9) + float64(d % 1e9) / 1e9`.  float64 has a 53-bit significand;
  division and addition round to nearest, ties to even (IEEE 754, which Go follows). -/

/-- nanoseconds per second (`time.Second`) -/
def NS : Int := 1000000000

/-- `maxDuration` = 2^63 − 1: `time.Time.Sub` saturates -/
def maxDur : Int := 9223372036854775807

/-- n / 2^k rounded to nearest, ties to even -/
def rne (n k : Nat) : Nat :=
  if k = 0 then n
  else
    let q := n / 2 ^ k
    let r := n % 2 ^ k
    let h := 2 ^ (k - 1)
    if r < h then q else if h < r then q + 1 else if q % 2 = 0 then q else q + 1

/-- n / d rounded to nearest, ties to even (d > 0) -/
def rneDiv (n d : Nat) : Nat :=
  let q := n / d
  let r := n % d
  if 2 * r < d then q else if d < 2 * r then q + 1 else if q % 2 = 0 then q else q + 1

/-- ⌊log₂ n⌋ for 0 < n < 2^64 (structural recursion on fuel so that the kernel can evaluate it) -/
def ilog2Aux : Nat → Nat → Nat → Nat
  | 0, _, acc => acc
  | fuel + 1, n, acc => if n ≥ 2 then ilog2Aux fuel (n / 2) (acc + 1) else acc

def ilog2 (n : Nat) : Nat := ilog2Aux 64 n 0

/-- for 0 < nsec < 10^9: the j ≥ 1 with 2^(−j) ≤ nsec/10^9 < 2^(1−j) -/
def fracExp (nsec : Nat) : Nat :=
  let b := ilog2 nsec
  if nsec * 2 ^ (29 - b) ≥ 1000000000 then 29 - b else 30 - b

/-- `int64(math.RoundToEven(float64(sec) + float64(nsec)/1e9))` for 0 ≤ sec < 2^53, 0 ≤ nsec < 10^9 -/
def roundSecs (sec nsec : Nat) : Nat :=
  if nsec = 0 then sec
  else
    let j := fracExp nsec
    -- float64(nsec)/1e9 = m · 2^(−(52+j)), 2^52 ≤ m ≤ 2^53
    let m := rneDiv (nsec * 2 ^ (52 + j)) 1000000000
    if sec = 0 then rne m (52 + j)
    else
      let k := ilog2 sec
      -- exact sum in units of 2^(−(52+j)); the float64 sum is a multiple of 2^(k−52)
      let q := rne (sec * 2 ^ (52 + j) + m) (k + j)
      if k ≤ 52 then rne q (52 - k) else q * 2 ^ (k - 52)

/-- whole seconds the module counts for a duration of `d` nanoseconds -/
def goSeconds (d : Int) : Int :=
  if d < 0 then - (roundSecs ((-d) / NS).toNat ((-d) % NS).toNat : Int)
  else (roundSecs (d / NS).toNat (d % NS).toNat : Int)

/-! ### accumulator.go -/

/-- `getTimeElapsedWithinLimits(start := prev, end := now, limitMin := start, limitMax := stop)`;
    `none` is the Go panic (start after end, or limitMin after limitMax). -/
def elapsed (prev now start stop : Int) : Option Int :=
  if prev > now then none
  else if start > stop then none
  else if prev > stop ∨ now < start then some 0
  else
    let d := min now stop - max prev start
    some (if d > maxDur then maxDur else d)

/-- `calculateNewRewards` for one reward denom: `rate.Mul(NewDec(secs)).Quo(T)` (Dec mantissas),
    nothing when `T ≤ 0` or `secs ≤ 0`. -/
def indexIncrement (rate T secs : Int) : Int :=
  if T ≤ 0 then 0
  else if secs ≤ 0 then 0
  else (Dec.quo (Dec.mul ⟨rate⟩ (Dec.ofInt secs)) ⟨T⟩).m

/-- a reward period restricted to one reward denom -/
structure Period where
  start : Int
  stop : Int
  rate : Int      -- rewards per second, Dec mantissa (`NewDecCoinsFromCoins`: amount · 10^18)
deriving Repr, DecidableEq

/-- a participant of one source: source shares, index at the last synchronisation, accrued reward -/
structure User where
  s : Int   -- source shares (Dec mantissa)
  i : Int   -- reward index stored in the claim (Dec mantissa); absent = 0
  r : Int   -- claim.Reward amount of this reward denom
deriving Repr, DecidableEq, Inhabited

structure St where
  I : Int          -- global reward index (Dec mantissa); absent = 0
  T : Int          -- total source shares (Dec mantissa), owned by the source module
  prev : Int       -- previous accrual time
  u : Addr → User

inductive Res (α : Type) where
  | ok (a : α)
  | err         -- ordinary error: baseapp discards the message's writes
  | panic       -- Go panic
deriving Inhabited

def Res.isOk {α : Type} : Res α → Bool
  | .ok _ => true
  | _ => false

def upd (f : Addr → User) (a : Addr) (v : User) : Addr → User := fun x => if x = a then v else f x

/-- `Accumulator.AccumulateDecCoins` for one reward denom, with total source shares `σ.T` -/
def accumulate (p : Period) (σ : St) (now : Int) : Res St :=
  match elapsed σ.prev now p.start p.stop with
  | none => .panic
  | some d =>
    .ok { σ with I := σ.I + indexIncrement p.rate σ.T (goSeconds d), prev := min p.stop now }

/-- `Accumulate<Source>Rewards`: the stored accrual time, or the block time when none is stored -/
def keeperAccumulate (p : Period) (σ : St) (prevFound : Bool) (now : Int) : Res St :=
  accumulate p { σ with prev := if prevFound then σ.prev else now } now

/-- `CalculateSingleReward(oldIndex, newIndex, sourceShares)`; `none` = ErrDecreasingRewardFactor -/
def singleReward (old new shares : Int) : Option Int :=
  if new - old < 0 then none
  else some (Dec.roundInt (Dec.mul ⟨new - old⟩ ⟨shares⟩))

/-- the amount a synchronisation would add now (0 when the index decreased) -/
def pending (σ : St) (a : Addr) : Int := (singleReward (σ.u a).i σ.I (σ.u a).s).getD 0

/-- `synchronize<Source>Reward(claim, …, sourceShares)`: credit `(I − i)·shares`, set `i := I`.
    A decreased index panics ("corrupted global reward indexes found"). -/
def syncWith (σ : St) (a : Addr) (shares : Int) : Res St :=
  match singleReward (σ.u a).i σ.I shares with
  | none => .panic
  | some x => .ok { σ with u := upd σ.u a { (σ.u a) with r := (σ.u a).r + x, i := σ.I } }

/-- the hook as every wired source calls it: with the user's current (pre-change) source shares -/
def sync (σ : St) (a : Addr) : Res St := syncWith σ a (σ.u a).s

/-- the source module's write of a new share amount (and of its own total) -/
def write (σ : St) (a : Addr) (s' : Int) : St :=
  { σ with T := σ.T - (σ.u a).s + s', u := upd σ.u a { (σ.u a) with s := s' } }

/-- a position change in a source module: `Before…Modified` hook (or `After…Created`, which only sets
    `i := I` and coincides with a synchronisation at zero shares), then the write. -/
def change (σ : St) (a : Addr) (s' : Int) : Res St :=
  match sync σ a with
  | .ok σ1 => .ok (write σ1 a s')
  | .err => .err
  | .panic => .panic

/-- `Claim<Source>Reward` for one reward denom: refuse after the claim end, synchronise, pay
    `roundInt(amt · factor)` out of the incentive account (balance `macc`), refuse a zero payout,
    deduct the whole accrued amount.  Result: new state and the amount paid. -/
def claim (σ : St) (a : Addr) (factor : Int) (now claimEnd macc : Int) : Res (St × Int) :=
  if now > claimEnd then .err
  else
    match sync σ a with
    | .panic => .panic
    | .err => .err
    | .ok σ1 =>
      let amt := (σ1.u a).r
      let pay := Dec.roundInt (Dec.mul (Dec.ofInt amt) ⟨factor⟩)
      if pay = 0 then .err
      else if macc < pay then .err
      else .ok ({ σ1 with u := upd σ1.u a { (σ1.u a) with r := 0 } }, pay)

/-! ### one claim object fed by several instances

  `USDXMintingClaim`, `HardLiquidityProviderClaim`, `SwapClaim` and `EarnClaim` each hold ONE `Reward`
  and the reward indexes of SEVERAL source instances (cdp collateral types; hard supply and borrow
  denoms; swap pools; earn vaults).  For one owner and one reward denom: the stored reward `r` and, per
  instance, the instance's global index, the owner's source shares in it and the index stored in the claim. -/

/-- one source instance as seen from one owner's claim (one reward denom) -/
structure Inst where
  I : Int   -- global reward index of the instance
  s : Int   -- the owner's source shares in the instance
  i : Int   -- index stored in the claim for the instance (absent = 0)
deriving Repr, DecidableEq, Inhabited

/-- one owner's claim object restricted to one reward denom -/
structure MClaim where
  r : Int
  xs : List Inst
deriving Repr, DecidableEq

/-- what synchronising this instance would add now (0 when the index decreased) -/
def Inst.pending (x : Inst) : Int := (singleReward x.i x.I x.s).getD 0

/-- the instance after a synchronisation: stored index := global index -/
def Inst.synced (x : Inst) : Inst := { x with i := x.I }

/-- Σ over the instances of what a synchronisation would add -/
def pendingSum : List Inst → Int
  | [] => 0
  | x :: xs => x.pending + pendingSum xs

/-- `Synchronize<Source>Claim` / `GetSynchronized<Source>Claim`: every instance in turn, each one
    continuing from the RUNNING claim (the reward credited so far is carried along). -/
def syncAllFrom (r : Int) : List Inst → Res (Int × List Inst)
  | [] => .ok (r, [])
  | x :: xs =>
    match singleReward x.i x.I x.s with
    | none => .panic
    | some d =>
      match syncAllFrom (r + d) xs with
      | .ok (r', ys) => .ok (r', x.synced :: ys)
      | .err => .err
      | .panic => .panic

/-- the hook of ONE instance (`Before…Modified` of the k-th instance): only that instance is synchronised -/
def syncAt (c : MClaim) (k : Nat) : Res MClaim :=
  match c.xs[k]? with
  | none => .ok c
  | some x =>
    match singleReward x.i x.I x.s with
    | none => .panic
    | some d => .ok { r := c.r + d, xs := c.xs.set k x.synced }

/-- `Claim<Source>Reward` for one reward denom of a claim object fed by several instances -/
def mclaim (c : MClaim) (factor : Int) (now claimEnd macc : Int) : Res (MClaim × Int) :=
  if now > claimEnd then .err
  else
    match syncAllFrom c.r c.xs with
    | .panic => .panic
    | .err => .err
    | .ok (amt, ys) =>
      let pay := Dec.roundInt (Dec.mul (Dec.ofInt amt) ⟨factor⟩)
      if pay = 0 then .err
      else if macc < pay then .err
      else .ok ({ r := 0, xs := ys }, pay)

end KV.Acc
