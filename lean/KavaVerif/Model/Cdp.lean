/-
  Model of x/cdp (keeper/{cdp,deposit,draw,interest,seize,auctions,keeper}.go, abci.go), transcribed
  branch by branch in the code's own evaluation order, as of /repo cb3596bb2 (includes the fixes bfd342e03
  capped debt shares, b28e8ed21 block re-check, cb3596bb2 draw feed gate).  Core Lean only.

  Part A — the two formulations of "under-collateralised" (C05), pure `Dec` arithmetic:
    * value ratio      `CalculateCollateralizationRatio`  (user gate `CR ≥ L`, keeper gate `CR < L`)
    * index ratio      `CalculateCollateralToDebtRatio` / `calculateCollateralRatio` and the block
                       liquidator's `normalizedRatio = 1 / max(price / L, 10^-18)`.
  Part B — the state machine (C04, C05): CDP table, deposits, owner index, ratio index, total principal,
    interest factor / accrual time, market status flags, bank balances of the module accounts and users.

  Conventions.  Accounts are `Nat`: 0 = cdp module, 1 = liquidator module, 2 = auction module, ≥ 3 users
  (numbered in address-byte order, which is the store's iteration order of deposits).  Denoms are `Nat`:
  0 = usdx, 1 = debt, ≥ 2 collateral denoms.  Collateral types are positions in `Params.colls`
  (numbered in type-name byte order, the store's order of the ratio index).  Block time is whole seconds.
  `Res.err` = ordinary error (baseapp rolls the message back), `Res.panic` = Go panic.

  Parameters change on a live chain (governance end blocker, committee begin blocker) while CDPs exist: every
  operation takes the parameters in force (`Env`) as an argument, so a change is a different `Env` for the next
  step.  A type that is removed from the parameters keeps its position, denom and conversion factor (attributes of
  the stored CDPs and index keys) and is flagged `active := false`: `GetCollateral` does not find it, so
  `ValidateCollateral` / `GetCDP` refuse every user operation on it and the begin blocker (which loops over
  `Params.order`, the listed types in the order of the parameter list) does not visit it.

  External routines kept as parameters: `CalculateInterestFactor` (the per-type factor `f` is an input of
  `beginBlock`; assumed ≥ 1 by the theorems that need it, monitored by the harness).  The split of one
  deposit into lots of `AuctionSize` inside `CreateAuctionsFromDeposit` is represented by its net bank
  effect (the lot and the deposit's share of the debt leave the liquidator account); the individual
  auctions (lot, debt, max bid per lot) are modelled in `Model/CdpAuctions.lean` for exactly these amounts.
-/
import KavaVerif.Num.Dec

namespace KV.Cdp
open KV

/-! ## Part A — ratios -/

/-- `sdk.NewDecFromInt(amt).Mul(sdk.NewDecFromIntWithPrec(sdk.OneInt(), cf))`
    (`convertCollateralToBaseUnits`, `convertDebtToBaseUnits`) -/
def baseUnits (amt : Int) (cf : Nat) : Dec := Dec.mul (Dec.ofInt amt) ⟨10 ^ (18 - cf)⟩

/-- `types.MaxSortableDec = sdk.OneDec().Quo(sdk.SmallestDec())` (= 10^18, mantissa 10^36) -/
def maxSortable : Dec := Dec.quo Dec.one Dec.smallest

/-- Order-preserving image of `CollateralRatioBytes`/`SortableDecBytes` for non-negative ratios:
    37-character zero padded decimal strings compare like their mantissas; everything ≥ MaxSortableDec
    is written `"max"`, which sorts after every digit string. -/
def sortKey (r : Dec) : Int := if r.m ≥ maxSortable.m then maxSortable.m else r.m

/-- `CalculateCollateralizationRatio` after the price has been fetched.
    `none` = Go panic (`Dec.Quo` by a zero total debt). -/
def collRatio (c : Int) (cf : Nat) (prin fees : Int) (dcf : Nat) (price : Dec) : Option Dec :=
  if c = 0 then some Dec.zero else
  let value := Dec.mul (baseUnits c cf) price
  let total := Dec.add (baseUnits prin dcf) (baseUnits fees dcf)
  if total.m = 0 then none else some (Dec.quo value total)

/-- `CalculateCollateralToDebtRatio` (helper path of the ratio index). -/
def c2d (c : Int) (cf : Nat) (debt : Int) (dcf : Nat) : Dec :=
  let debtTotal := baseUnits debt dcf
  if debtTotal.m = 0 ∨ debtTotal.m ≥ maxSortable.m then Dec.sub maxSortable Dec.smallest
  else Dec.quo (baseUnits c cf) debtTotal

/-- `calculateCollateralRatio` (hand-rolled path in `SynchronizeInterestForRiskyCDPs`). -/
def c2dBulk (c : Int) (cf : Nat) (debt : Int) (dcf : Nat) : Dec :=
  let debtTotal := Dec.mul (Dec.ofInt debt) ⟨10 ^ (18 - dcf)⟩
  if debtTotal.m = 0 ∨ debtTotal.m ≥ maxSortable.m then Dec.sub maxSortable Dec.smallest
  else
    let collateralBaseUnits := Dec.mul (Dec.ofInt c) ⟨10 ^ (18 - cf)⟩
    Dec.quo collateralBaseUnits debtTotal

/-- `LiquidateCdps`: `normalizedRatio = 1 / max(price / L, 10^-18)` -/
def normRatio (price L : Dec) : Dec :=
  let priceDivLiqRatio := Dec.quo price L
  let priceDivLiqRatio := if priceDivLiqRatio.m = 0 then Dec.smallest else priceDivLiqRatio
  Dec.quo Dec.one priceDivLiqRatio

/-- the block liquidator's range scan reaches an index entry with key `k` (the re-check `blockSkips` then
    decides whether the CDP is seized) -/
def blockSelects (k : Int) (price L : Dec) : Bool := decide (k < sortKey (normRatio price L))

/-! ## Part B — state machine -/

abbrev Acct := Nat
abbrev Denom := Nat
abbrev MCDP : Acct := 0
abbrev MLIQ : Acct := 1
abbrev MAUC : Acct := 2
abbrev USDX : Denom := 0
abbrev DEBT : Denom := 1

structure CollParam where
  denom : Denom
  liqRatio : Dec
  debtLimit : Int
  feeIsOne : Bool        -- `StabilityFee.Equal(sdk.OneDec())`
  keeperReward : Dec
  checkCount : Int       -- `CheckCollateralizationIndexCount`
  cf : Nat               -- `ConversionFactor`
  spot : Nat             -- spot market id
  liq : Nat              -- liquidation market id
  /-- the type is listed in `Params.CollateralParams` (`GetCollateral` finds it).  Governance can remove a type
      while CDPs of that type exist and add it again later: the position (type-name order), the denom and the
      conversion factor stay attributes of the stored CDPs and index keys, everything else is gone with the entry. -/
  active : Bool := true
deriving Inhabited

structure Params where
  colls : List CollParam
  debtCf : Nat
  debtFloor : Int
  globalLimit : Int
  surplusThreshold : Int
  surplusLot : Int
  debtThreshold : Int
  debtLot : Int
  /-- positions of the listed types in the order of `Params.CollateralParams` (the begin blocker's loop order;
      governance may write the list in any order) -/
  order : List Nat := List.range colls.length
deriving Inhabited

/-- parameters plus the (sorted) universe of accounts that can hold a deposit -/
structure Env where
  P : Params
  accts : List Acct
deriving Inhabited

structure Cdp where
  owner : Acct
  ty : Nat
  coll : Int
  prin : Int
  fees : Int
  updated : Int     -- `FeesUpdated`
  ifac : Dec        -- `InterestFactor`
deriving DecidableEq, Inhabited, Repr

/-- (type, sortable ratio key, id): one key of the ratio index; the list is kept in store order -/
abbrev Entry := Nat × Int × Nat

structure St where
  cdp : Nat → Option Cdp
  nextId : Nat
  dep : Nat → Acct → Int          -- deposit of an account in a cdp (0 = no record)
  own : Acct → List Nat           -- owner index (sorted id list)
  idx : List Entry                -- ratio index
  tprin : Nat → Int               -- total principal per type
  ifac : Nat → Option Dec         -- global interest factor per type
  accr : Nat → Option Int         -- previous accrual time per type
  status : Nat → Bool             -- market status flag (x/cdp store)
  price : Nat → Option Dec        -- x/pricefeed current price (none = no valid price)
  bal : Acct → Denom → Int        -- x/bank balances
  supply : Denom → Int            -- x/bank supply

inductive Res (α : Type) where
  | ok (a : α)
  | err
  | panic

def Res.isOk {α : Type} : Res α → Bool
  | .ok _ => true
  | _ => false

def upd {α : Type} (f : Nat → α) (k : Nat) (v : α) : Nat → α := fun x => if x = k then v else f x
def upd2 (f : Nat → Nat → Int) (a b : Nat) (v : Int) : Nat → Nat → Int :=
  fun x y => if x = a ∧ y = b then v else f x y

/-! ### bank (one denom at a time; `sdk.NewCoins` drops zero coins, so a zero amount is a no-op) -/

def sendB (s : St) (frm to : Acct) (d : Denom) (amt : Int) : Option St :=
  if amt = 0 then some s
  else if s.bal frm d < amt then none
  else
    let b1 := upd2 s.bal frm d (s.bal frm d - amt)
    some { s with bal := upd2 b1 to d (b1 to d + amt) }

def mintB (s : St) (a : Acct) (d : Denom) (amt : Int) : St :=
  if amt = 0 then s
  else { s with bal := upd2 s.bal a d (s.bal a d + amt), supply := upd s.supply d (s.supply d + amt) }

def burnB (s : St) (a : Acct) (d : Denom) (amt : Int) : Option St :=
  if amt = 0 then some s
  else if s.bal a d < amt then none
  else some { s with bal := upd2 s.bal a d (s.bal a d - amt), supply := upd s.supply d (s.supply d - amt) }

/-! ### parameters -/

/-- `GetCollateral(ctx, collateralType)`: the parameters of a type that is listed -/
def activeColl (E : Env) (ty : Nat) : Option CollParam :=
  match E.P.colls[ty]? with
  | some cp => if cp.active = true then some cp else none
  | none => none

/-- `GetCollateral` finds the type (`GetCDP` answers "not found" for every CDP of a type that is not listed) -/
def isActive (E : Env) (ty : Nat) : Bool := (activeColl E ty).isSome

def cfOf (E : Env) (ty : Nat) : Nat := match E.P.colls[ty]? with | some cp => cp.cf | none => 0
def denomOf (E : Env) (ty : Nat) : Denom := match E.P.colls[ty]? with | some cp => cp.denom | none => 0

/-- the ratio-index key the helper path computes for a CDP
    (`CalculateCollateralToDebtRatio(cdp.Collateral, cdp.Type, cdp.GetTotalPrincipal())`) -/
def keyOf (E : Env) (c : Cdp) : Int := sortKey (c2d c.coll (cfOf E c.ty) (c.prin + c.fees) E.P.debtCf)

/-- the key the bulk path computes (`calculateCollateralRatio(debtParam, cp, cdp)`) -/
def keyBulk (E : Env) (cp : CollParam) (c : Cdp) : Int :=
  sortKey (c2dBulk c.coll cp.cf (c.prin + c.fees) E.P.debtCf)

/-! ### indexes -/

def eLt (a b : Entry) : Bool :=
  decide (a.1 < b.1) || (decide (a.1 = b.1) && (decide (a.2.1 < b.2.1) || (decide (a.2.1 = b.2.1) && decide (a.2.2 < b.2.2))))

def insSorted (e : Entry) : List Entry → List Entry
  | [] => [e]
  | x :: xs => if eLt e x then e :: x :: xs else x :: insSorted e xs

/-- `store.Set(key)`: idempotent ordered insert -/
def insertKey (e : Entry) (l : List Entry) : List Entry := if e ∈ l then l else insSorted e l

/-- `store.Delete(key)` -/
def removeKey (e : Entry) (l : List Entry) : List Entry := l.filter (fun x => x ≠ e)

def insId (i : Nat) : List Nat → List Nat
  | [] => [i]
  | x :: xs => if i < x then i :: x :: xs else x :: insId i xs

/-- `IndexCdpByOwner`: append, then `sort.Slice` ascending -/
def addOwnerId (i : Nat) (l : List Nat) : List Nat := insId i l

/-- `RemoveCdpOwnerIndex` -/
def removeOwnerId (i : Nat) (l : List Nat) : List Nat := l.filter (fun x => x ≠ i)

/-- `GetCdpByOwnerAndCollateralType`: first id of the owner whose CDP has the type -/
def findCdp (s : St) (o : Acct) (ty : Nat) : Option (Nat × Cdp) :=
  (s.own o).findSome? (fun id =>
    match s.cdp id with
    | some c => if c.ty = ty then some (id, c) else none
    | none => none)

/-- `GetDeposits(cdpID)`: records of the CDP in depositor-address order -/
def depositsOf (E : Env) (s : St) (id : Nat) : List (Acct × Int) :=
  (E.accts.filter (fun a => s.dep id a ≠ 0)).map (fun a => (a, s.dep id a))

def sumDeps : List (Acct × Int) → Int
  | [] => 0
  | (_, v) :: rest => v + sumDeps rest

/-! ### validation helpers -/

/-- `ValidateCollateral`: type known, denom matches, both market status flags up -/
def validateCollateral (E : Env) (s : St) (ty : Nat) (cd : Denom) : Option CollParam :=
  match E.P.colls[ty]? with
  | none => none
  | some cp =>
    if cp.active = false then none
    else if cp.denom ≠ cd then none
    else if s.status cp.spot = false then none
    else if s.status cp.liq = false then none
    else some cp

/-- `CalculateCollateralizationRatio` including the price fetch -/
def calcCR (c : Int) (cf : Nat) (prin fees : Int) (dcf : Nat) (price : Option Dec) : Res Dec :=
  if c = 0 then .ok Dec.zero else
  match price with
  | none => .err
  | some p =>
    match collRatio c cf prin fees dcf p with
    | none => .panic
    | some r => .ok r

/-- `UpdateCdpAndCollateralRatioIndex`: the old key is recomputed from the *stored* CDP -/
def updateCdpIdx (E : Env) (s : St) (id : Nat) (c : Cdp) (key : Int) : Option St :=
  match s.cdp id with
  | none => none
  | some old =>
    some { s with cdp := upd s.cdp id (some c),
                  idx := insertKey (c.ty, key, id) (removeKey (old.ty, keyOf E old, id) s.idx) }

/-! ### interest -/

/-- `CalculateNewInterest`; `none` = Go panic (`Quo` by a zero CDP factor) -/
def newInterest (s : St) (c : Cdp) : Option Int :=
  match s.ifac c.ty with
  | none => some 0
  | some g =>
    if c.ifac.m = 0 then none else
    let f := Dec.quo g c.ifac
    if f = Dec.one then some 0
    else some (Dec.roundInt (Dec.mul (Dec.ofInt (c.prin + c.fees)) f) - (c.prin + c.fees))

/-- `SynchronizeInterest(cdp)`: returns the new state and the updated CDP object -/
def syncInterest (E : Env) (now : Int) (s : St) (id : Nat) (c : Cdp) : Res (St × Cdp) :=
  match s.ifac c.ty with
  | none =>
    let c1 : Cdp := { c with ifac := Dec.one, updated := now }
    .ok ({ s with ifac := upd s.ifac c.ty (some Dec.one), cdp := upd s.cdp id (some c1) }, c1)
  | some g =>
    match newInterest s c with
    | none => .panic
    | some acc =>
      match s.accr c.ty with
      | none => .ok (s, c)
      | some prev =>
        if acc = 0 ∧ c.updated = prev then .ok (s, c)
        else
          -- (when acc = 0 the code first stores the CDP with the new FeesUpdated, then falls through)
          let s0 := if acc = 0 then { s with cdp := upd s.cdp id (some { c with updated := prev }) } else s
          let c1 : Cdp := { c with fees := c.fees + acc, updated := prev, ifac := g }
          match updateCdpIdx E s0 id c1 (keyOf E c1) with
          | none => .panic
          | some s1 => .ok (s1, c1)

/-! ### user operations -/

/-- `GetInterestFactor`, or 1.0 when the type has none yet (`AddCdp`) -/
def ifacOrOne (s : St) (ty : Nat) : Dec := match s.ifac ty with | some f => f | none => Dec.one

/-- `AddCdp`: `if !found { SetInterestFactor(ctx, collateralType, sdk.OneDec()) }` -/
def ensureIfac (s : St) (ty : Nat) : St :=
  match s.ifac ty with
  | some _ => s
  | none => { s with ifac := upd s.ifac ty (some Dec.one) }

/-- `AddCdp` (MsgCreateCDP) -/
def create (E : Env) (now : Int) (s : St) (owner : Acct) (ty : Nat) (c : Int) (cd : Denom)
    (p : Int) (pd : Denom) : Res St :=
  if c ≤ 0 ∨ p ≤ 0 then .err else
  match validateCollateral E s ty cd with
  | none => .err
  | some cp =>
  if s.bal owner cd < c then .err else
  if (findCdp s owner ty).isSome then .err else
  if pd ≠ USDX then .err else
  if p < E.P.debtFloor then .err else
  if s.tprin ty + p > cp.debtLimit then .err else
  if s.tprin ty + p > E.P.globalLimit then .err else
  match calcCR c cp.cf p 0 E.P.debtCf (s.price cp.spot) with
  | .err => .err
  | .panic => .panic
  | .ok r =>
  if r.m < cp.liqRatio.m then .err else
  let id := s.nextId
  let fac := ifacOrOne s ty
  let s0 := ensureIfac s ty
  match sendB s0 owner MCDP cd c with
  | none => .err
  | some s1 =>
  let s2 := mintB s1 MCDP USDX p
  match sendB s2 MCDP owner USDX p with
  | none => .panic
  | some s3 =>
  let s4 := mintB s3 MCDP DEBT p
  let cdp : Cdp := { owner := owner, ty := ty, coll := c, prin := p, fees := 0, updated := now, ifac := fac }
  .ok { s4 with tprin := upd s4.tprin ty (s4.tprin ty + p),
                cdp := upd s4.cdp id (some cdp),
                idx := insertKey (ty, keyOf E cdp, id) s4.idx,
                own := upd s4.own owner (addOwnerId id (s4.own owner)),
                dep := upd2 s4.dep id owner c,
                nextId := id + 1 }

/-- `DepositCollateral` (MsgDeposit) -/
def deposit (E : Env) (now : Int) (s : St) (owner depositor : Acct) (ty : Nat) (c : Int) (cd : Denom) : Res St :=
  if c ≤ 0 then .err else
  match validateCollateral E s ty cd with
  | none => .err
  | some _ =>
  match findCdp s owner ty with
  | none => .err
  | some (id, c0) =>
  if s.bal depositor cd < c then .err else
  match syncInterest E now s id c0 with
  | .err => .err
  | .panic => .panic
  | .ok (s1, c1) =>
  match sendB s1 depositor MCDP cd c with
  | none => .err
  | some s2 =>
  let s3 := { s2 with dep := upd2 s2.dep id depositor (s2.dep id depositor + c) }
  let c2 : Cdp := { c1 with coll := c1.coll + c }
  match updateCdpIdx E s3 id c2 (keyOf E c2) with
  | none => .err
  | some s4 => .ok s4

/-- `WithdrawCollateral` (MsgWithdraw) -/
def withdraw (E : Env) (now : Int) (s : St) (owner depositor : Acct) (ty : Nat) (c : Int) (cd : Denom) : Res St :=
  if c ≤ 0 then .err else
  match validateCollateral E s ty cd with
  | none => .err
  | some cp =>
  match findCdp s owner ty with
  | none => .err
  | some (id, c0) =>
  if s.dep id depositor = 0 then .err else
  if c > s.dep id depositor then .err else
  match syncInterest E now s id c0 with
  | .err => .err
  | .panic => .panic
  | .ok (s1, c1) =>
  match calcCR (c1.coll - c) cp.cf c1.prin c1.fees E.P.debtCf (s1.price cp.spot) with
  | .err => .err
  | .panic => .panic
  | .ok r =>
  if r.m < cp.liqRatio.m then .err else
  match sendB s1 MCDP depositor cd c with
  | none => .panic
  | some s2 =>
  let c2 : Cdp := { c1 with coll := c1.coll - c }
  match updateCdpIdx E s2 id c2 (keyOf E c2) with
  | none => .err
  | some s3 => .ok { s3 with dep := upd2 s3.dep id depositor (s3.dep id depositor - c) }

/-- `AddPrincipal` (MsgDrawDebt); since cb3596bb2 it starts with `ValidateCollateral(cdp.Collateral, cdp.Type)`
    like the other user operations (the CDP's collateral denom is its type's denom). -/
def draw (E : Env) (now : Int) (s : St) (owner : Acct) (ty : Nat) (p : Int) (pd : Denom) : Res St :=
  if p ≤ 0 then .err else
  match findCdp s owner ty with
  | none => .err
  | some (id, c0) =>
  match validateCollateral E s c0.ty (denomOf E c0.ty) with
  | none => .err
  | some cp =>
  if pd ≠ USDX then .err else
  if s.tprin ty + p > cp.debtLimit then .err else
  if s.tprin ty + p > E.P.globalLimit then .err else
  match syncInterest E now s id c0 with
  | .err => .err
  | .panic => .panic
  | .ok (s1, c1) =>
  match calcCR c1.coll cp.cf (c1.prin + p) c1.fees E.P.debtCf (s1.price cp.spot) with
  | .err => .err
  | .panic => .panic
  | .ok r =>
  if r.m < cp.liqRatio.m then .err else
  let s2 := mintB s1 MCDP USDX p
  match sendB s2 MCDP owner USDX p with
  | none => .panic
  | some s3 =>
  let s4 := mintB s3 MCDP DEBT p
  let c2 : Cdp := { c1 with prin := c1.prin + p }
  let s5 := { s4 with tprin := upd s4.tprin ty (s4.tprin ty + p) }
  match updateCdpIdx E s5 id c2 (keyOf E c2) with
  | none => .err
  | some s6 => .ok s6

/-- `calculatePayment(owed, fees, payment)` → (fee payment, principal payment) -/
def calcPayment (owed fees pay : Int) : Int × Int :=
  if pay ≤ 0 then (0, 0) else
  let pay := if pay > owed then owed else pay
  if fees = 0 then (0, pay)
  else if pay > fees then (fees, pay - fees)
  else (pay, 0)

/-- one bank send (cdp module → `tgt depositor`) per deposit record, then the record is deleted:
    the loop shared by `ReturnCollateral` (to the depositor) and `SeizeCollateral` (to the liquidator) -/
def sendDeps (s : St) (id : Nat) (cd : Denom) (tgt : Acct → Acct) : List (Acct × Int) → Option St
  | [] => some s
  | (a, amt) :: rest =>
    match sendB s MCDP (tgt a) cd amt with
    | none => none
    | some s1 => sendDeps { s1 with dep := upd2 s1.dep id a 0 } id cd tgt rest

/-- `ReturnCollateral`: every deposit goes back to its depositor -/
def returnCollateral (s : St) (id : Nat) (cd : Denom) (deps : List (Acct × Int)) : Option St :=
  sendDeps s id cd (fun a => a) deps

/-- `RepayPrincipal` (MsgRepayDebt) -/
def repay (E : Env) (now : Int) (s : St) (owner : Acct) (ty : Nat) (pay : Int) (pd : Denom) : Res St :=
  if pay ≤ 0 then .err else
  if isActive E ty = false then .err else        -- `GetCDP`: `GetCollateral` not found ⇒ "cdp not found"
  match findCdp s owner ty with
  | none => .err
  | some (id, c0) =>
  if pd ≠ USDX then .err else
  if s.bal owner USDX < pay then .err else
  match syncInterest E now s id c0 with
  | .err => .err
  | .panic => .panic
  | .ok (s1, c1) =>
  let feePay := (calcPayment (c1.prin + c1.fees) c1.fees pay).1
  let prinPay := (calcPayment (c1.prin + c1.fees) c1.fees pay).2
  if 0 < c1.prin - prinPay ∧ c1.prin - prinPay < E.P.debtFloor then .err else
  match sendB s1 owner MCDP USDX (feePay + prinPay) with
  | none => .err
  | some s2 =>
  match burnB s2 MCDP USDX (feePay + prinPay) with
  | none => .panic
  | some s3 =>
  let cdpDebt := s3.bal MCDP DEBT
  let toBurn := if feePay + prinPay > cdpDebt then cdpDebt else feePay + prinPay
  -- `BurnDebtCoins` clamps once more with the module balance
  match burnB s3 MCDP DEBT (if toBurn < s3.bal MCDP DEBT then toBurn else s3.bal MCDP DEBT) with
  | none => .panic
  | some s4 =>
  let c2 : Cdp := { c1 with prin := c1.prin - prinPay, fees := c1.fees - feePay }
  let t := s4.tprin c1.ty - (feePay + prinPay)
  let s5 := { s4 with tprin := upd s4.tprin c1.ty (if t < 0 then 0 else t) }
  if c2.prin = 0 ∧ c2.fees = 0 then
    match returnCollateral s5 id (denomOf E c2.ty) (depositsOf E s5 id) with
    | none => .panic
    | some s6 =>
    let s7 := { s6 with own := upd s6.own c2.owner (removeOwnerId id (s6.own c2.owner)) }
    -- `DeleteCdpAndCollateralRatioIndex`: old key from the stored CDP, then delete
    match s7.cdp id with
    | none => .err
    | some old => .ok { s7 with idx := removeKey (old.ty, keyOf E old, id) s7.idx, cdp := upd s7.cdp id none }
  else
    match updateCdpIdx E s5 id c2 (keyOf E c2) with
    | none => .err
    | some s6 => .ok s6

/-! ### seizure -/

/-- `SeizeCollateral`, loop 1: each deposit is sent cdp → liquidator and its record deleted -/
def seizeDeps (s : St) (id : Nat) (cd : Denom) (deps : List (Acct × Int)) : Option St :=
  sendDeps s id cd (fun _ => MLIQ) deps

/-- `AuctionCollateral`: the debt covered by one deposit -/
@[irreducible] def debtCovered (amt total debt : Int) : Int :=
  Dec.roundInt (Dec.mul (Dec.quo (Dec.ofInt amt) (Dec.ofInt total)) (Dec.ofInt debt))

/-- `AuctionCollateral`: the share actually handed to a deposit (since bfd342e03): the rounded share, but never
    more than what is left, and the last deposit takes the remainder -/
def cappedShare (share remaining : Int) (isLast : Bool) : Int :=
  if isLast = true ∨ share > remaining then remaining else share

/-- `AuctionCollateral` + `CreateAuctionsFromDeposit` (net bank effect per deposit):
    the lot and the covered debt go liquidator → auction module; `remaining` = `remainingDebt`. -/
def auctionDeps (s : St) (cd : Denom) (total debt : Int) : Int → List (Acct × Int) → Res St
  | _, [] => .ok s
  | remaining, (_, amt) :: rest =>
    if total = 0 then .panic else           -- `Dec.Quo` by zero total collateral
    if amt = 0 then .panic else             -- `debt.Mul(auctionSize).Quo(collateral.Amount)`: Int division by zero
    match sendB s MLIQ MAUC cd amt with
    | none => .err
    | some s1 =>
      match sendB s1 MLIQ MAUC DEBT (cappedShare (debtCovered amt total debt) remaining rest.isEmpty) with
      | none => .err
      | some s2 =>
        auctionDeps s2 cd total debt (remaining - cappedShare (debtCovered amt total debt) remaining rest.isEmpty) rest

/-- `SeizeCollateral(cdp)` with the deposit records `GetDeposits` returns at that point -/
def seize (E : Env) (s : St) (id : Nat) (c : Cdp) (deps : List (Acct × Int)) : Res St :=
  let oldKey := keyOf E c
  let debt := if c.prin + c.fees < s.bal MCDP DEBT then c.prin + c.fees else s.bal MCDP DEBT
  match sendB s MCDP MLIQ DEBT debt with
  | none => .err
  | some s1 =>
  match seizeDeps s1 id (denomOf E c.ty) deps with
  | none => .err
  | some s2 =>
  match auctionDeps s2 (denomOf E c.ty) (sumDeps deps) debt debt deps with
  | .err => .err
  | .panic => .panic
  | .ok s3 =>
  let t := s3.tprin c.ty - (c.prin + c.fees)
  .ok { s3 with tprin := upd s3.tprin c.ty (if t < 0 then 0 else t),
                own := upd s3.own c.owner (removeOwnerId id (s3.own c.owner)),
                idx := removeKey (c.ty, oldKey, id) s3.idx,
                cdp := upd s3.cdp id none }

/-- `payoutKeeperLiquidationReward`: `NewDecFromInt(collateral).Mul(KeeperRewardPercentage).RoundInt()` -/
@[irreducible] def rewardOf (coll : Int) (pct : Dec) : Int := Dec.roundInt (Dec.mul (Dec.ofInt coll) pct)

/-- `payoutKeeperLiquidationReward`, the loop: first deposit that can pay the reward -/
def payReward (reward : Int) : List (Acct × Int) → Option (Acct × List (Acct × Int))
  | [] => none
  | (a, amt) :: rest =>
    if amt ≥ reward then some (a, (a, amt - reward) :: rest)
    else match payReward reward rest with
      | none => none
      | some (b, rest') => some (b, (a, amt) :: rest')

/-- `AttemptKeeperLiquidation` (MsgLiquidate) -/
def liquidate (E : Env) (now : Int) (s : St) (keeper owner : Acct) (ty : Nat) : Res St :=
  if isActive E ty = false then .err else        -- `GetCDP`: `GetCollateral` not found ⇒ "cdp not found"
  match findCdp s owner ty with
  | none => .err
  | some (id, c0) =>
  match syncInterest E now s id c0 with
  | .err => .err
  | .panic => .panic
  | .ok (s1, c1) =>
  match E.P.colls[ty]? with
  | none => .panic
  | some cp =>
  match calcCR c1.coll cp.cf c1.prin c1.fees E.P.debtCf (s1.price cp.liq) with
  | .err => .err
  | .panic => .panic
  | .ok r =>
  if r.m ≥ cp.liqRatio.m then .err else
  let reward := rewardOf c1.coll cp.keeperReward
  let deps := depositsOf E s1 id
  match payReward reward deps with
  | none => seize E s1 id c1 deps
  | some (a, deps') =>
    let s2 := { s1 with dep := upd2 s1.dep id a (s1.dep id a - reward) }
    match sendB s2 MCDP keeper cp.denom reward with
    | none => .err
    | some s3 =>
    let c2 : Cdp := { c1 with coll := c1.coll - reward }
    match updateCdpIdx E s3 id c2 (keyOf E c2) with
    | none => .err
    | some s4 => seize E s4 id c2 deps'

/-! ### begin block -/

/-- `AccumulateInterest(ctype)`; `f` = `CalculateInterestFactor(rate, elapsed)` -/
def accumulate (now : Int) (s : St) (ty : Nat) (cp : CollParam) (f : Dec) : Res St :=
  match s.accr ty with
  | none => .ok { s with accr := upd s.accr ty (some now) }
  | some prev =>
    if now - prev = 0 then .ok s else
    if s.tprin ty ≤ 0 then .ok { s with accr := upd s.accr ty (some now) } else
    match s.ifac ty with
    | none => .ok { s with ifac := upd s.ifac ty (some Dec.one), accr := upd s.accr ty (some now) }
    | some prior =>
      if cp.feeIsOne then .ok { s with accr := upd s.accr ty (some now) } else
      let acc := Dec.roundInt (Dec.mul f (Dec.ofInt (s.tprin ty))) - s.tprin ty
      if acc = 0 then .ok s else
      if acc < 0 then .panic else          -- `sdk.NewCoin` with a negative amount
      let s1 := mintB s MCDP DEBT acc
      let s2 := mintB s1 MLIQ USDX acc
      .ok { s2 with tprin := upd s2.tprin ty (s2.tprin ty + acc),
                    ifac := upd s2.ifac ty (some (Dec.mul prior f)),
                    accr := upd s2.accr ty (some now) }

/-- entries of one type with key below `K`, in store order -/
def below (idx : List Entry) (ty : Nat) (K : Int) : List Entry :=
  idx.filter (fun e => decide (e.1 = ty) && decide (e.2.1 < K))

/-- "append, then stop once `len ≥ count`": at least one element, at most `count` -/
def takeCount {α : Type} (count : Int) (l : List α) : List α :=
  l.take (if count ≤ 1 then 1 else count.toNat)

/-- interest accrued by one CDP in the bulk loop (`cdpInterestFactor := global.Quo(cdp.InterestFactor)` …) -/
def bulkInterest (g : Dec) (c : Cdp) : Int :=
  let f := Dec.quo g c.ifac
  if f ≠ Dec.one then Dec.roundInt (Dec.mul (Dec.ofInt (c.prin + c.fees)) f) - (c.prin + c.fees) else 0

/-- one iteration of the loop in `SynchronizeInterestForRiskyCDPs` -/
def syncOne (E : Env) (s : St) (ty : Nat) (cp : CollParam) (g : Dec) (prev : Int) (id : Nat) : Res St :=
  match s.cdp id with
  | none => .panic
  | some c =>
    if c.ty ≠ ty then .panic else
    if c.ifac.m = 0 then .panic else
    let acc := bulkInterest g c
    if acc = 0 ∧ c.updated = prev then .ok s else
    -- (when acc = 0 the CDP is first stored with the new FeesUpdated; the write below supersedes it)
    let c0 : Cdp := { c with updated := (if acc = 0 then prev else c.updated) }
    let previousKey := keyBulk E cp c0
    let c1 : Cdp := { c0 with fees := c0.fees + acc, updated := prev, ifac := g }
    let updatedKey := keyBulk E cp c1
    .ok { s with idx := insertKey (ty, updatedKey, id) (removeKey (ty, previousKey, id) s.idx),
                 cdp := upd s.cdp id (some c1) }

def syncLoop (E : Env) (s : St) (ty : Nat) (cp : CollParam) (g : Dec) (prev : Int) : List Nat → Res St
  | [] => .ok s
  | id :: rest =>
    match syncOne E s ty cp g prev id with
    | .ok s1 => syncLoop E s1 ty cp g prev rest
    | .err => .err
    | .panic => .panic

/-- ids collected by the first loop of `SynchronizeInterestForRiskyCDPs(ctx, sdk.MaxSortableDec, cp)` -/
def riskyIds (s : St) (ty : Nat) (cp : CollParam) : List Nat :=
  (takeCount cp.checkCount (below s.idx ty maxSortable.m)).map (fun e => e.2.2)

/-- `SynchronizeInterestForRiskyCDPs(ctx, sdk.MaxSortableDec, cp)` -/
def syncRisky (E : Env) (s : St) (ty : Nat) (cp : CollParam) : Res St :=
  -- `if !found && len(cdpIDs) > 0 { panic }`
  if (s.ifac ty).isNone ∧ ¬ (riskyIds s ty cp).isEmpty then .panic else
  match s.accr ty with
  | none => .panic
  | some prev => syncLoop E s ty cp ((s.ifac ty).getD Dec.zero) prev (riskyIds s ty cp)

/-- `LiquidateCdps` (since b28e8ed21): a selected CDP is skipped when its value ratio at the liquidation price,
    `quo(mul(collateral base units, price), debt base units)`, is `≥ L` (zero debt: never skipped) -/
def blockSkips (E : Env) (c : Cdp) (price L : Dec) : Bool :=
  let debt := baseUnits (c.prin + c.fees) E.P.debtCf
  if debt.m = 0 then false
  else decide ((Dec.quo (Dec.mul (baseUnits c.coll (cfOf E c.ty)) price) debt).m ≥ L.m)

def seizeLoop (E : Env) (price L : Dec) (s : St) : List (Nat × Cdp) → Res St
  | [] => .ok s
  | (id, c) :: rest =>
    if blockSkips E c price L = true then seizeLoop E price L s rest else
    match seize E s id c (depositsOf E s id) with
    | .ok s1 => seizeLoop E price L s1 rest
    | .err => .err
    | .panic => .panic

/-- `GetSliceOfCDPsByRatioAndType`: the CDP objects are fetched before any seizure; `none` = panic -/
def fetchCdps (s : St) : List Entry → Option (List (Nat × Cdp))
  | [] => some []
  | e :: rest =>
    match s.cdp e.2.2 with
    | none => none
    | some c => match fetchCdps s rest with
      | none => none
      | some l => some ((e.2.2, c) :: l)

/-- `LiquidateCdps` once the liquidation price is known -/
def liquidateBlock (E : Env) (s : St) (ty : Nat) (cp : CollParam) (price : Dec) : Res St :=
  match fetchCdps s (takeCount cp.checkCount (below s.idx ty (sortKey (normRatio price cp.liqRatio)))) with
  | none => .panic
  | some cdps => seizeLoop E price cp.liqRatio s cdps

/-- body of the `for _, cp := range params.CollateralParams` loop in `BeginBlocker` -/
def bbType (E : Env) (now : Int) (skip : Bool) (s : St) (ty : Nat) (cp : CollParam) (f : Dec) : Res St :=
  match s.price cp.spot with
  | none => .ok { s with status := upd s.status cp.spot false }
  | some _ =>
  let s1 := { s with status := upd s.status cp.spot true }
  match s1.price cp.liq with
  | none => .ok { s1 with status := upd s1.status cp.liq false }
  | some pl =>
  let s2 := { s1 with status := upd s1.status cp.liq true }
  match accumulate now s2 ty cp f with
  | .err => .panic
  | .panic => .panic
  | .ok s3 =>
  if skip then .ok s3 else
  match syncRisky E s3 ty cp with
  | .err => .panic
  | .panic => .panic
  | .ok s4 =>
  match liquidateBlock E s4 ty cp pl with
  | .err => .panic                          -- only `ErrNoValidPrice` is tolerated, and the price exists here
  | .panic => .panic
  | .ok s5 => .ok s5

def bbTypes (E : Env) (now : Int) (skip : Bool) (s : St) : List (Nat × CollParam × Dec) → Res St
  | [] => .ok s
  | (ty, cp, f) :: rest =>
    match bbType E now skip s ty cp f with
    | .ok s1 => bbTypes E now skip s1 rest
    | .err => .err
    | .panic => .panic

/-- `sdk.MinInt` -/
def minI (a b : Int) : Int := if a < b then a else b

/-- `NetSurplusAndDebt`: burn min(surplus, debt) debt coins and min(balance, that) usdx of the liquidator -/
def netSurplusAndDebt (s : St) : Option St :=
  let surplus := s.bal MLIQ USDX
  let debt := s.bal MLIQ DEBT
  let net := minI surplus debt
  if net = 0 then some s else
  match burnB s MLIQ DEBT net with
  | none => none
  | some s1 => burnB s1 MLIQ USDX (minI (s1.bal MLIQ USDX) net)

/-- `StartDebtAuction` when the remaining debt reaches the threshold (net bank effect) -/
def startDebtAuction (E : Env) (s : St) : Option St :=
  if s.bal MLIQ DEBT ≥ E.P.debtThreshold then sendB s MLIQ MAUC DEBT E.P.debtLot else some s

/-- `StartSurplusAuction` when the surplus reaches the threshold (net bank effect) -/
def startSurplusAuction (E : Env) (s : St) : Option St :=
  if ¬ (s.bal MLIQ USDX ≥ E.P.surplusThreshold) then some s else
  sendB s MLIQ MAUC USDX (if E.P.surplusLot < s.bal MLIQ USDX then E.P.surplusLot else s.bal MLIQ USDX)

/-- `RunSurplusAndDebtAuctions` (`NetSurplusAndDebt`, then debt / surplus auction starts) -/
def runAuctions (E : Env) (s : St) : Res St :=
  match netSurplusAndDebt s with
  | none => .err
  | some s2 =>
  match startDebtAuction E s2 with
  | none => .err
  | some s3 =>
  match startSurplusAuction E s3 with
  | none => .err
  | some s4 => .ok s4

def zipFrom (i : Nat) : List CollParam → List Dec → List (Nat × CollParam × Dec)
  | [], _ => []
  | cp :: cps, facs => (i, cp, facs.headD Dec.one) :: zipFrom (i + 1) cps facs.tail

def zipTypes (cps : List CollParam) (facs : List Dec) : List (Nat × CollParam × Dec) := zipFrom 0 cps facs

/-- `for _, cp := range params.CollateralParams`: the listed types in the order of the parameter list, each with
    the value `CalculateInterestFactor` returns for it in this block (`facs` is indexed by type position) -/
def blockTypes (E : Env) (facs : List Dec) : List (Nat × CollParam × Dec) :=
  E.P.order.filterMap (fun ty =>
    match E.P.colls[ty]? with
    | some cp => if cp.active = true then some (ty, cp, facs.getD ty Dec.one) else none
    | none => none)

/-- `cdp.BeginBlocker`; `skip` = `BlockHeight % LiquidationBlockInterval ≠ 0`;
    `facs` = the value `CalculateInterestFactor` returns for each type in this block.
    Types that are not listed (removed by governance) are not visited: no accrual, no status update, no liquidation. -/
def beginBlock (E : Env) (now : Int) (skip : Bool) (facs : List Dec) (s : St) : Res St :=
  match bbTypes E now skip s (blockTypes E facs) with
  | .err => .panic
  | .panic => .panic
  | .ok s1 =>
    match runAuctions E s1 with
    | .err => .panic
    | .panic => .panic
    | .ok s2 => .ok s2

/-! ### histories -/

inductive Op where
  | create (now : Int) (owner : Acct) (ty : Nat) (c : Int) (cd : Denom) (p : Int) (pd : Denom)
  | deposit (now : Int) (owner depositor : Acct) (ty : Nat) (c : Int) (cd : Denom)
  | withdraw (now : Int) (owner depositor : Acct) (ty : Nat) (c : Int) (cd : Denom)
  | draw (now : Int) (owner : Acct) (ty : Nat) (p : Int) (pd : Denom)
  | repay (now : Int) (owner : Acct) (ty : Nat) (pay : Int) (pd : Denom)
  | liquidate (now : Int) (keeper owner : Acct) (ty : Nat)
  | beginBlock (now : Int) (skip : Bool) (facs : List Dec)
  | setPrice (market : Nat) (p : Option Dec)       -- x/pricefeed (end blocker of the previous block)

def step (E : Env) (s : St) : Op → Res St
  | .create now o ty c cd p pd => create E now s o ty c cd p pd
  | .deposit now o d ty c cd => deposit E now s o d ty c cd
  | .withdraw now o d ty c cd => withdraw E now s o d ty c cd
  | .draw now o ty p pd => draw E now s o ty p pd
  | .repay now o ty pay pd => repay E now s o ty pay pd
  | .liquidate now k o ty => liquidate E now s k o ty
  | .beginBlock now skip facs => beginBlock E now skip facs s
  | .setPrice m p => .ok { s with price := upd s.price m p }

/-- keeper ∘ baseapp: a failed message (error or recovered panic) leaves the state unchanged -/
def apply (E : Env) (s : St) (op : Op) : St :=
  match step E s op with
  | .ok s' => s'
  | _ => s

def run (E : Env) (s : St) : List Op → St
  | [] => s
  | op :: rest => run E (apply E s op) rest

end KV.Cdp
