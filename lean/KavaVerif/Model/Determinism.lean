/-
  C01 — deterministic replication: the enumerable sources of nondeterminism.

  Go randomises the iteration order of every `range` over a map. A map-range loop is therefore modelled as
  a function of a *list* of (key, value) pairs given in an arbitrary order (any permutation of the map's
  entries); the loop is harmless exactly when the function is invariant under permutation of that list.

  This file holds
    * the hand-written expectation table for the generated table `KV.Gen.C01.mapRanges`
      (keyed by file / function / index within the function — not by line number), and
    * transcriptions of the loop bodies of the order-sensitive sites.
  Core Lean only (linked into the driver).
-/
import KavaVerif.Generated.C01MapRanges
import KavaVerif.Generated.C01Sources

namespace KV.Det
open KV.Gen.C01

/-- how a map-range site is made harmless -/
inductive Cls
  | sortedBeforeUse                 -- keys collected, sorted, only then used
  | commutativeFold                 -- the body is a right-commutative fold (sum, ∧, ∨)
  | lookupOnly                      -- builds a lookup table at start-up; one write per key
  | cliOrQueryOnly                  -- gRPC query / API wiring / test helper: never runs in a block
  | genesisValidationErrorTextOnly  -- accept/reject is order independent, only the error text is not
deriving DecidableEq, Repr

/-- which loop-body shapes (computed syntactically by tools/extract/c01.go) a class admits;
    `cliOrQueryOnly` admits every shape -/
def Cls.admits : Cls → String → Bool
  | .sortedBeforeUse, s => s == "collectSorted" || s == "coinsAddSorted"
  | .commutativeFold, s => s == "sumFold" || s == "addFold" || s == "setFlagBreak" || s == "earlyReturnConst"
  | .lookupOnly, s => s == "mapBuild"
  | .cliOrQueryOnly, _ => true
  | .genesisValidationErrorTextOnly, s => s == "earlyReturnErr"

structure Expect where
  file : String
  fn : String
  idx : Nat
  cls : Cls
  /-- the semantic lemma (Props/C01.lean) that discharges the site, "" when the class needs none -/
  lemma : String
deriving Repr

/-- The reviewed map-range sites. A site that is not listed here, or whose body no longer has a shape its
    class admits (a removed sort, an added side effect), makes `C01_all_sites_discharged` fail. -/
def expected : List Expect := [
  ⟨"app/app.go", "App.ModuleAccountAddrs", 0, .lookupOnly, ""⟩,
  ⟨"app/app.go", "RegisterAPIRouteRewrites", 0, .cliOrQueryOnly, ""⟩,
  ⟨"app/app.go", "App.loadBlockedMaccAddrs", 0, .lookupOnly, ""⟩,
  ⟨"app/app.go", "GetMaccPerms", 0, .lookupOnly, ""⟩,
  ⟨"app/tally_handler.go", "TallyHandler.Tally", 0, .commutativeFold, "C01_site_tally_validators_perm_invariant"⟩,
  ⟨"app/tally_handler.go", "bkavaByDenom.toCoins", 0, .sortedBeforeUse, "C01_site_toCoins_perm_invariant"⟩,
  ⟨"app/test_common.go", "TestApp.InitializeFromGenesisStatesWithTimeAndChainIDAndHeight", 0, .cliOrQueryOnly, ""⟩,
  ⟨"x/cdp/keeper/grpc_query.go", "QueryServer.TotalCollateral", 0, .cliOrQueryOnly, ""⟩,
  ⟨"x/cdp/keeper/grpc_query.go", "QueryServer.TotalCollateral", 1, .cliOrQueryOnly, ""⟩,
  ⟨"x/committee/types/permissions.go", "validateParamChangesAreAllowed", 0, .commutativeFold, "C01_site_param_keys_known_perm_invariant"⟩,
  ⟨"x/committee/types/permissions.go", "validateParamChangesAreAllowed", 1, .commutativeFold, "C01_site_param_changes_allowed_perm_invariant"⟩,
  ⟨"x/earn/keeper/grpc_query.go", "queryServer.Vaults", 0, .cliOrQueryOnly, ""⟩,
  ⟨"x/earn/keeper/invariants.go", "VaultSharesInvariant", 0, .commutativeFold, "C01_site_shares_invariant_perm_invariant"⟩,
  ⟨"x/hard/keeper/grpc_query.go", "queryServer.InterestFactors", 0, .cliOrQueryOnly, ""⟩,
  ⟨"x/hard/keeper/liquidation.go", "removeDuplicates", 0, .sortedBeforeUse, "C01_site_sorted_keys_perm_invariant"⟩,
  ⟨"x/hard/types/liquidation.go", "ValuationMap.Sum", 0, .commutativeFold, "C01_site_valuation_sum_perm_invariant"⟩,
  ⟨"x/hard/types/liquidation.go", "ValuationMap.GetSortedKeys", 0, .sortedBeforeUse, "C01_site_sorted_keys_perm_invariant"⟩,
  ⟨"x/incentive/keeper/rewards_earn.go", "Keeper.accumulateEarnBkavaRewards", 0, .sortedBeforeUse, "C01_site_sorted_keys_perm_invariant"⟩,
  ⟨"x/incentive/types/multipliers.go", "NewSelectionsFromMap", 0, .sortedBeforeUse, "C01_site_selections_perm_invariant"⟩,
  ⟨"x/swap/keeper/invariants.go", "PoolSharesInvariant", 0, .commutativeFold, "C01_site_shares_invariant_perm_invariant"⟩,
  ⟨"x/swap/types/genesis.go", "GenesisState.Validate", 0, .genesisValidationErrorTextOnly, "C01_site_swap_genesis_accept_perm_invariant"⟩
]

def lookup (file fn : String) (idx : Nat) : Option Expect :=
  expected.find? (fun e => e.file == file && e.fn == fn && e.idx == idx)

/-- a generated site is discharged when it is in the reviewed table and its body still has a shape the
    reviewed class admits -/
def dischargedSite (s : MapRange) : Bool :=
  match lookup s.file s.fn s.idx with
  | some e => e.cls.admits s.shape
  | none => false

/-- number of generated sites per (file, function): used by the driver to cross-check the translator's
    table against the type-checked listing produced by the harness -/
def sitesIn (file fn : String) : Nat :=
  (mapRanges.filter (fun s => s.file == file && s.fn == fn)).length

/-! ### the other sources (tables in Generated/C01Sources.lean) -/

/-- files allowed to use randomness: a test helper and the client-side secret generator of bep3 -/
def randAllowed : List (String × String) := [
  ("app/test_common.go", "<import>"),
  ("app/test_common.go", "GeneratePrivKeyAddressPairs"),
  ("app/test_common.go", "RandomAddress"),
  ("x/bep3/types/hash.go", "<import>"),
  ("x/bep3/types/hash.go", "GenerateSecureRandomNumber")
]

/-- keeper fields that are neither store keys, codecs, keepers, subspaces, hooks nor routers.
    All are written once in the constructor (checked: `pkgVarWrites` is empty and no method assigns them). -/
def keeperFieldAllowed : List (String × String) := [
  ("x/bep3/keeper/keeper.go", "Maccs"),
  ("x/cdp/keeper/keeper.go", "maccPerms"),
  ("x/community/keeper/keeper.go", "moduleAddress"),
  ("x/community/keeper/keeper.go", "authority"),
  ("x/community/keeper/keeper.go", "legacyCommunityPoolAddress"),
  ("x/kavadist/keeper/keeper.go", "blacklistedAddrs"),
  ("x/liquid/keeper/keeper.go", "derivativeDenom")
]

/-- the known sticky `broken` variables of invariant constructors (invariant routes only; a route that
    reports broken halts the node anyway — reported in evidence, not a violation) -/
def stickyAllowed : List (String × String × String) := [
  ("x/earn/keeper/invariants.go", "VaultRecordsInvariant", "broken"),
  ("x/earn/keeper/invariants.go", "ShareRecordsInvariant", "broken"),
  ("x/earn/keeper/invariants.go", "VaultSharesInvariant", "broken"),
  ("x/evmutil/keeper/invariants.go", "BackedCoinsInvariant", "broken"),
  ("x/evmutil/keeper/invariants.go", "CosmosCoinsFullyBackedInvariant", "broken"),
  ("x/savings/keeper/invariants.go", "DepositsInvariant", "broken"),
  ("x/swap/keeper/invariants.go", "PoolRecordsInvariant", "broken"),
  ("x/swap/keeper/invariants.go", "ShareRecordsInvariant", "broken"),
  ("x/swap/keeper/invariants.go", "PoolSharesInvariant", "broken")
]

/-- reviewed `sort.*` call sites: (file, function, how ties are handled) -/
def sortReviewed : List (String × String × String) := [
  ("x/auction/keeper/math.go", "splitIntIntoWeightedBuckets", "ties between equal remainders: result depends on sort.Slice being a function of its input (trusted base); C06 proved for every tie-break"),
  ("x/cdp/keeper/cdp.go", "Keeper.IndexCdpByOwner", "cdp ids are unique: strict order"),
  ("x/cdp/keeper/grpc_query.go", "QueryServer.TotalCollateral", "query only"),
  ("x/earn/types/share.go", "VaultShares.Sort", "denoms unique after validation: strict order"),
  ("x/hard/keeper/liquidation.go", "removeDuplicates", "strings, duplicates removed: strict order"),
  ("x/hard/types/liquidation.go", "ValuationMap.GetSortedKeys", "map keys: strict order"),
  ("x/incentive/keeper/rewards_earn.go", "Keeper.accumulateEarnBkavaRewards", "map keys: strict order"),
  ("x/incentive/types/multipliers.go", "NewSelectionsFromMap", "map keys: strict order on (denom, name)"),
  ("x/pricefeed/keeper/keeper.go", "Keeper.CalculateMedianPrice", "ties are equal prices: the median value is the same for every tie-break (C18)")
]

def sortSiteReviewed (file fn : String) : Bool := sortReviewed.any (fun r => r.1 == file && r.2.1 == fn)

/-! ### transcriptions of the order-sensitive loop bodies

  Entries arrive in an arbitrary order `l` (a permutation of the map's entries). -/

/-- `ValuationMap.Sum`: `sum = sum.Add(v)`; `sdk.Dec.Add` is exact integer addition of mantissas -/
def valuationSum (l : List (String × Int)) : Int := l.foldl (fun acc kv => acc + kv.2) 0

/-- one bonded validator as the second loop of `TallyHandler.Tally` sees it: whether it voted, and its
    contribution `votingPower.Mul(weight)` to each of the four options plus its `votingPower` — all of them
    functions of the validator's own entry only -/
structure ValEntry where
  voted : Bool
  yes : Int
  abstain : Int
  no : Int
  veto : Int
  power : Int
deriving DecidableEq, Repr

structure Tally where
  yes : Int
  abstain : Int
  no : Int
  veto : Int
  total : Int
deriving DecidableEq, Repr

/-- body of `for _, val := range currValidators` (tally_handler.go): skip non-voters, add to the four
    results and to the total voting power -/
def tallyStep (t : Tally) (kv : String × ValEntry) : Tally :=
  if !kv.2.voted then t
  else { yes := t.yes + kv.2.yes, abstain := t.abstain + kv.2.abstain, no := t.no + kv.2.no,
         veto := t.veto + kv.2.veto, total := t.total + kv.2.power }

def tallyValidators (t0 : Tally) (l : List (String × ValEntry)) : Tally := l.foldl tallyStep t0

/-- `validateParamChangesAreAllowed`, first loop (added by the fix "committee param permission must refuse
    attributes the current value does not have"): `for k := range incoming { if _, ok := current[k]; !ok { return false } }` -/
def keysAllKnown (inCurrent : String → Bool) : List (String × String) → Bool
  | [] => true
  | (k, _) :: rest => if !inCurrent k then false else keysAllKnown inCurrent rest

/-- `validateParamChangesAreAllowed`, second loop: `for k, v := range current { if !allowed k && v ≠ incoming[k] { return false } }; return true` -/
def paramChangesAllowed (allowed : String → Bool) (incoming : String → Option String) : List (String × String) → Bool
  | [] => true
  | (k, v) :: rest => if !allowed k && incoming k != some v then false else paramChangesAllowed allowed incoming rest

/-- swap `PoolSharesInvariant` / earn `VaultSharesInvariant`: `for _, ps := range totalShares { if ps.total ≠ ps.owned { broken = true; break } }`
    (`broken0` is the sticky captured variable) -/
def sharesBroken (broken0 : Bool) : List (String × Int × Int) → Bool
  | [] => broken0
  | (_, tot, owned) :: rest => if tot != owned then true else sharesBroken broken0 rest

/-- swap `GenesisState.Validate`: first mismatching pool returns an error that names the pool -/
def swapGenesisCheck : List (String × Int × Int) → Option String
  | [] => none
  | (id, tot, owned) :: rest => if tot != owned then some id else swapGenesisCheck rest

/-- string order used by `sort.Strings` -/
def sle (a b : String) : Bool := decide (a ≤ b)

/-- `GetSortedKeys`, `removeDuplicates`, `accumulateEarnBkavaRewards`: collect the keys, `sort.Strings` -/
def sortedKeys (l : List (String × α)) : List String := (l.map (·.1)).mergeSort sle

/-- `NewSelectionsFromMap`: comparator on (denom, multiplier name) -/
def selLe (a b : String × String) : Bool :=
  if a.1 = b.1 then decide (a.2 ≤ b.2) else decide (a.1 < b.1)

def selections (l : List (String × String)) : List (String × String) := l.mergeSort selLe

/-- `bkavaByDenom.toCoins`: `coins = coins.Add(NewCoin(denom, amt))` for every entry, then `coins.Sort()`.
    `add` is `sdk.Coins.Add` restricted to a denom not yet present (map keys are distinct). -/
def coinLe (a b : String × Int) : Bool := decide (a.1 ≤ b.1)

def toCoins (add : List (String × Int) → String × Int → List (String × Int)) (l : List (String × Int)) :
    List (String × Int) :=
  (l.foldl add []).mergeSort coinLe

end KV.Det
