import Driver.Loop
import Driver.Num
import Driver.C03
/-- driver executable of property C03 -/
def main : IO UInt32 := Drv.runMain (Drv.Num.handlers ++ Drv.C03.handlers)
