import Driver.Util
import Driver.Num
import Driver.C01
import Driver.C02
import Driver.C03
import Driver.C04
import Driver.C05
import Driver.C06
import Driver.C07
import Driver.C08
import Driver.C09
import Driver.C10
import Driver.C11
import Driver.C12
import Driver.C13
import Driver.C14
import Driver.C15
import Driver.C16
import Driver.C17
import Driver.C18
import Driver.C19
import Driver.C20
open Drv

def allHandlers : List (String × Handler) :=
  Drv.Num.handlers ++ C01.handlers ++ C02.handlers ++ C03.handlers ++ C04.handlers ++
  C05.handlers ++ C06.handlers ++ C07.handlers ++ C08.handlers ++ C09.handlers ++
  C10.handlers ++ C11.handlers ++ C12.handlers ++ C13.handlers ++ C14.handlers ++
  C15.handlers ++ C16.handlers ++ C17.handlers ++ C18.handlers ++ C19.handlers ++
  C20.handlers

def dispatch (line : String) : String :=
  match line.splitOn "\t" with
  | [] => badInput "empty"
  | cmd :: fields =>
    match allHandlers.lookup cmd with
    | some h => h fields
    | none => badInput s!"unknown-cmd {cmd}"

structure Tot where
  n : Nat := 0
  ok : Nat := 0
  mism : Nat := 0
  pred : Nat := 0
  bad : Nat := 0

partial def loop (h : IO.FS.Stream) (out : IO.FS.Stream) (t : Tot) : IO Tot := do
  let line ← h.getLine
  if line.isEmpty then return t
  let l := (line.dropEndWhile (fun c => c == '\n' || c == '\r')).toString
  if l.isEmpty || l.startsWith "#" then loop h out t
  else
    let r := dispatch l
    let n := t.n + 1
    if r == "ok" then loop h out { t with n := n, ok := t.ok + 1 }
    else
      out.putStrLn s!"{n}\t{r}\t{l}"
      if r.startsWith "MISMATCH" then loop h out { t with n := n, mism := t.mism + 1 }
      else if r.startsWith "PREDFAIL" then loop h out { t with n := n, pred := t.pred + 1 }
      else loop h out { t with n := n, bad := t.bad + 1 }

def main : IO UInt32 := do
  let stdin ← IO.getStdin
  let stdout ← IO.getStdout
  let t ← loop stdin stdout {}
  stdout.putStrLn s!"DONE total={t.n} ok={t.ok} mismatch={t.mism} predfail={t.pred} bad={t.bad}"
  return (if t.mism + t.pred + t.bad == 0 then 0 else 3)
