import Driver.Loop
import Driver.Num
import Driver.C09
/-- driver executable of property C09 -/
def main : IO UInt32 := Drv.runMain (Drv.Num.handlers ++ Drv.C09.handlers)
