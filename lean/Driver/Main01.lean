import Driver.Loop
import Driver.Num
import Driver.C01
/-- driver executable of property C01 -/
def main : IO UInt32 := Drv.runMain (Drv.Num.handlers ++ Drv.C01.handlers)
