import Driver.Util
import KavaVerif.Model.Permissions
import KavaVerif.Model.Committee
import KavaVerif.Generated.C17Router
/-!
  C17 driver.

  Document encoding (no TAB/newline; strings stay hex-encoded — the model only compares them):
    n | t | f | d<hex>. (number, canonical float64 text) | s<hex>. | [v…] | {<keyhex>.v …}
    `!` = not valid JSON for encoding/json, `-` = subspace not found, `e` = empty raw value.

  c17.apc  apc changeSubHex changeKeyHex top schema cur inc => verdict handler after
      apc    = subHex/keyHex/single,…/k:v:a,…|k:v:a,…        (hex everywhere)
      top    = S (struct parameter) | M (array parameter) | O (other)
      schema = field:omit,field:omit,…   (JSON names of the element struct, omit ∈ 0|1; hex names)
      verdict ∈ yes|no|panic (real allowsParamChange); handler ∈ ok|err|panic|skip; after = raw value
      after the real params handler ran on the accepted document (`-` otherwise)
  c17.has  perms changesOrKind store => verdict
  c17.life committees proposals votes nextId ext op => class proposals' votes' nextId' ext' events cast [turns replay]
      cast = the votes the harness itself cast last (pid:voter:type;…), kept outside the store, at pre-state time
      ext  = height;cdp params;upgrade plan;tally balances;tally supply[;shared k=v,…]  (shared: community pool, lend
             deposit and bank balance of the community module account per denom, the two numeric DebtParam fields)
      turns (begin only) = pid@outcome@perm@dry@ext|…  — the harness's own replay of the block: for every closed
             proposal, in closing order, the external state AT ITS TURN (after the harness applied the contents of the
             proposals closed as Passed before it), the real HasPermissionsFor on that state (y|n|p|-) and whether the
             content's handler runs on it (ok|err); replay = same | diff:<ext> (end state of the replay vs the block's)
-/
namespace Drv.C17
open KV KV.Perm KV.Com

/-! ### parsing -/

def isHex (c : Char) : Bool := c.isDigit || ('a' ≤ c && c ≤ 'f')

def takeHex : List Char → List Char → (String × List Char)
  | acc, c :: cs => if isHex c then takeHex (c :: acc) cs else (String.ofList acc.reverse, c :: cs)
  | acc, [] => (String.ofList acc.reverse, [])

mutual
partial def parseVal : List Char → Option (Json × List Char)
  | 'n' :: r => some (.null, r)
  | 't' :: r => some (.bool true, r)
  | 'f' :: r => some (.bool false, r)
  | 'd' :: r => match takeHex [] r with
    | (h, '.' :: r') => some (.num h, r')
    | _ => none
  | 's' :: r => match takeHex [] r with
    | (h, '.' :: r') => some (.str h, r')
    | _ => none
  | '[' :: r => match parseArr r [] with
    | some (xs, r') => some (.arr xs, r')
    | none => none
  | '{' :: r => match parseObj r [] with
    | some (kvs, r') => some (.obj kvs, r')
    | none => none
  | _ => none
partial def parseArr : List Char → List Json → Option (List Json × List Char)
  | ']' :: r, acc => some (acc.reverse, r)
  | cs, acc => match parseVal cs with
    | some (v, r) => parseArr r (v :: acc)
    | none => none
partial def parseObj : List Char → List (String × Json) → Option (List (String × Json) × List Char)
  | '}' :: r, acc => some (acc.reverse, r)
  | cs, acc => match takeHex [] cs with
    | (k, '.' :: r) => match parseVal r with
      | some (v, r') => parseObj r' ((k, v) :: acc)
      | none => none
    | _ => none
end

def parseDoc (s : String) : Option Json :=
  match parseVal s.toList with
  | some (v, []) => some v
  | _ => none

/-- incoming value: `!` = invalid JSON -/
def parseInc (s : String) : Option (Option Json) :=
  if s == "!" then some none else (parseDoc s).map some

/-- current raw value: `-` no subspace, `e` empty -/
def parseCur (s : String) : Option (Option (Option Json)) :=
  if s == "-" then some none
  else if s == "e" then some (some none)
  else (parseDoc s).map (fun j => some (some j))

def lst (s : String) (sep : String) : List String := if s == "" then [] else s.splitOn sep

def parseReq (s : String) : Option Req :=
  match s.splitOn ":" with
  | [k, v, a] => some { key := k, val := v, allowed := lst a "," }
  | _ => none

def parseApc (s : String) : Option APC :=
  match s.splitOn "/" with
  | [sub, key, single, multi] =>
    match (lst multi "|").mapM parseReq with
    | some reqs => some { subspace := sub, key := key, single := lst single ",", multi := reqs }
    | none => none
  | _ => none

def parseSchema (s : String) : List (String × Bool) :=
  (lst s ",").filterMap fun f => match f.splitOn ":" with
    | [n, o] => some (n, o == "1")
    | _ => none

/-! ### printing (for mismatch messages) -/

mutual
partial def showJ : Json → String
  | .null => "n" | .bool true => "t" | .bool false => "f"
  | .num r => s!"d{r}." | .str s => s!"s{s}."
  | .arr xs => "[" ++ String.join (xs.map showJ) ++ "]"
  | .obj kvs => "{" ++ String.join (kvs.map fun kv => kv.1 ++ "." ++ showJ kv.2) ++ "}"
end

def showV : Verdict → String
  | .yes => "yes" | .no => "no" | .panic => "panic"

/-! ### the property predicate on the implementation's own before/after documents -/

def lookupD (o : Obj) (k : String) : Option Json := o.lookup k

def sameField (a b : Option Json) : Bool :=
  match a, b with
  | none, none => true
  | some x, some y => Json.beq x y
  | _, _ => false

/-- first unlisted key whose value differs between the stored record before and after -/
def firstChanged (before after : Obj) (allow : List String) : Option String :=
  ((keys before ++ keys after).filter (fun k => !allow.contains k)).find?
    (fun k => !sameField (lookupD before k) (lookupD after k))

def tagFor (before : Obj) (k : String) : String :=
  if (lookupD before k).isNone then "omitted-field-set" else "protected-field-changed"

/-- single struct parameter -/
def predSingle (before after : Obj) (allow : List String) : String :=
  match firstChanged before after allow with
  | none => "ok"
  | some k => predfail "C17_only_allowed_fields" s!"{tagFor before k} key={k}"

def compatible (c a : Obj) (r : Req) : Bool :=
  matchesReq a r && (firstChanged c a r.allowed).isNone

/-- array parameter: same number of records; every stored record has a compatible record afterwards
    (same requirement value, unlisted fields equal); every record afterwards is compatible with a stored one -/
def predMulti (reqs : List Req) (before after : List Obj) : String :=
  if before.length != after.length then predfail "C17_only_allowed_fields" "record-count-changed"
  else
    let reqOf := fun (c : Obj) => reqs.find? (matchesReq c)
    match before.find? (fun c => match reqOf c with
        | none => true
        | some r => !(after.any (fun a => compatible c a r))) with
    | some c =>
      match reqOf c with
      | none => predfail "C17_only_allowed_fields" "record-without-requirement-accepted"
      | some r =>
        match after.find? (fun a => matchesReq a r) with
        | none => predfail "C17_only_allowed_fields" "record-removed"
        | some a =>
          match firstChanged c a r.allowed with
          | some k => predfail "C17_only_allowed_fields" s!"{tagFor c k} key={k}"
          | none => predfail "C17_only_allowed_fields" "record-mismatch"
    | none =>
      if after.all (fun a => before.any (fun c => match reqOf c with
          | none => false
          | some r => compatible c a r)) then "ok"
      else predfail "C17_only_allowed_fields" "record-replaced"

/-! ### c17.apc -/

def asObjs (j : Json) : Option (List Obj) := asMaps j

def schemaOf (l : List (String × Bool)) : Schema :=
  { fields := l.map (·.1), omitEmpty := fun k => (l.lookup k).getD false }

/-- model's "this field reads back unchanged" claims, checked against the implementation's after-record -/
def applierCheck (sch : Schema) (base : String → Json) (cur inc after : Obj) : String :=
  match sch.fields.find? (fun k =>
      Json.beq (applyRec sch base inc k) (recOf cur k) && !Json.beq (recOf after k) (recOf cur k)) with
  | none => "ok"
  | some k => mismatch "applier-field" s!"unchanged:{k}" s!"changed:{showJ (recOf after k)}"

def handleApc : Handler
  | [apcS, csub, ckey, top, schemaS, curS, incS, _, verdict, handler, afterS] =>
    match parseApc apcS, parseCur curS, parseInc incS with
    | some apc, some cur, some inc =>
      let st : Store := fun _ _ => cur
      let c : Change := { subspace := csub, key := ckey, value := inc }
      let mv := allowsParamChange apc st c
      let cmpVerdict := if showV mv != verdict then mismatch "verdict" (showV mv) verdict else "ok"
      if verdict != "yes" || handler != "ok" then cmpVerdict
      else if apc.single.isEmpty && apc.multi.isEmpty then cmpVerdict   -- no sub-rules: everything allowed
      else
        let sch := schemaOf (parseSchema schemaS)
        match cur, inc, parseDoc afterS with
        | some (some curJ), some incJ, some afterJ =>
          if top == "M" then
            match asMaps curJ, asMaps incJ, asMaps afterJ with
            | some cb, some ib, some ab =>
              -- (2) the property predicate on the implementation's own before/after, first
              let pr := predMulti apc.multi cb ab
              if pr != "ok" then pr else
              if cmpVerdict != "ok" then cmpVerdict else
              -- (1) applier model: record by record, in incoming order
              if ib.length != ab.length then mismatch "applier-records" (toString ib.length) (toString ab.length)
              else
                match assign apc.multi ib [] cb with
                | some idxs => allOk ((cb.zip idxs).map fun (c, j) =>
                    match ib[j]?, ab[j]? with
                    | some i, some a => applierCheck sch zeroRec c i a
                    | _, _ => "ok")
                | none => "ok"
            | _, _, _ => if cmpVerdict != "ok" then cmpVerdict else badInput "multi-docs"
          else
            match asMap curJ, asMap incJ, asMap afterJ with
            | some cb, some ib, some ab =>
              let pr := predSingle cb ab apc.single
              if pr != "ok" then pr else
              if cmpVerdict != "ok" then cmpVerdict else
              applierCheck sch (recOf cb) cb ib ab
            | _, _, _ => if cmpVerdict != "ok" then cmpVerdict else badInput "single-docs"
        | _, _, _ => if cmpVerdict != "ok" then cmpVerdict else badInput "docs"
    | _, _, _ => badInput "parse"
  | _ => badInput "arity"

/-! ### c17.has : Committee.HasPermissionsFor -/

def parsePerm (s : String) : Option Permission :=
  match s.toList with
  | ['G'] => some .god
  | ['T'] => some .text
  | ['U'] => some .softwareUpgrade
  | ['R'] => some .cdpRepayDebt
  | ['L'] => some .lendWithdraw
  | ['W'] => some .cdpWithdrawCollateral
  | 'P' :: rest =>
    match (lst (String.ofList rest) "&").mapM parseApc with
    | some apcs => some (.paramsChange apcs)
    | none => none
  | _ => none

def parseChange (s : String) : Option Change :=
  match s.splitOn "/" with
  | [sub, key, v] => (parseInc v).map fun inc => { subspace := sub, key := key, value := inc }
  | _ => none

def parseContent (s : String) : Option Content :=
  match s.toList with
  | ['T'] => some .text
  | ['U'] => some .softwareUpgrade
  | ['R'] => some .cdpRepayDebt
  | ['L'] => some .lendWithdraw
  | ['W'] => some .cdpWithdrawCollateral
  | ['O'] => some .other
  | 'P' :: rest =>
    match (lst (String.ofList rest) "&").mapM parseChange with
    | some cs => some (.paramChange cs)
    | none => none
  | _ => none

def parseStore (s : String) : Option Store :=
  let entries := (lst s "&").mapM fun e => match e.splitOn "/" with
    | [sub, key, cur] => (parseCur cur).map fun c => ((sub, key), c)
    | _ => none
  entries.map fun es => fun sub key => ((es.find? (fun e => e.1.1 == sub && e.1.2 == key)).map (·.2)).getD none

def handleHas : Handler
  | [permsS, contentS, storeS, _, verdict] =>
    match (lst permsS "+").mapM parsePerm, parseContent contentS, parseStore storeS with
    | some perms, some content, some st =>
      let mv := hasPermissionsFor st content perms
      let cmp := if showV mv != verdict then mismatch "verdict" (showV mv) verdict else "ok"
      -- C17_unlisted_param_refused on the implementation's verdict, first
      let pr := match content with
        | .paramChange cs =>
          let hasGod := perms.any fun p => match p with | .god => true | _ => false
          let listed := fun (c : Change) => perms.any fun p => match p with
            | .paramsChange apcs => apcs.any (fun a => a.subspace == c.subspace && a.key == c.key)
            | _ => false
          if verdict == "yes" && !hasGod && cs.any (fun c => !listed c) then
            predfail "C17_unlisted_param_refused" "accepted"
          else "ok"
        | _ => "ok"
      if pr != "ok" then pr else cmp
    | _, _, _ => badInput "parse"
  | _ => badInput "arity"

/-! ### c17.life : lifecycle steps -/

/-- contents the lifecycle harness submits -/
inductive LC where
  | text
  | upgrade (h : Int)
  | param (key : String) (v : Int) (wellFormed : Bool)
  | committeeChange
  | withdraw (denom : String) (amt : Int)     -- CommunityPoolLendWithdrawProposal (one coin)
  | debt (floor conv : String)                -- ParameterChangeProposal carrying the WHOLE cdp DebtParam record
  deriving DecidableEq, Inhabited

/-- permissions the lifecycle harness gives to committees -/
inductive LP where
  | god | text | upgrade | param (key : String)
  | lendWithdraw                 -- CommunityPoolLendWithdrawPermission
  | debtField (f : String)       -- ParamsChangePermission cdp/DebtParam, one allowed attribute ("floor" | "conv")
  deriving DecidableEq, Inhabited

structure LExt where
  height : Int
  params : List (String × Int)
  plan : Int
  bals : List Int
  supply : Int
  kv : List (String × Int)      -- shared state: pool.<denom>, dep.<denom>, macc.<denom>, debt.floor, debt.conv
  deriving DecidableEq, Inhabited

def kvGet (e : LExt) (k : String) : Int := (e.kv.lookup k).getD 0

/-- `hard.Withdraw(community module account, amt denom)`: the deposit must exist and hold the denom; the amount is
    capped at the deposit; the coins go to the module account (no borrow, no interest accrual in the harness world) -/
def lendWithdraw (e : LExt) (denom : String) (amt : Int) : Option LExt :=
  let dep := kvGet e ("dep." ++ denom)
  let hasDeposit := e.kv.any fun kv => kv.1.startsWith "dep." && kv.2 > 0
  if !hasDeposit || dep ≤ 0 then none
  else
    let a := if amt > dep then dep else amt
    some { e with kv := e.kv.map fun kv =>
      if kv.1 == "dep." ++ denom then (kv.1, kv.2 - a)
      else if kv.1 == "macc." ++ denom then (kv.1, kv.2 + a) else kv }

/-- the stored DebtParam field a document must leave alone under permission `debtField f` -/
def debtProtectedOk (e : LExt) (f floor conv : String) : Bool :=
  if f == "floor" then conv == toString (kvGet e "debt.conv")
  else floor == toString (kvGet e "debt.floor")

def setParam (ps : List (String × Int)) (k : String) (v : Int) : List (String × Int) :=
  ps.map fun kv => if kv.1 == k then (k, v) else kv

def lenv : Env LExt LC LP where
  route := fun c => match c with
    | .text => "gov" | .upgrade _ => "upgrade" | .param _ _ _ => "params" | .committeeChange => KV.Gen.committeeRouterKey
    | .withdraw _ _ => "community" | .debt _ _ => "params"
  routes := KV.Gen.committeeRouterRoutes
  validBasic := fun c => match c with
    | .upgrade h => h > 0
    | .withdraw _ a => a > 0
    | _ => true
  permits := fun p c e => match p, c with
    | .god, _ => true
    | .text, .text => true
    | .upgrade, .upgrade _ => true
    | .param k, .param k' _ _ => k == k'
    | .lendWithdraw, .withdraw _ _ => true
    -- only the allowed attribute may differ from the record the store holds NOW
    | .debtField f, .debt floor conv => debtProtectedOk e f floor conv
    | _, _ => false
  handler := fun c e => match c with
    | .text => some e
    | .upgrade h => if h ≥ e.height then some { e with plan := h } else none
    | .param k v wf => if wf && v > 0 && (e.params.lookup k).isSome then some { e with params := setParam e.params k v } else none
    | .committeeChange => none
    | .withdraw d a => lendWithdraw e d a
    | .debt floor conv => match int? floor, int? conv with
      | some f, some c => some { e with kv := e.kv.map fun kv =>
          if kv.1 == "debt.floor" then (kv.1, f) else if kv.1 == "debt.conv" then (kv.1, c) else kv }
      | _, _ => none
  bal := fun e _ a => e.bals.getD a 0
  supply := fun e _ => e.supply

def parseLC (s : String) : Option LC :=
  match s.toList with
  | ['t'] => some .text
  | ['c'] => some .committeeChange
  | 'u' :: r => (int? (String.ofList r)).map .upgrade
  | 'W' :: r =>
    match (String.ofList r).splitOn "=" with
    | [d, a] => (int? a).map (.withdraw d)
    | _ => none
  | 'd' :: r =>
    match (String.ofList r).splitOn "_" with
    | [f, c] => some (.debt f c)
    | _ => none
  | 'p' :: r =>
    match (String.ofList r).splitOn "=" with
    | [k, v] => match int? v with
      | some i => some (.param k i true)
      | none => some (.param k 0 false)
    | _ => none
  | _ => none

def showLC : LC → String
  | .text => "t" | .committeeChange => "c" | .upgrade h => s!"u{h}"
  | .param k v wf => if wf then s!"p{k}={v}" else s!"p{k}=x"
  | .withdraw d a => s!"W{d}={a}"
  | .debt f c => s!"d{f}_{c}"

def parseLP (s : String) : Option LP :=
  match s.toList with
  | ['G'] => some .god | ['T'] => some .text | ['U'] => some .upgrade | ['L'] => some .lendWithdraw
  | 'K' :: r => some (.param (String.ofList r))
  | 'F' :: r => some (.debtField (String.ofList r))
  | _ => none

def parseCom (s : String) : Option (Committee LP) :=
  match s.splitOn ":" with
  | [id, ty, mem, perm, thr, quo, dur, fptp] =>
    match nat? id, nats? mem, parseLP perm, int? thr, int? quo, int? dur, bool? fptp with
    | some id, some mem, some perm, some thr, some quo, some dur, some fptp =>
      some { id := id, token := ty == "T", members := mem, perms := perm, threshold := ⟨thr⟩, quorum := ⟨quo⟩,
             duration := dur, fptp := fptp, denom := "" }
    | _, _, _, _, _, _, _ => none
  | _ => none

def parseProp (s : String) : Option (Proposal LC) :=
  match s.splitOn ":" with
  | [id, cid, dl, c] =>
    match nat? id, nat? cid, int? dl, parseLC c with
    | some id, some cid, some dl, some c => some { id := id, cid := cid, deadline := dl, content := c }
    | _, _, _, _ => none
  | _ => none

def parseVT (s : String) : Option VoteType :=
  match s with
  | "y" => some .yes | "n" => some .no | "a" => some .abstain | _ => none

def parseVote (s : String) : Option Vote :=
  match s.splitOn ":" with
  | [pid, v, t] => match nat? pid, nat? v, parseVT t with
    | some pid, some v, some t => some ⟨pid, v, t⟩
    | _, _, _ => none
  | _ => none

def parseKV (s : String) : Option (List (String × Int)) :=
  (lst s ",").mapM fun kv => match kv.splitOn "=" with
    | [k, v] => (int? v).map fun i => (k, i)
    | _ => none

def parseExt (s : String) : Option LExt :=
  let go := fun (h ps plan bals sup kvs : String) =>
    match int? h, parseKV ps, int? plan, ints? bals, int? sup, parseKV kvs with
    | some h, some pl, some plan, some bals, some sup, some kv => some (⟨h, pl, plan, bals, sup, kv⟩ : LExt)
    | _, _, _, _, _, _ => none
  match s.splitOn ";" with
  | [h, ps, plan, bals, sup] => go h ps plan bals sup ""      -- lines written before the shared state was observed
  | [h, ps, plan, bals, sup, kvs] => go h ps plan bals sup kvs
  | _ => none

/-- one record of the harness's replay of a block -/
structure Turn where
  pid : Nat
  outcome : String
  perm : String
  dry : String
  ext : LExt

def parseTurns (s : String) : Option (List Turn) :=
  if s == "-" || s == "" then some [] else
  (s.splitOn "|").mapM fun t => match t.splitOn "@" with
    | [pid, oc, perm, dry, ext] => match nat? pid, parseExt ext with
      | some pid, some e => some ⟨pid, oc, perm, dry, e⟩
      | _, _ => none
    | _ => none

def parseEvents (s : String) : Option (List (Nat × String)) :=
  (lst s ",").mapM fun e => match e.splitOn ":" with
    | [p, o] => (nat? p).map fun p => (p, o)
    | _ => none

def showProp (p : Proposal LC) : String := s!"{p.id}:{p.cid}:{p.deadline}:{showLC p.content}"
def showVT : VoteType → String
  | .yes => "y" | .no => "n" | .abstain => "a"
def showVote (v : Vote) : String := s!"{v.pid}:{v.voter}:{showVT v.vt}"
def showOutcome : Outcome → String
  | .passed => "Passed" | .failed => "Failed" | .invalid => "Invalid"
def showExt (e : LExt) : String :=
  let ps := ",".intercalate (e.params.map fun kv => s!"{kv.1}={kv.2}")
  let kvs := ",".intercalate (e.kv.map fun kv => s!"{kv.1}={kv.2}")
  s!"{e.height};{ps};{e.plan};{showInts e.bals};{e.supply};{kvs}"

def sortVotes (vs : List Vote) : List Vote :=
  (vs.toArray.qsort (fun a b => a.pid < b.pid || (a.pid == b.pid && a.voter < b.voter))).toList

def showList (l : List String) (sep : String) : String := if l.isEmpty then "-" else sep.intercalate l

abbrev LSt := St LExt LC LP

def closedEvents (l : List Event) : List (Nat × String) :=
  l.filterMap fun e => match e with
    | .closed p o => some (p, showOutcome o)
    | .enacted _ => none

/-- independent evaluation of the tally formulas of C17_member_tally / C17_token_tally on the observation -/
def tallyPasses (com : Committee LP) (votes : List Vote) (ext : LExt) (pid : Nat) : Bool :=
  let vs := votes.filter (fun v => v.pid == pid)
  if com.token then
    let w := fun (l : List Vote) => (l.map (fun v => ext.bals.getD v.voter 0)).foldl (· + ·) 0
    let yes := w (vs.filter (fun v => v.vt == .yes))
    let no := w (vs.filter (fun v => v.vt == .no))
    let total := w vs
    -- "a passing tally (threshold ...) of votes cast": with no yes and no no weight at all there is no yes
    -- share that could reach the threshold (the threshold is validated > 0)
    decide ((com.quorum.mul (Dec.ofInt ext.supply)).m ≤ total * P) && decide (0 < yes + no) &&
      decide (((Dec.ofInt (yes + no)).mul com.threshold).m ≤ yes * P)
  else
    -- member committees: "a passing tally of votes" of the committee's CURRENT members (a stored vote of
    -- somebody who is not a member now must not count; on the code as it stands a membership change closes
    -- every pending proposal, so no such vote can exist at a tally)
    let vm := vs.filter (fun v => com.members.contains v.voter)
    decide ((com.threshold.mul (Dec.ofInt com.members.length)).m ≤ (vm.length : Int) * P)

/-- a token-committee tally in which no yes and no no weight was counted (everybody abstained / nobody voted) -/
def emptyTally (com : Committee LP) (votes : List Vote) (ext : LExt) (pid : Nat) : Bool :=
  let vs := votes.filter (fun v => v.pid == pid)
  let w := fun (l : List Vote) => (l.map (fun v => ext.bals.getD v.voter 0)).foldl (· + ·) 0
  com.token && w (vs.filter (fun v => v.vt == .yes)) + w (vs.filter (fun v => v.vt == .no)) == 0

/-- what the model's (sequential) begin block closes on the observed pre-state — quoted when the implementation panics -/
def modelCloses (pre : LSt) (now : Int) : String :=
  match beginBlock lenv now pre with
  | .ok m => showList ((closedEvents m.log).map fun e => s!"{e.1}:{e.2}") ","
  | _ => "?"

/-- `C17_sequential_enactment` on the harness's replay of the block: every proposal closed as Passed had, on the
    state AT ITS TURN (left by the enactments before it in the same block), the committee's permission and a handler
    that runs -/
def turnPred (pre : LSt) (turns : List Turn) : String :=
  allOk (turns.map fun t =>
    if t.outcome != "Passed" then "ok" else
    match pre.proposals.find? (fun p => p.id == t.pid) with
    | none => "ok"
    | some p => match pre.committees.find? (fun c => c.id == p.cid) with
      | none => "ok"
      | some com =>
        if !(lenv.permits com.perms p.content t.ext) then
          predfail "C17_sequential_enactment" s!"enacted-without-permission-at-its-turn pid={t.pid} content={showLC p.content}"
        else if (lenv.handler p.content t.ext).isNone then
          predfail "C17_sequential_enactment" s!"enacted-though-handler-fails-at-its-turn pid={t.pid} content={showLC p.content}"
        else "ok")

/-- correspondence on the replay: the model's permission / handler verdicts on the state at each turn against the real
    HasPermissionsFor and the real module handler on that state -/
def turnCmp (pre : LSt) (turns : List Turn) (replay : String) : String :=
  allOk ((turns.map fun t =>
    match pre.proposals.find? (fun p => p.id == t.pid) with
    | none => "ok"
    | some p => match pre.committees.find? (fun c => c.id == p.cid) with
      | none => "ok"
      | some com =>
        allOk [
          (if t.perm == "y" || t.perm == "n" then
            expectEq s!"perm-at-turn pid={t.pid}" (if lenv.permits com.perms p.content t.ext then "y" else "n") t.perm else "ok"),
          expectEq s!"handler-at-turn pid={t.pid}" (if (lenv.handler p.content t.ext).isSome then "ok" else "err") t.dry])
    ++ [if replay == "same" || replay == "-" || replay == "" then "ok" else mismatch "replay-end-state" "same" replay])

def lifePred (pre : LSt) (cast : List Vote) (op : List String) (cls : String) (props' : List (Proposal LC)) (votes' : List Vote)
    (ext' : LExt) (events : List (Nat × String)) (turns : List Turn := []) : String :=
  match op with
  | "submit" :: _ | "vote" :: _ =>
    if cls != "ok" then "ok"
    else if ext' != pre.ext then predfail "C17_submit_vote_no_effect" "external-state-changed"
    else if !events.isEmpty then predfail "C17_submit_vote_no_effect" "proposal-closed-by-message"
    else
      match op with
      | ["vote", now, pid, voter, vt] =>
        match int? now, nat? pid, nat? voter, parseVT vt with
        | some now, some pid, some voter, some vt =>
          match pre.proposals.find? (fun p => p.id == pid) with
          | some p =>
            if now ≥ p.deadline then predfail "C17_timing" "vote-at-or-after-deadline-accepted"
            else
              -- C17_revote_replaces on the store: exactly the option just cast is recorded for (proposal, voter)
              match votes'.filter (fun v => v.pid == pid && v.voter == voter) with
              | [v] => if v.vt == vt then "ok"
                       else predfail "C17_vote_recorded" s!"stale-vote pid={pid} voter={voter} cast={showVT vt} stored={showVT v.vt}"
              | [] => predfail "C17_vote_recorded" s!"vote-not-stored pid={pid} voter={voter}"
              | _ => predfail "C17_vote_recorded" s!"several-votes-stored pid={pid} voter={voter}"
          | none => predfail "C17_timing" "vote-on-unknown-proposal-accepted"
        | _, _, _, _ => badInput "vote-op"
      | _ => "ok"
  | ["begin", now] =>
    match int? now with
    | none => badInput "begin-op"
    | some now =>
      if cls != "ok" then
        predfail "C17_invalid_closed_not_halting" s!"begin-block-{cls} closed-before={showList (events.map fun e => s!"{e.1}:{e.2}") ","} sequential-semantics-closes={modelCloses pre now}"
      else
        -- each closed pid was open, is closed once, and is gone with its votes
        let pids := events.map (·.1)
        if pids.eraseDups.length != pids.length then predfail "C17_enact_once" "closed-twice"
        else if pids.any (fun p => !(pre.proposals.any (fun q => q.id == p))) then predfail "C17_enact_once" "closed-unknown-proposal"
        else if pids.any (fun p => props'.any (fun q => q.id == p)) then predfail "C17_enact_once" "closed-proposal-still-stored"
        else if pids.any (fun p => votes'.any (fun v => v.pid == p)) then predfail "C17_enact_once" "votes-of-closed-proposal-left"
        else
          -- every proposal: closed iff due
          let bad := pre.proposals.find? fun p =>
            let closed := pids.contains p.id
            match pre.committees.find? (fun c => c.id == p.cid) with
            | none => !closed
            | some com =>
              if now ≥ p.deadline then !closed
              else if !com.fptp then closed
              else false
          -- the external state a proposal was tallied on: the state at its turn when the replay recorded it
          let extAt := fun (pid : Nat) => ((turns.find? (fun t => t.pid == pid)).map (·.ext)).getD pre.ext
          match bad with
          | some p => predfail "C17_timing" s!"{if pids.contains p.id then "closed-before-deadline" else "open-after-deadline"} pid={p.id}"
          | none =>
            -- every enactment had a passing tally on the observed votes and balances, and was due
            let badE := events.find? fun (pid, o) =>
              o == "Passed" &&
              match pre.proposals.find? (fun p => p.id == pid) with
              | none => true
              | some p => match pre.committees.find? (fun c => c.id == p.cid) with
                | none => true
                | some com => !(tallyPasses com pre.votes (extAt pid) pid)
            match badE with
            | some (pid, _) =>
              let noYesNo : Bool := (pre.proposals.find? (fun p => p.id == pid)).any fun p =>
                (pre.committees.find? (fun c => c.id == p.cid)).any fun com => emptyTally com pre.votes pre.ext pid
              if noYesNo then predfail "C17_enact_only_if_passed" s!"enacted-without-any-yes-or-no-vote pid={pid}"
              else predfail "C17_enact_only_if_passed" s!"tally-not-passing pid={pid}"
            | none =>
            -- the same from the votes the harness itself cast last (its own log, not the vote store):
            -- enacted ⇒ passes, closed as failed at the deadline ⇒ does not pass
            let badC := events.find? fun (pid, o) =>
              match pre.proposals.find? (fun p => p.id == pid) with
              | none => false
              | some p => match pre.committees.find? (fun c => c.id == p.cid) with
                | none => false
                | some com =>
                  let passes := tallyPasses com cast (extAt pid) pid
                  (o == "Passed" && !passes) || (o == "Invalid" && !passes) || (o == "Failed" && passes)
            match badC with
            | some (pid, o) => predfail "C17_enact_only_if_passed" s!"tally-from-cast-votes closed-{o} pid={pid}"
            | none =>
              -- nothing changes outside the store unless something was enacted
              if !(events.any (fun e => e.2 == "Passed")) && ext' != pre.ext then
                predfail "C17_enact_only_if_passed" "external-state-changed-without-enactment"
              else turnPred pre turns
  | _ => "ok"

def runOp (s : LSt) (op : List String) : Option (Res LSt) :=
  match op with
  | ["submit", now, pr, cid, c] =>
    match int? now, nat? pr, nat? cid, parseLC c with
    | some now, some pr, some cid, some c => some (submit lenv s now pr cid c)
    | _, _, _, _ => none
  | ["vote", now, pid, v, t] =>
    match int? now, nat? pid, nat? v, parseVT t with
    | some now, some pid, some v, some t => some (vote s now pid v t)
    | _, _, _, _ => none
  | ["begin", now] => (int? now).map fun now => beginBlock lenv now s
  | ["setcom", c] => (parseCom c).map fun c => .ok (setCommittee s c)
  | ["delcom", cid] => (nat? cid).map fun cid => .ok (deleteCommittee s cid)
  | _ => none

def handleLifeCore (comsS propsS votesS nextS extS opS cls propsS' votesS' nextS' extS' eventsS castS turnsS replayS : String) : String :=
    match (lst comsS ";").mapM parseCom, (strs propsS ";").mapM parseProp, (strs votesS ";").mapM parseVote,
          nat? nextS, parseExt extS, (strs propsS' ";").mapM parseProp, (strs votesS' ";").mapM parseVote,
          nat? nextS', parseExt extS', parseEvents (if eventsS == "-" then "" else eventsS), (strs castS ";").mapM parseVote,
          parseTurns turnsS with
    | some coms, some props, some votes, some next, some ext, some props', some votes', some next', some ext', some events, some cast,
      some turns =>
      let s : LSt := { committees := coms, proposals := props, votes := votes, nextId := next, ext := ext, log := [] }
      let op := opS.splitOn " "
      match runOp s op with
      | none => badInput "op"
      | some res =>
        let mcls := match res with | .ok _ => "ok" | .err => "err" | .panic => "panic"
        let pr0 := lifePred s cast op cls props' votes' ext' events turns
        if pr0 != "ok" then pr0
        else if mcls != cls then mismatch "class" mcls cls
        else
          match res with
            | .ok m =>
              allOk [
                expectEq "proposals" (showList (m.proposals.map showProp) ";") (showList (props'.map showProp) ";"),
                expectEq "votes" (showList ((sortVotes m.votes).map showVote) ";") (showList ((sortVotes votes').map showVote) ";"),
                expectEq "nextId" (toString m.nextId) (toString next'),
                expectEq "ext" (showExt m.ext) (showExt ext'),
                expectEq "events" (showList ((closedEvents m.log).map fun e => s!"{e.1}:{e.2}") ",")
                                  (showList (events.map fun e => s!"{e.1}:{e.2}") ","),
                turnCmp s turns replayS]
            | _ =>
              -- a refused message leaves everything as it was
              allOk [
                expectEq "proposals-after-refusal" (showList (props.map showProp) ";") (showList (props'.map showProp) ";"),
                expectEq "votes-after-refusal" (showList ((sortVotes votes).map showVote) ";") (showList ((sortVotes votes').map showVote) ";"),
                expectEq "ext-after-refusal" (showExt ext) (showExt ext')]
    | _, _, _, _, _, _, _, _, _, _, _, _ => badInput "parse"

def handleLife : Handler
  | [comsS, propsS, votesS, nextS, extS, opS, _, cls, propsS', votesS', nextS', extS', eventsS, castS] =>
    handleLifeCore comsS propsS votesS nextS extS opS cls propsS' votesS' nextS' extS' eventsS castS "-" "-"
  | [comsS, propsS, votesS, nextS, extS, opS, _, cls, propsS', votesS', nextS', extS', eventsS, castS, turnsS, replayS] =>
    handleLifeCore comsS propsS votesS nextS extS opS cls propsS' votesS' nextS' extS' eventsS castS turnsS replayS
  | _ => badInput "arity"

/-- handlers of property C17: (command name, handler) -/
def handlers : List (String × Handler) :=
  [("c17.apc", handleApc), ("c17.has", handleHas), ("c17.life", handleLife)]
end Drv.C17
