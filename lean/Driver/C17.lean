import Driver.Util
namespace Drv.C17
/-- handlers of property C17: (command name, handler) -/
def handlers : List (String × Handler) := []
end Drv.C17
