import Driver.Util
open Drv

namespace Drv

def dispatch (hs : List (String × Handler)) (line : String) : String :=
  match line.splitOn "\t" with
  | [] => badInput "empty"
  | cmd :: fields =>
    match hs.lookup cmd with
    | some h => h fields
    | none => badInput s!"unknown-cmd {cmd}"

structure Tot where
  n : Nat := 0
  ok : Nat := 0
  mism : Nat := 0
  pred : Nat := 0
  bad : Nat := 0

partial def loop (hs : List (String × Handler)) (h : IO.FS.Stream) (out : IO.FS.Stream) (t : Tot) : IO Tot := do
  let line ← h.getLine
  if line.isEmpty then return t
  let l := (line.dropEndWhile (fun c => c == '\n' || c == '\r')).toString
  if l.isEmpty || l.startsWith "#" then loop hs h out t
  else
    let r := dispatch hs l
    let n := t.n + 1
    if r == "ok" then loop hs h out { t with n := n, ok := t.ok + 1 }
    else
      out.putStrLn s!"{n}\t{r}\t{l}"
      if r.startsWith "MISMATCH" then loop hs h out { t with n := n, mism := t.mism + 1 }
      else if r.startsWith "PREDFAIL" then loop hs h out { t with n := n, pred := t.pred + 1 }
      else loop hs h out { t with n := n, bad := t.bad + 1 }

/-- the driver main loop: one verdict per case line, non-ok verdicts are printed -/
def runMain (hs : List (String × Handler)) : IO UInt32 := do
  let stdin ← IO.getStdin
  let stdout ← IO.getStdout
  let t ← loop hs stdin stdout {}
  stdout.putStrLn s!"DONE total={t.n} ok={t.ok} mismatch={t.mism} predfail={t.pred} bad={t.bad}"
  return (if t.mism + t.pred + t.bad == 0 then 0 else 3)

end Drv
