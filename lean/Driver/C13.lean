import Driver.Util
namespace Drv.C13
/-- handlers of property C13: (command name, handler) -/
def handlers : List (String × Handler) := []
end Drv.C13
