import Driver.Util
import KavaVerif.Model.Bep3
/-!
  C13 driver (x/bep3 atomic swaps).  One self-contained case per line:

    c13.op  kind  cfg  pre  args  hashes  limStable  shadow  [cdep]  =>  result  post

  kind    create | claim | refund | begin | setlimit | setdeputy
  cfg     module;macc bits;blocked bits
  pre/post  height|time|prevTime|assets|supplies|swaps|byBlock|longterm|bal|bankSupply
            assets   d,deputy,limit,timeLimited,period,tbl,active,fee,min,max,minLock,maxLock ;…
            supplies d,incoming,outgoing,current,tlCurrent,elapsed ;…
            swaps    id,denom,amt,hash,ts,sender,recipient,other,expire,dir,status,closed ;…
            byBlock / longterm  height,id ;…       bal  one row per party, one column per denom
  args    create: hash,ts,span,sender,recipient,other,n,(d,amt)×n   claim: from,id,secret
          refund: from,id   begin: dh,dt   setlimit: d,limit,timeLimited,period,tbl,active
          setdeputy: d,newDeputy   (governance rotates the deputy address of asset d)
  hashes  sid entries `hash,sender,other,id;…` | H entries `secret,ts,hash;…` observed on the real
          CalculateSwapID / CalculateRandomHash (byte strings interned injectively)

  shadow  d,elapsed,window;…  the harness's own period clock after the operation: real time accumulated
          since the reset it computes itself (from its own log of block times, per asset independently) and
          the incoming amounts it saw claimed under a time limit since then; never read from the implementation

  cdep    id,deputy;…  (optional field) the deputy that was in force when each stored swap was created, from
          the harness's own record of the parameters it wrote; a swap without an entry is judged by the
          current deputy

  The handler (1) runs the Lean model on the observed pre-state and compares it with the observed
  post-state (MISMATCH) and (2) evaluates the C13 predicates on the implementation's own observation,
  independently of the model (PREDFAIL).
-/
namespace Drv.C13
open KV KV.Bep3

structure OSt where
  height : Nat
  time : Int
  prevTime : Int
  assets : List (Denom × Asset)
  supplies : List (Denom × Supply)
  swaps : List Swap
  byBlock : List Key
  longterm : List Key
  bal : List (List Int)
  bankSupply : List Int

def statusOf (n : Int) : Option Status :=
  if n = KV.Gen.bep3StatusOpen then some .open
  else if n = KV.Gen.bep3StatusCompleted then some .completed
  else if n = KV.Gen.bep3StatusExpired then some .expired
  else none

def dirOf (n : Int) : Option Dir :=
  if n = KV.Gen.bep3DirectionIncoming then some .incoming
  else if n = KV.Gen.bep3DirectionOutgoing then some .outgoing
  else none

def rows (s : String) : Option (List (List Int)) := (strs s ";").mapM ints?

def parseAsset : List Int → Option (Denom × Asset)
  | [d, dep, limit, tl, period, tbl, act, fee, mn, mx, minL, maxL] =>
    some (d.toNat, { deputy := dep.toNat, limit := limit, timeLimited := tl != 0, period := period, tbl := tbl,
                     active := act != 0, fee := fee, minAmt := mn, maxAmt := mx, minLock := minL.toNat, maxLock := maxL.toNat })
  | _ => none

def parseSupply : List Int → Option (Denom × Supply)
  | [d, i, o, c, t, e] => some (d.toNat, { incoming := i, outgoing := o, current := c, tlCurrent := t, elapsed := e })
  | _ => none

def parseSwap : List Int → Option Swap
  | [id, d, amt, hash, ts, snd, rcp, oth, exp, dir, st, closed] => do
    let dir ← dirOf dir
    let st ← statusOf st
    some { id := id.toNat, denom := d.toNat, amt := amt, hash := hash.toNat, ts := ts, sender := snd.toNat,
           recipient := rcp.toNat, other := oth.toNat, expire := exp.toNat, dir := dir, status := st, closed := closed.toNat }
  | _ => none

def parseKey : List Int → Option Key
  | [h, id] => some (h.toNat, id.toNat)
  | _ => none

def parseSt (s : String) : Option OSt :=
  match s.splitOn "|" with
  | [h, t, p, as, ss, sw, bb, lt, bl, bs] => do
    let h ← nat? h
    let t ← int? t
    let p ← int? p
    let as ← (← rows as).mapM parseAsset
    let ss ← (← rows ss).mapM parseSupply
    let sw ← (← rows sw).mapM parseSwap
    let bb ← (← rows bb).mapM parseKey
    let lt ← (← rows lt).mapM parseKey
    let bl ← rows bl
    let bs ← ints? bs
    some { height := h, time := t, prevTime := p, assets := as, supplies := ss, swaps := sw, byBlock := bb,
           longterm := lt, bal := bl, bankSupply := bs }
  | _ => none

def zeroSupply : Supply := { incoming := 0, outgoing := 0, current := 0, tlCurrent := 0, elapsed := 0 }

def supOf (o : OSt) (d : Denom) : Supply :=
  match o.supplies.find? (fun e => e.1 == d) with
  | some e => e.2
  | none => zeroSupply

def balOf (o : OSt) (a : Addr) (d : Denom) : Int := (o.bal.getD a []).getD d 0

def toSt (o : OSt) : St :=
  { height := o.height, time := o.time, prevTime := o.prevTime, assets := o.assets, supply := supOf o,
    swaps := o.swaps, byBlock := o.byBlock, longterm := o.longterm, bal := balOf o,
    bankSupply := fun d => o.bankSupply.getD d 0 }

def keyLe (a b : Key) : Bool := a.1 < b.1 || (a.1 == b.1 && a.2 ≤ b.2)
def sortKeys (l : List Key) : List Key := l.mergeSort keyLe
def sortSwaps (l : List Swap) : List Swap := l.mergeSort (fun a b => a.id ≤ b.id)

/-- observation of a model state in the shape of `OSt` -/
def ofSt (like : OSt) (s : St) : OSt :=
  { height := s.height, time := s.time, prevTime := s.prevTime, assets := s.assets,
    supplies := like.supplies.map (fun e => (e.1, s.supply e.1)),
    swaps := sortSwaps s.swaps, byBlock := sortKeys s.byBlock, longterm := sortKeys s.longterm,
    bal := (List.range like.bal.length).map (fun a => (List.range (like.bal.getD a []).length).map (fun d => s.bal a d)),
    bankSupply := (List.range like.bankSupply.length).map s.bankSupply }

def showSwap (s : Swap) : String :=
  s!"{s.id},{s.denom},{s.amt},{s.hash},{s.ts},{s.sender},{s.recipient},{s.other},{s.expire},{s.dir.code},{s.status.code},{s.closed}"
def showSupply (e : Denom × Supply) : String :=
  s!"{e.1},{e.2.incoming},{e.2.outgoing},{e.2.current},{e.2.tlCurrent},{e.2.elapsed}"
def showAsset (e : Denom × Asset) : String :=
  s!"{e.1},{e.2.deputy},{e.2.limit},{showBool e.2.timeLimited},{e.2.period},{e.2.tbl},{showBool e.2.active},{e.2.fee},{e.2.minAmt},{e.2.maxAmt},{e.2.minLock},{e.2.maxLock}"
def showKeys (l : List Key) : String := ";".intercalate (l.map fun k => s!"{k.1},{k.2}")

/-- field-by-field comparison of two observations -/
def cmpSt (m i : OSt) : String :=
  allOk [
    expectEq "height" (toString m.height) (toString i.height),
    expectEq "time" (toString m.time) (toString i.time),
    expectEq "prevTime" (toString m.prevTime) (toString i.prevTime),
    expectEq "assets" (";".intercalate (m.assets.map showAsset)) (";".intercalate (i.assets.map showAsset)),
    expectEq "supplies" (";".intercalate (m.supplies.map showSupply)) (";".intercalate (i.supplies.map showSupply)),
    expectEq "swaps" (";".intercalate (m.swaps.map showSwap)) (";".intercalate (i.swaps.map showSwap)),
    expectEq "byBlock" (showKeys m.byBlock) (showKeys i.byBlock),
    expectEq "longterm" (showKeys m.longterm) (showKeys i.longterm),
    expectEq "bal" (";".intercalate (m.bal.map showInts)) (";".intercalate (i.bal.map showInts)),
    expectEq "bankSupply" (showInts m.bankSupply) (showInts i.bankSupply)]

/-! ### hash tables observed on the implementation -/

structure Tabs where
  sid : List (Nat × Nat × Nat × Nat)   -- hash, sender, other ↦ id
  h : List (Nat × Int × Nat)           -- secret, timestamp ↦ hash

def parseTabs (s : String) : Option Tabs :=
  match s.splitOn "|" with
  | [a, b] => do
    let a ← (← rows a).mapM (fun r => match r with
      | [h, s, o, id] => some (h.toNat, s.toNat, o.toNat, id.toNat) | _ => none)
    let b ← (← rows b).mapM (fun r => match r with
      | [rn, ts, h] => some (rn.toNat, ts, h.toNat) | _ => none)
    some ⟨a, b⟩
  | _ => none

/-- the hash functions as far as the implementation exhibited them: the op's own entries, then the
    stored swaps (key = GetSwapID(), checked by the harness); anything else is a fresh value -/
def hashesOf (t : Tabs) (pre : OSt) : Hashes :=
  let sidTab := t.sid ++ pre.swaps.map (fun s => (s.hash, s.sender, s.other, s.id))
  { H := fun rn ts => match t.h.find? (fun e => e.1 == rn && e.2.1 == ts) with
      | some e => e.2.2
      | none => 1000000000 + rn,
    sid := fun h a o => match sidTab.find? (fun e => e.1 == h && e.2.1 == a && e.2.2.1 == o) with
      | some e => e.2.2.2
      | none => 1000000000 + h * 1000000 + a * 1000 + o }

/-! ### the operation -/

inductive Cmd where
  | create (hash : Nat) (ts : Int) (span sender recipient other : Nat) (coins : List (Denom × Int))
  | claim (frm id rn : Nat)
  | refund (frm id : Nat)
  | begin (dh : Nat) (dt : Int)
  | setlimit (d : Nat) (limit : Int) (tl : Bool) (period tbl : Int) (active : Bool)
  | setdeputy (d : Nat) (dep : Nat)

def pairs : List Int → Option (List (Denom × Int))
  | [] => some []
  | d :: a :: rest => (pairs rest).map (fun r => (d.toNat, a) :: r)
  | _ => none

def parseCmd (kind : String) (args : List Int) : Option Cmd :=
  match kind, args with
  | "create", hash :: ts :: span :: snd :: rcp :: oth :: n :: rest => do
    let cs ← pairs rest
    if cs.length != n.toNat then none
    else some (.create hash.toNat ts span.toNat snd.toNat rcp.toNat oth.toNat cs)
  | "claim", [f, id, rn] => some (.claim f.toNat id.toNat rn.toNat)
  | "refund", [f, id] => some (.refund f.toNat id.toNat)
  | "begin", [dh, dt] => some (.begin dh.toNat dt)
  | "setlimit", [d, l, tl, p, tbl, act] => some (.setlimit d.toNat l (tl != 0) p tbl (act != 0))
  | "setdeputy", [d, dep] => some (.setdeputy d.toNat dep.toNat)
  | _, _ => none

def toOp : Cmd → Op
  | .create h ts sp s r o cs => .create h ts sp s r o cs
  | .claim f id rn => .claim f id rn
  | .refund f id => .refund f id
  | .begin dh dt => .beginBlock dh dt
  | .setlimit d l tl p tbl a => .setLimit d l tl p tbl a
  | .setdeputy d dep => .setDeputy d dep

def parseCfg (s : String) : Option Cfg :=
  match s.splitOn ";" with
  | [m, macc, blocked] => do
    let m ← nat? m
    let macc ← ints? macc
    let blocked ← ints? blocked
    some { module := m, macc := fun a => macc.getD a 0 != 0, blocked := fun a => blocked.getD a 0 != 0 }
  | _ => none

/-! ### the property predicates on the implementation's observation -/

def sumSw (p : Swap → Bool) (l : List Swap) : Int := l.foldl (fun acc s => if p s then acc + s.amt else acc) 0

def isLive (dir : Dir) (d : Denom) (s : Swap) : Bool := s.dir == dir && s.denom == d && s.status != .completed

def assetOf (o : OSt) (d : Denom) : Option Asset := (o.assets.find? (fun e => e.1 == d)).map (·.2)

def first (l : List (Option String)) : Option String := l.findSome? id

/-- state predicates (custody, counters, indexes, deputy direction, limits) -/
def statePreds (cfg : Cfg) (o : OSt) (limStable : Bool) (cdep : List (Nat × Nat)) : Option String :=
  first [
    -- C13_custody: the module account holds exactly the outgoing swaps not yet closed
    o.supplies.findSome? (fun e =>
      if balOf o cfg.module e.1 != sumSw (isLive .outgoing e.1) o.swaps then some (predfail "C13_custody" s!"module-balance denom={e.1}") else none),
    -- C13_counters: incoming / outgoing are the sums over live swaps
    o.supplies.findSome? (fun e =>
      if e.2.incoming != sumSw (isLive .incoming e.1) o.swaps then some (predfail "C13_counters" s!"incoming denom={e.1}")
      else if e.2.outgoing != sumSw (isLive .outgoing e.1) o.swaps then some (predfail "C13_counters" s!"outgoing denom={e.1}")
      else if e.2.outgoing > e.2.current then some (predfail "C13_counters" s!"outgoing-above-current denom={e.1}")
      else none),
    -- C13_indexes
    (if (o.swaps.map (·.id)).eraseDups.length != o.swaps.length then some (predfail "C13_indexes" "duplicate-id") else none),
    (if sortKeys o.byBlock != sortKeys ((o.swaps.filter (·.status == .open)).map (fun s => (s.expire, s.id)))
      then some (predfail "C13_indexes" "by-block") else none),
    (if sortKeys o.longterm != sortKeys ((o.swaps.filter (·.status == .completed)).map (fun s => (s.closed + horizon, s.id)))
      then some (predfail "C13_indexes" "long-term") else none),
    -- C13_deputy_only_incoming: a stored swap is incoming exactly when its sender was the deputy of its asset
    -- when it was created (the harness's own record; governance may have rotated the deputy since — a stored
    -- swap keeps its direction, C13_deputy_rotation); without a record: the current deputy
    o.swaps.findSome? (fun s => match assetOf o s.denom with
      | some a =>
        (match cdep.find? (fun e => e.1 == s.id) with
         | some e => if (s.dir == .incoming) != (s.sender == e.2) then some (predfail "C13_deputy_only_incoming" "state-deputy-at-creation") else none
         | none => if (s.dir == .incoming) != (s.sender == a.deputy) then some (predfail "C13_deputy_only_incoming" "state") else none)
      | none => some (predfail "C13_deputy_only_incoming" "swap-of-unknown-asset")),
    -- C13_limits as a state invariant, as long as governance has not touched the limits
    (if limStable then o.supplies.findSome? (fun e => match assetOf o e.1 with
      | some a =>
        if e.2.current + e.2.incoming > a.limit then some (predfail "C13_limits" s!"state-supply-limit denom={e.1}")
        else if a.timeLimited && e.2.tlCurrent + e.2.incoming > a.tbl then some (predfail "C13_limits" s!"state-time-limit denom={e.1}")
        else none
      | none => none) else none)]

def findById (l : List Swap) (id : Nat) : Option Swap := l.find? (fun s => s.id == id)

/-- expected balance / bank-supply movement of the step, derived from the swap transitions only -/
structure Move where
  addr : Nat
  denom : Nat
  delta : Int

/-- transition predicates (lifecycle, funds, counters, limits) -/
def stepPreds (cfg : Cfg) (t : Tabs) (cmd : Cmd) (ok : Bool) (pre post : OSt) : Option String :=
  let isBegin := match cmd with | .begin _ _ => true | _ => false
  -- which swap may be closed by this command, and is the preimage right?
  let preimageOk (p : Swap) (rn : Nat) : Bool :=
    match t.h.find? (fun e => e.1 == rn && e.2.1 == p.ts) with
    | some e => t.sid.any (fun g => g.1 == e.2.2 && g.2.1 == p.sender && g.2.2.1 == p.other && g.2.2.2 == p.id)
    | none => false
  let closedNow := pre.swaps.filter (fun p => match findById post.swaps p.id with
    | some q => p.status != .completed && q.status == .completed
    | none => false)
  let created := post.swaps.filter (fun q => (findById pre.swaps q.id).isNone)
  let perSwap : Option String := pre.swaps.findSome? (fun p =>
    match findById post.swaps p.id with
    | none =>
      if !isBegin then some (predfail "C13_lifecycle" "vanished-outside-begin-block")
      else if p.status != .completed then some (predfail "C13_lifecycle" "uncompleted-swap-deleted")
      else if p.closed + horizon > post.height then some (predfail "C13_indexes" "pruned-before-horizon")
      else none
    | some q =>
      if q == p then
        if isBegin && p.status == .open && p.expire ≤ post.height then some (predfail "C13_indexes" "not-expired-when-due")
        else if isBegin && p.status == .completed && p.closed + horizon ≤ post.height then some (predfail "C13_indexes" "not-pruned-when-due")
        else none
      else if { q with status := p.status, closed := p.closed } != p then some (predfail "C13_lifecycle" "fields-changed")
      else match p.status, q.status with
        | .open, .completed =>
          (match cmd with
           | .claim _ id rn =>
             if !ok || id != p.id then some (predfail "C13_lifecycle" "completed-by-other-op")
             else if !preimageOk p rn then some (predfail "C13_lifecycle" "claim-without-preimage")
             else if q.closed != pre.height then some (predfail "C13_lifecycle" "closed-block")
             else none
           | _ => some (predfail "C13_lifecycle" "open-completed-without-claim"))
        | .open, .expired =>
          if !isBegin then some (predfail "C13_lifecycle" "expired-outside-begin-block")
          else if p.expire > post.height then some (predfail "C13_lifecycle" "expired-early")
          else if q.closed != p.closed then some (predfail "C13_lifecycle" "fields-changed")
          else none
        | .expired, .completed =>
          (match cmd with
           | .refund _ id =>
             if !ok || id != p.id then some (predfail "C13_lifecycle" "completed-by-other-op")
             else if p.expire > pre.height then some (predfail "C13_lifecycle" "refund-before-expiry")
             else if q.closed != pre.height then some (predfail "C13_lifecycle" "closed-block")
             else none
           | _ => some (predfail "C13_lifecycle" "expired-completed-without-refund"))
        | .completed, _ => some (predfail "C13_lifecycle" "completed-changed")
        | _, _ => some (predfail "C13_lifecycle" "bad-transition"))
  -- new swaps only by a successful create, exactly one, open, direction by deputy
  let newOk : Option String :=
    match cmd, created with
    | _, [] => (match cmd with
        | .create .. => if ok then some (predfail "C13_lifecycle" "create-ok-without-swap") else none
        | _ => none)
    | .create h ts _ snd rcp oth [(d, amt)], [n] =>
      if !ok then some (predfail "C13_lifecycle" "swap-created-by-failed-op")
      else if n.status != .open || n.closed != 0 then some (predfail "C13_lifecycle" "new-swap-not-open")
      else if n.hash != h || n.ts != ts || n.sender != snd || n.recipient != rcp || n.other != oth || n.denom != d || n.amt != amt
        then some (predfail "C13_lifecycle" "new-swap-fields")
      else if !(t.sid.any (fun g => g.1 == h && g.2.1 == snd && g.2.2.1 == oth && g.2.2.2 == n.id))
        then some (predfail "C13_lifecycle" "new-swap-id")
      else match assetOf pre d with
        | some a =>
          if (n.dir == .incoming) != (snd == a.deputy) then some (predfail "C13_deputy_only_incoming" "create")
          else if n.dir == .outgoing && rcp != a.deputy then some (predfail "C13_deputy_only_incoming" "outgoing-not-to-deputy")
          else none
        | none => some (predfail "C13_lifecycle" "swap-of-unknown-asset")
    | _, _ => some (predfail "C13_lifecycle" "unexpected-new-swap")
  -- a successful claim / refund closes exactly its swap; nothing else closes swaps
  let closeOk : Option String :=
    match cmd with
    | .claim _ id _ =>
      if ok && (closedNow.map (·.id)) != [id] then some (predfail "C13_lifecycle" "claim-ok-without-close")
      else if !ok && !closedNow.isEmpty then some (predfail "C13_lifecycle" "closed-by-failed-op") else none
    | .refund _ id =>
      if ok && (closedNow.map (·.id)) != [id] then some (predfail "C13_lifecycle" "refund-ok-without-close")
      else if !ok && !closedNow.isEmpty then some (predfail "C13_lifecycle" "closed-by-failed-op") else none
    | _ => if !closedNow.isEmpty then some (predfail "C13_lifecycle" "closed-without-claim-or-refund") else none
  -- funds: balances and bank supply move exactly as the transitions say, once
  let moves : List Move :=
    (created.flatMap (fun n => if n.dir == .outgoing then [⟨n.sender, n.denom, -n.amt⟩, ⟨cfg.module, n.denom, n.amt⟩] else [])) ++
    (closedNow.flatMap (fun p => match p.status, p.dir with
      | .open, .incoming => [⟨p.recipient, p.denom, p.amt⟩]            -- claim: minted to the recipient
      | .open, .outgoing => [⟨cfg.module, p.denom, -p.amt⟩]            -- claim: burned
      | .expired, .outgoing => [⟨cfg.module, p.denom, -p.amt⟩, ⟨p.sender, p.denom, p.amt⟩]   -- refund
      | _, _ => []))
  let supMoves : List (Nat × Int) := closedNow.flatMap (fun p => match p.status, p.dir with
      | .open, .incoming => [(p.denom, p.amt)]
      | .open, .outgoing => [(p.denom, -p.amt)]
      | _, _ => [])
  let expBal (a d : Nat) : Int := balOf pre a d + (moves.filter (fun m => m.addr == a && m.denom == d)).foldl (fun acc m => acc + m.delta) 0
  let fundsOk : Option String :=
    (List.range pre.bal.length).findSome? (fun a => (List.range (pre.bal.getD a []).length).findSome? (fun d =>
      if balOf post a d != expBal a d then some (predfail "C13_lifecycle" s!"funds addr={a} denom={d}") else none))
  let bankOk : Option String :=
    (List.range pre.bankSupply.length).findSome? (fun d =>
      let exp := pre.bankSupply.getD d 0 + (supMoves.filter (fun m => m.1 == d)).foldl (fun acc m => acc + m.2) 0
      if post.bankSupply.getD d 0 != exp then some (predfail "C13_lifecycle" s!"bank-supply denom={d}") else none)
  -- C13_counters: current supply moves only by claims, by the swap amount; hence current − bank supply is constant
  let currentOk : Option String := pre.supplies.findSome? (fun e =>
    let d := e.1
    let exp := e.2.current + (supMoves.filter (fun m => m.1 == d)).foldl (fun acc m => acc + m.2) 0
    if (supOf post d).current != exp then some (predfail "C13_counters" s!"current denom={d}")
    else if (supOf post d).current - post.bankSupply.getD d 0 != e.2.current - pre.bankSupply.getD d 0
      then some (predfail "C13_counters" s!"current-vs-bank-supply denom={d}")
    else none)
  -- C13_limits on the step
  let limitsOk : Option String :=
    match cmd with
    | .create .. =>
      (match created with
       | [n] => (match assetOf pre n.denom with
          | some a =>
            let sp := supOf post n.denom
            if n.dir == .incoming && sp.current + sp.incoming > a.limit then some (predfail "C13_limits" "create-over-supply-limit")
            else if n.dir == .incoming && a.timeLimited && sp.tlCurrent + sp.incoming > a.tbl then some (predfail "C13_limits" "create-over-time-limit")
            else if n.dir == .outgoing && sp.outgoing > sp.current then some (predfail "C13_limits" "outgoing-over-current")
            else if n.amt < a.minAmt || n.amt > a.maxAmt then some (predfail "C13_limits" "amount-outside-min-max")
            else if n.dir == .outgoing && n.amt ≤ a.fee + a.minAmt then some (predfail "C13_limits" "outgoing-cannot-pay-fee")
            else none
          | none => none)
       | _ => none)
    | .claim .. =>
      (match closedNow with
       | [p] => (match assetOf pre p.denom with
          | some a =>
            let s0 := supOf pre p.denom
            let sp := supOf post p.denom
            if sp.current + sp.incoming > s0.current + s0.incoming then some (predfail "C13_limits" "claim-raises-current-plus-incoming")
            else if p.dir == .incoming && sp.current > a.limit then some (predfail "C13_limits" "claim-over-supply-limit")
            else if p.dir == .incoming && a.timeLimited && sp.tlCurrent > a.tbl then some (predfail "C13_limits" "claim-over-time-limit")
            else if p.dir == .incoming && a.timeLimited && sp.tlCurrent != s0.tlCurrent + p.amt then some (predfail "C13_limits" "time-limited-accounting")
            else none
          | none => none)
       | _ => none)
    | _ => none
  -- the time-limited counter only grows by incoming claims and is only reset by the begin blocker
  let tlOk : Option String := pre.supplies.findSome? (fun e =>
    let sp := supOf post e.1
    if isBegin then
      if sp.tlCurrent != e.2.tlCurrent && sp.tlCurrent != 0 then some (predfail "C13_limits" "time-limited-reset") else none
    else
      let claimedIn := (closedNow.filter (fun p => p.status == .open && p.dir == .incoming && p.denom == e.1)).foldl (fun acc p => acc + p.amt) 0
      if sp.tlCurrent != e.2.tlCurrent && sp.tlCurrent != e.2.tlCurrent + claimedIn then some (predfail "C13_limits" "time-limited-accounting")
      else none)
  -- C13_deputy_rotation: a governance step (deputy rotation, limit change) touches nothing but the asset
  -- parameter — no swap record, index entry, supply counter, balance or bank supply moves; a rotation changes
  -- exactly the deputy of its asset
  let govOk : Option String :=
    let frame (name : String) : Option String :=
      if post.swaps != pre.swaps then some (predfail name "swaps-changed")
      else if sortKeys post.byBlock != sortKeys pre.byBlock || sortKeys post.longterm != sortKeys pre.longterm then some (predfail name "indexes-changed")
      else if post.supplies != pre.supplies then some (predfail name "supply-counters-changed")
      else if post.bal != pre.bal || post.bankSupply != pre.bankSupply then some (predfail name "funds-moved")
      else if post.height != pre.height || post.time != pre.time || post.prevTime != pre.prevTime then some (predfail name "clock-changed")
      else none
    match cmd with
    | .setdeputy d dep =>
      (match frame "C13_deputy_rotation" with
       | some f => some f
       | none =>
         let expAssets := if ok then pre.assets.map (fun e => if e.1 == d then (e.1, { e.2 with deputy := dep }) else e) else pre.assets
         if post.assets != expAssets then some (predfail "C13_deputy_rotation" "params") else none)
    | .setlimit .. => frame "C13_deputy_rotation"
    | _ => none
  -- C13_refund_always_possible / C13_claim_outgoing_always_possible / C13_claim_incoming_possible_within_limits:
  -- a live swap can be closed whoever the deputy is now — the refusal of a rightful close is a failure
  let possibleOk : Option String :=
    if ok then none else
    match cmd with
    | .refund _ id => (match findById pre.swaps id with
        | some p => if p.status == .expired && !cfg.blocked p.sender then some (predfail "C13_refund_always_possible" s!"refused dir={p.dir.code}") else none
        | none => none)
    | .claim _ id rn => (match findById pre.swaps id with
        | some p =>
          if p.status != .open || !preimageOk p rn then none
          else match p.dir with
            | .outgoing => some (predfail "C13_claim_outgoing_always_possible" "refused")
            | .incoming => (match assetOf pre p.denom with
                | some a =>
                  let s0 := supOf pre p.denom
                  if !cfg.blocked p.recipient && decide (s0.current + p.amt ≤ a.limit) && (!a.timeLimited || decide (s0.tlCurrent + p.amt ≤ a.tbl))
                    then some (predfail "C13_claim_incoming_possible_within_limits" "refused") else none
                | none => none)
        | none => none)
    | _ => none
  first [perSwap, newOk, closeOk, fundsOk, bankOk, currentOk, limitsOk, tlOk, govOk, possibleOk]

def winOf (shadow : List (List Int)) (d : Nat) : Int :=
  match shadow.find? (fun r => r.getD 0 (-1) == (d : Int)) with
  | some r => r.getD 2 0
  | none => 0

/-- the time-limited allowance against the harness's own period clock (not the stored TimeElapsed) -/
def shadowPreds (cmd : Cmd) (ok : Bool) (pre post : OSt) (shadow : List (List Int)) : Option String :=
  -- within one real period the accepted incoming volume stays within the time-based limit
  let exceeded : Option String :=
    if !ok then none else
    match cmd with
    | .create _ _ _ snd _ _ [(d, _)] => (match assetOf pre d with
        | some a => if snd == a.deputy && a.timeLimited && decide (winOf shadow d + (supOf post d).incoming > a.tbl)
            then some (predfail "C13_limits" s!"time-limit-exceeded-within-period create denom={d}") else none
        | none => none)
    | .claim _ id _ => (match findById pre.swaps id with
        | some p => (match assetOf pre p.denom with
            | some a => if p.dir == .incoming && a.timeLimited && decide (winOf shadow p.denom > a.tbl)
                then some (predfail "C13_limits" s!"time-limit-exceeded-within-period claim denom={p.denom}") else none
            | none => none)
        | none => none)
    | _ => none
  let drift : Option String := shadow.findSome? (fun r => match r with
    | [d, el, win] =>
      let sp := supOf post d.toNat
      if sp.elapsed != el then some (predfail "C13_limits" s!"time-elapsed-drift denom={d}")
      else if sp.tlCurrent != win then some (predfail "C13_limits" s!"time-limited-current-drift denom={d}")
      else none
    | _ => some (badInput "shadow"))
  first [exceeded, drift]

def parseCdep (s : String) : Option (List (Nat × Nat)) := do
  (← rows s).mapM (fun r => match r with
    | [id, dep] => some (id.toNat, dep.toNat)
    | _ => none)

def handleCase (kind cfg pre args tabs limStable shadow cdep result post : String) : String :=
    match parseCfg cfg, parseSt pre, ints? args, parseTabs tabs, bool? limStable, parseSt post, rows shadow, parseCdep cdep with
    | some cfg, some pre, some args, some tabs, some limStable, some post, some shadow, some cdep =>
      match parseCmd kind args with
      | none => badInput "args"
      | some cmd =>
        -- (2) the property predicates on the implementation's own observation (independent of the model;
        --     evaluated first so that a broken implementation is reported with its failing input)
        let pf : Option String :=
          if result == "panic" then some (predfail "C13_no_panic" kind)
          else match shadowPreds cmd (result == "ok") pre post shadow with
            | some f => some f
            | none => match statePreds cfg post limStable cdep with
              | some f => some f
              | none => stepPreds cfg tabs cmd (result == "ok") pre post
        match pf with
        | some f => f
        | none =>
          -- (1) model vs implementation
          let hs := hashesOf tabs pre
          let res := apply cfg hs (toSt pre) (toOp cmd)
          let modelCls := match res with | .ok _ => "ok" | .err => "err" | .panic => "panic"
          if modelCls != result then mismatch "result" modelCls result
          else
            let m := match res with | .ok s' => ofSt post s' | _ => pre
            cmpSt m post
    | _, _, _, _, _, _, _, _ => badInput "parse"

def handle : Handler
  | [kind, cfg, pre, args, tabs, limStable, shadow, _, result, post] =>
    handleCase kind cfg pre args tabs limStable shadow "-" result post
  | [kind, cfg, pre, args, tabs, limStable, shadow, cdep, _, result, post] =>
    handleCase kind cfg pre args tabs limStable shadow cdep result post
  | _ => badInput "arity"

def handlers : List (String × Handler) := [("c13.op", handle)]
end Drv.C13
