import Driver.Util
namespace Drv.C19
/-- handlers of property C19: (command name, handler) -/
def handlers : List (String × Handler) := []
end Drv.C19
