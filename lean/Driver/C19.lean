import Driver.Util
import KavaVerif.Model.Emissions
/-!
  C19 driver.  Every case line carries the implementation's observed input and output.  A handler
  (1) runs the Lean model (`live` variant for kavadist) on the observed input and compares → MISMATCH,
  (2) evaluates the property predicates on the implementation's own output, independently of the
      model → PREDFAIL <C19_theorem_name> <tag> …

  Times are nanoseconds since the Unix epoch, `none` = Go's zero time / "not found".  Dec values are
  mantissas (10^-18).  Periods are `start:end:rate` joined by `;` (`-` = none).

  c19.calc       now last err rate pool            => paid err'
  c19.part       rate t0 e0 times pools            => paids err' whole
  c19.periods    kind now prev periods             => mints te          (mints = idx:secs;…)
  c19.kdhist     prev periods blocks               => -                 (blocks = now:active:idx=secs,…;…)
  c19.mintamt    supply rate secs                  => amount
  c19.relpow     x n1 n2                           => z1 z2
  c19.stakehist  ref0 e0 blocks(time:rate:paid:pool;…) => -
  c19.paramsmsg  now route authOk newUpgrade newRate newUpgradeRate | observation before
                                                   => class, observation after, observation the keeper route gives
  c19.fullblock  now inflow mintProv prevBlock | community params | inflation params | staking state | kavadist state
                                                   => class and the same observation afterwards
-/
namespace Drv.C19
open KV KV.Em

def NSi : Int := 1000000000

def optInt? (s : String) : Option (Option Int) :=
  let t := s.trimAscii.toString
  if t == "none" then some none else (int? t).map some

def showOpt : Option Int → String
  | none => "none"
  | some x => toString x

def period? (s : String) : Option Period :=
  match s.splitOn ":" with
  | [a, b, r] =>
    match int? a, int? b, int? r with
    | some a, some b, some r => some ⟨a, b, ⟨r⟩⟩
    | _, _, _ => none
  | _ => none

def periods? (s : String) : Option (List Period) := (strs s ";").mapM period?

def pair? (sep : String) (s : String) : Option (Int × Int) :=
  match s.splitOn sep with
  | [a, b] =>
    match int? a, int? b with
    | some a, some b => some (a, b)
    | _, _ => none
  | _ => none

def showMints (ms : List (Int × Int)) : String :=
  if ms.isEmpty then "-" else ";".intercalate (ms.map fun (i, s) => s!"{i}:{s}")

def mintsOf (ms : List Mint) : List (Int × Int) := ms.map fun m => ((m.idx : Int), m.secs)

def imax (a b : Int) : Int := if a < b then b else a
def imin (a b : Int) : Int := if a < b then a else b

/-- Unix seconds of `[start, end] ∩ (prev, now]` -/
def allowedSecs (p : Period) (prev now : Int) : Int :=
  imax 0 (unix (imin p.end_ now) - unix (imax p.start prev))

/-! ### c19.calc -/

def calcPred (now last err rate poolm paid err' : Int) : String :=
  if !(last ≤ now && 0 ≤ rate && 0 ≤ err && err < P && 0 ≤ poolm && poolm % P == 0) then "ok"
  else if err' < 0 || err' ≥ P then predfail "C19_staking_partition" s!"error-out-of-range err'={err'}"
  else if paid < 0 then predfail "C19_staking_partition" s!"negative-payout paid={paid}"
  else if paid * P > poolm then predfail "C19_staking_partition" s!"pool-cap paid={paid} pool={poolm / P}"
  else if NSi * (paid * P + err' - err) > rate * (now - last) then
    predfail "C19_staking_partition" s!"exceeds-rate paid={paid}"
  else if paid * P + err' < poolm && rate * (now - last) - NSi * (paid * P + err' - err) ≥ NSi then
    predfail "C19_staking_partition" s!"shortfall paid={paid}"
  else "ok"

def handleCalc : Handler
  | [now, last, err, rate, pool, _, paid, err'] =>
    match int? now, int? last, int? err, int? rate, int? pool, int? paid, int? err' with
    | some now, some last, some err, some rate, some pool, some paid, some err' =>
      let r := calculateStakingRewards now last ⟨err⟩ ⟨rate⟩ ⟨pool⟩
      -- the property predicate on the implementation's output first, then model = implementation
      allOk [calcPred now last err rate pool paid err',
             expectEq "paid" (toString r.1) (toString paid), expectEq "err" (toString r.2.m) (toString err')]
    | _, _, _, _, _, _, _ => badInput "parse"
  | _ => badInput "arity"

/-! ### c19.part -/

def lastOr (d : Int) : List Int → Int
  | [] => d
  | [x] => x
  | _ :: xs => lastOr d xs

def sortedL : Int → List Int → Bool
  | _, [] => true
  | t, x :: xs => decide (t ≤ x) && sortedL x xs

def handlePart : Handler
  | [rate, t0, e0, times, pools, _, paids, err', whole] =>
    match int? rate, int? t0, int? e0, ints? times, ints? pools, ints? paids, int? err' with
    | some rate, some t0, some e0, some times, some pools, some paids, some err' =>
      if times.length != pools.length || times.length != paids.length then badInput "lengths" else
      let bs := times.zip pools
      let r := runBlocks ⟨rate⟩ t0 ⟨e0⟩ bs
      let cmp := allOk [expectEq "paids" (showInts r.1) (showInts paids),
                        expectEq "err" (toString r.2.2.m) (toString err')]
      -- the theorem's predicates on the implementation's own outputs
      let pred :=
        if !(0 ≤ rate && 0 ≤ e0 && e0 < P && sortedL t0 times && pools.all (fun p => decide (0 ≤ p))) then "ok" else
        let total := sumL paids
        let tn := lastOr t0 times
        let n : Int := times.length
        let capOk := (paids.zip pools).all fun (p, b) => decide (0 ≤ p) && decide (p ≤ b)
        let uncappedObs := (paids.zip pools).all fun (p, b) => decide (p < b)
        if err' < 0 || err' ≥ P then predfail "C19_staking_partition" s!"error-out-of-range err'={err'}"
        else if !capOk then predfail "C19_staking_partition" "pool-cap"
        else if NSi * (total * P + err') > rate * (tn - t0) + NSi * e0 then
          predfail "C19_staking_partition" s!"exceeds-rate total={total}"
        else if uncappedObs && rate * (tn - t0) + NSi * e0 - NSi * (total * P) ≥ NSi * (P + n) then
          predfail "C19_staking_partition" s!"shortfall total={total} n={n}"
        else
          match int? whole with
          | some w =>
            if uncappedObs && (total - w > 1 || w - total > 1) then
              predfail "C19_staking_partition_independent" s!"partition-dependent total={total} whole={w}"
            else "ok"
          | none => "ok"
      if pred != "ok" then pred else cmp
    | _, _, _, _, _, _, _ => badInput "parse"
  | _ => badInput "arity"

/-! ### c19.periods / c19.kdhist -/

def dupIdx : List (Int × Int) → Bool
  | [] => false
  | (i, _) :: rest => rest.any (fun (j, _) => j == i) || dupIdx rest

/-- window predicate on one observed `(period index, timeElapsed)` of a block `(prev, now]` -/
def windowPred (ps : List Period) (prev now : Int) (obs : List (Int × Int)) : String :=
  if dupIdx obs then predfail "C19_kavadist_never_twice" "same-period-twice-in-one-call" else
  let check := fun (acc : String) (o : Int × Int) =>
    if acc != "ok" then acc else
    match ps[o.1.toNat]? with
    | none => badInput "period-index"
    | some p =>
      let secs := o.2
      if secs < 0 then predfail "C19_kavadist_window" s!"negative-seconds idx={o.1} secs={secs}"
      else if secs ≤ allowedSecs p prev now then "ok"
      else if prev < p.start && secs ≤ unix (imin p.end_ now) - unix prev then
        predfail "C19_kavadist_window" s!"before-start idx={o.1} secs={secs} allowed={allowedSecs p prev now}"
      else if secs > unix now - unix prev then
        predfail "C19_kavadist_window" s!"outside-block idx={o.1} secs={secs} allowed={allowedSecs p prev now}"
      else predfail "C19_kavadist_window" s!"after-end idx={o.1} secs={secs} allowed={allowedSecs p prev now}"
  obs.foldl check "ok"

def handlePeriods : Handler
  | [kind, now, prev, periods, _, mints, te] =>
    if mints.trimAscii.toString == "panic" then
      -- the real function panicked: the only modelled cause is an infrastructure mint call for zero
      -- coins (with the harness' recording bank the coins minted equal `timeElapsed`)
      match int? now, int? prev, periods? periods with
      | some now, some prev, some ps =>
        let ms := mintIncentivePeriods live now ps prev 0
        -- malformed stream (previous block time after now, or a period with end < start which
        -- validatePeriodsParams rejects): a negative `timeElapsed` makes sdkmath.NewUintFromBigInt
        -- panic; unreachable
        if (now < prev || ps.any (fun p => decide (p.end_ < p.start))) && ms.any (fun m => decide (m.secs < 0)) then "ok"
        else if liveZeroMintPanics && kind == "infra" && ms.any (fun m => m.secs == 0) then
          predfail "C19_begin_block_no_panic" "kavadist-infra-zero-mint pure"
        else mismatch "result" "ok" "panic"
      | _, _, _ => badInput "parse"
    else
    match int? now, int? prev, periods? periods, (strs mints ";").mapM (pair? ":") with
    | some now, some prev, some ps, some obs =>
      let cmp :=
        if kind == "inc" then
          expectEq "mints" (showMints (mintsOf (mintIncentivePeriods live now ps prev 0))) (showMints obs)
        else
          let r := mintInfrastructurePeriods live now ps prev 0 0
          allOk [expectEq "mints" (showMints (mintsOf r.1)) (showMints obs),
                 expectEq "timeElapsed" (toString r.2) te.trimAscii.toString]
      let pred := if prev ≤ now then windowPred ps prev now obs else "ok"
      if pred != "ok" then pred
      else if cmp != "ok" then cmp
      else if liveZeroMintPanics && kind == "infra" && obs.any (fun o => o.2 == 0) then mismatch "result" "panic" "ok"
      else "ok"
    | _, _, _, _ => badInput "parse"
  | _ => badInput "arity"

structure HBlock where
  now : Int
  active : Bool
  obs : List (Int × Int)

def hblock? (s : String) : Option HBlock :=
  match s.splitOn ":" with
  | [now, act, obs] =>
    match int? now, bool? act, (strs obs ",").mapM (pair? "=") with
    | some now, some act, some obs => some ⟨now, act, obs⟩
    | _, _, _ => none
  | _ => none

def addSecs (tot : List Int) (obs : List (Int × Int)) : List Int :=
  tot.zipIdx.map fun (t, i) => t + sumL ((obs.filter fun o => o.1 == (i : Int)).map (·.2))

def handleKdHist : Handler
  | [prev0, periods, blocks, _, _] =>
    match int? prev0, periods? periods, (strs blocks ";").mapM hblock? with
    | some prev0, some ps, some bs =>
      -- thread `previousBlockTime` as MintPeriodInflation does
      let step := fun (st : String × Int × List Int) (b : HBlock) =>
        if st.1 != "ok" then st else
        if !b.active then
          (if b.obs.isEmpty then "ok" else predfail "C19_disable_once" "kavadist-minted-while-inactive", st.2.1, st.2.2)
        else
          let prev := st.2.1
          let m := mintsOf (mintIncentivePeriods live b.now ps prev 0)
          let cmp := expectEq "mints" (showMints m) (showMints b.obs)
          let pred := if prev ≤ b.now then windowPred ps prev b.now b.obs else "ok"
          let r := if pred != "ok" then pred else cmp
          (r, b.now, addSecs st.2.2 b.obs)
      let fin := bs.foldl step ("ok", prev0, ps.map (fun _ => 0))
      if fin.1 != "ok" then fin.1 else
      -- never twice: cumulative seconds per period never exceed the seconds that elapsed
      let tn := fin.2.1
      let bad := (fin.2.2.zipIdx).find? fun (t, _) => decide (t > unix tn - unix prev0) || decide (t < 0)
      match bad with
      | some (t, i) => predfail "C19_kavadist_never_twice" s!"cumulative idx={i} secs={t} elapsed={unix tn - unix prev0}"
      | none => "ok"
    | _, _, _ => badInput "parse"
  | _ => badInput "arity"

/-! ### c19.mintamt / c19.relpow -/

def handleMintAmt : Handler
  | [supply, rate, secs, _, amount] =>
    match int? supply, int? rate, int? secs, int? amount with
    | some supply, some rate, some secs, some amount =>
      let m := mintAmount relPow18 supply ⟨rate⟩ secs
      if m != amount then mismatch "amount" (toString m) (toString amount)
      else if rate ≥ P && 0 ≤ supply && amount < 0 then predfail "C19_kavadist_amount_monotone" "negative-amount"
      else "ok"
    | _, _, _, _ => badInput "parse"
  | _ => badInput "arity"

def handleRelPow : Handler
  | [x, n1, n2, _, z1, z2] =>
    match int? x, int? n1, int? n2, int? z1, int? z2 with
    | some x, some n1, some n2, some z1, some z2 =>
      let c := allOk [expectEq "relpow" (toString (relPow18 x n1)) (toString z1),
                      expectEq "relpow" (toString (relPow18 x n2)) (toString z2)]
      if c != "ok" then c
      -- monitored assumptions of C19_kavadist_amount_monotone (rates ≥ 1)
      else if x ≥ P && n1 ≤ n2 && z1 > z2 then predfail "C19_kavadist_amount_monotone" "assumption-relpow-not-monotone"
      else if x ≥ P && z1 < P then predfail "C19_kavadist_amount_monotone" "assumption-relpow-below-one"
      else "ok"
    | _, _, _, _, _ => badInput "parse"
  | _ => badInput "arity"

/-! ### c19.fullblock -/

structure FullObs where
  upgrade : Option Int
  rate : Int
  upgradeRate : Int
  mintMin : Int
  mintMax : Int
  kdActive : Bool
  tax : Int
  last : Option Int
  err : Int
  pool : Int
  fee : Int
  kdPrev : Option Int
  supply : Int
  kdBal : Int
deriving DecidableEq

def fullObs? : List String → Option FullObs
  | [u, r, ur, mn, mx, ka, tx, l, e, p, f, kp, s, kb] =>
    match optInt? u, int? r, int? ur, int? mn, int? mx, bool? ka, int? tx, optInt? l, int? e, int? p, int? f,
          optInt? kp, int? s, int? kb with
    | some u, some r, some ur, some mn, some mx, some ka, some tx, some l, some e, some p, some f,
      some kp, some s, some kb => some ⟨u, r, ur, mn, mx, ka, tx, l, e, p, f, kp, s, kb⟩
    | _, _, _, _, _, _, _, _, _, _, _, _, _, _ => none
  | _ => none

def fullPred (now inflow : Int) (refT : Option Int) (ps infra : List Period) (pre post : FullObs) : String :=
  -- the switch-over: fires exactly when the trigger is set and not after `now`
  let shouldFire := match pre.upgrade with
    | some u => decide (u ≤ now)
    | none => false
  let firedObs := pre.upgrade.isSome && post.upgrade.isNone
  if shouldFire && !firedObs then predfail "C19_disable_once" "not-fired-at-or-after-upgrade-time"
  else if !shouldFire && post.upgrade != pre.upgrade then predfail "C19_disable_once" "trigger-changed-early"
  else if shouldFire && !(post.mintMin == 0 && post.mintMax == 0 && !post.kdActive) then
    predfail "C19_disable_once" "inflation-left-on"
  else if !shouldFire && !(post.mintMin == pre.mintMin && post.mintMax == pre.mintMax &&
      post.kdActive == pre.kdActive && post.rate == pre.rate && post.tax == pre.tax) then
    predfail "C19_disable_once" "params-changed-without-firing"
  else
  let kdMinted := post.kdBal - pre.kdBal
  let mintProv := (post.supply - pre.supply) - kdMinted
  if post.mintMin == 0 && post.mintMax == 0 && mintProv != 0 then
    predfail "C19_disable_once" s!"mint-minted-after-disable amount={mintProv}"
  else if !post.kdActive && (kdMinted != 0 || post.kdPrev != pre.kdPrev) then
    predfail "C19_disable_once" s!"kavadist-minted-while-inactive amount={kdMinted}"
  else
  -- staking payout of this block
  let poolIn := if shouldFire then pre.pool + inflow else pre.pool
  let paid := poolIn - post.pool
  if paid < 0 || paid > poolIn then predfail "C19_staking_partition" s!"pool-cap paid={paid} pool={poolIn}"
  else if post.fee - pre.fee != paid + mintProv then
    predfail "C19_staking_payout" s!"not-conserved paid={paid} feeDelta={post.fee - pre.fee} mint={mintProv}"
  else if post.err < 0 || post.err ≥ P then predfail "C19_staking_partition" "error-out-of-range"
  else
  -- (a) nothing is paid for time before the previous block.  `refT` is the harness's own log: the time of
  -- the previous block of this history (for the first block: the accumulation time the history was
  -- configured with; `none` = not initialised, the block must pay nothing).  Independent of the
  -- implementation's LastAccumulationTime.
  let earlierOk := match refT with
    | some t => decide (now < t) || decide (NSi * (paid * P) ≤ post.rate * (now - t) + NSi * P)
    | none => decide (paid == 0)
  if !earlierOk then
    predfail "C19_staking_partition" s!"paid-for-earlier-time paid={paid} rate={post.rate} prevBlock={showOpt refT} now={now}"
  else
  -- (a') and nothing of the time since the previous block goes unpaid: unless the pool cap binds, the block
  -- pays more than rate in force × (now − previous block) − 1 unit − 10^-18 (again from the harness's own log
  -- of the previous block time: a re-initialised accumulation clock, e.g. after a params update, shows here)
  let shortOk := match refT with
    | some t => decide (now < t) || decide (paid ≥ poolIn) || decide (NSi * (paid * P + P + 1) > post.rate * (now - t))
    | none => true
  if !shortOk then
    predfail "C19_staking_partition" s!"shortfall paid={paid} rate={post.rate} prevBlock={showOpt refT} now={now} accumulationTime={showOpt pre.last}"
  else
  let rateOk := match pre.last with
    | some l => decide (NSi * (paid * P + post.err - pre.err) ≤ post.rate * (now - l)) || decide (now < l)
    | none => decide (paid == 0)
  if !rateOk then predfail "C19_staking_partition" s!"exceeds-rate paid={paid}"
  else
  -- kavadist: the coins minted never exceed what the periods' own windows allow
  match pre.kdPrev with
  | none => if kdMinted != 0 then predfail "C19_kavadist_window" "minted-without-previous-block-time" else "ok"
  | some prev =>
    if !post.kdActive || now < prev then "ok" else
    let allowed := (ps ++ infra).map fun p => (⟨0, p, 0, 0, allowedSecs p prev now⟩ : Mint)
    let bound := (applyMints relPow18 (pre.supply + mintProv) allowed).2 - (pre.supply + mintProv)
    if (ps ++ infra).all (fun p => decide (p.inflation.m ≥ P)) && kdMinted > bound then
      let tag := if (ps ++ infra).any (fun p => decide (prev < p.start) && decide (p.end_ ≤ now)) then "before-start"
                 else "outside-window"
      predfail "C19_kavadist_window" s!"{tag} minted={kdMinted} allowed={bound}"
    else "ok"

def handleFull : Handler
  | now :: inflow :: mintProvDry :: refT :: rest =>
    -- rest = 12 pre fields (community+infl+staking), kdPrev, periods, infra, supply, kdBal, "=>", cls, 14 post fields
    match rest with
    | [u, r, ur, mn, mx, ka, tx, l, e, p, f, kp, periods, infra, s, kb, _, cls,
       u', r', ur', mn', mx', ka', tx', l', e', p', f', kp', s', kb'] =>
      match int? now, int? inflow, int? mintProvDry, optInt? refT, fullObs? [u, r, ur, mn, mx, ka, tx, l, e, p, f, kp, s, kb],
            periods? periods, periods? infra with
      | some now, some inflow, some mintProvDry, some refT, some pre, some ps, some infra =>
        let c : Chain :=
          { comm := { params := ⟨pre.upgrade, ⟨pre.rate⟩, ⟨pre.upgradeRate⟩⟩,
                      infl := ⟨⟨pre.mintMin⟩, ⟨pre.mintMax⟩, pre.kdActive, ⟨pre.tax⟩⟩,
                      stk := ⟨pre.last, ⟨pre.err⟩, pre.pool, pre.fee⟩ },
            kd := ⟨pre.kdPrev, ps, infra⟩, supply := pre.supply }
        let res := chainBeginBlock live liveZeroMintPanics relPow18 now inflow mintProvDry c
        if cls != "ok" then
          -- the implementation's begin blocker panicked: a violation whatever the model says
          let tag := match res, communityBeginBlock now inflow c.comm with
            | .ok _, _ => "not-predicted-by-model"
            | _, .ok _ => "kavadist-infra-zero-mint"
            | _, _ => "community-payout"
          predfail "C19_begin_block_no_panic" s!"{tag} class={cls}"
        else
        match res with
        | .ok c' =>
          match fullObs? [u', r', ur', mn', mx', ka', tx', l', e', p', f', kp', s', kb'] with
          | none => badInput "post"
          | some post =>
            let kdMinted := post.kdBal - pre.kdBal
            let mintProv := (post.supply - pre.supply) - kdMinted
            let cmp := allOk [
              expectEq "mintProv(dry run)" (toString mintProvDry) (toString mintProv),
              expectEq "upgradeTime" (showOpt c'.comm.params.upgradeTime) (showOpt post.upgrade),
              expectEq "rate" (toString c'.comm.params.rate.m) (toString post.rate),
              expectEq "upgradeRate" (toString c'.comm.params.upgradeRate.m) (toString post.upgradeRate),
              expectEq "mintMin" (toString c'.comm.infl.mintMin.m) (toString post.mintMin),
              expectEq "mintMax" (toString c'.comm.infl.mintMax.m) (toString post.mintMax),
              expectEq "kdActive" (showBool c'.comm.infl.kavadistActive) (showBool post.kdActive),
              expectEq "communityTax" (toString c'.comm.infl.communityTax.m) (toString post.tax),
              expectEq "last" (showOpt c'.comm.stk.last) (showOpt post.last),
              expectEq "err" (toString c'.comm.stk.err.m) (toString post.err),
              expectEq "pool" (toString c'.comm.stk.pool) (toString post.pool),
              expectEq "fee" (toString (c'.comm.stk.fee + mintProv)) (toString post.fee),
              expectEq "kdPrev" (showOpt c'.kd.prev) (showOpt post.kdPrev),
              expectEq "kdMinted" (toString c'.kdMinted) (toString kdMinted),
              expectEq "supply" (toString c'.supply) (toString post.supply)]
            let pred := fullPred now inflow refT ps infra pre post
            if pred != "ok" then pred else cmp
        | _ => mismatch "result" res.cls cls
      | _, _, _, _, _, _, _ => badInput "parse"
    | _ => badInput "arity"
  | _ => badInput "arity"

/-! ### c19.stakehist — (b) a whole keeper-level history with rate changes -/

/-- `time:rate:paid:pool` (`pool` = balance the block's payout saw; absent in old logs = unknown) -/
def hblockS? (s : String) : Option (Int × Int × Int × Option Int) :=
  match s.splitOn ":" with
  | [a, b, c] =>
    match int? a, int? b, int? c with
    | some a, some b, some c => some (a, b, c, none)
    | _, _, _ => none
  | [a, b, c, d] =>
    match int? a, int? b, int? c, int? d with
    | some a, some b, some c, some d => some (a, b, c, some d)
    | _, _, _, _ => none
  | _ => none

/-- running state of the shortfall predicate: previous block time, the unpaid balance `D` of the current
    uncapped stretch in mantissa·ns (`NS·e0 + Σ rate_b·Δt_b − NS·P·Σ paid_b`), its block count, whether the
    stretch began after a capped block (carried error then known only to be in [0,1)), block index, verdict -/
structure ShortSt where
  prev : Option Int
  d : Int
  n : Int
  afterCap : Bool
  idx : Nat
  res : String

/-- fields: ref0 e0 blocks "=>" "-".  `blocks` is the harness's own log of (block time, rate in force in
    that block = the rate stored when its begin blocker paid, amount that left the community pool for the
    fee collector in that block, pool balance that payout saw).  Rate changes come from params-update
    messages / keeper updates executed after the begin blocker of a block and from the switch-over.
    Predicates (C19_staking_rate_changes on the real observation):
    * total paid ≤ Σ_b rate_b·(t_b − t_{b−1}) + carried-in error (< 1 unit);
    * over every stretch of blocks in which the pool cap does not bind, after every block:
      Σ rate_b·Δt_b + carried-in error − paid < 1 + n·10^-18 units (n = blocks of the stretch) — a wiped
      carried error or a re-initialised accumulation clock (an interval never paid) breaks this — and ≥ 0. -/
def handleStakeHist : Handler
  | [ref0, e0, blocks, _, _] =>
    match optInt? ref0, int? e0, (strs blocks ";").mapM hblockS? with
    | some ref0, some e0, some bs =>
      let step := fun (st : Option Int × Int × Int × Bool) (b : Int × Int × Int × Option Int) =>
        -- (previous time, Σ rate·Δt, Σ paid, times sorted)
        match st.1 with
        | none => (some b.1, st.2.1, st.2.2.1 + b.2.2.1, st.2.2.2)
        | some t => (some b.1, st.2.1 + b.2.1 * (b.1 - t), st.2.2.1 + b.2.2.1, st.2.2.2 && decide (t ≤ b.1))
      let fin := bs.foldl step (ref0, 0, 0, true)
      let bound := fin.2.1
      let total := fin.2.2.1
      if !fin.2.2.2 || e0 < 0 || e0 ≥ P || bs.any (fun b => decide (b.2.1 < 0)) then "ok"
      else if NSi * (total * P) > bound + NSi * e0 then
        predfail "C19_staking_partition" s!"paid-for-earlier-time history total={total} bound={bound / (NSi * P)} blocks={bs.length}"
      else
      let sstep := fun (st : ShortSt) (b : Int × Int × Int × Option Int) =>
        if st.res != "ok" then st else
        let (t, rate, paid, pool) := b
        match st.prev with
        | none =>
          -- un-initialised state: the first block only records the time and pays nothing
          if paid != 0 then { st with res := (predfail "C19_staking_rate_changes" s!"paid-before-initialised block={st.idx} paid={paid}") }
          else { st with prev := some t, idx := st.idx + 1 }
        | some p =>
          let d' := st.d + rate * (t - p) - NSi * P * paid
          let n' := st.n + 1
          let capped := match pool with
            | some q => decide (paid ≥ q)
            | none => true
          if capped then { prev := some t, d := 0, n := 0, afterCap := true, idx := st.idx + 1, res := "ok" }
          else if d' ≥ NSi * (P + n') then
            { st with res := (predfail "C19_staking_rate_changes"
                s!"shortfall block={st.idx} time={t} rate={rate} paid={paid} unpaid={d' / (NSi * P)} units after {n'} uncapped blocks") }
          else if d' < (if st.afterCap then -(NSi * P) else 0) then
            { st with res := (predfail "C19_staking_rate_changes" s!"exceeds-rate block={st.idx} time={t} rate={rate} paid={paid}") }
          else { st with prev := some t, d := d', n := n', idx := st.idx + 1 }
      (bs.foldl sstep { prev := ref0, d := NSi * e0, n := 0, afterCap := false, idx := 0, res := "ok" }).res
    | _, _, _ => badInput "parse"
  | _ => badInput "arity"

/-! ### c19.paramsmsg — a community params update inside a block (governance message or keeper route) -/

def obsDiff (a b : FullObs) : String :=
  " ".intercalate ([
    (decide (a.upgrade = b.upgrade), "upgradeTime"), (decide (a.rate = b.rate), "rate"),
    (decide (a.upgradeRate = b.upgradeRate), "upgradeRate"), (decide (a.mintMin = b.mintMin), "mintMin"),
    (decide (a.mintMax = b.mintMax), "mintMax"), (decide (a.kdActive = b.kdActive), "kavadistActive"),
    (decide (a.tax = b.tax), "communityTax"), (decide (a.last = b.last), "lastAccumulationTime"),
    (decide (a.err = b.err), "truncationError"), (decide (a.pool = b.pool), "pool"), (decide (a.fee = b.fee), "feeCollector"),
    (decide (a.kdPrev = b.kdPrev), "kavadistPrevBlockTime"), (decide (a.supply = b.supply), "supply"),
    (decide (a.kdBal = b.kdBal), "kavadistBalance")].filterMap fun (same, name) => if same then none else some name)

/-- The property's schedule (`C19_staking_rate_changes`: paid = Σ rate in force × elapsed, error carried)
    needs a params update to be the identity on the accumulation state — the model's `updateParamsMsg`.
    Evaluated on the real msg server / keeper: an accepted update changes the three community params and
    nothing else (accumulation time and carried error in particular; no funds move); a rejected one (wrong
    authority, invalid params) changes nothing; the message and the keeper route give the same state. -/
def handleParamsMsg : Handler := fun fs =>
  if fs.length != 50 then badInput "arity" else
  match fs.take 6, fullObs? ((fs.drop 6).take 14), fs[21]?, fullObs? ((fs.drop 22).take 14),
        fullObs? ((fs.drop 36).take 14) with
  | [_, route, auth, nu, nr, nur], some pre, some cls, some post, some via =>
    match bool? auth, optInt? nu, int? nr, int? nur with
    | some auth, some nu, some nr, some nur =>
      let new : CommParams := ⟨nu, ⟨nr⟩, ⟨nur⟩⟩
      let s : CommSt :=
        { params := ⟨pre.upgrade, ⟨pre.rate⟩, ⟨pre.upgradeRate⟩⟩,
          infl := ⟨⟨pre.mintMin⟩, ⟨pre.mintMax⟩, pre.kdActive, ⟨pre.tax⟩⟩,
          stk := ⟨pre.last, ⟨pre.err⟩, pre.pool, pre.fee⟩ }
      let res : Res CommSt := if route == "keeper" then .ok { s with params := new } else updateParamsMsg auth new s
      let chg := s!"rate={pre.rate}->{nr} route={route}"
      if cls == "panic" then predfail "C19_staking_rate_changes" s!"update-panicked {chg}"
      else if cls != "ok" then
        if post != pre then predfail "C19_staking_rate_changes" s!"rejected-update-changed-state changed=[{obsDiff pre post}] {chg}"
        else match res with
          | .ok _ => mismatch "result" "ok" cls
          | _ => "ok"
      else if route == "msg" && !auth then predfail "C19_staking_rate_changes" s!"update-accepted-without-authority {chg}"
      else if post.last != pre.last || post.err != pre.err then
        predfail "C19_staking_rate_changes"
          s!"update-touched-accumulation-state lastAccumulationTime={showOpt pre.last}->{showOpt post.last} truncationError={pre.err}->{post.err} {chg}"
      else if post.pool != pre.pool || post.fee != pre.fee || post.supply != pre.supply then
        predfail "C19_staking_rate_changes" s!"update-moved-funds pool={pre.pool}->{post.pool} fee={pre.fee}->{post.fee} {chg}"
      else if obsDiff { pre with upgrade := post.upgrade, rate := post.rate, upgradeRate := post.upgradeRate } post != "" then
        predfail "C19_staking_rate_changes" s!"update-changed-other-state changed=[{obsDiff { pre with upgrade := post.upgrade, rate := post.rate, upgradeRate := post.upgradeRate } post}] {chg}"
      else if route == "msg" && post != via then
        predfail "C19_staking_rate_changes" s!"route-dependent changed=[{obsDiff via post}] {chg}"
      else match res with
        | .ok s' =>
          allOk [expectEq "upgradeTime" (showOpt s'.params.upgradeTime) (showOpt post.upgrade),
                 expectEq "rate" (toString s'.params.rate.m) (toString post.rate),
                 expectEq "upgradeRate" (toString s'.params.upgradeRate.m) (toString post.upgradeRate)]
        | r => mismatch "result" r.cls cls
    | _, _, _, _ => badInput "parse"
  | _, _, _, _, _ => badInput "parse"

def handlers : List (String × Handler) := [
  ("c19.calc", handleCalc),
  ("c19.part", handlePart),
  ("c19.periods", handlePeriods),
  ("c19.kdhist", handleKdHist),
  ("c19.mintamt", handleMintAmt),
  ("c19.relpow", handleRelPow),
  ("c19.fullblock", handleFull),
  ("c19.stakehist", handleStakeHist),
  ("c19.paramsmsg", handleParamsMsg)
]
end Drv.C19
