import Driver.Loop
import Driver.Num
import Driver.C11
/-- driver executable of property C11 -/
def main : IO UInt32 := Drv.runMain (Drv.Num.handlers ++ Drv.C11.handlers)
