import Driver.Util
namespace Drv.C01
/-- handlers of property C01: (command name, handler) -/
def handlers : List (String × Handler) := []
end Drv.C01
