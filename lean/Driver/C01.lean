import Driver.Util
import KavaVerif.Model.Determinism
/-!
  C01 driver.

  * `c01.maprange file fn n` / `c01.maprange-total total ranges` — the harness' type-checked listing of map
    ranges in /repo; compared with the translator's table `KV.Gen.C01.mapRanges` (MISMATCH = the translator
    missed or invented a site, so `C01_all_sites_discharged` would be about the wrong table).
  * `c01.sum`, `c01.sortedkeys`, `c01.selections` — the real functions called repeatedly on one Go map
    (different iteration orders): (1) the Lean transcription of the loop run on the entries must give the same
    value (MISMATCH), (2) all repetitions must agree (PREDFAIL, the property predicate on the implementation).
  * `c01.height`, `c01.tx` — per-height / per-tx observations of leader, fresh replicas and the restarted
    replica: the predicate "all replicas agree" is evaluated here (PREDFAIL C01_replicas_agree <what>).
-/
namespace Drv.C01
open KV.Det

def allEq (l : List String) : Bool :=
  match l with
  | [] => true
  | x :: xs => xs.all (· == x)

def agree (what plan height : String) (col : String) : String :=
  let xs := col.splitOn ","
  if xs.length < 2 then badInput s!"no-replicas {what}"
  else if allEq xs then "ok"
  else predfail "C01_replicas_agree" s!"{what} plan={plan} height={height} values={col}"

def handleHeight : Handler
  | [plan, height, _n, cause, app, bb, eb] =>
    let tag := fun (w : String) => if cause == "-" then w else s!"{w} after={cause}"
    allOk [agree (tag "bbevents") plan height bb, agree (tag "ebevents") plan height eb, agree (tag "apphash") plan height app]
  | _ => badInput "c01.height arity"

def handleTx : Handler
  | [plan, height, idx, kind, code, stage, col, evs, logs] =>
    allOk [agree s!"tx-code-gas stage={stage} kind={kind} code={code} idx={idx}" plan height col,
           agree s!"tx-events-data stage={stage} kind={kind} code={code} idx={idx}" plan height evs,
           agree s!"txlog stage={stage} kind={kind} code={code} idx={idx}" plan height logs]
  | _ => badInput "c01.tx arity"

def handleMapRange : Handler
  | [file, fn, n] =>
    match nat? n with
    | some n => expectEq s!"translator-map-ranges {file} {fn}" (toString (sitesIn file fn)) (toString n)
    | none => badInput "count"
  | _ => badInput "c01.maprange arity"

def handleMapRangeTotal : Handler
  | [total, _ranges] => expectEq "translator-map-ranges-total" (toString KV.Gen.C01.mapRanges.length) total
  | _ => badInput "c01.maprange-total arity"

def handleTypedError : Handler
  | _ => badInput "typed-listing-failed"

def reps (s : String) : List String := s.splitOn ";"

def handleSum : Handler
  | [keys, vals, _, results] =>
    match ints? vals with
    | some vs =>
      let ks := strs keys
      if ks.length != vs.length then badInput "len" else
      let rs := reps results
      if !allEq rs then predfail "C01_site_valuation_sum_perm_invariant" s!"order-dependent results={results}"
      else expectEq "ValuationMap.Sum" (toString (valuationSum (ks.zip vs))) (rs.headD "")
    | none => badInput "vals"
  | _ => badInput "c01.sum arity"

def handleSortedKeys : Handler
  | [keys, _, results] =>
    let ks := strs keys
    let rs := reps results
    if !allEq rs then predfail "C01_site_sorted_keys_perm_invariant" s!"order-dependent results={results}"
    else expectEq "GetSortedKeys" (",".intercalate (sortedKeys (ks.map (fun k => (k, ()))))) (rs.headD "")
  | _ => badInput "c01.sortedkeys arity"

def handleSelections : Handler
  | [keys, vals, _, results] =>
    let ks := strs keys
    let vs := strs vals
    if ks.length != vs.length then badInput "len" else
    let rs := reps results
    if !allEq rs then predfail "C01_site_selections_perm_invariant" s!"order-dependent results={results}"
    else
      let m := ",".intercalate ((selections (ks.zip vs)).map (fun p => p.1 ++ "=" ++ p.2))
      expectEq "NewSelectionsFromMap" m (rs.headD "")
  | _ => badInput "c01.selections arity"

/-- handlers of property C01: (command name, handler) -/
def handlers : List (String × Handler) := [
  ("c01.height", handleHeight), ("c01.tx", handleTx),
  ("c01.maprange", handleMapRange), ("c01.maprange-total", handleMapRangeTotal), ("c01.typed-error", handleTypedError),
  ("c01.sum", handleSum), ("c01.sortedkeys", handleSortedKeys), ("c01.selections", handleSelections)
]
end Drv.C01
