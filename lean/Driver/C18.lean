import Driver.Util
import KavaVerif.Model.Pricefeed
/-!
  C18 driver. One self-contained case per line (observed pre-state, operation, `=>`, observed result).
  Every handler (1) runs the Lean model on the observed input and compares (MISMATCH) and (2) evaluates
  the property's predicates on the implementation's own observation, independently of the model
  (PREDFAIL): the expected price is recomputed from the harness's own log of accepted posts with the
  sort-free rank specification `specMedian`, not from the keeper's store and not with the model's sort.

  encodings:  posts   `m:o:price:expiry;…` | `-`            (store order for raw stores, time order for logs)
              markets `id:active:o1|o2|…;…`                 (params order)
              cur     `m=mantissa|x;…`                      (x = no key / error)
-/
namespace Drv.C18
open KV KV.PF

def post? (s : String) : Option Post :=
  match s.splitOn ":" with
  | [m, o, p, e] =>
    match nat? m, nat? o, int? p, int? e with
    | some m, some o, some p, some e => some ⟨m, o, p, e⟩
    | _, _, _, _ => none
  | _ => none

def posts? (s : String) : Option (List Post) := (strs s ";").mapM post?

def showPost (p : Post) : String := s!"{p.market}:{p.oracle}:{p.price}:{p.expiry}"
def showPosts (l : List Post) : String := if l.isEmpty then "-" else ";".intercalate (l.map showPost)

def market? (s : String) : Option MarketP :=
  match s.splitOn ":" with
  | [i, a, os] =>
    match nat? i, bool? a, (strs os "|").mapM nat? with
    | some i, some a, some os => some ⟨i, os, a⟩
    | _, _, _ => none
  | _ => none

def markets? (s : String) : Option (List MarketP) := (strs s ";").mapM market?

/-- `m=v` with v an integer or `x` -/
def kv? (s : String) : Option (Nat × Option Int) :=
  match s.splitOn "=" with
  | [m, v] =>
    match nat? m with
    | some m => if v.trimAscii.toString == "x" then some (m, none) else (int? v).map (fun i => (m, some i))
    | none => none
  | _ => none

def kvs? (s : String) : Option (List (Nat × Option Int)) := (strs s ";").mapM kv?

def curOf (l : List (Nat × Option Int)) : Nat → Option Int := fun m => (l.lookup m).getD none

def showOpt : Option Int → String
  | none => "x"
  | some v => toString v

/-! ### independent expectation from the log of accepted posts -/

/-- latest accepted post of every (market, oracle), scanning the log from its end -/
def latestOf (log : List Post) : List Post :=
  log.reverse.foldl (fun acc p => if acc.any (fun q => q.market == p.market && q.oracle == p.oracle) then acc else acc ++ [p]) []

/-- what the prose says the price of an active market is after the block -/
def expected (log : List Post) (now : Int) (m : Nat) : Option Int :=
  let ne := ((latestOf (log.filter (fun p => p.market == m))).filter (fun p => decide (now < p.expiry))).map (·.price)
  if ne.isEmpty then none
  else let v := specMedian ne
       if v == 0 then none else some v

/-! ### c18.median : list shuffled => class out1 out2 -/
def hMedian : Handler
  | [l, l2, _, cls, o1, o2] =>
    match ints? l, ints? l2 with
    | some l, some l2 =>
      match calculateMedianPrice l with
      | .panic => expectEq "class" "panic" cls
      | .err => badInput "model-err"
      | .ok v =>
        if cls != "ok" then mismatch "class" "ok" cls
        -- the property on the observation first (it does not depend on the model)
        else if o1 != o2 then predfail "C18_median_perm" "order-dependent"
        else if toString (specMedian l) != o1 then predfail "C18_median_is_middle" "not-middle-rank"
        else if toString v != o1 then mismatch "median" (toString v) o1
        else if toString (median l2) != o2 then mismatch "median-shuffled" (toString (median l2)) o2
        else "ok"
    | _, _ => badInput "parse"
  | _ => badInput "arity"

/-! ### c18.post : now markets rawPre m o price expiry via => class rawPost -/
def hPost : Handler
  | [now, ms, raw, m, o, price, expiry, via, _, cls, raw'] =>
    match int? now, markets? ms, posts? raw, nat? m, nat? o, int? price, int? expiry, posts? raw' with
    | some now, some ms, some raw, some m, some o, some price, some expiry, some raw' =>
      let p : Post := ⟨m, o, price, expiry⟩
      let s : St := ⟨raw, fun _ => none⟩
      let res := if via == "msg" then postPrice now ms s p else setPrice now s p
      let mcls := match res with | .ok _ => "ok" | .err => "err" | .panic => "panic"
      -- the property on the observation first (it does not depend on the model)
      let same := raw'.filter (fun q => q.market == m && q.oracle == o)
      let other (l : List Post) := l.filter (fun q => !(q.market == m && q.oracle == o))
      let pred :=
        if cls == "ok" && expiry ≤ now then predfail "C18_post_expired_refused" "accepted-expired"
        else if cls == "ok" && same != [p] then predfail "C18_one_price_per_oracle" "slot-not-replaced"
        else if cls == "ok" && other raw' != other raw then predfail "C18_one_price_per_oracle" "other-slot-changed"
        else if cls != "ok" && raw' != raw then predfail "C18_post_expired_refused" "refused-but-written"
        else "ok"
      if pred != "ok" then pred
      else if mcls != cls then mismatch "class" mcls cls
      else match res with
        | .ok s' => expectEq "raw" (showPosts s'.raw) (showPosts raw')
        | _ => "ok"
    | _, _, _, _, _, _, _, _ => badInput "parse"
  | _ => badInput "arity"

/-! ### c18.endblock : now markets raw curPre log => curPost getPost perMarket
    perMarket: `m=errflag:stored|x;…` = the real per-market `SetCurrentPrices` run on a scratch branch -/
def pm? (s : String) : Option (Nat × Bool × Option Int) :=
  match s.splitOn "=" with
  | [m, r] =>
    match r.splitOn ":" with
    | [e, v] =>
      match nat? m, bool? e with
      | some m, some e =>
        if v.trimAscii.toString == "x" then some (m, e, none) else (int? v).map (fun i => (m, e, some i))
      | _, _ => none
    | _ => none
  | _ => none

def firstBad : List String → String := allOk

def hEndBlock : Handler
  | [now, ms, raw, curPre, log, _, curPost, getPost, perMarket] =>
    match int? now, markets? ms, posts? raw, kvs? curPre, posts? log, kvs? curPost, kvs? getPost,
          (strs perMarket ";").mapM pm? with
    | some now, some ms, some raw, some curPre, some log, some curPost, some getPost, some pms =>
      let s : St := ⟨raw, curOf curPre⟩
      let s' := setAll now ms s
      -- (1) model vs implementation: stored values, GetCurrentPrice, and the per-market routine
      let c1 := firstBad (curPost.map fun (m, v) => expectEq s!"cur[{m}]" (showOpt (s'.cur m)) (showOpt v))
      let c2 := firstBad (getPost.map fun (m, v) => expectEq s!"get[{m}]" (showOpt (getCurrentPrice s' m)) (showOpt v))
      let c3 := firstBad (pms.map fun (m, e, v) =>
        let r := setCurrentPrices now ms s m
        allOk [expectEq s!"per-market-err[{m}]" (showBool r.2) (showBool e),
               expectEq s!"per-market-cur[{m}]" (showOpt (r.1.cur m)) (showOpt v)])
      let cmp := allOk [c1, c2, c3]
      -- (2) the property on the observation: price = median of unexpired latest posts (from the log)
      let act := (ms.filter (·.active)).map (·.id)
      let p1 := firstBad (act.map fun m =>
        let want := expected log now m
        let got := (getPost.lookup m).getD none
        if want == got then "ok"
        else match want, got with
          | none, some _ => predfail "C18_endblock_price" s!"stale-or-zero-price-served market={m} got={showOpt got}"
          | some _, none => predfail "C18_endblock_price" s!"live-price-missing market={m} want={showOpt want}"
          | _, _ => predfail "C18_endblock_price" s!"not-median market={m} want={showOpt want} got={showOpt got}")
      let p2 := firstBad (act.map fun m =>
        match pms.lookup m with
        | some (_, v) => if v == (curPost.lookup m).getD none then "ok"
                         else predfail "C18_two_impls_agree" s!"impls-differ market={m}"
        | none => "ok")
      -- a property failure outranks a model mismatch
      allOk [p1, p2, cmp]
    | _, _, _, _, _, _, _, _ => badInput "parse"
  | _ => badInput "arity"

/-! ### c18.flags : cps avail flagsPre => flagsPost     (cps `spot:liq;…`, others `m=0|1;…`) -/
def cp? (s : String) : Option CP :=
  match s.splitOn ":" with
  | [a, b] => match nat? a, nat? b with
    | some a, some b => some ⟨a, b⟩
    | _, _ => none
  | _ => none

def boolOf (l : List (Nat × Option Int)) : Nat → Bool := fun m => ((l.lookup m).getD none) == some 1

def hFlags : Handler
  | [cps, avail, pre, _, post] =>
    match (strs cps ";").mapM cp?, kvs? avail, kvs? pre, kvs? post with
    | some cps, some avail, some pre, some post =>
      let price : Nat → Option Int := fun m => if boolOf avail m then some 1 else none
      let f := beginFlags price cps (boolOf pre)
      let cmp := firstBad (post.map fun (m, v) => expectEq s!"flag[{m}]" (showBool (f m)) (showOpt v))
      if cmp != "ok" then cmp
      else firstBad (cps.map fun cp =>
        if boolOf post cp.spot != boolOf avail cp.spot then predfail "C18_consumers_refuse" s!"flag-untrue spot={cp.spot}"
        else if boolOf avail cp.spot && boolOf post cp.liq != boolOf avail cp.liq then
          predfail "C18_consumers_refuse" s!"flag-untrue liq={cp.liq}"
        else "ok")
    | _, _, _, _ => badInput "parse"
  | _ => badInput "arity"

/-! ### c18.gate.cdp : action spotAvail liqAvail flagSpot flagLiq collZero control => class errkind
    errkind ∈ price | other | - ; control = class of the same message while every price was up
    (for `blockliq`: `skip` when the block height is off the liquidation interval, else `run`;
     class `ok` = the CDP was seized by the begin blocker) -/
def hGateCdp : Handler
  | [action, sa, la, fs, fl, cz, control, _, cls, kind] =>
    match bool? sa, bool? la, bool? fs, bool? fl, bool? cz with
    | some sa, some la, some fs, some fl, some cz =>
      -- the property on the observation alone: the price this action values with must be there
      let needed := match action with
        | "liquidate" => la
        | _ => sa && la
      if !needed && cls == "ok" then
        predfail "C18_consumers_refuse" s!"cdp-{action}-proceeded-without-price"
      else
      -- the gate model on the observed flags and availability, every other check permissive
      let cp : CP := ⟨0, 1⟩
      let price : Nat → Option Int := fun m =>
        if m == 0 then (if sa then some 1 else none) else (if la then some 1 else none)
      let flags : Nat → Bool := fun m => if m == 0 then fs else fl
      let i : CdpIn := { collZero := cz, cmp0 := action == "liquidate" }
      let res : Res Unit := match action with
        | "create" => cdpCreate price flags cp i
        | "deposit" => cdpDeposit flags cp i
        | "withdraw" => cdpWithdraw price flags cp i
        | "draw" => cdpDraw price flags cp i
        | "liquidate" => cdpLiquidate price cp i
        | "blockliq" => if beginSeizes price cp (control == "skip") then .ok () else .err
        | _ => .panic
      match res with
      | .panic => badInput "action"
      | .err => if cls == "ok" then mismatch "gate" "err" cls else "ok"
      | .ok _ => if kind == "price" then mismatch "gate" "price-available" "price-error" else "ok"
    | _, _, _, _, _ => badInput "parse"
  | _ => badInput "arity"

/-! ### c18.gate.hard : action req dep bor avail control => class errkind
    req/dep/bor: denom indices (for withdraw `dep` is the deposit that would remain); avail: per denom 0|1 -/
def hGateHard : Handler
  | [action, req, dep, bor, avail, _control, _, cls, kind] =>
    match nats? req, nats? dep, nats? bor, nats? avail with
    | some req, some dep, some bor, some avail =>
      let price : Nat → Option Int := fun m => if avail.getD m 0 == 1 then some 1 else none
      let mm : Nat → Option Nat := fun d => if d < avail.length then some d else none
      let valued := match action with
        | "borrow" => req ++ dep ++ bor
        | _ => dep ++ bor
      let allThere := valued.all (fun d => avail.getD d 0 == 1)
      if !allThere && cls == "ok" then predfail "C18_consumers_refuse" s!"hard-{action}-proceeded-without-price"
      else
        let res := match action with
          | "borrow" => hardBorrow price mm req dep bor {}
          | "withdraw" => hardWithdraw price mm dep bor {}
          | "liquidate" => hardLiquidate price mm dep bor {}
          | _ => .panic
        match res with
        | .panic => badInput "action"
        | .err => if cls == "ok" then mismatch "gate" "err" cls else "ok"
        | .ok _ => if kind == "price" then mismatch "gate" "price-available" "price-error" else "ok"
    | _, _, _, _ => badInput "parse"
  | _ => badInput "arity"

def handlers : List (String × Handler) := [
  ("c18.median", hMedian),
  ("c18.post", hPost),
  ("c18.endblock", hEndBlock),
  ("c18.flags", hFlags),
  ("c18.gate.cdp", hGateCdp),
  ("c18.gate.hard", hGateHard)
]
end Drv.C18
