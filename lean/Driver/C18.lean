import Driver.Util
namespace Drv.C18
/-- handlers of property C18: (command name, handler) -/
def handlers : List (String × Handler) := []
end Drv.C18
