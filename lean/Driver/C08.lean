import Driver.Util
namespace Drv.C08
/-- handlers of property C08: (command name, handler) -/
def handlers : List (String × Handler) := []
end Drv.C08
