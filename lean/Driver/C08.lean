import Driver.Util
import KavaVerif.Model.Hard
set_option linter.unusedVariables false
/-!
  C08 driver.  One self-contained case per line (written by harness/cmd/c08):

  c08.op kind cfg minBorrow pre a b coins extra "=>" result post aucs syncedPre syncedPost probe
    kind   ∈ deposit | withdraw | borrow | repay | liquidate | begin
    cfg    = per denom `cf,price,ltv,reserveFactor,keeperReward,hasMax,maxLimit` joined by `;` (Dec mantissas)
    pre/post = dep|depIdx|bor|borIdx|supIdx|brwIdx|supplied|borrowed|reserves|cash|bal|accr
               (user rows joined by `;`, denoms by `,`, `n` = no entry)
    a, b   = user indices (repay: sender, owner; liquidate: keeper, borrower)
    extra  = begin: `now;phi…;apyPositive…` (the real CalculateBorrowInterestFactor outputs), else `-`
    result = ok | err:<codespace>/<code> | panic
    aucs   = auctions started by the operation `lotDenom:lot:bidDenom:maxBid,…`
    synced = GetSyncedDeposit rows | GetSyncedBorrow rows (`p` = the query panicked)
    probe  = result of an immediate AttemptKeeperLiquidation in a discarded context (after ok borrow/withdraw)
    floor  = the harness's own log: `syncedDep|syncedBor|supIdx|brwIdx` as the previous case of the sequence left
             them (`-` at the start of a sequence)
    kind `params` = a governance params change (`SetParams`; the new money markets show in the cfg of the next `begin`)
    extra of `begin` has a fourth part, one letter per denom: `s` = no money market in the params nor in the store
             (the begin blocker skips the denom), anything else = it accrues with the market given in cfg (the store's;
             the params' one for a denom being listed)
    extra = `unlisted=0,1,0` on other kinds: denoms that have no money market (their price in cfg is 0)

  The handler (1) runs the Lean model on the observed pre-state and compares result class, error code,
  post-state and auctions (MISMATCH), and (2) evaluates the property predicates on the implementation's
  own observation (PREDFAIL <C08_name> <tag>), independently of (1): a PREDFAIL outranks a MISMATCH.
-/
namespace Drv.C08
open KV KV.Hard

/-! ### parsing -/

def optInt? (s : String) : Option (Option Int) :=
  let t := s.trimAscii.toString
  if t == "n" then some none else (int? t).map some

def optInts? (s : String) : Option (List (Option Int)) := (s.splitOn ",").mapM optInt?

def mat? (s : String) : Option (List (List Int)) := (s.splitOn ";").mapM ints?
def optMat? (s : String) : Option (List (List (Option Int))) := (s.splitOn ";").mapM optInts?

def fn (l : List Int) : Nat → Int := fun i => l.getD i 0
def fn2 (m : List (List Int)) : Nat → Nat → Int := fun u d => (m.getD u []).getD d 0
def ofn (l : List (Option Int)) : Nat → Option Int := fun i => l.getD i none
def ofn2 (m : List (List (Option Int))) : Nat → Nat → Option Int := fun u d => (m.getD u []).getD d none

def market? (s : String) : Option Market :=
  match s.splitOn "," with
  | [cf, price, ltv, rf, kr, hm, ml] =>
    match int? cf, int? price, int? ltv, int? rf, int? kr, bool? hm, int? ml with
    | some cf, some price, some ltv, some rf, some kr, some hm, some ml =>
      some ⟨cf, ⟨price⟩, ⟨ltv⟩, ⟨rf⟩, ⟨kr⟩, hm, ⟨ml⟩⟩
    | _, _, _, _, _, _, _ => none
  | _ => none

def cfg? (ms minB : String) : Option Cfg :=
  match (ms.splitOn ";").mapM market?, int? minB with
  | some l, some mb => some ⟨List.range l.length, fun d => l.getD d default, ⟨mb⟩⟩
  | _, _ => none

def st? (s : String) : Option St :=
  match s.splitOn "|" with
  | [dep, depIdx, bor, borIdx, supIdx, brwIdx, supplied, borrowed, reserves, cash, bal, accr] =>
    match mat? dep, optMat? depIdx, mat? bor, optMat? borIdx, optInts? supIdx, optInts? brwIdx,
          ints? supplied, ints? borrowed, ints? reserves, ints? cash, mat? bal, optInts? accr with
    | some dep, some depIdx, some bor, some borIdx, some supIdx, some brwIdx,
      some supplied, some borrowed, some reserves, some cash, some bal, some accr =>
      some { dep := fn2 dep, depIdx := ofn2 depIdx, bor := fn2 bor, borIdx := ofn2 borIdx, supIdx := ofn supIdx,
             brwIdx := ofn brwIdx, supplied := fn supplied, borrowed := fn borrowed, reserves := fn reserves,
             cash := fn cash, bal := fn2 bal, accr := ofn accr, aucs := [] }
    | _, _, _, _, _, _, _, _, _, _, _, _ => none
  | _ => none

/-! ### printing -/

def showOpt (o : Option Int) : String := match o with | none => "n" | some v => toString v
def rowS (nd : Nat) (f : Nat → Int) : String := ",".intercalate ((List.range nd).map (fun d => toString (f d)))
def rowO (nd : Nat) (f : Nat → Option Int) : String := ",".intercalate ((List.range nd).map (fun d => showOpt (f d)))
def matS (nu nd : Nat) (f : Nat → Nat → Int) : String := ";".intercalate ((List.range nu).map (fun u => rowS nd (f u)))
def matO (nu nd : Nat) (f : Nat → Nat → Option Int) : String := ";".intercalate ((List.range nu).map (fun u => rowO nd (f u)))

def comps (nu nd : Nat) (s : St) : List (String × String) :=
  [("dep", matS nu nd s.dep), ("depIdx", matO nu nd s.depIdx), ("bor", matS nu nd s.bor), ("borIdx", matO nu nd s.borIdx),
   ("supIdx", rowO nd s.supIdx), ("brwIdx", rowO nd s.brwIdx), ("supplied", rowS nd s.supplied),
   ("borrowed", rowS nd s.borrowed), ("reserves", rowS nd s.reserves), ("cash", rowS nd s.cash),
   ("bal", matS nu nd s.bal), ("accr", rowO nd s.accr)]

def showAucs (l : List Auction) : String :=
  if l.isEmpty then "-" else ",".intercalate (l.map (fun a => s!"{a.lotDenom}:{a.lot}:{a.bidDenom}:{a.maxBid}"))

def errCode : Err → String
  | .invalidDepositDenom => "hard/2" | .depositNotFound => "hard/3" | .invalidWithdrawAmount => "hard/4"
  | .depositsNotFound => "hard/10" | .insufficientLtv => "hard/11" | .marketNotFound => "hard/12"
  | .priceNotFound => "hard/13" | .borrowExceedsBalance => "hard/14" | .borrowedCoinsNotFound => "hard/15"
  | .borrowLimit => "hard/17" | .borrowEmptyCoins => "hard/18" | .borrowNotFound => "hard/19"
  | .insufficientBalanceForRepay => "hard/21" | .notLiquidatable => "hard/22" | .insufficientCoins => "hard/23"
  | .suppliedCoinsNotFound => "hard/25" | .invalidWithdrawDenom => "hard/27" | .invalidRepaymentDenom => "hard/28"
  | .invalidIndexFactorDenom => "hard/29" | .belowMinimumBorrow => "hard/30" | .exceedsProtocolBorrowable => "hard/31"
  | .reservesExceedCash => "hard/32" | .insufficientFunds => "sdk/5" | .noValidPrice => "pricefeed/4"

def resS : Res St → String
  | .ok _ => "ok"
  | .err e => "err:" ++ errCode e
  | .panic => "panic"

/-- result class when some denom has no money market (`anyUnl`): the keeper looks a money market up exactly where it
    then looks the price up, so the model's price errors (price 0 in the cfg of an unlisted denom; listed denoms
    always have a price in the harness) are the keeper's `ErrMarketNotFound` -/
def resU (anyUnl : Bool) : Res St → String
  | .err .priceNotFound => if anyUnl then "err:" ++ errCode .marketNotFound else "err:" ++ errCode .priceNotFound
  | .err .noValidPrice => if anyUnl then "err:" ++ errCode .marketNotFound else "err:" ++ errCode .noValidPrice
  | r => resS r

/-- `unlisted=0,1,0` → flags per denom -/
def unlisted (extra : String) : Nat → Bool :=
  match extra.splitOn "=" with
  | ["unlisted", fl] =>
    let l := (fl.splitOn ",").map (fun t => t.trimAscii.toString == "1")
    fun d => l.getD d false
  | _ => fun _ => false

/-! ### running the model -/

/-- `hard.BeginBlocker` = `ApplyInterestRateUpdates`: every denom that has a money market (in the params or in the
    store) accrues with the effective market of the cfg, the others are skipped -/
def beginBlock (cfg : Cfg) (s : St) (now : Int) (phis : List Int) (apys : List Bool) (modes : List Char) : Res St :=
  applyRateUpdates cfg now (fun d => modes.getD d 'a' != 's') (fun d => ⟨phis.getD d P⟩) (fun d => apys.getD d false) cfg.ds s

def runOp (kind : String) (cfg : Cfg) (s : St) (a b : Nat) (coins : Coins) (extra : String) : Option (Res St) :=
  match kind with
  | "deposit" =>
    -- `ValidateDeposit` (after the supply sync): a coin without money market is refused
    if (supp cfg.ds coins).any (unlisted extra) then
      some (match deposit cfg s a coins with | .panic => .panic | _ => .err .invalidDepositDenom)
    else some (deposit cfg s a coins)
  | "withdraw" => some (withdraw cfg s a coins)
  | "borrow" => some (borrow cfg s a coins)
  | "repay" => some (repay cfg s a b coins)
  | "liquidate" => some (liquidate cfg s a b)
  | "params" => some (.ok s)   -- `SetParams`: no x/hard state besides the params
  | "begin" =>
    match extra.splitOn ";" with
    | [now, phis, apys] =>
      match int? now, ints? phis, (apys.splitOn ",").mapM bool? with
      | some now, some phis, some apys => some (beginBlock cfg s now phis apys [])
      | _, _, _ => none
    | [now, phis, apys, modes] =>
      match int? now, ints? phis, (apys.splitOn ",").mapM bool? with
      | some now, some phis, some apys => some (beginBlock cfg s now phis apys modes.trimAscii.toString.toList)
      | _, _, _ => none
    | _ => none
  | _ => none

def firstDiff : List (String × String) → List String → String
  | (n, m) :: t, i :: ti => if m == i then firstDiff t ti else mismatch n m i
  | _, _ => "ok"

/-! ### property predicates on the implementation's observation -/

def rows (nu : Nat) : List Nat := List.range nu

/-- records of every user except the listed ones are identical in the two observations -/
def frameOk (nu nd : Nat) (pre post : St) (touched : List Nat) : Bool :=
  (rows nu).all fun u => touched.contains u ||
    (rowS nd (pre.dep u) == rowS nd (post.dep u) && rowO nd (pre.depIdx u) == rowO nd (post.depIdx u) &&
     rowS nd (pre.bor u) == rowS nd (post.bor u) && rowO nd (pre.borIdx u) == rowO nd (post.borIdx u))

def withinB (cfg : Cfg) (dep bor : Coins) : Option Bool :=
  match isWithinLtv cfg dep bor with
  | .ok b => some b
  | _ => none

/-- synced rows `a,b,c;…` or `p` per user -/
def syncedRows (s : String) : List (Option (List Int)) :=
  (s.splitOn ";").map (fun r => if r.trimAscii.toString == "p" then none else ints? r)

def monoRows (pre post : List (Option (List Int))) : Option String :=
  let rec go : List (Option (List Int)) → List (Option (List Int)) → Option String
    | some a :: ta, some b :: tb =>
      if (List.zip a b).any (fun (x, y) => decide (y < x)) then some "decreased" else go ta tb
    | some _ :: _, none :: _ => some "query-panics"
    | _ :: ta, _ :: tb => go ta tb
    | _, _ => none
  go pre post

def predBegin (nd : Nat) (pre post : St) (spre spost : String) : String :=
  let ds := List.range nd
  let lt (a b : Option Int) : Bool := match a, b with | some x, some y => decide (y < x) | _, _ => false
  match ds.find? (fun d => lt (pre.brwIdx d) (post.brwIdx d)) with
  | some d => predfail "C08_borrow_index_monotone" s!"denom={d}"
  | none =>
    match ds.find? (fun d => lt (pre.supIdx d) (post.supIdx d)) with
    | some d =>
      let tag := if pre.reserves d > pre.cash d + pre.borrowed d then "reserves-exceed-cash-plus-borrows"
        else if lt (some 0) (pre.supIdx d) then "index-already-negative" else "other"
      predfail "C08_supply_index_monotone" s!"{tag} denom={d} pre={showOpt (pre.supIdx d)} post={showOpt (post.supIdx d)}"
    | none =>
      match spre.splitOn "|", spost.splitOn "|" with
      | [dp, bp], [dq, bq] =>
        match monoRows (syncedRows dp) (syncedRows dq) with
        | some why => predfail "C08_synced_monotone" s!"deposit-{why}"
        | none =>
          match monoRows (syncedRows bp) (syncedRows bq) with
          | some why => predfail "C08_synced_monotone" s!"borrow-{why}"
          | none => "ok"
      | _, _ => badInput "synced"

/-! "With no action by the user a deposit's claimable amount and a borrow's owed amount never decrease": evaluated on
    the queries of the real keeper for EVERY case — (i) from the harness's log of the previous case to this case's
    pre-state (nothing but price moves happens in between), (ii) across the case for every user it does not act on
    (bystanders of a message, everybody for a begin blocker or a params change) — and on the global factors. -/

structure Floor where
  dep : List (Option (List Int))
  bor : List (Option (List Int))
  sup : List (Option Int)
  brw : List (Option Int)

def floor? (s : String) : Option (Option Floor) :=
  if s.trimAscii.toString == "-" then some none else
  match s.splitOn "|" with
  | [d, b, su, br] =>
    match optInts? su, optInts? br with
    | some su, some br => some (some ⟨syncedRows d, syncedRows b, su, br⟩)
    | _, _ => none
  | _ => none

/-- first user (not in `skip`) whose synced row decreased in some denom, or whose query worked before and panics now -/
def rowsDrop (skip : List Nat) (pre post : List (Option (List Int))) : Option String :=
  (List.range pre.length).findSome? fun u =>
    if skip.contains u then none else
    match pre.getD u none, post.getD u none with
    | some a, some b =>
      (List.range a.length).findSome? fun d =>
        if b.getD d 0 < a.getD d 0 then some s!"decreased user={u} denom={d} from={a.getD d 0} to={b.getD d 0}" else none
    | some a, none => if u < post.length then some s!"query-panics user={u}" else none
    | _, _ => none

/-- first denom whose global factor decreased or disappeared -/
def idxDrop (nd : Nat) (a b : Nat → Option Int) : Option String :=
  (List.range nd).findSome? fun d =>
    match a d, b d with
    | some x, some y => if y < x then some s!"denom={d} from={x} to={y}" else none
    | some x, none => some s!"denom={d} from={x} to=none"
    | _, _ => none

def predMono (kind : String) (nd : Nat) (pre : St) (post : Option St) (spre spost : String) (fl : Option Floor)
    (touched : List Nat) : String :=
  match spre.splitOn "|", spost.splitOn "|" with
  | [dp, bp], [dq, bq] =>
    -- the user-visible clause first (amounts, queries), then the global factors
    let since : String :=
      match fl with
      | none => "ok"
      | some f =>
        match rowsDrop [] f.dep (syncedRows dp) with
        | some w => predfail "C08_interest_monotone" s!"deposit-{w} since-previous-case"
        | none =>
        match rowsDrop [] f.bor (syncedRows bp) with
        | some w => predfail "C08_interest_monotone" s!"borrow-{w} since-previous-case"
        | none =>
        match idxDrop nd (ofn f.brw) pre.brwIdx with
        | some w => predfail "C08_borrow_index_monotone" s!"since-previous-case {w}"
        | none =>
        match idxDrop nd (ofn f.sup) pre.supIdx with
        | some w => predfail "C08_supply_index_monotone" s!"since-previous-case {w}"
        | none => "ok"
    if since != "ok" then since else
    match post with
    | none => "ok"
    | some post =>
      match rowsDrop touched (syncedRows dp) (syncedRows dq) with
      | some w => predfail "C08_interest_monotone" s!"deposit-{w} no-action-by-user across={kind}"
      | none =>
      match rowsDrop touched (syncedRows bp) (syncedRows bq) with
      | some w => predfail "C08_interest_monotone" s!"borrow-{w} no-action-by-user across={kind}"
      | none =>
      match idxDrop nd pre.brwIdx post.brwIdx with
      | some w => predfail "C08_borrow_index_monotone" s!"across={kind} {w}"
      | none =>
      match idxDrop nd pre.supIdx post.supIdx with
      | some w => predfail "C08_supply_index_monotone" s!"across={kind} {w}"
      | none => "ok"
  | _, _ => badInput "synced"

/-- the borrower's position as `AttemptKeeperLiquidation` syncs it (model sync on the observed pre-state) -/
def syncedPos (cfg : Cfg) (pre : St) (u : Nat) : Option (Coins × Coins) :=
  match syncBorrow cfg pre u with
  | .ok s1 => match syncSupply cfg s1 u with
    | .ok s2 => some (s2.dep u, s2.bor u)
    | _ => none
  | _ => none

def parseAucs (s : String) : List Auction :=
  (strs s).filterMap fun a => match a.splitOn ":" with
    | [ld, lot, bd, bid] => match nat? ld, int? lot, nat? bd, int? bid with
      | some ld, some lot, some bd, some bid => some ⟨ld, lot, bd, bid⟩
      | _, _, _, _ => none
    | _ => none

def predLiquidate (cfg : Cfg) (nu nd : Nat) (pre post : St) (keeper borrower : Nat) (aucs : String) : String :=
  match syncedPos cfg pre borrower with
  | none => "ok"
  | some (dep, bor) =>
    if withinB cfg dep bor == some true then predfail "C08_within_ltv_not_liquidatable" "liquidated-within-range"
    else if !frameOk nu nd pre post [borrower] then predfail "C08_liquidation_frame" "other-user-changed"
    else if (List.range nd).any (fun d => post.dep borrower d != 0 || post.bor borrower d != 0) then
      predfail "C08_liquidation_frame" "record-not-deleted"
    else
      let lots : Coins := fun d => ((parseAucs aucs).filter (fun a => a.lotDenom == d)).foldl (fun acc a => acc + a.lot) 0
      let dK : Coins := fun d => post.bal keeper d - pre.bal keeper d
      let dB : Coins := fun d => post.bal borrower d - pre.bal borrower d
      let out : Coins := fun d => if keeper == borrower then lots d + dK d else lots d + dK d + dB d
      let ds := List.range nd
      if (rows nu).any (fun u => u != keeper && u != borrower && rowS nd (pre.bal u) != rowS nd (post.bal u)) then
        predfail "C08_liquidation_frame" "bystander-balance-changed"
      else if keeper != borrower && ds.any (fun d => dK d != keeperReward cfg dep d) then
        predfail "C08_liquidation_frame" "keeper-reward-not-floor"
      else if ds.any (fun d => decide (dK d < 0) || decide (dB d < 0)) then predfail "C08_liquidation_frame" "negative-payout"
      else if ds.any (fun d => decide (out d > dep d)) then predfail "C08_liquidation_frame" "more-than-deposit-paid-out"
      else if ds.any (fun d => decide (pre.cash d - post.cash d > dep d)) then predfail "C08_liquidation_frame" "more-than-deposit-left-module"
      else if ds.any (fun d => decide (pre.cash d - post.cash d != out d)) then predfail "C08_liquidation_frame" "cash-not-conserved"
      else "ok"

def predBorrow (cfg : Cfg) (nd : Nat) (post : St) (u : Nat) (coins : Coins) (probe : String) : String :=
  let excess := valueOf cfg (post.bor u) - borrowable cfg (post.dep u)
  let n : Int := ((supp cfg.ds coins).length : Nat)
  if probe == "ok" then
    let tag := if 0 < excess && excess ≤ n then "ulp-rounding" else "beyond-rounding"
    predfail "C08_borrow_within_ltv" s!"{tag} excess={excess} denoms={n}"
  else if probe == "err:hard/22" && withinB cfg (post.dep u) (post.bor u) == some false then
    mismatch "probe" "liquidatable" probe
  else "ok"

def predWithdraw (cfg : Cfg) (nd : Nat) (pre post : St) (u : Nat) (coins : Coins) (probe : String) : String :=
  if probe == "ok" then predfail "C08_withdraw_within_ltv" "liquidatable-after-withdraw"
  else if withinB cfg (post.dep u) (post.bor u) != some true then predfail "C08_withdraw_within_ltv" "outside-range-after-withdraw"
  else
    match syncedPos cfg pre u with
    | none => "ok"
    | some (dep, _) =>
      if (List.range nd).any (fun d => let w := post.bal u d - pre.bal u d; decide (w > dep d) || decide (w > coins d) || decide (w < 0)) then
        predfail "C08_caps" "withdraw-exceeds-synced-deposit"
      else "ok"

def predRepay (cfg : Cfg) (nd : Nat) (pre post : St) (sender owner : Nat) (coins : Coins) : String :=
  match syncBorrow cfg pre owner with
  | .ok s1 =>
    if (List.range nd).any (fun d => let p := pre.bal sender d - post.bal sender d; decide (p > s1.bor owner d) || decide (p > coins d) || decide (p < 0)) then
      predfail "C08_caps" "repay-exceeds-synced-borrow"
    else "ok"
  | _ => "ok"

/-- `GetSyncedDeposit` / `GetSyncedBorrow` of every user as the model computes them, in the harness's format -/
def syncedModel (nu nd : Nat) (s : St) : String :=
  let row (amt : Nat → Int) (ix : Nat → Option Int) (g : Nat → Option Int) : String :=
    let rs := (List.range nd).map (fun d => if 0 < amt d then loadSyncedAmt (amt d) (ix d) (g d) else .ok (amt d))
    if rs.any (fun r => !r.isOk) then "p"
    else ",".intercalate (rs.map (fun r => match r with | .ok v => toString v | _ => "p"))
  ";".intercalate ((List.range nu).map (fun u => row (s.dep u) (s.depIdx u) s.supIdx)) ++ "|" ++
  ";".intercalate ((List.range nu).map (fun u => row (s.bor u) (s.borIdx u) s.brwIdx))

/-! ### the handler -/

def handleCore (kind cfgS minB preS a b coinsS extra result postS aucs spre spost probe floorS : String) : String :=
    match cfg? cfgS minB, st? preS, nat? a, nat? b, ints? coinsS, floor? floorS with
    | some cfg, some pre, some a, some b, some coinsL, some fl =>
      let coins := fn coinsL
      let nd := cfg.ds.length
      let nu := (preS.splitOn "|").head!.splitOn ";" |>.length
      let anyUnl := (List.range nd).any (unlisted extra)
      let resS := resU (anyUnl && kind != "begin")
      match runOp kind cfg pre a b coins extra with
      | none => badInput "op"
      | some res =>
        if result == "panic:hook" then
          -- the incentive hook (outside the model) panics on an interest factor below one: consequence of a
          -- supply index that decreased (C08_supply_index_monotone); anything else is unexplained
          let below (o : Option Int) : Bool := match o with | some v => decide (v < P) | none => false
          if (List.range nd).any (fun d => below (pre.supIdx d) || (rows nu).any (fun u => below (pre.depIdx u d))) then
            predfail "C08_supply_index_monotone" "index-below-one-hook-panic"
          else mismatch "result" (resS res) result
        else
        -- (2) first: the property predicates on the implementation's own observation, whether or not the model
        -- agrees with it (a PREDFAIL outranks a MISMATCH on the same case)
        let kindPred : String :=
          if result != "ok" then "ok" else
          match st? postS with
          | none => "ok"
          | some post =>
            match kind with
            | "begin" => predBegin nd pre post spre spost
            | "borrow" => if !frameOk nu nd pre post [a] then predfail "C08_frame" "borrow-touched-other-user" else predBorrow cfg nd post a coins probe
            | "withdraw" => if !frameOk nu nd pre post [a] then predfail "C08_frame" "withdraw-touched-other-user" else predWithdraw cfg nd pre post a coins probe
            | "repay" => if !frameOk nu nd pre post [b] then predfail "C08_frame" "repay-touched-other-user" else predRepay cfg nd pre post a b coins
            | "deposit" => if !frameOk nu nd pre post [a] then predfail "C08_frame" "deposit-touched-other-user" else "ok"
            | "liquidate" => predLiquidate cfg nu nd pre post a b aucs
            | _ => "ok"
        -- the users whose records the message is about (their amounts change by their own / an allowed action)
        let touched : List Nat :=
          match kind with
          | "deposit" | "withdraw" | "borrow" => [a]
          | "repay" | "liquidate" => [b]
          | _ => []
        let mono := predMono kind nd pre (if result == "ok" then st? postS else none) spre spost fl touched
        -- across a begin blocker / params change the user-visible clause (a claimable / owed amount decreased, a query
        -- broke) is named first, the factor that caused it in brackets; otherwise the kind's own predicates come first
        let implPred : String :=
          if (kind == "begin" || kind == "params") && mono.startsWith "PREDFAIL C08_interest_monotone" then
            (if kindPred.startsWith "PREDFAIL" then mono ++ " [" ++ kindPred ++ "]" else mono)
          else if kindPred.startsWith "PREDFAIL" then kindPred
          else mono
        if implPred.startsWith "PREDFAIL" || implPred.startsWith "BADINPUT" then implPred
        -- (1) model vs implementation
        else if resS res != result then mismatch "result" (resS res) result
        else if syncedModel nu nd pre != spre then mismatch "synced-queries" (syncedModel nu nd pre) spre
        else if kind == "begin" && result == "panic" then
          predfail "C08_accrue_no_panic" (if (List.range nd).any (fun d => pre.borrowed d != 0 && pre.cash d + pre.borrowed d - pre.reserves d == 0)
            then "utilization-div-zero" else "other")
        else
        match res with
        | .ok s' =>
          let cmp := firstDiff (comps nu nd s') (postS.splitOn "|")
          if cmp != "ok" then cmp
          else if showAucs s'.aucs != aucs then mismatch "aucs" (showAucs s'.aucs) aucs
          else if (st? postS).isNone then badInput "post"
          else implPred
        | _ => "ok"
    | _, _, _, _, _, _ => badInput "parse"

def handle : Handler
  | [kind, cfgS, minB, preS, a, b, coinsS, extra, _, result, postS, aucs, spre, spost, probe] =>
    handleCore kind cfgS minB preS a b coinsS extra result postS aucs spre spost probe "-"
  | [kind, cfgS, minB, preS, a, b, coinsS, extra, _, result, postS, aucs, spre, spost, probe, floorS] =>
    handleCore kind cfgS minB preS a b coinsS extra result postS aucs spre spost probe floorS
  | _ => badInput "arity"

/-- pure correspondence of the sync formulas: `a ui g => SyncSupplyInterest SyncBorrowInterest GetSyncedDeposit GetSyncedBorrow` -/
def handleSync : Handler
  | [a, ui, g, _, sup, bor, qd, qb] =>
    match int? a, int? ui, int? g with
    | some a, some ui, some g =>
      let showR (r : Res Int) : String := match r with | .ok v => toString v | _ => "p"
      let mSup := if syncSupPanics (some ui) then "p" else toString (syncSupAmt a (some ui) g)
      let mBor := if syncBorPanics a (some ui) g then "p" else toString (syncBorAmt a (some ui) g)
      let mQ := showR (loadSyncedAmt a (some ui) (some g))
      allOk [expectEq "syncSupply" mSup sup, expectEq "syncBorrow" mBor bor,
             expectEq "getSyncedDeposit" mQ qd, expectEq "getSyncedBorrow" mQ qb]
    | _, _, _ => badInput "ints"
  | _ => badInput "arity"

def handlers : List (String × Handler) := [("c08.op", handle), ("c08.sync", handleSync)]
end Drv.C08
