/-
  Line-protocol helpers for the correspondence driver.
  A case line is TAB-separated: `cmd<TAB>field…`.  Handlers get the fields after `cmd`
  and answer `ok`, `MISMATCH …` (model ≠ implementation) or `PREDFAIL …`
  (the property predicate is false on the implementation's own observation).
-/
namespace Drv

abbrev Handler := List String → String

def int? (s : String) : Option Int := s.trimAscii.toString.toInt?
def nat? (s : String) : Option Nat := s.trimAscii.toString.toNat?

def intD (s : String) : Int := (int? s).getD 0

/-- comma separated ints; "" or "-" is the empty list -/
def ints? (s : String) : Option (List Int) :=
  let t := s.trimAscii.toString
  if t == "" || t == "-" then some [] else (t.splitOn ",").mapM int?

def nats? (s : String) : Option (List Nat) :=
  let t := s.trimAscii.toString
  if t == "" || t == "-" then some [] else (t.splitOn ",").mapM nat?

def strs (s : String) (sep : String := ",") : List String :=
  let t := s.trimAscii.toString
  if t == "" || t == "-" then [] else t.splitOn sep

def bool? (s : String) : Option Bool :=
  match s.trimAscii.toString with
  | "1" | "true" | "T" => some true
  | "0" | "false" | "F" => some false
  | _ => none

def showInts (l : List Int) : String :=
  if l.isEmpty then "-" else ",".intercalate (l.map toString)

def showBool (b : Bool) : String := if b then "1" else "0"

def mismatch (what model impl : String) : String :=
  s!"MISMATCH {what} model={model} impl={impl}"

def predfail (name detail : String) : String := s!"PREDFAIL {name} {detail}"

def badInput (why : String) : String := s!"BADINPUT {why}"

/-- compare a model value with the implementation's printed value -/
def expectEq (what model impl : String) : String :=
  if model == impl then "ok" else mismatch what model impl

/-- conjunction of results: first non-ok wins -/
def allOk : List String → String
  | [] => "ok"
  | r :: rs => if r == "ok" then allOk rs else r

end Drv
