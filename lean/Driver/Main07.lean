import Driver.Loop
import Driver.Num
import Driver.C07
/-- driver executable of property C07 -/
def main : IO UInt32 := Drv.runMain (Drv.Num.handlers ++ Drv.C07.handlers)
