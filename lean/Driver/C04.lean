import Driver.Util
import KavaVerif.Model.Cdp
/-!
  C04 driver (also the parsing / observation layer shared with C05).

  One self-contained case per line (`c04.op`):
    kind  params  pre-state  args  "=>"  result  post-state  tol
  kind   ∈ create | deposit | withdraw | draw | repay | liquidate | begin | params
           (`params` = a governance parameter change at a block boundary: the params field carries the NEW
            parameters, the model step is the identity)
  params = the parameters IN FORCE for this step, read from the x/params store:
           types `;`-separated, one per type of the universe in type-name order, each
           `denom,liqRatio,debtLimit,feeIsOne,keeperReward,checkCount,cf,spot,liq[,active]`
           (active = 0: the type is not listed in CollateralParams at this step; denom and cf stay)
           `|` globals `debtCf,debtFloor,globalLimit,surplusThr,surplusLot,debtThr,debtLot,genesisUsdx,nDenoms,nMarkets`
           `|` user accounts (comma separated, ascending = address byte order)
           [`|` positions of the listed types in the order of CollateralParams (the begin blocker's loop order)]
  state  = 12 sections separated by `|`:
           nextId | cdps `id:owner:ty:coll:prin:fees:updated:ifac;…` | deposits `id:acct:amt;…` |
           owner index `acct:id.id;…` (raw store iteration) | ratio index `ty:key:id;…` (raw store order) |
           total principal per type | interest factor per type | accrual time per type |
           market status flags | current prices per market | balances `acct:denom:amt;…` | supply per denom
  args   = comma separated integers (see `runOp`)
  tol    = per type: number of interest roundings so far (accumulations + per-CDP synchronisations)

  (1) the Lean model is run on the observed pre-state and compared with the observed post-state → MISMATCH
  (2) the C04 predicates are evaluated on the implementation's own post-state → PREDFAIL
-/
namespace Drv.C04
open KV KV.Cdp

structure U where
  E : Env
  nDen : Nat
  nMkt : Nat
  genUsdx : Int
  users : List Nat
deriving Inhabited

/-- canonical finite observation of a state -/
structure Obs where
  nextId : Nat
  cdps : List (Nat × Cdp)
  deps : List (Nat × Nat × Int)
  own : List (Nat × List Nat)
  idx : List Entry
  tprin : List Int
  ifac : List (Option Int)
  accr : List (Option Int)
  status : List Bool
  price : List (Option Int)
  bal : List (Nat × Nat × Int)
  supply : List Int
deriving Inhabited

def optInt? (s : String) : Option (Option Int) :=
  let t := s.trimAscii.toString
  if t == "-" then some none else (int? t).map some

def sec (s : String) (sep : String) : List String :=
  let t := s.trimAscii.toString
  if t == "" || t == "-" then [] else t.splitOn sep

def parseColl (s : String) : Option CollParam :=
  match s.splitOn "," with
  | [denom, lr, dl, fo, kr, cc, cf, spot, liq] => do
    let denom ← nat? denom
    let lr ← int? lr
    let dl ← int? dl
    let fo ← bool? fo
    let kr ← int? kr
    let cc ← int? cc
    let cf ← nat? cf
    let spot ← nat? spot
    let liq ← nat? liq
    pure { denom := denom, liqRatio := ⟨lr⟩, debtLimit := dl, feeIsOne := fo, keeperReward := ⟨kr⟩,
           checkCount := cc, cf := cf, spot := spot, liq := liq, active := true }
  | [denom, lr, dl, fo, kr, cc, cf, spot, liq, act] => do
    let denom ← nat? denom
    let lr ← int? lr
    let dl ← int? dl
    let fo ← bool? fo
    let kr ← int? kr
    let cc ← int? cc
    let cf ← nat? cf
    let spot ← nat? spot
    let liq ← nat? liq
    let act ← bool? act
    pure { denom := denom, liqRatio := ⟨lr⟩, debtLimit := dl, feeIsOne := fo, keeperReward := ⟨kr⟩,
           checkCount := cc, cf := cf, spot := spot, liq := liq, active := act }
  | _ => none

def parseU (s : String) : Option U :=
  let go := fun (tys glob users : String) (order : Option String) => do
    let colls ← (sec tys ";").mapM parseColl
    let users ← nats? users
    let order ← match order with
      | none => some (List.range colls.length)
      | some o => nats? o
    match glob.splitOn "," with
    | [dcf, fl, gl, st, sl, dt, dlot, gu, nd, nm] => do
      let dcf ← nat? dcf
      let fl ← int? fl
      let gl ← int? gl
      let st ← int? st
      let sl ← int? sl
      let dt ← int? dt
      let dlot ← int? dlot
      let gu ← int? gu
      let nd ← nat? nd
      let nm ← nat? nm
      pure { E := { P := { colls := colls, debtCf := dcf, debtFloor := fl, globalLimit := gl,
                            surplusThreshold := st, surplusLot := sl, debtThreshold := dt, debtLot := dlot,
                            order := order },
                    accts := users },
             nDen := nd, nMkt := nm, genUsdx := gu, users := users : U }
    | _ => none
  match s.splitOn "|" with
  | [tys, glob, users] => go tys glob users none
  | [tys, glob, users, order] => go tys glob users (some order)
  | _ => none

def parseCdp (s : String) : Option (Nat × Cdp) :=
  match s.splitOn ":" with
  | [id, o, ty, c, p, f, u, i] => do
    let id ← nat? id
    let o ← nat? o
    let ty ← nat? ty
    let c ← int? c
    let p ← int? p
    let f ← int? f
    let u ← int? u
    let i ← int? i
    pure (id, { owner := o, ty := ty, coll := c, prin := p, fees := f, updated := u, ifac := ⟨i⟩ })
  | _ => none

def parse3 (s : String) : Option (Nat × Nat × Int) :=
  match s.splitOn ":" with
  | [a, b, c] => do
    let a ← nat? a
    let b ← nat? b
    let c ← int? c
    pure (a, b, c)
  | _ => none

def parseIdx (s : String) : Option Entry :=
  match s.splitOn ":" with
  | [a, b, c] => do
    let a ← nat? a
    let b ← int? b
    let c ← nat? c
    pure (a, b, c)
  | _ => none

def parseOwn (s : String) : Option (Nat × List Nat) :=
  match s.splitOn ":" with
  | [a, ids] => do
    let a ← nat? a
    let ids ← (sec ids ".").mapM nat?
    pure (a, ids)
  | _ => none

def parseObs (s : String) : Option Obs :=
  match s.splitOn "|" with
  | [nid, cdps, deps, own, idx, tp, ifc, acr, stt, prc, bal, sup] => do
    let nid ← nat? nid
    let cdps ← (sec cdps ";").mapM parseCdp
    let deps ← (sec deps ";").mapM parse3
    let own ← (sec own ";").mapM parseOwn
    let idx ← (sec idx ";").mapM parseIdx
    let tp ← ints? tp
    let ifc ← (sec ifc ",").mapM optInt?
    let acr ← (sec acr ",").mapM optInt?
    let stt ← (sec stt ",").mapM bool?
    let prc ← (sec prc ",").mapM optInt?
    let bal ← (sec bal ";").mapM parse3
    let sup ← ints? sup
    pure { nextId := nid, cdps := cdps, deps := deps, own := own, idx := idx, tprin := tp, ifac := ifc,
           accr := acr, status := stt, price := prc, bal := bal, supply := sup }
  | _ => none

def lookup3 (l : List (Nat × Nat × Int)) (a b : Nat) : Int :=
  match l.find? (fun e => e.1 == a && e.2.1 == b) with
  | some e => e.2.2
  | none => 0

def stOf (o : Obs) : St :=
  { cdp := fun id => o.cdps.lookup id,
    nextId := o.nextId,
    dep := fun id a => lookup3 o.deps id a,
    own := fun a => (o.own.lookup a).getD [],
    idx := o.idx,
    tprin := fun t => o.tprin.getD t 0,
    ifac := fun t => ((o.ifac.getD t none).map (fun m => (⟨m⟩ : Dec))),
    accr := fun t => o.accr.getD t none,
    status := fun m => o.status.getD m false,
    price := fun m => ((o.price.getD m none).map (fun m => (⟨m⟩ : Dec))),
    bal := fun a d => lookup3 o.bal a d,
    supply := fun d => o.supply.getD d 0 }

def allAccts (u : U) : List Nat := [0, 1, 2] ++ u.users

def obsOf (u : U) (s : St) : Obs :=
  let ids := List.range s.nextId
  let tys := List.range u.E.P.colls.length
  let mk := List.range u.nMkt
  { nextId := s.nextId,
    cdps := ids.filterMap (fun id => (s.cdp id).map (fun c => (id, c))),
    deps := ids.flatMap (fun id => u.users.filterMap (fun a => if s.dep id a ≠ 0 then some (id, a, s.dep id a) else none)),
    own := u.users.filterMap (fun a => if (s.own a).isEmpty then none else some (a, s.own a)),
    idx := s.idx,
    tprin := tys.map s.tprin,
    ifac := tys.map (fun t => (s.ifac t).map (·.m)),
    accr := tys.map s.accr,
    status := mk.map s.status,
    price := mk.map (fun m => (s.price m).map (·.m)),
    bal := (allAccts u).flatMap (fun a => (List.range u.nDen).filterMap (fun d =>
              if s.bal a d ≠ 0 then some (a, d, s.bal a d) else none)),
    supply := (List.range u.nDen).map s.supply }

def showOI (l : List (Option Int)) : String :=
  ",".intercalate (l.map (fun x => match x with | some v => toString v | none => "-"))

def showCdp (e : Nat × Cdp) : String :=
  s!"{e.1}:{e.2.owner}:{e.2.ty}:{e.2.coll}:{e.2.prin}:{e.2.fees}:{e.2.updated}:{e.2.ifac.m}"

def show3 (l : List (Nat × Nat × Int)) : String := ";".intercalate (l.map (fun e => s!"{e.1}:{e.2.1}:{e.2.2}"))
def showIdx (l : List Entry) : String := ";".intercalate (l.map (fun e => s!"{e.1}:{e.2.1}:{e.2.2}"))
def showOwn (l : List (Nat × List Nat)) : String :=
  ";".intercalate (l.map (fun e => s!"{e.1}:" ++ ".".intercalate (e.2.map toString)))

/-- model observation vs implementation observation, section by section -/
def cmpObs (m i : Obs) : String :=
  allOk [
    expectEq "nextId" (toString m.nextId) (toString i.nextId),
    expectEq "cdps" (";".intercalate (m.cdps.map showCdp)) (";".intercalate (i.cdps.map showCdp)),
    expectEq "deposits" (show3 m.deps) (show3 i.deps),
    expectEq "ownerIndex" (showOwn m.own) (showOwn i.own),
    expectEq "ratioIndex" (showIdx m.idx) (showIdx i.idx),
    expectEq "totalPrincipal" (showInts m.tprin) (showInts i.tprin),
    expectEq "interestFactor" (showOI m.ifac) (showOI i.ifac),
    expectEq "accrualTime" (showOI m.accr) (showOI i.accr),
    expectEq "status" (",".intercalate (m.status.map showBool)) (",".intercalate (i.status.map showBool)),
    expectEq "price" (showOI m.price) (showOI i.price),
    expectEq "balances" (show3 m.bal) (show3 i.bal),
    expectEq "supply" (showInts m.supply) (showInts i.supply)]

/-- run the model on one operation -/
def runOp (u : U) (kind : String) (a : List Int) (s : St) : Option (Res St) :=
  let E := u.E
  match kind, a with
  | "create", [now, o, ty, c, cd, p, pd] => some (create E now s o.toNat ty.toNat c cd.toNat p pd.toNat)
  | "deposit", [now, o, d, ty, c, cd] => some (deposit E now s o.toNat d.toNat ty.toNat c cd.toNat)
  | "withdraw", [now, o, d, ty, c, cd] => some (withdraw E now s o.toNat d.toNat ty.toNat c cd.toNat)
  | "draw", [now, o, ty, p, pd] => some (draw E now s o.toNat ty.toNat p pd.toNat)
  | "repay", [now, o, ty, p, pd] => some (repay E now s o.toNat ty.toNat p pd.toNat)
  | "liquidate", [now, k, o, ty] => some (liquidate E now s k.toNat o.toNat ty.toNat)
  | "begin", now :: skip :: facs => some (beginBlock E now (skip != 0) (facs.map (fun m => (⟨m⟩ : Dec))) s)
  | "params", _ => some (.ok s)      -- a parameter change touches no x/cdp state; `E` already is the new environment
  | _, _ => none

def resClass {α : Type} : Res α → String
  | .ok _ => "ok"
  | .err => "err"
  | .panic => "panic"

/-! ### the C04 predicates, evaluated on an observation of the implementation -/

def sumI (l : List Int) : Int := l.foldl (· + ·) 0

def strictlySorted : List Entry → Bool
  | [] => true
  | [_] => true
  | a :: b :: rest => eLt a b && strictlySorted (b :: rest)

def strictlyAsc : List Nat → Bool
  | [] => true
  | [_] => true
  | a :: b :: rest => decide (a < b) && strictlyAsc (b :: rest)

/-- `Inv4` on an observation: `none` = holds, `some (name, tag)` = the first violated clause -/
def inv4 (u : U) (o : Obs) (tol : List Int) : Option (String × String) :=
  let E := u.E
  let cdpOf := fun id => o.cdps.lookup id
  -- every deposit belongs to an existing CDP and is positive
  if o.deps.any (fun d => (cdpOf d.1).isNone) then some ("C04_cdp_collateral_eq_deposits", "orphan-deposit")
  else if o.deps.any (fun d => d.2.2 ≤ 0) then some ("C04_cdp_collateral_eq_deposits", "non-positive-deposit")
  -- each CDP's collateral = Σ its deposits
  else if o.cdps.any (fun e => e.2.coll != sumI ((o.deps.filter (fun d => d.1 == e.1)).map (·.2.2)))
    then some ("C04_cdp_collateral_eq_deposits", "collateral-ne-deposits")
  -- custody per collateral denom
  else if (List.range u.nDen).any (fun d => d ≥ 2 &&
      lookup3 o.bal 0 d != sumI ((o.deps.filter (fun x =>
        match cdpOf x.1 with | some c => denomOf E c.ty == d | none => false)).map (·.2.2)))
    then some ("C04_custody", "module-balance-ne-deposits")
  -- owner index exact
  else if o.cdps.any (fun e => ((o.own.lookup e.2.owner).getD []).count e.1 != 1)
    then some ("C04_owner_index_exact", "cdp-not-indexed-once")
  else if o.own.any (fun e => e.2.any (fun id => match cdpOf id with | some c => c.owner != e.1 | none => true))
    then some ("C04_owner_index_exact", "stale-owner-entry")
  else if o.own.any (fun e => !strictlyAsc e.2) then some ("C04_owner_index_exact", "ids-not-sorted")
  -- ratio index exact
  else if o.cdps.any (fun e => !(o.idx.contains (e.2.ty, keyOf E e.2, e.1)))
    then some ("C04_ratio_index_exact", "cdp-not-under-current-ratio")
  else if o.idx.length != o.cdps.length then some ("C04_ratio_index_exact", "stale-or-duplicate-entry")
  else if !strictlySorted o.idx then some ("C04_ratio_index_exact", "store-order")
  -- stable issued ≤ debt coins held by cdp + liquidator + auction
  else if o.supply.getD 0 0 - u.genUsdx > lookup3 o.bal 0 1 + lookup3 o.bal 1 1 + lookup3 o.bal 2 1
    then some ("C04_stable_le_debt", "issued-exceeds-debt")
  -- total principal = Σ debt up to interest rounding
  else if (List.range E.P.colls.length).any (fun t =>
      -- debt of a CDP = principal + fees + the interest accrued since its last synchronisation
      -- (what `LoadAugmentedCDP` reports); each CDP contributes one more rounding
      let mine := o.cdps.filter (fun e => e.2.ty == t)
      let sumDebt := sumI (mine.map (fun e => e.2.prin + e.2.fees + (newInterest (stOf o) e.2).getD 0))
      let drift := o.tprin.getD t 0 - sumDebt
      (if drift < 0 then -drift else drift) > tol.getD t 0 + mine.length)
    then some ("C04_total_principal", "drift-exceeds-rounding")
  else none

def sameObs (a b : Obs) : Bool := cmpObs a b == "ok"

/-- closing repay: every depositor got back exactly its recorded deposit -/
def closeReturns (u : U) (pre post : Obs) (owner ty : Nat) : Option String :=
  match pre.cdps.find? (fun e => e.2.owner == owner && e.2.ty == ty) with
  | none => none
  | some (id, c) =>
    if (post.cdps.lookup id).isSome then none      -- not closed
    else
      let d := denomOf u.E c.ty
      if u.users.any (fun a => lookup3 post.bal a d != lookup3 pre.bal a d + lookup3 pre.deps id a)
      then some "depositor-not-repaid-exactly"
      else if post.deps.any (fun x => x.1 == id) then some "deposit-left"
      else none

/-- debt of a CDP including the interest accrued up to the global factor of state `g` -/
def syncedDebt (g : St) (c : Cdp) : Int := c.prin + c.fees + (newInterest g c).getD 0

/-- begin block, per listed type whose two feeds are up: the interest accrued is the one of the stability fee
    IN FORCE (`f` = what `CalculateInterestFactor` returns for the fee in the x/params store and the elapsed
    time): the global interest factor continues as `old · f` (unchanged when nothing accrues), and the total
    principal moves by exactly that interest minus the debts of the CDPs seized in the block -/
def accrualPred (u : U) (args : List Int) (pre post : Obs) : Option (String × String) :=
  match args with
  | now :: _ :: facs =>
    let sPre := stOf pre
    let gAfter : St := { sPre with ifac := (stOf post).ifac }
    (blockTypes u.E (facs.map (fun m => (⟨m⟩ : Dec)))).findSome? (fun x =>
      let ty := x.1
      let cp := x.2.1
      let f := x.2.2
      if (sPre.price cp.spot).isNone || (sPre.price cp.liq).isNone then none else
      let tp := pre.tprin.getD ty 0
      let g0 := sPre.ifac ty
      let exp : Int × Option Dec :=
        match sPre.accr ty with
        | none => (0, g0)
        | some prev =>
          if now == prev || tp ≤ 0 then (0, g0) else
          match g0 with
          | none => (0, some Dec.one)
          | some g =>
            if cp.feeIsOne then (0, some g) else
            let a := Dec.roundInt (Dec.mul f (Dec.ofInt tp)) - tp
            if a == 0 then (0, some g) else (a, some (Dec.mul g f))
      let gPost := (stOf post).ifac ty
      if (gPost.map (·.m)) != (exp.2.map (·.m)) then
        some ("C04_total_principal_partial",
          if exp.1 == 0 then s!"type-{ty}-interest-factor-moved-although-nothing-accrues-at-the-fee-in-force"
          else s!"type-{ty}-interest-factor-not-continued-at-the-fee-in-force")
      else
        let gone := pre.cdps.filter (fun e => e.2.ty == ty && (post.cdps.lookup e.1).isNone)
        let want := tp + exp.1 - sumI (gone.map (fun e => syncedDebt gAfter e.2))
        if want < 0 then none          -- `DecrementTotalPrincipal` clamps at 0: not replayed
        else if post.tprin.getD ty 0 != want then
          some ("C04_total_principal_partial", s!"type-{ty}-total-principal-not-moved-by-the-interest-in-force-and-the-seized-debts")
        else none)
  | _ => none

def handle : Handler
  | [kind, params, pre, args, _, result, post, tol] =>
    match parseU params, parseObs pre, ints? args, parseObs post, ints? tol with
    | some u, some pre, some args, some post, some tol =>
      match runOp u kind args (stOf pre) with
      | none => badInput "op"
      | some res =>
        -- (2) predicates on the implementation's own observation (independent of the model; reported first)
        let pred :=
          if result != "ok" then
            (if sameObs pre post then "ok" else predfail "C04_failed_noop" s!"{kind}-state-changed")
          else
          match inv4 u post tol with
          | some (name, tag) => predfail name s!"{tag} after-{kind}"
          | none =>
            if kind == "repay" then
              match args with
              | [_, o, ty, _, _] =>
                (match closeReturns u pre post o.toNat ty.toNat with
                 | some why => predfail "C04_close_returns_deposits" why
                 | none => "ok")
              | _ => "ok"
            else if kind == "begin" then
              (match accrualPred u args pre post with
               | some (name, tag) => predfail name tag
               | none => "ok")
            else if kind == "params" then
              -- the change itself moves nothing: `Inv4` (checked above under the NEW parameters) is kept
              -- because the stored data is untouched
              (if sameObs pre post then "ok" else predfail "C04_param_change_preserves_inv" "state-changed-by-the-parameter-change")
            else "ok"
        if pred != "ok" then pred else
        -- (1) model vs implementation
        let cls := resClass res
        if cls != result then mismatch "result" cls result
        else
          match res with
          | .ok s' => cmpObs (obsOf u s') post
          | _ => "ok"
    | _, _, _, _, _ => badInput "parse"
  | _ => badInput "arity"

/-- handlers of property C04: (command name, handler) -/
def handlers : List (String × Handler) := [("c04.op", handle)]
end Drv.C04
