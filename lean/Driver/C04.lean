import Driver.Util
namespace Drv.C04
/-- handlers of property C04: (command name, handler) -/
def handlers : List (String × Handler) := []
end Drv.C04
