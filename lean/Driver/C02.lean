import Driver.Util
import KavaVerif.Model.BlockSafety
/-!
  C02 driver.

  * `c02.block plan height ntx panicTag brokenRoutes panicText` — one block of a history on the real app:
    the property predicate is evaluated on the observation: no begin/end-block panic
    (PREDFAIL C02_block_processes <tag>) and no registered invariant route broken
    (PREDFAIL C02_invariants_hold <routes>).
  * `c02.debtsplit deps debt => class shares` — the real `cdp.Keeper.AuctionCollateral` on a deposit set:
    (1) the Lean transcription `debtShares` must give the same per-depositor shares (MISMATCH);
    (2) the predicate "the shares add up to exactly the debt" is evaluated on the observed shares
        (PREDFAIL C02_cdp_debt_split over-allocated / under-allocated; over-allocation was finding F2,
        fixed by bfd342e03 — a reappearance is a regression).
-/
namespace Drv.C02
open KV.Safe

def handleBlock : Handler
  | [plan, height, _ntx, tag, broken, _text] =>
    if tag != "-" then predfail "C02_block_processes" s!"{tag} plan={plan} height={height}"
    else if broken != "-" then predfail "C02_invariants_hold" s!"{broken} plan={plan} height={height}"
    else "ok"
  | _ => badInput "c02.block arity"

def handleDebtSplit : Handler
  | [deps, debt, _, cls, shares] =>
    match ints? deps, int? debt, ints? shares with
    | some ds, some debt, some ss =>
      if cls != "ok" then predfail "C02_cdp_debt_split" s!"call-{cls}"
      else
        let model := debtShares ds debt
        if model != ss then mismatch "debtShares" (showInts model) (showInts ss)
        else if sumInts ss > debt then predfail "C02_cdp_debt_split" s!"over-allocated sum={sumInts ss} debt={debt} deposits={deps}"
        else if sumInts ss < debt then predfail "C02_cdp_debt_split" s!"under-allocated sum={sumInts ss} debt={debt} deposits={deps}"
        else "ok"
    | _, _, _ => badInput "ints"
  | _ => badInput "c02.debtsplit arity"

/-- handlers of property C02: (command name, handler) -/
def handlers : List (String × Handler) := [
  ("c02.block", handleBlock), ("c02.debtsplit", handleDebtSplit)
]
end Drv.C02
