import Driver.Util
namespace Drv.C02
/-- handlers of property C02: (command name, handler) -/
def handlers : List (String × Handler) := []
end Drv.C02
