import Driver.Util
import KavaVerif.Model.Precisebank
/-!
  C03 driver. One self-contained case per line: the implementation's observed pre-state, the
  operation, the implementation's result class and observed post-state.  The handler
  (1) runs the Lean model on the observed pre-state and compares (MISMATCH), and
  (2) evaluates the property's predicates on the implementation's own observation (PREDFAIL),
      independently of the model.

  fields: kind R bal locked frac rem supply blocked a b flag u x "=>" result bal' frac' rem' supply'
    kind ∈ send | m2a | a2m | mint | burn ;  a = sender / module ; b = recipient (unused for mint/burn)
    flag = has the minter/burner permission (mint/burn)
-/
namespace Drv.C03
open KV KV.PB

def fn (l : List Int) : Addr → Int := fun a => l.getD a 0

structure Obs where
  bal : List Int
  frac : List Int
  rem : Int
  supply : Int

def stOf (bal locked frac : List Int) (rem supply : Int) : St :=
  { bal := fn bal, locked := fn locked, frac := fn frac, rem := rem, supply := supply }

def sumL (l : List Int) : Int := l.foldl (· + ·) 0

def invPred (R : Nat) (o : Obs) : Option String :=
  if o.frac.any (fun f => f < 0 || f ≥ C) then some "frac-out-of-range"
  else if o.rem < 0 || o.rem ≥ C then some "remainder-out-of-range"
  else if o.bal.getD R 0 * C != sumL o.frac + o.rem then some "reserve-not-backing"
  else none

def extL (bal frac : List Int) (a : Nat) : Int := bal.getD a 0 * C + frac.getD a 0

def idxs (n : Nat) : List Nat := List.range n

/-- frame: every account other than the listed ones (and the reserve's hidden ukava) is unchanged -/
def frameOk (R : Nat) (pre post : Obs) (touched : List Nat) : Bool :=
  (idxs pre.bal.length).all fun a =>
    touched.contains a ||
      ((a == R || pre.bal.getD a 0 == post.bal.getD a 0) && pre.frac.getD a 0 == post.frac.getD a 0)

def run (kind : String) (R : Nat) (blocked : List Int) (s : St) (a b : Nat) (flag : Bool) (u x : Int) : Res :=
  match kind with
  | "send" => send R s a b u x
  | "m2a" => sendModuleToAccount R (fun i => blocked.getD i 0 == 1) s a b u x
  | "a2m" => sendAccountToModule R s a b u x
  | "mint" => mint R s a flag u x
  | "burn" => burn R s a flag u x
  | _ => .err

def handle : Handler
  | [kind, R, bal, locked, frac, rem, supply, blocked, a, b, flag, u, x, _, result, bal', frac', rem', supply'] =>
    match nat? R, ints? bal, ints? locked, ints? frac, int? rem, int? supply, ints? blocked,
          nat? a, nat? b, bool? flag, int? u, int? x with
    | some R, some bal, some locked, some frac, some rem, some supply, some blocked,
      some a, some b, some flag, some u, some x =>
      let s := stOf bal locked frac rem supply
      let pre : Obs := ⟨bal, frac, rem, supply⟩
      let n := bal.length
      let res := run kind R blocked s a b flag u x
      let modelCls := match res with | .ok _ => "ok" | .err => "err" | .panic => "panic"
      -- the property's predicates are evaluated on the implementation's own observation FIRST (a concrete
      -- failing input is the stronger verdict); a differing result class is reported only when they pass
      let clsCmp := if modelCls != result then mismatch "result" modelCls result else "ok"
      let spInt := if bal.getD a 0 < locked.getD a 0 then 0 else bal.getD a 0 - locked.getD a 0
      match result with
      | "ok" =>
        match ints? bal', ints? frac', int? rem', int? supply' with
        | some bal', some frac', some rem', some supply' =>
          let post : Obs := ⟨bal', frac', rem', supply'⟩
          -- (1) model vs implementation
          let cmp := match res with
            | .ok s' =>
              let mb := (idxs n).map s'.bal
              let mf := (idxs n).map s'.frac
              allOk [expectEq "bal" (showInts mb) (showInts bal'), expectEq "frac" (showInts mf) (showInts frac'),
                     expectEq "rem" (toString s'.rem) (toString rem'),
                     expectEq "supply" (toString s'.supply) (toString supply')]
            | _ => "ok"
          -- (2) property predicates on the implementation's own observation; a predicate failure is
          --     the stronger verdict (a concrete failing input), so it is reported before a mismatch
          let pred := match invPred R post with
          | some why => predfail "C03_inv" why
          | none =>
            let amt := u * C + x
            if kind == "send" || kind == "m2a" || kind == "a2m" then
              if (a == R || b == R) && amt > 0 then predfail "C03_reserve_party" "accepted"
              -- "fails exactly when bank rules require it": an accepted transfer is covered by the sender's
              -- SPENDABLE balance (vesting-locked ukava excluded).  A self transfer checks the ukava part and
              -- the akava part separately against the undiminished balance (as x/bank does for a self send).
              else if a != b && amt > spInt * C + frac.getD a 0 then
                predfail "C03_fails_iff" "accepted-beyond-spendable"
              else if a == b && (u > spInt || x > spInt * C + frac.getD a 0) then
                predfail "C03_fails_iff" "accepted-beyond-spendable self"
              else if a == b then
                if bal' == bal && frac' == frac && rem' == rem && supply' == supply then "ok"
                else predfail "C03_send_self_noop" "state-changed"
              else if extL bal' frac' a != extL bal frac a - amt then predfail "C03_send_exact" "sender"
              else if extL bal' frac' b != extL bal frac b + amt then predfail "C03_send_exact" "recipient"
              else if rem' != rem then predfail "C03_send_exact" "remainder-changed"
              else if supply' != supply then predfail "C03_send_exact" "supply-changed"
              else if !frameOk R pre post [a, b] then predfail "C03_send_exact" "frame"
              else if kind == "m2a" && blocked.getD b 0 == 1 then predfail "C03_guards" "blocked-recipient-accepted"
              else "ok"
            else if kind == "mint" then
              if extL bal' frac' a != extL bal frac a + amt then predfail "C03_mint_exact" "target"
              else if supply' * C - rem' != supply * C - rem + amt then predfail "C03_mint_exact" "circulation"
              else if !frameOk R pre post [a] then predfail "C03_mint_exact" "frame"
              else "ok"
            else if kind == "burn" then
              if extL bal' frac' a != extL bal frac a - amt then predfail "C03_burn_exact" "target"
              else if supply' * C - rem' != supply * C - rem - amt then predfail "C03_burn_exact" "circulation"
              else if !frameOk R pre post [a] then predfail "C03_burn_exact" "frame"
              else "ok"
            else badInput "kind"
          if pred != "ok" then pred else if clsCmp != "ok" then clsCmp else cmp
        | _, _, _, _ => badInput "post"
      | "err" =>
        -- the operation must fail exactly when bank rules require it
        if (kind == "send" || kind == "m2a" || kind == "a2m") && a != R && b != R
            && !(kind == "m2a" && blocked.getD b 0 == 1) then
          if u * C + x ≤ spInt * C + frac.getD a 0 && u ≤ spInt then
            predfail "C03_fails_iff" "refused-with-sufficient-funds"
          else clsCmp
        else clsCmp
      | "panic" =>
        if (kind == "mint" || kind == "burn") && (a == R || !flag) then clsCmp
        else predfail "C03_no_panic" kind
      | _ => badInput "result"
    | _, _, _, _, _, _, _, _, _, _, _, _ => badInput "parse"
  | _ => badInput "arity"

/-- view.go: `GetBalance` / `SpendableCoin` for akava and "no akava exists in the base bank".
    fields: R bal locked frac "=>" getBalance(list) spendable(list) bankAkavaSupply bankAkavaBalances(list) -/
def handleView : Handler
  | [R, bal, locked, frac, _, gb, sp, bsup, bbal] =>
    match nat? R, ints? bal, ints? locked, ints? frac, ints? gb, ints? sp, int? bsup, ints? bbal with
    | some R, some bal, some locked, some frac, some gb, some sp, some bsup, some bbal =>
      let s := stOf bal locked frac 0 0
      let n := bal.length
      let mgb := (idxs n).map (extBal R s)
      let msp := (idxs n).map (extSpendable R s)
      let cmp := allOk [expectEq "GetBalance" (showInts mgb) (showInts gb),
                        expectEq "SpendableCoin" (showInts msp) (showInts sp)]
      if cmp != "ok" then cmp
      else if bsup != 0 || bbal.any (· != 0) then predfail "C03_no_akava_in_bank" "akava-in-x/bank"
      else if gb.getD R 0 != 0 then predfail "C03_reserve_hidden" "reserve-balance-visible"
      else "ok"
    | _, _, _, _, _, _, _, _ => badInput "parse"
  | _ => badInput "arity"

def handlers : List (String × Handler) := [("c03.op", handle), ("c03.view", handleView)]
end Drv.C03
