import Driver.Util
namespace Drv.C03
/-- handlers of property C03: (command name, handler) -/
def handlers : List (String × Handler) := []
end Drv.C03
