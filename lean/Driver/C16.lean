import Driver.Util
namespace Drv.C16
/-- handlers of property C16: (command name, handler) -/
def handlers : List (String × Handler) := []
end Drv.C16
