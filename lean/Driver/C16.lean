import Driver.Util
import KavaVerif.Model.Authz
/-!
  C16 driver.  One case per (handler, signer): the guard-relevant pre-state the harness read from the real
  app, the signer, `=>`, the result class of the real msg server, whether a digest of every module store
  changed, the registered error, handler specific observations, and the user parties whose records changed.

  For each case the handler (1) runs the Lean model (Model/Authz.lean, over party indices) on the observed
  pre-state and compares result class, outputs, the guard's registered error and the set of touched parties
  (MISMATCH), and (2) evaluates the property predicate on the implementation's own observation (PREDFAIL):
  only a principal may succeed; a message that does not succeed changes nothing; a record-keyed handler
  touches only the signer's records and pays out at most what is recorded.

  line: cmd kind signer principalProbeOk pre… "=>" cls changed err post… changedUsers
-/
namespace Drv.C16
open KV.Authz KV.Gen.C16

def nat9 (s : String) : Nat :=
  match int? s with
  | some i => if i < 0 then 9999 else i.toNat
  | none => 9999

def natList (s : String) (sep : String := ",") : List Nat := (strs s sep).map nat9

structure Obs where
  kind : String
  signer : Nat
  probe : Bool   -- the same message succeeded for the principal in this state
  pre : List String
  cls : String
  changed : Bool
  err : String
  post : List String
  chg : List Nat

def splitArrow : List String → List String → Option (List String × List String)
  | _, [] => none
  | acc, x :: xs => if x == "=>" then some (acc.reverse, xs) else splitArrow (x :: acc) xs

def parse (fs : List String) : Option Obs :=
  match fs with
  | kind :: signer :: probe :: rest =>
    match splitArrow [] rest with
    | some (pre, cls :: changed :: err :: tail) =>
      match tail.reverse with
      | chg :: postRev =>
        some { kind := kind, signer := nat9 signer, probe := probe == "1", pre := pre, cls := cls, changed := changed == "1", err := err,
               post := postRev.reverse, chg := natList chg }
      | [] => none
    | _ => none
  | _ => none

def g (l : List String) (i : Nat) : String := l.getD i ""
def gi (l : List String) (i : Nat) : Int := intD (g l i)
def gb (l : List String) (i : Nat) : Bool := g l i == "1"

/-- "a failed message changes nothing" on the implementation's own observation -/
def failedUnchanged (o : Obs) : String :=
  if o.cls != "ok" && o.changed then predfail "C16_failed_changes_nothing" s!"{o.kind} state-changed-by-failed-message"
  else "ok"

/-- when the model says the gating guard is what rejects — in a state where the same message succeeds for the
    principal, so every signer-independent check passes — the implementation's registered error must be the
    guard's (the rejection is the guard's doing, not an incidental other check) -/
def guardErr (guardRejects : Bool) (gd : Guard) (o : Obs) : String :=
  if o.probe && guardRejects && gd.rejectCode != "" && o.cls == "err" && o.err != gd.rejectCode then
    mismatch "guard-error" gd.rejectCode o.err
  else "ok"

/-- a predicate verdict (a failing input on the implementation) takes precedence over a model mismatch -/
def pick (l : List String) : String :=
  match l.find? (fun r => r.startsWith "PREDFAIL") with
  | some r => r
  | none => allOk l

def only (name : String) (o : Obs) (isPrincipal : Bool) (tag : String := "non-principal-succeeded") : String :=
  if o.cls == "ok" && !isPrincipal then predfail name s!"{o.kind} {tag}" else "ok"

/-! ### pricefeed -/

def parseMarkets (s : String) : List (String × List Nat) :=
  (strs s ";").map fun m =>
    match m.splitOn "=" with
    | [id, os] => (id, natList os ".")
    | _ => (m, [])

def pricefeedPost (o : Obs) : String :=
  let ms := parseMarkets (g o.pre 0)
  let ids := ms.map (·.1)
  let mid := ids.idxOf (g o.pre 1)
  let s : PF Nat := { markets := (ms.zipIdx).map (fun (m, i) => ⟨i, m.2⟩), raw := fun _ _ => none, now := 0 }
  let res := postPrice s o.signer mid 1 (gi o.pre 2)
  let oracles := ((ms.find? (fun m => m.1 == g o.pre 1)).map (·.2)).getD []
  pick [expectEq "result" res.cls o.cls,
         expectEq "stored" (showBool res.isOk) (g o.post 0),
         guardErr (!passes gPostPrice (getOracle s mid o.signer)) gGetOracle o,
         only "C16_pricefeed_post" o (oracles.contains o.signer) "non-oracle-succeeded",
         failedUnchanged o]

/-! ### issuance -/

def issState (o : Obs) : Iss Nat :=
  let p := o.pre
  let target := nat9 (g p 8)
  let a : Asset Nat := { denom := 0, owner := nat9 (g p 1), blocked := natList (g p 4), paused := gb p 2, blockable := gb p 3,
                         rlActive := gb p 5, rlLimit := gi p 6 }
  { assets := if gb p 0 then [a] else [],
    curSupply := fun _ => if gi p 7 < 0 then none else some (gi p 7),
    bal := fun _ x => if x = o.signer then gi p 13 else 0,
    total := fun _ => 0,
    isModAcc := fun x => x = target && gb p 9,
    hasAcc := fun x => x = target && gb p 10,
    bankBlocked := fun x => x = target && gb p 11 }

def issuance (which : String) (o : Obs) : String :=
  let p := o.pre
  let s := issState o
  let target := nat9 (g p 8)
  let amt := gi p 12
  let owner := nat9 (g p 1)
  let found := gb p 0
  let isOwner := found && o.signer == owner
  let (res, gd, name, out) : Res (Iss Nat) × Guard × String × String :=
    match which with
    | "issue" =>
      let r := issueTokens s o.signer target 0 amt
      (r, gIssue, "C16_issuance_issue", toString (if r.isOk then amt else 0))
    | "redeem" =>
      let r := redeemTokens s o.signer 0 amt
      (r, gRedeem, "C16_issuance_redeem", toString (if r.isOk then amt else 0))
    | "block" =>
      let r := blockAddress s o.signer 0 target
      (r, gBlock, "C16_issuance_block", if r.isOk then "1" else "0")
    | "unblock" =>
      let r := unblockAddress s o.signer 0 target
      (r, gUnblock, "C16_issuance_unblock", if r.isOk then "-1" else "0")
    | _ =>
      let r := setPauseStatus s o.signer 0 (gb p 14)
      let paused' := match r with
        | .ok s' => ((getAsset s' 0).map (·.paused)).getD false
        | _ => gb p 2
      (r, gPause, "C16_issuance_pause", showBool paused')
  -- the guard is what rejects when the asset exists (and, for block/unblock, is blockable) and the signer is not the owner
  let reachesGuard := found && (if which == "block" || which == "unblock" then gb p 3 else true) &&
                      (if which == "issue" || which == "redeem" then decide (amt > 0) else true)
  pick [expectEq "result" res.cls o.cls,
         expectEq "effect" out (g o.post 0),
         guardErr (reachesGuard && !isOwner) gd o,
         only name o isOwner "non-owner-succeeded",
         (if which == "issue" && o.cls == "ok" && gb p 2 then predfail name s!"{o.kind} paused-asset-issued" else "ok"),
         (if which == "issue" && o.cls == "ok" && gb p 3 && (natList (g p 4)).contains target then
            predfail name s!"{o.kind} blocked-receiver-issued" else "ok"),
         failedUnchanged o]

/-! ### bep3 -/

def bep3Create (o : Obs) : String :=
  let p := o.pre
  let recv := nat9 (g p 0)
  let deputy := nat9 (g p 1)
  let dup : Swap Nat := { rnh := 1, sender := o.signer, senderOther := 0, recipient := recv, amount := 1, incoming := true,
                          expire := 0, timestamp := 0 }
  let s : B3 Nat := {
    deputy := deputy, active := gb p 3, minAmt := gi p 4, maxAmt := gi p 5, fee := gi p 6,
    minLock := (gi p 7).toNat, maxLock := (gi p 8).toNat, limit := gi p 9, timeLimited := gb p 10, timeLimit := gi p 11,
    cur := gi p 12, incoming := gi p 13, outgoing := gi p 14, tlCur := gi p 15,
    isMacc := fun x => x = recv && gb p 2, hasAcc := fun _ => true, bal := fun _ => gi p 20,
    swaps := if gb p 16 then [dup] else [], now := 0, height := 0 }
  let amt := gi p 17
  let res := createSwap s 1 (gi p 18) (gi p 19).toNat o.signer recv 0 amt true
  let (dir, incDelta) : String × Int := match res with
    | .ok s' => ((match s'.swaps.head? with
                  | some w => if w.incoming then "in" else "out"
                  | none => "-"), s'.incoming - s.incoming)
    | _ => ("-", 0)
  let idir := g o.post 0
  let isDeputy := o.signer == deputy
  pick [expectEq "result" res.cls o.cls,
         expectEq "direction" dir idir,
         expectEq "incoming-supply" (toString incDelta) (g o.post 1),
         guardErr (preChecks s 1 (gi p 18) o.signer recv 0 amt true && !isDeputy && recv != deputy) gBep3 o,
         (if o.cls == "ok" && idir == "in" && !isDeputy then predfail "C16_bep3_direction" s!"{o.kind} incoming-from-non-deputy" else "ok"),
         (if o.cls == "ok" && idir != "in" && isDeputy then predfail "C16_bep3_direction" s!"{o.kind} deputy-swap-not-incoming" else "ok"),
         (if o.cls == "ok" && !isDeputy && recv != deputy then
            predfail "C16_bep3_recipient_rules" s!"{o.kind} non-deputy-to-non-deputy" else "ok"),
         (if o.cls == "ok" && !isDeputy && gi o.post 1 != 0 then
            predfail "C16_bep3_recipient_rules" s!"{o.kind} incoming-supply-moved-by-non-deputy" else "ok"),
         (if o.cls == "ok" && gb p 2 then predfail "C16_bep3_recipient_rules" s!"{o.kind} module-account-recipient" else "ok"),
         failedUnchanged o]

/-! ### committee, community -/

def committeeSubmit (o : Obs) : String :=
  let p := o.pre
  let members := natList (g p 1)
  let s : Com Nat := { committees := if gb p 0 then [⟨1, members, gb p 2, 10⟩] else [], proposals := [], votes := [],
                       nextId := 1, now := 5 }
  let res := submitProposal s o.signer 1 true true
  let isM := members.contains o.signer
  pick [expectEq "result" res.cls o.cls,
         expectEq "stored" (showBool res.isOk) (g o.post 0),
         only "C16_committee_submit" o isM "non-member-succeeded",
         failedUnchanged o]

def committeeVote (o : Obs) : String :=
  let p := o.pre
  let members := natList (g p 2)
  let isMemberCom := gb p 3
  let opt := (gi p 4).toNat
  let s : Com Nat := { committees := [⟨1, members, isMemberCom, 10⟩],
                       proposals := if gb p 0 then [⟨1, 1, if gb p 1 then 0 else 10⟩] else [],
                       votes := [], nextId := 2, now := 5 }
  let res := addVote s o.signer 1 opt
  let isM := members.contains o.signer
  pick [expectEq "result" res.cls o.cls,
         (if res.isOk then expectEq "vote-stored" "1" (g o.post 0) else expectEq "vote-stored" (g o.post 1) (g o.post 0)),
         only "C16_committee_vote" o (!isMemberCom || isM) "non-member-succeeded",
         (if o.cls == "ok" && isMemberCom && opt != 1 then predfail "C16_committee_vote" s!"{o.kind} non-yes-vote-on-member-committee" else "ok"),
         failedUnchanged o]

def communityUpdate (o : Obs) : String :=
  let p := o.pre
  let authority := nat9 (g p 0)
  let res := updateParams (⟨authority, 0⟩ : Comm Nat) o.signer 1 (gb p 1)
  pick [expectEq "result" res.cls o.cls,
         (if res.isOk then expectEq "params-set" "1" (g o.post 0) else "ok"),
         only "C16_community_update" o (o.signer == authority) "non-authority-succeeded",
         failedUnchanged o]

/-! ### record-keyed handlers -/

def users : List Nat := List.range 13

def subsetOf (a b : List Nat) : Bool := a.all (fun x => b.contains x)

/-- frame: every user party whose records changed is in `allowed` -/
def frame (name : String) (o : Obs) (allowed : List Nat) : String :=
  if o.cls != "ok" then "ok" else
  match o.chg.find? (fun u => !allowed.contains u) with
  | some u => predfail name s!"{o.kind} other-party-record-changed party={u}"
  | none => "ok"

def noRecord (name : String) (o : Obs) (has : Bool) : String :=
  if o.cls == "ok" && !has then predfail name s!"{o.kind} no-record-succeeded" else "ok"

def cdpEnv (ok : Bool) : CdpEnv Nat :=
  { accrued := fun _ => 0, drawValid := fun _ _ => ok, ratioOk := fun _ _ _ => ok, collValid := fun _ _ => ok,
    payValid := fun _ => ok }

def cdpTouched (s s' : CdpSt Nat) : List Nat :=
  users.filter fun u =>
    (s'.cdp u 0).isSome != (s.cdp u 0).isSome || ((s'.cdp u 0).map (·.principal)) != ((s.cdp u 0).map (·.principal)) ||
    ((s'.cdp u 0).map (·.collateral)) != ((s.cdp u 0).map (·.collateral)) ||
    ((s'.cdp u 0).map (·.deps)) != ((s.cdp u 0).map (·.deps)) ||
    s'.usdx u != s.usdx u || s'.coll 0 u != s.coll 0 u

def cdpDrawRepay (repay : Bool) (o : Obs) : String :=
  let p := o.pre
  let has := gb p 0
  let deps := natList (g p 1)
  let amt := gi p 2
  let implOk := o.cls == "ok"
  let closed := repay && implOk && !(gb o.post 1)
  -- a state in which the model closes the CDP exactly when the implementation did
  let principal : Int := if repay then (if closed then 1 else amt + 1) else 100
  let s : CdpSt Nat := {
    cdp := fun ow t => if ow = o.signer ∧ t = 0 ∧ has then some ⟨1000, principal, 0, deps.map (fun d => (d, 1))⟩ else none,
    usdx := fun _ => amt + 10, coll := fun _ _ => 0, totalPrincipal := fun _ => principal, debtFloor := 0 }
  let e := cdpEnv implOk
  let res := if repay then repayDebt e s o.signer 0 amt else drawDebt e s o.signer 0 amt
  let name := if repay then "C16_cdp_repay" else "C16_cdp_draw"
  let touched := match res with
    | .ok s' => o.signer :: cdpTouched s s'
    | _ => []
  pick [expectEq "result" res.cls o.cls,
         guardErr (!has) (if repay then gCdpRepay else gCdpDraw) o,
         (if implOk && !subsetOf o.chg touched then mismatch "touched" (showInts (touched.map Int.ofNat)) (showInts (o.chg.map Int.ofNat)) else "ok"),
         noRecord name o has,
         frame name o (o.signer :: (if repay then deps else [])),
         (if !repay && implOk && gi o.post 0 != amt then predfail name s!"{o.kind} drawn-amount-not-credited-to-signer" else "ok"),
         failedUnchanged o]

def cdpWithdraw (o : Obs) : String :=
  let p := o.pre
  let owner := nat9 (g p 0)
  let cdpFound := gb p 1
  let dep := gi p 2
  let x := gi p 3
  let implOk := o.cls == "ok"
  let deps : List (Nat × Int) := (if dep ≥ 0 then [(o.signer, dep)] else []) ++ [(7777, 5)]
  let s : CdpSt Nat := {
    cdp := fun ow t => if ow = owner ∧ t = 0 ∧ cdpFound then some ⟨1000000000000000000, 10, 0, deps⟩ else none,
    usdx := fun _ => 0, coll := fun _ _ => 0, totalPrincipal := fun _ => 10, debtFloor := 0 }
  let res := withdrawCollateral (cdpEnv implOk) s owner o.signer 0 x
  let touched := match res with
    | .ok s' => o.signer :: cdpTouched s s'
    | _ => []
  let guardRejects := cdpFound && dep < 0
  pick [expectEq "result" res.cls o.cls,
         expectEq "paid" (toString (if res.isOk then x else 0)) (g o.post 0),
         guardErr (!cdpFound) gCdpWdCdp o,
         guardErr guardRejects gCdpWdDep o,
         guardErr (cdpFound && dep ≥ 0 && x > dep) gCdpWdCap o,
         (if implOk && !subsetOf o.chg touched then mismatch "touched" (showInts (touched.map Int.ofNat)) (showInts (o.chg.map Int.ofNat)) else "ok"),
         noRecord "C16_cdp_withdraw" o (dep ≥ 0),
         (if implOk && gi o.post 0 > dep then predfail "C16_cdp_withdraw" s!"{o.kind} paid-more-than-recorded" else "ok"),
         frame "C16_cdp_withdraw" o [o.signer, owner],
         failedUnchanged o]

def mkCoins (xs : List Int) : Coins := ((xs.zipIdx).map (fun (x, i) => (i, x))).filter (fun c => c.2 != 0)
def mkReq (xs : List Int) : Coins := (xs.zipIdx).map (fun (x, i) => (i, x))

def coinsWithdraw (hard : Bool) (o : Obs) : String :=
  let p := o.pre
  let has := gb p 0
  let recL := (ints? (g p 1)).getD []
  let reqL := (ints? (g p 2)).getD []
  let paidL := (ints? (g o.post 0)).getD []
  let implOk := o.cls == "ok"
  let rec_ := mkCoins recL
  let req := mkReq reqL
  let name := if hard then "C16_hard_withdraw" else "C16_savings_withdraw"
  let (cls, paid, touchedOk) : String × List Int × Bool :=
    if hard then
      let s : Hard Nat := { dep := fun a => if a = o.signer ∧ has then some rec_ else none, bor := fun _ => none,
                            supplied := fun _ => 0, modBal := fun _ => 10 ^ 40, bal := fun _ _ => 0, bankBlocked := fun _ => false }
      let e : HardEnv Nat := { syncDep := fun _ c => c, syncBor := fun _ c => c, ltvOk := fun _ _ => implOk }
      match hardWithdraw e s o.signer req with
      | .ok s' => ("ok", req.map (fun c => s'.bal c.1 o.signer), users.all (fun u => u == o.signer || (s'.dep u).isSome == (s.dep u).isSome))
      | .err => ("err", reqL.map (fun _ => 0), true)
      | .panic => ("panic", [], true)
    else
      let s : Sav Nat := { dep := fun a => if a = o.signer ∧ has then some rec_ else none, modBal := fun _ => 10 ^ 40,
                           bal := fun _ _ => 0, bankBlocked := fun _ => false }
      match savWithdraw s o.signer req with
      | .ok s' => ("ok", req.map (fun c => s'.bal c.1 o.signer), true)
      | .err => ("err", reqL.map (fun _ => 0), true)
      | .panic => ("panic", [], true)
  -- savings has no validation after the cap: the model predicts the class outright; hard's LTV check is a parameter
  let clsCmp := if hard && !implOk then "ok" else expectEq "result" cls o.cls
  pick [clsCmp,
         (if implOk then expectEq "paid" (showInts paid) (showInts paidL) else "ok"),
         (if touchedOk then "ok" else mismatch "touched" "signer" "other"),
         guardErr (!has) (if hard then gHard else gSavings) o,
         noRecord name o has,
         (if implOk && ((paidL.zip recL).any (fun (a, b) => a > b) || (paidL.zip reqL).any (fun (a, b) => a > b)) then
            predfail name s!"{o.kind} paid-more-than-recorded" else "ok"),
         frame name o [o.signer],
         failedUnchanged o]

def swapWd (o : Obs) : String :=
  let p := o.pre
  let owned := gi p 0
  let sh := gi p 1
  let s : SwapSt Nat := { shares := fun a _ => if a = o.signer ∧ owned ≥ 0 then some owned else none,
                          pool := fun _ => some ⟨gi p 2, gi p 3, gi p 4⟩, balA := fun _ _ => 0, balB := fun _ _ => 0 }
  let res := swapWithdraw s o.signer 0 sh 1 1
  let (pa, pb) : Int × Int := match res with
    | .ok s' => (s'.balA 0 o.signer, s'.balB 0 o.signer)
    | _ => (0, 0)
  pick [expectEq "result" res.cls o.cls,
         expectEq "paidA" (toString pa) (g o.post 0), expectEq "paidB" (toString pb) (g o.post 1),
         guardErr (owned < 0) gSwap o,
         guardErr (owned ≥ 0 && sh > owned) gSwapCap o,
         noRecord "C16_swap_withdraw" o (owned ≥ 0),
         (if o.cls == "ok" && sh > owned then predfail "C16_swap_withdraw" s!"{o.kind} more-shares-than-owned" else "ok"),
         frame "C16_swap_withdraw" o [o.signer],
         failedUnchanged o]

def earnWd (o : Obs) : String :=
  let p := o.pre
  let has := gb p 0
  let cur := gi p 1
  let wsh := gi p 2
  let want := gi p 3
  let implOk := o.cls == "ok"
  let s : Earn Nat := { shares := fun a => if a = o.signer ∧ has then some (mkCoins [cur]) else none,
                        totalShares := fun _ => cur, bal := fun _ _ => 0, bankBlocked := fun _ => false }
  let e : EarnEnv Nat := { vaultOk := fun _ _ => true, toShares := fun _ _ => wsh, toAssets := fun _ _ => gi o.post 0,
                           valueOf := fun _ _ => if implOk then 10 ^ 40 else -1, stratOk := fun _ _ => implOk,
                           isDust := fun _ _ => false }
  let res := earnWithdraw e s o.signer 0 want 0
  pick [expectEq "result" res.cls o.cls,
         guardErr (!has) gEarn o,
         guardErr (has && cur < wsh) gEarnCap o,
         noRecord "C16_earn_withdraw" o has,
         (if implOk && cur < wsh then predfail "C16_earn_withdraw" s!"{o.kind} more-shares-than-owned" else "ok"),
         (if implOk && gi o.post 0 > want then predfail "C16_earn_withdraw" s!"{o.kind} paid-more-than-asked" else "ok"),
         frame "C16_earn_withdraw" o [o.signer],
         failedUnchanged o]

def wrap (f : Obs → String) : Handler := fun fs =>
  match parse fs with
  | some o => f o
  | none => badInput "c16 fields"

/-- handlers of property C16: (command name, handler) -/
def handlers : List (String × Handler) := [
  ("c16.pricefeed.post", wrap pricefeedPost),
  ("c16.issuance.issue", wrap (issuance "issue")),
  ("c16.issuance.redeem", wrap (issuance "redeem")),
  ("c16.issuance.block", wrap (issuance "block")),
  ("c16.issuance.unblock", wrap (issuance "unblock")),
  ("c16.issuance.pause", wrap (issuance "pause")),
  ("c16.bep3.create", wrap bep3Create),
  ("c16.committee.submit", wrap committeeSubmit),
  ("c16.committee.vote", wrap committeeVote),
  ("c16.community.update", wrap communityUpdate),
  ("c16.cdp.draw", wrap (cdpDrawRepay false)),
  ("c16.cdp.repay", wrap (cdpDrawRepay true)),
  ("c16.cdp.withdraw", wrap cdpWithdraw),
  ("c16.hard.withdraw", wrap (coinsWithdraw true)),
  ("c16.savings.withdraw", wrap (coinsWithdraw false)),
  ("c16.swap.withdraw", wrap swapWd),
  ("c16.earn.withdraw", wrap earnWd)
]
end Drv.C16
