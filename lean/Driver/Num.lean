import Driver.Util
import KavaVerif.Num.Dec
namespace Drv.Num
open KV

def dec2 (f : Dec → Dec → Dec) : Handler
  | [a, b, exp] =>
    match int? a, int? b with
    | some a, some b => expectEq "dec" (toString (f ⟨a⟩ ⟨b⟩).m) exp
    | _, _ => badInput "ints"
  | _ => badInput "arity"

def dec1i (f : Dec → Int) : Handler
  | [a, exp] =>
    match int? a with
    | some a => expectEq "dec" (toString (f ⟨a⟩)) exp
    | _ => badInput "ints"
  | _ => badInput "arity"

def handlers : List (String × Handler) := [
  ("num.mul", dec2 Dec.mul),
  ("num.multrunc", dec2 Dec.mulTruncate),
  ("num.mulroundup", dec2 Dec.mulRoundUp),
  ("num.quo", dec2 Dec.quo),
  ("num.quotrunc", dec2 Dec.quoTruncate),
  ("num.quoroundup", dec2 Dec.quoRoundUp),
  ("num.mulint", dec2 (fun a b => Dec.mulInt a b.m)),
  ("num.quoint", dec2 (fun a b => Dec.quoInt a b.m)),
  ("num.roundint", dec1i Dec.roundInt),
  ("num.truncint", dec1i Dec.truncateInt),
  ("num.ceil", dec1i (fun a => (Dec.ceil a).m)),
  ("num.intquo", dec2 (fun a b => ⟨tquo a.m b.m⟩)),
  ("num.intmod", dec2 (fun a b => ⟨emod a.m b.m⟩))
]
end Drv.Num
