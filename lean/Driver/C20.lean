import Driver.Util
import KavaVerif.Model.Vesting
/-!
  C20 driver. One self-contained case per line (TAB separated). Three commands:

  c20.cal    now y m d hour months lens endDays endSecs
             Go's `time` decomposition of the block time, `GetPeriodLength(now, months_i)` for a list of
             months ("P" = panic) and Go's decomposition (day of month, second of day) of `now + len_i`.
  c20.sched  now start end ov dv periods amt length => start' end' ov' dv' periods' samples valid
             the unexported `addCoinsToVestingSchedule` (hook) on a stored periodic vesting account;
             samples `t:V:V':L:L'` = the SDK account's own GetVestingCoins / LockedCoins before/after at `t`.
  c20.send   now kind blocked modBal bal start end ov dv periods amt length =>
               result kind' modBal' bal' start' end' ov' dv' periods' samples raw valid
             `SendTimeLockedCoinsToAccount` on the real app; samples `t:V:V':L:L':S:S'` add the real bank
             `LockedCoins` / `SpendableCoins`; raw = `modBal|bal|acctUnchanged` read from the keeper's own
             context right after a refusal (before any rollback); an optional 4th part is 1/0 = the bank's
             total supply is unchanged in that context.
  c20.guard  now kind blocked modBal bal start end ov dv periods amt length coinsValid supply =>
               result kind' modBal' bal' start' end' ov' dv' periods' supply' same valid
             one `SendTimeLockedCoinsToAccount` call made directly on a context of its own and observed on
             that same context (no CacheContext around the call, nothing rolled back): multi-denom amounts
             against module balances that are absent / short / exact / ample per denom. `coinsValid` = 0
             for a deliberately malformed `sdk.Coins` (unsorted / duplicate denoms; `amt` is then the
             per-denom sum). `same` = four 1/0 flags computed by the harness over ALL denoms and the whole
             account record: module balances, recipient balances, total supply, stored account unchanged.

  `samples` is the single word `panic` when an observation call into the SDK panicked; `valid` is the real
  post account's own `Validate()` (1/0, `-` when there is none).
  Coins are comma separated amounts over the harness denoms (index = denom); periods are
  `len:coins|len:coins|…` or `-`.  Every handler (1) runs the model on the observed input and compares
  (MISMATCH) and (2) evaluates the C20 predicates on the implementation's own observation (PREDFAIL).
-/
namespace Drv.C20
open KV.Vest KV.Vest.Cal

/-- number of denoms the harness prints -/
def NDH : Nat := 3

def coinsOf (l : List Int) : Coins := fun d => l.getD d 0
def coins? (s : String) : Option Coins := (ints? s).map coinsOf
def showCoins (c : Coins) : String := showInts ((List.range NDH).map c)
def coinsEq (a b : Coins) : Bool := (List.range NDH).all fun d => a d == b d

def period? (s : String) : Option Period :=
  match s.splitOn ":" with
  | [l, c] => match int? l, coins? c with
    | some l, some c => some ⟨l, c⟩
    | _, _ => none
  | _ => none

def periods? (s : String) : Option (List Period) := (strs s "|").mapM period?

def showPeriods (ps : List Period) : String :=
  if ps.isEmpty then "-" else "|".intercalate (ps.map fun p => s!"{p.length}:{showCoins p.amount}")

def pva? (start endT ov dv periods : String) : Option PVA :=
  match int? start, int? endT, coins? ov, coins? dv, periods? periods with
  | some s, some e, some o, some d, some ps => some ⟨s, e, o, d, ps⟩
  | _, _, _, _, _ => none

def showPVA (a : PVA) : String :=
  s!"{a.start} {a.endT} {showCoins a.ov} {showCoins a.dv} {showPeriods a.periods}"

/-- decidable well-formedness of an observed account (the `WF` of the theorems, over the printed denoms) -/
def wfTag (a : PVA) : Option String :=
  if !(a.start < a.endT) then some "start-not-before-end"
  else if a.periods.any (fun p => p.length ≤ 0) then some "nonpositive-length"
  else if totalLen a.periods != a.endT - a.start then some "length-sum"
  else if !coinsEq (totalAmt a.periods) a.ov then some "amount-sum"
  else none

structure Sample where
  t : Int
  v : Coins      -- GetVestingCoins before
  v' : Coins     -- after
  l : Coins      -- LockedCoins before
  l' : Coins     -- after
  s : Coins      -- SpendableCoins before (send only)
  s' : Coins

def sample? (x : String) : Option Sample :=
  match x.splitOn ":" with
  | [t, v, v', l, l'] =>
    match int? t, coins? v, coins? v', coins? l, coins? l' with
    | some t, some v, some v', some l, some l' => some ⟨t, v, v', l, l', Coins.zero, Coins.zero⟩
    | _, _, _, _, _ => none
  | [t, v, v', l, l', s, s'] =>
    match int? t, coins? v, coins? v', coins? l, coins? l', coins? s, coins? s' with
    | some t, some v, some v', some l, some l', some s, some s' => some ⟨t, v, v', l, l', s, s'⟩
    | _, _, _, _, _, _, _ => none
  | _ => none

def samples? (s : String) : Option (List Sample) := (strs s ";").mapM sample?

def firstSome {α} (l : List α) (f : α → Option String) : Option String :=
  l.foldl (fun acc x => match acc with | some r => some r | none => f x) none

def denoms : List Nat := List.range NDH

/-- the unlock predicate on the implementation's own samples:
    V'(t) = V(t) + amt·[t < now+length] for t ≥ now (schedule), the same for the bank's LockedCoins, and
    S'(t) = S(t) + amt·[t ≥ now+length] for the spendable coins. `dvPre` classifies a failure. -/
def unlockPred (now length : Int) (amt dvPre : Coins) (withBank : Bool) (smp : List Sample) : Option String :=
  firstSome smp fun x =>
    if x.t < now then none else
    firstSome denoms fun d =>
      let add := if x.t < now + length then amt d else 0
      if x.v' d != x.v d + add then
        let tag := if x.v' d < x.v d then "old-coins-released"
          else if x.t < now + length then (if x.v' d < x.v d + add then "new-coins-early" else "too-much-locked")
          else "new-coins-late"
        some (predfail "C20_unlock_exact" s!"{tag} t={x.t} d={d} V={x.v d} V'={x.v' d} expected={x.v d + add}")
      else if x.l' d != x.l d + add then
        let tag := if dvPre d > x.v d then "overdelegated" else "locked-differs"
        some (predfail "C20_locked_exact" s!"{tag} t={x.t} d={d} L={x.l d} L'={x.l' d} expected={x.l d + add} dv={dvPre d} V={x.v d}")
      else if withBank && x.s' d != x.s d + (amt d - add) then
        some (predfail "C20_held_coins_untouched" s!"spendable-differs t={x.t} d={d} S={x.s d} S'={x.s' d} expected={x.s d + (amt d - add)}")
      else none

/-- model vs implementation on the sampled SDK / bank functions -/
def sampleCmp (pre post : Option PVA) (bal bal' : Option Coins) (smp : List Sample) : String :=
  let vOf (a : Option PVA) (t : Int) : Coins := match a with | some a => vesting a t | none => Coins.zero
  let lOf (a : Option PVA) (t : Int) : Coins := match a with | some a => locked a t | none => Coins.zero
  allOk (smp.map fun x =>
    allOk [expectEq s!"vesting-pre t={x.t}" (showCoins (vOf pre x.t)) (showCoins x.v),
           expectEq s!"vesting-post t={x.t}" (showCoins (vOf post x.t)) (showCoins x.v'),
           expectEq s!"locked-pre t={x.t}" (showCoins (lOf pre x.t)) (showCoins x.l),
           expectEq s!"locked-post t={x.t}" (showCoins (lOf post x.t)) (showCoins x.l'),
           (match bal with
            | some b => expectEq s!"spendable-pre t={x.t}" (showCoins (spendable b (lOf pre x.t))) (showCoins x.s)
            | none => "ok"),
           (match bal' with
            | some b => expectEq s!"spendable-post t={x.t}" (showCoins (spendable b (lOf post x.t))) (showCoins x.s')
            | none => "ok")])

/-- one verdict per line: a failed property predicate (a failing input on the implementation) takes
    precedence over a model/implementation disagreement -/
def verdict (cmp pred : String) : String := if pred != "ok" then pred else cmp

/-! ### c20.sched -/

def handleSched : Handler
  | [now, start, endT, ov, dv, periods, amt, length, _, start', endT', ov', dv', periods', samples, valid] =>
    let obsPanic := samples.trimAscii.toString == "panic"
    match int? now, pva? start endT ov dv periods, coins? amt, int? length,
          pva? start' endT' ov' dv' periods', (if obsPanic then some [] else samples? samples) with
    | some now, some a, some amt, some length, some b, some smp =>
      -- (1) model vs implementation
      let m := addCoins now a amt length
      let cmp := allOk [expectEq "account" (showPVA m) (showPVA b), sampleCmp (some a) (some b) none none smp]
      verdict cmp <|
      -- (2) predicates on the implementation's observation (only for the inputs the property is about)
      if (wfTag a).isSome || length ≤ 0 || (denoms.any fun d => amt d < 0) then "ok" else
      match wfTag b with
      | some tag => predfail "C20_wellformed_preserved" tag
      | none =>
        if valid == "0" then predfail "C20_wellformed_preserved" "validate-fails"
        else if !coinsEq b.ov (Coins.add a.ov amt) then predfail "C20_wellformed_preserved" "original-vesting-not-plus-amt"
        else if !coinsEq b.dv a.dv then predfail "C20_wellformed_preserved" "delegated-vesting-changed"
        else if obsPanic then predfail "C20_wellformed_preserved" "observation-panics"
        else match unlockPred now length amt a.dv false smp with
          | some r => r
          | none => "ok"
    | _, _, _, _, _, _ => badInput "parse"
  | _ => badInput "arity"

/-! ### c20.send -/

def acct? (kind start endT ov dv periods : String) : Option Acct :=
  match kind with
  | "none" => some .none
  | "base" => some .base
  | "continuous" => some .continuous
  | "delayed" => some .delayed
  | "permanent" => some .permanent
  | "module" => some .module
  | "other" => some .other
  | "periodic" => (pva? start endT ov dv periods).map .periodic
  | _ => none

def kindOf : Acct → String
  | .none => "none" | .base => "base" | .periodic _ => "periodic" | .continuous => "continuous"
  | .delayed => "delayed" | .permanent => "permanent" | .module => "module" | .other => "other"

def pvaOf : Acct → Option PVA
  | .periodic a => some a
  | _ => none

def showAcct (k : Acct) : String :=
  match k with
  | .periodic a => s!"periodic {showPVA a}"
  | k => kindOf k

/-- `C20_refused_no_move` on the implementation's own observation: after a call that returned an error the
    keeper's context (read without any rollback) holds the same module balances, recipient balances and
    recipient account as before; `acctSame` / `restSame` are what the harness compared itself (the stored
    account record; supply and balances over all denoms). -/
def refusedPred (kind : String) (length : Int) (amt modBal modBal' bal bal' : Coins)
    (acctSame restSame : Bool) : Option String :=
  let ctx := s!"kind={kind} length={length} amt={showCoins amt} modBal={showCoins modBal}"
  match denoms.find? (fun d => modBal' d != modBal d) with
  | some d => some (predfail "C20_refused_no_move"
      s!"module-balance-changed d={d} {ctx} modBal'={showCoins modBal'} bal={showCoins bal} bal'={showCoins bal'}")
  | none =>
    match denoms.find? (fun d => bal' d != bal d) with
    | some d => some (predfail "C20_refused_no_move"
        s!"recipient-balance-changed d={d} {ctx} bal={showCoins bal} bal'={showCoins bal'}")
    | none =>
      if !acctSame then some (predfail "C20_refused_no_move" s!"account-changed {ctx}")
      else if !restSame then some (predfail "C20_refused_no_move" s!"supply-or-other-denom-changed {ctx}")
      else none

def handleSend : Handler
  | [now, kind, blocked, modBal, bal, start, endT, ov, dv, periods, amt, length, _,
     result, kind', modBal', bal', start', endT', ov', dv', periods', samples, raw, valid] =>
    let obsPanic := samples.trimAscii.toString == "panic"
    match int? now, acct? kind start endT ov dv periods, bool? blocked, coins? modBal, coins? bal,
          coins? amt, int? length with
    | some now, some acct, some blocked, some modBal, some bal, some amt, some length =>
      let w : World := ⟨modBal, bal, acct, blocked⟩
      let res := sendTimeLocked now w amt length
      let modelCls := match res with | .ok _ => "ok" | .err => "err" | .panic => "panic"
      let clsCmp := expectEq "result" modelCls result
      let sufficient := denoms.all fun d => amt d ≤ modBal d
      match result with
      | "ok" =>
        match acct? kind' start' endT' ov' dv' periods', coins? modBal', coins? bal',
              (if obsPanic then some [] else samples? samples) with
        | some acct', some modBal', some bal', some smp =>
          -- (1) model vs implementation
          let cmp := match res with
            | .ok w' => allOk [expectEq "modBal" (showCoins w'.modBal) (showCoins modBal'),
                               expectEq "bal" (showCoins w'.bal) (showCoins bal'),
                               expectEq "account" (showAcct w'.acct) (showAcct acct'),
                               sampleCmp (pvaOf acct) (pvaOf acct') (some bal) (some bal') smp]
            | _ => clsCmp
          verdict cmp <|
          -- (2) predicates on the implementation's observation
          if !sufficient then predfail "C20_dispatch" "insufficient-accepted"
          else if length != 0 && !(kind == "base" || kind == "periodic") then
            predfail "C20_dispatch" s!"accepted-{kind}"
          else if blocked then predfail "C20_dispatch" "accepted-blocked"
          else if !coinsEq modBal' (Coins.sub modBal amt) then predfail "C20_dispatch" "module-debit-not-amt"
          else if !coinsEq bal' (Coins.add bal amt) then predfail "C20_dispatch" "recipient-credit-not-amt"
          else if length == 0 then
            if showAcct acct' != showAcct acct then predfail "C20_dispatch" "account-changed-without-lockup"
            else match unlockPred now 0 amt Coins.zero true smp with
              | some r => r
              | none => "ok"
          else if length < 0 then "ok"
          else
            let preWf := match acct with | .periodic a => (wfTag a).isNone | _ => true
            if !preWf then "ok" else
            match acct' with
            | .periodic b =>
              match wfTag b with
              | some tag => predfail "C20_wellformed_preserved" tag
              | none =>
                let ovPre : Coins := match acct with | .periodic a => a.ov | _ => Coins.zero
                let dvPre : Coins := match acct with | .periodic a => a.dv | _ => Coins.zero
                if valid == "0" then predfail "C20_wellformed_preserved" "validate-fails"
                else if !coinsEq b.ov (Coins.add ovPre amt) then
                  predfail "C20_wellformed_preserved" "original-vesting-not-plus-amt"
                else if !coinsEq b.dv dvPre then predfail "C20_wellformed_preserved" "delegated-vesting-changed"
                else if obsPanic then predfail "C20_wellformed_preserved" "observation-panics"
                else match unlockPred now length amt dvPre true smp with
                  | some r => r
                  | none => "ok"
            | _ => predfail "C20_dispatch" "recipient-not-periodic-after-lockup"
        | _, _, _, _ => badInput "post"
      | "err" =>
        -- refusal must move nothing, seen in the keeper's own context (no rollback involved)
        let parts := raw.splitOn "|"
        match parts with
        | rm :: rb :: same :: rest =>
          match coins? rm, coins? rb with
          | some rm, some rb =>
            verdict clsCmp <|
            match refusedPred kind length amt modBal rm bal rb (same == "1") (rest.all (· == "1")) with
            | some r => r
            | none =>
              let eligible := sufficient && !blocked &&
                ((length == 0 && kind != "none") || kind == "base" || kind == "periodic")
              if eligible then predfail "C20_dispatch" s!"refused-eligible kind={kind}" else "ok"
          | _, _ => badInput "raw"
        | _ => badInput "raw"
      | "panic" => predfail "C20_dispatch" s!"panic kind={kind}"
      | _ => badInput "result"
    | _, _, _, _, _, _, _ => badInput "parse"
  | _ => badInput "arity"

/-! ### c20.guard -/

def handleGuard : Handler
  | [now, kind, blocked, modBal, bal, start, endT, ov, dv, periods, amt, length, coinsValid, supply, _,
     result, kind', modBal', bal', start', endT', ov', dv', periods', supply', same, valid] =>
    match int? now, acct? kind start endT ov dv periods, bool? blocked, coins? modBal, coins? bal,
          coins? amt, int? length, bool? coinsValid, coins? supply,
          acct? kind' start' endT' ov' dv' periods', coins? modBal', coins? bal', coins? supply' with
    | some now, some acct, some blocked, some modBal, some bal, some amt, some length, some coinsValid,
      some supply, some acct', some modBal', some bal', some supply' =>
      let w : World := ⟨modBal, bal, acct, blocked⟩
      -- (1) the rollback-free model against the keeper's own context (a malformed coin set is refused by
      --     the guard or by the bank's validity check before anything is touched)
      let k := if coinsValid then sendTimeLockedK now w amt length else (w, false)
      let cmp := allOk [expectEq "result" (if k.2 then "ok" else "err") result,
                        expectEq "modBal" (showCoins k.1.modBal) (showCoins modBal'),
                        expectEq "bal" (showCoins k.1.bal) (showCoins bal'),
                        expectEq "account" (showAcct k.1.acct) (showAcct acct')]
      let sufficient := denoms.all fun d => amt d ≤ modBal d
      let flags := same.trimAscii.toString
      let acctSame := showAcct acct' == showAcct acct && flags.toList.getD 3 '0' == '1'
      let restSame := coinsEq supply' supply && flags.toList.take 3 == ['1', '1', '1']
      verdict cmp <|
      -- (2) predicates on the implementation's observation
      match result with
      | "err" =>
        match refusedPred kind length amt modBal modBal' bal bal' acctSame restSame with
        | some r => r
        | none =>
          let eligible := coinsValid && sufficient && !blocked &&
            ((length == 0 && kind != "none") || kind == "base" || kind == "periodic")
          if eligible then predfail "C20_dispatch" s!"refused-eligible kind={kind}" else "ok"
      | "ok" =>
        if !coinsValid then "ok"
        else if !sufficient then predfail "C20_dispatch" "insufficient-accepted"
        else if length != 0 && !(kind == "base" || kind == "periodic") then
          predfail "C20_dispatch" s!"accepted-{kind}"
        else if blocked then predfail "C20_dispatch" "accepted-blocked"
        else if !coinsEq modBal' (Coins.sub modBal amt) then predfail "C20_dispatch" "module-debit-not-amt"
        else if !coinsEq bal' (Coins.add bal amt) then predfail "C20_dispatch" "recipient-credit-not-amt"
        else if !coinsEq supply' supply then predfail "C20_dispatch" "supply-changed"
        else if length == 0 then
          if showAcct acct' != showAcct acct then predfail "C20_dispatch" "account-changed-without-lockup" else "ok"
        else if length < 0 then "ok"
        else
          let preWf := match acct with | .periodic a => (wfTag a).isNone | _ => true
          if !preWf then "ok" else
          match acct' with
          | .periodic b =>
            match wfTag b with
            | some tag => predfail "C20_wellformed_preserved" tag
            | none =>
              let ovPre : Coins := match acct with | .periodic a => a.ov | _ => Coins.zero
              let dvPre : Coins := match acct with | .periodic a => a.dv | _ => Coins.zero
              if valid == "0" then predfail "C20_wellformed_preserved" "validate-fails"
              else if !coinsEq b.ov (Coins.add ovPre amt) then
                predfail "C20_wellformed_preserved" "original-vesting-not-plus-amt"
              else if !coinsEq b.dv dvPre then predfail "C20_wellformed_preserved" "delegated-vesting-changed"
              else "ok"
          | _ => predfail "C20_dispatch" "recipient-not-periodic-after-lockup"
      | "panic" => predfail "C20_dispatch" s!"panic kind={kind}"
      | _ => badInput "result"
    | _, _, _, _, _, _, _, _, _, _, _, _, _ => badInput "parse"
  | _ => badInput "arity"

/-! ### c20.cal -/

def lenRes? (s : String) : Option LenRes :=
  if s.trimAscii.toString == "P" then some .panic else (int? s).map .ok

def showLenRes : LenRes → String
  | .ok l => toString l
  | .panic => "P"

def zip4 : List Int → List LenRes → List Int → List Int → List (Int × LenRes × Int × Int)
  | m :: ms, l :: ls, d :: ds, s :: ss => (m, l, d, s) :: zip4 ms ls ds ss
  | _, _, _, _ => []

/-- payday predicate over the implementation's own values; `prev` = last (months, len) with months > 0 -/
def paydayPred (now : Int) (early : Bool := true) (checkBranch : Bool := false) :
    List (Int × LenRes × Int × Int) → Option (Int × Int) → Option String
  | [], _ => none
  | (m, l, day, sec) :: rest, prev =>
    match l with
    | .panic => if m < 0 then paydayPred now early checkBranch rest prev else some (predfail "C20_payday" s!"panic months={m}")
    | .ok len =>
      if m < 0 then some (predfail "C20_payday" s!"negative-months-accepted months={m}")
      else if m == 0 then
        if len != 0 then some (predfail "C20_payday" "zero-months-nonzero") else paydayPred now early checkBranch rest prev
      else if !(day == BeginningOfMonth || day == MidMonth) || sec != PaymentHour * 3600 then
        some (predfail "C20_payday" s!"not-payday months={m} day={day} sec={sec}")
      -- which pay day: a claim made before the 15th 14:00 UTC of its month is paid on a 15th, a later one on a 1st
      -- (the claim's calendar position is taken in UTC, never in the host's time zone)
      else if checkBranch && day != (if early then MidMonth else BeginningOfMonth) then
        some (predfail "C20_payday" s!"wrong-payday-for-claim-date months={m} day={day} early={early}")
      else if len ≤ 0 then some (predfail "C20_payday" s!"not-after-now months={m} len={len}")
      else match prev with
        | some (pm, pl) =>
          if (pm ≤ m && pl > len) || (pm ≥ m && pl < len) || (pm < m && pl ≥ len) || (pm > m && pl ≤ len) then
            some (predfail "C20_payday" s!"not-monotone months={pm},{m} len={pl},{len}")
          else paydayPred now early checkBranch rest (some (m, len))
        | none => paydayPred now early checkBranch rest (some (m, len))

def handleCal : Handler
  | [now, y, m, d, hour, months, lens, endDays, endSecs] =>
    match int? now, int? y, int? m, int? d, int? hour, ints? months, (strs lens).mapM lenRes?,
          ints? endDays, ints? endSecs with
    | some now, some y, some m, some d, some hour, some months, some lens, some endDays, some endSecs =>
      if months.length != lens.length || months.length != endDays.length || months.length != endSecs.length then
        badInput "lengths"
      else
      -- (1) model vs Go's time package and GetPeriodLength
      let c := civilFromDays (now / 86400)
      let cmp0 := allOk [expectEq "civil" s!"{c.y}-{c.m}-{c.d}" s!"{y}-{m}-{d}",
                         expectEq "hour" (toString (now % 86400 / 3600)) (toString hour)]
      let rows := zip4 months lens endDays endSecs
      let cmp := allOk (rows.map fun (mo, l, day, sec) =>
        let ml := getPeriodLength now mo
        if ml != l then mismatch s!"len months={mo}" (showLenRes ml) (showLenRes l)
        else match l with
          | .ok len =>
            let e := now + len
            allOk [expectEq s!"end-day months={mo}" (toString (civilFromDays (e / 86400)).d) (toString day),
                   expectEq s!"end-sec months={mo}" (toString (e % 86400)) (toString sec)]
          | .panic => "ok")
      -- (2) the payday predicate on Go's own outputs
      verdict (allOk [cmp0, cmp]) <|
      -- the claim's position in its month, from the UTC calendar fields of `now` computed HERE (not Go's)
      let early := decide (c.d < MidMonth) || (c.d == MidMonth && decide (now % 86400 / 3600 < PaymentHour))
      match paydayPred now early true rows none with
      | some r => r
      | none => "ok"
    | _, _, _, _, _, _, _, _, _ => badInput "parse"
  | _ => badInput "arity"

/-- handlers of property C20: (command name, handler) -/
def handlers : List (String × Handler) :=
  [("c20.cal", handleCal), ("c20.sched", handleSched), ("c20.send", handleSend), ("c20.guard", handleGuard)]
end Drv.C20
