import Driver.Util
namespace Drv.C20
/-- handlers of property C20: (command name, handler) -/
def handlers : List (String × Handler) := []
end Drv.C20
