import Driver.Util
namespace Drv.C10
/-- handlers of property C10: (command name, handler) -/
def handlers : List (String × Handler) := []
end Drv.C10
