import Driver.Util
import KavaVerif.Model.Evmutil
/-!
  C10 driver. One self-contained case per line: the implementation's observed pre-state, the
  operation, the implementation's result class and observed post-state. The handler
  (1) runs the Lean model on the observed pre-state and compares (MISMATCH), and
  (2) evaluates the property's predicates on the implementation's own observation (PREDFAIL),
      independently of the model.

  c10.op fields:
    kind denoms U blocked | tags pairs allowed reg bank supply ebal total | a b x amt "=>" result |
    tags' pairs' allowed' reg' bank' supply' ebal' total'
    kind ∈ c2e e2c cc2e e2cc (the four messages) | xfer send xmint (environment) | pairs allow (params)
    contracts are tags x<n> (external) / d<k> (k-th deployed by the module); parties are indices,
    0 = module, 1 = zero address; pairs/reg are `tag=denom` lists; bank/ebal are `;`-separated rows.
  c10.bep3 / c10.isbep3: the pure bep3 helpers through the verif hook.
  c10.rt fields (round trip = two successful messages, the second undoing the first):
    kind denoms U blocked | pre (8) | a b x amt "=>" | post (8)      kind ∈ native | cosmos
-/
namespace Drv.C10
open KV KV.EU

structure Obs where
  tags : List String
  pairs : List (String × String)
  allowed : List String
  reg : List (String × String)
  bank : List (List Int)
  supply : List Int
  ebal : List (List Int)
  total : List Int
deriving BEq

def rows? (s : String) : Option (List (List Int)) :=
  let t := s.trimAscii.toString
  if t == "" || t == "-" then some [] else (t.splitOn ";").mapM ints?

def pairs? (s : String) : Option (List (String × String)) :=
  (strs s).mapM fun e => match e.splitOn "=" with
    | [a, b] => some (a, b)
    | _ => none

def obs? : List String → Option Obs
  | [tags, pairs, allowed, reg, bank, supply, ebal, total] => do
    let pairs ← pairs? pairs
    let reg ← pairs? reg
    let bank ← rows? bank
    let supply ← ints? supply
    let ebal ← rows? ebal
    let total ← ints? total
    some ⟨strs tags, pairs, strs allowed, reg, bank, supply, ebal, total⟩
  | _ => none

def contract? (t : String) : Option Contract :=
  if t.startsWith "x" then (t.drop 1).toString.toNat?.map Contract.ext
  else if t.startsWith "d" then (t.drop 1).toString.toNat?.map Contract.dep
  else none

def tagOf : Contract → String
  | .ext n => s!"x{n}"
  | .dep k => s!"d{k}"

def cell (m : List (List Int)) (i a : Nat) : Int := (m.getD i []).getD a 0

def bankAt (denoms : List String) (o : Obs) (d : String) (a : Nat) : Int :=
  match denoms.idxOf? d with
  | some i => cell o.bank i a
  | none => 0

def supplyAt (denoms : List String) (o : Obs) (d : String) : Int :=
  match denoms.idxOf? d with
  | some i => o.supply.getD i 0
  | none => 0

def ebalAt (o : Obs) (t : String) (a : Nat) : Int :=
  match o.tags.idxOf? t with
  | some i => cell o.ebal i a
  | none => 0

def totalAt (o : Obs) (t : String) : Int :=
  match o.tags.idxOf? t with
  | some i => o.total.getD i 0
  | none => 0

def regTag (o : Obs) (d : String) : Option String := (o.reg.find? (·.2 == d)).map (·.1)

def nDep (o : Obs) : Nat := (o.tags.filter (·.startsWith "d")).length

def toPairs (l : List (String × String)) : List Pair :=
  l.filterMap fun p => (contract? p.1).map (·, p.2)

def stOf (denoms : List String) (o : Obs) : St :=
  { bank := { bal := fun d a => bankAt denoms o d a, supply := fun d => supplyAt denoms o d }
    erc := { bal := fun c a => ebalAt o (tagOf c) a, total := fun c => totalAt o (tagOf c) }
    reg := fun d => match regTag o d with
      | some t => match contract? t with
        | some (.dep k) => some k
        | _ => none
      | none => none
    nextC := nDep o
    pairs := toPairs o.pairs
    allowed := o.allowed }

def showRows (m : List (List Int)) : String :=
  if m.isEmpty then "-" else ";".intercalate (m.map showInts)

/-- canonical text of a state (model or implementation) over the implementation's post tag list -/
def canonSt (denoms tags : List String) (nParties : Nat) (s : St) : String :=
  let ps := List.range nParties
  let cs := tags.filterMap contract?
  let regs := denoms.map fun d => match s.reg d with | some k => s!"d{k}" | none => "-"
  " pairs=" ++ ",".intercalate (s.pairs.map fun p => tagOf p.1 ++ "=" ++ p.2) ++
  " allowed=" ++ ",".intercalate s.allowed ++
  " reg=" ++ ",".intercalate regs ++
  " bank=" ++ showRows (denoms.map fun d => ps.map (s.bank.bal d)) ++
  " supply=" ++ showInts (denoms.map s.bank.supply) ++
  " ebal=" ++ showRows (cs.map fun c => ps.map (s.erc.bal c)) ++
  " total=" ++ showInts (cs.map s.erc.total)

def opOf (kind : String) (a b : Nat) (x : String) (amt : Int) : Option Op :=
  match kind with
  | "c2e" => some (.coinToErc a b x amt)
  | "e2c" => (contract? x).map fun c => .ercToCoin a b c amt
  | "cc2e" => some (.cosmosToErc a b x amt)
  | "e2cc" => some (.cosmosFromErc a b x amt)
  | "xfer" => (contract? x).map fun c => .transfer c a b amt
  | "send" => some (.send x a b amt)
  | "xmint" => (contract? x).map fun c => .extMint c b amt
  | "pairs" => (pairs? x).map fun l => .setPairs (toPairs l)
  | "allow" => some (.setAllowed (strs x))
  | _ => none

/-! predicates on the implementation's observation -/

def sumL (l : List Int) : Int := l.foldl (· + ·) 0

def isBep3S (d : String) : Bool := KV.Gen.bep3Denoms.contains d
def scaleS (d : String) : Int := if isBep3S d then KV.Gen.bep3ConversionFactor else 1

/-- state predicates (the invariants of the property) -/
def statePred (denoms : List String) (U : List (String × String)) (o : Obs) : Option (String × String) :=
  -- every registered cosmos denom: ERC20 totalSupply = module bank balance
  match o.reg.find? (fun p => totalAt o p.1 != bankAt denoms o p.2 0) with
  | some p => some ("C10_cosmos_backed", s!"total-ne-module-balance {p.2}")
  | none =>
  match denoms.find? (fun d => (regTag o d).isNone && bankAt denoms o d 0 != 0) with
  | some d => some ("C10_cosmos_backed", s!"module-holds-unregistered-coin {d}")
  | none =>
  -- every pair of the universe (enabled or not): supply·scale ≤ ERC20 locked in the module's EVM account
  match U.find? (fun p => supplyAt denoms o p.2 * scaleS p.2 > ebalAt o p.1 0) with
  | some p => some ("C10_evm_native_backed", s!"supply-exceeds-locked {p.2}")
  | none =>
  -- the trusted ledger: totalSupply = Σ balances, balances ≥ 0
  match (List.range o.tags.length).find? (fun i => sumL (o.ebal.getD i []) != o.total.getD i 0) with
  | some i => some ("C10_ledger_total", s!"total-ne-sum {o.tags.getD i "?"}")
  | none =>
  if o.ebal.any (·.any (· < 0)) || o.bank.any (·.any (· < 0)) then some ("C10_ledger_total", "negative-balance")
  else none

/-- cells that differ between two matrices (missing rows/cells count as 0) -/
def diffCells (pre post : List (List Int)) : List (Nat × Nat) :=
  let nr := max pre.length post.length
  (List.range nr).flatMap fun i =>
    let nc := max (pre.getD i []).length (post.getD i []).length
    (List.range nc).filterMap fun a => if cell pre i a != cell post i a then some (i, a) else none

def diffList (pre post : List Int) : List Nat :=
  (List.range (max pre.length post.length)).filter fun i => pre.getD i 0 != post.getD i 0

def subsetOf {α} [BEq α] (l m : List α) : Bool := l.all m.contains

structure Frame where
  bank : List (Nat × Nat) := []
  supply : List Nat := []
  ebal : List (Nat × Nat) := []
  total : List Nat := []

/-- nothing outside the frame changed (params and registry are checked by the caller) -/
def frameOk (pre post : Obs) (f : Frame) : Bool :=
  subsetOf (diffCells pre.bank post.bank) f.bank && subsetOf (diffList pre.supply post.supply) f.supply &&
  subsetOf (diffCells pre.ebal post.ebal) f.ebal && subsetOf (diffList pre.total post.total) f.total

def di (denoms : List String) (d : String) : Nat := (denoms.idxOf? d).getD 999
def ci (o : Obs) (t : String) : Nat := (o.tags.idxOf? t).getD 999

/-- predicates of one successful operation -/
def okPred (kind : String) (denoms : List String) (pre post : Obs) (a b : Nat) (x : String) (amt : Int) :
    Option (String × String) :=
  let paramsSame := pre.pairs == post.pairs && pre.allowed == post.allowed
  match kind with
  | "c2e" =>
    match pre.pairs.find? (·.2 == x) with
    | none => some ("C10_disabled_refused", "pair-not-enabled-accepted")
    | some (t, _) =>
      let v := amt * scaleS x
      if amt ≤ 0 then some ("C10_value_conserved", "non-positive-amount-accepted")
      else if bankAt denoms post x a != bankAt denoms pre x a - amt then some ("C10_value_conserved", "initiator-debit")
      else if ebalAt post t b != ebalAt pre t b + v then some ("C10_value_conserved", "receiver-credit")
      else if ebalAt post t 0 != ebalAt pre t 0 - v then some ("C10_value_conserved", "module-unlock")
      else if supplyAt denoms post x != supplyAt denoms pre x - amt then some ("C10_value_conserved", "supply")
      else if !(frameOk pre post { bank := [(di denoms x, a)], supply := [di denoms x], ebal := [(ci pre t, b), (ci pre t, 0)] }
                && paramsSame && pre.reg == post.reg) then some ("C10_value_conserved", "frame")
      else none
  | "e2c" =>
    match pre.pairs.find? (·.1 == x) with
    | none => some ("C10_disabled_refused", "pair-not-enabled-accepted")
    | some (t, d) =>
      let debit := ebalAt pre t a - ebalAt post t a
      let credit := bankAt denoms post d b - bankAt denoms pre d b
      if amt ≤ 0 then some ("C10_value_conserved", "non-positive-amount-accepted")
      else if debit > amt then some ("C10_dust_stays", "debited-more-than-asked")
      else if amt - debit ≥ scaleS d then some ("C10_dust_stays", "whole-unit-not-converted")
      else if debit % scaleS d != 0 then some ("C10_dust_stays", "dust-taken")
      else if credit ≤ 0 then some ("C10_value_conserved", "nothing-minted")
      else if credit * scaleS d != debit then some ("C10_value_conserved", "credit-ne-debit")
      else if ebalAt post t 0 != ebalAt pre t 0 + debit then some ("C10_value_conserved", "module-lock")
      else if supplyAt denoms post d != supplyAt denoms pre d + credit then some ("C10_value_conserved", "supply")
      else if !(frameOk pre post { bank := [(di denoms d, b)], supply := [di denoms d], ebal := [(ci pre t, a), (ci pre t, 0)] }
                && paramsSame && pre.reg == post.reg) then some ("C10_value_conserved", "frame")
      else none
  | "cc2e" =>
    if !pre.allowed.contains x then some ("C10_disabled_refused", "denom-not-allowed-accepted")
    else match regTag post x with
    | none => some ("C10_value_conserved", "no-contract-registered")
    | some t =>
      if (regTag pre x).isSome && regTag pre x != some t then some ("C10_value_conserved", "contract-replaced")
      else if amt ≤ 0 then some ("C10_value_conserved", "non-positive-amount-accepted")
      else if bankAt denoms post x a != bankAt denoms pre x a - amt then some ("C10_value_conserved", "initiator-debit")
      else if bankAt denoms post x 0 != bankAt denoms pre x 0 + amt then some ("C10_value_conserved", "module-lock")
      else if ebalAt post t b != ebalAt pre t b + amt then some ("C10_value_conserved", "receiver-credit")
      else if totalAt post t != totalAt pre t + amt then some ("C10_value_conserved", "total-supply")
      else if !(frameOk pre post { bank := [(di denoms x, a), (di denoms x, 0)], ebal := [(ci post t, b)], total := [ci post t] }
                && paramsSame && (pre.reg.all post.reg.contains) && post.reg.length ≤ pre.reg.length + 1) then
        some ("C10_value_conserved", "frame")
      else none
  | "e2cc" =>
    match regTag pre x with
    | none => some ("C10_disabled_refused", "unregistered-denom-accepted")
    | some t =>
      if amt ≤ 0 then some ("C10_value_conserved", "non-positive-amount-accepted")
      else if ebalAt post t a != ebalAt pre t a - amt then some ("C10_value_conserved", "initiator-debit")
      else if totalAt post t != totalAt pre t - amt then some ("C10_value_conserved", "total-supply")
      else if bankAt denoms post x b != bankAt denoms pre x b + amt then some ("C10_value_conserved", "receiver-credit")
      else if bankAt denoms post x 0 != bankAt denoms pre x 0 - amt then some ("C10_value_conserved", "module-unlock")
      else if !(frameOk pre post { bank := [(di denoms x, b), (di denoms x, 0)], ebal := [(ci pre t, a)], total := [ci pre t] }
                && paramsSame && pre.reg == post.reg) then some ("C10_value_conserved", "frame")
      else none
  | "xfer" =>
    let d := if a == b then 0 else amt
    if ebalAt post x a != ebalAt pre x a - d || ebalAt post x b != ebalAt pre x b + d then some ("C10_env_exact", "transfer")
    else if !(frameOk pre post { ebal := [(ci pre x, a), (ci pre x, b)] } && paramsSame && pre.reg == post.reg) then
      some ("C10_env_exact", "transfer-frame")
    else none
  | "send" =>
    let d := if a == b then 0 else amt
    if bankAt denoms post x a != bankAt denoms pre x a - d || bankAt denoms post x b != bankAt denoms pre x b + d then
      some ("C10_env_exact", "send")
    else if !(frameOk pre post { bank := [(di denoms x, a), (di denoms x, b)] } && paramsSame && pre.reg == post.reg) then
      some ("C10_env_exact", "send-frame")
    else none
  | "xmint" =>
    if ebalAt post x b != ebalAt pre x b + amt || totalAt post x != totalAt pre x + amt then some ("C10_env_exact", "mint")
    else if !(frameOk pre post { ebal := [(ci pre x, b)], total := [ci pre x] } && paramsSame && pre.reg == post.reg) then
      some ("C10_env_exact", "mint-frame")
    else none
  | _ => -- pairs / allow: only params change
    if !(frameOk pre post {} && pre.reg == post.reg) then some ("C10_env_exact", "params-frame") else none

def parseHead (denoms U blocked : String) : Option (List String × List (String × String) × List Int) := do
  let U ← pairs? U
  let bl ← ints? blocked
  some (strs denoms, U, bl)

def handleOp : Handler
  | kind :: denoms :: U :: blocked :: rest =>
    match parseHead denoms U blocked, obs? (rest.take 8), rest.drop 8 with
    | some (denoms, U, bl), some pre, a :: b :: x :: amt :: _ :: result :: rest2 =>
      match nat? a, nat? b, int? amt, obs? (rest2.take 8) with
      | some a, some b, some amt, some post =>
        if rest2.length != 8 then badInput "arity-post" else
        let x := x.trimAscii.toString
        let n := bl.length
        let blockedF : Addr → Bool := fun i => bl.getD i 0 == 1
        match opOf kind a b x amt with
        | none => badInput "op"
        | some op =>
          let s := stOf denoms pre
          -- (2) property predicates on the implementation's own observation (reported first: a
          --     violated predicate is the stronger verdict, and it does not depend on the model)
          let pred : String :=
            match statePred denoms U post with
            | some (nm, why) => predfail nm why
            | none =>
              if result == "err" then
                if pre == post then "ok" else predfail "C10_failed_changes_nothing" "state-changed"
              else if result == "ok" then
                match okPred kind denoms pre post a b x amt with
                | some (nm, why) => predfail nm s!"{why} {kind}"
                | none => "ok"
              else predfail "C10_no_panic" kind
          if pred != "ok" then pred else
          -- (1) model vs implementation
          let res := step blockedF s op
          let modelCls := if res.isOk then "ok" else "err"
          if modelCls != result then mismatch "result" modelCls result else
          let s' := match res with | .ok s' => s' | .err => s
          let mtxt := canonSt denoms post.tags n s'
          let itxt := canonSt denoms post.tags n (stOf denoms post)
          if mtxt != itxt then mismatch "state" mtxt itxt else
          if (stOf denoms post).nextC != s'.nextC then mismatch "deployed" (toString s'.nextC) (toString (nDep post)) else
          "ok"
      | _, _, _, _ => badInput "parse-op"
    | _, _, _ => badInput "parse"
  | _ => badInput "arity"

/-- round trip: `a` converted `amt` to `b`, then `b` converted the proceeds back to `a`:
    every balance, supply and total is as before (the registry may have gained an empty contract) -/
def handleRt : Handler
  | kind :: denoms :: U :: blocked :: rest =>
    match parseHead denoms U blocked, obs? (rest.take 8), rest.drop 8 with
    | some (denoms, _, bl), some pre, a :: b :: x :: amt :: _ :: rest2 =>
      match nat? a, nat? b, int? amt, obs? (rest2.take 8) with
      | some a, some b, some amt, some post =>
        let x := x.trimAscii.toString
        let blockedF : Addr → Bool := fun i => bl.getD i 0 == 1
        let s := stOf denoms pre
        -- predicate on the implementation's observation: everything is as before the round trip
        if !(frameOk pre post {} && pre.pairs == post.pairs && pre.allowed == post.allowed) then
          predfail "C10_round_trip" s!"not-restored {kind}" else
        -- model: both messages succeed and restore the balances
        let ops : Option (Op × Op) := match kind with
          | "native" => (contract? x).bind fun c =>
              match findByContract s.pairs c with
              | some p => some (.ercToCoin a b c amt, .coinToErc b a p.2 (if isBep3 p.2 then amt / F else amt))
              | none => none
          | "cosmos" => some (.cosmosToErc a b x amt, .cosmosFromErc b a x amt)
          | _ => none
        match ops with
        | none => badInput "rt-op"
        | some (op1, op2) =>
          match step blockedF s op1 with
          | .err => mismatch "rt-first" "err" "ok"
          | .ok s1 =>
            match step blockedF s1 op2 with
            | .err => mismatch "rt-second" "err" "ok"
            | .ok s2 =>
              let n := bl.length
              let strip (t : String) : String := (t.splitOn " reg=").getD 0 "" ++ " bank=" ++ ((t.splitOn " bank=").getD 1 "")
              let mtxt := strip (canonSt denoms post.tags n s2)
              let itxt := strip (canonSt denoms post.tags n (stOf denoms post))
              if mtxt != itxt then mismatch "rt-state" mtxt itxt else "ok"
      | _, _, _, _ => badInput "parse-rt"
    | _, _, _ => badInput "parse"
  | _ => badInput "arity"

/-- the pure bep3 helpers (through the verif hook): fields amount "=>" result mint lock coin back -/
def handleBep3 : Handler
  | [amt, _, result, mint, lock, coin, back] =>
    match int? amt, int? mint, int? lock, int? coin, int? back with
    | some amt, some mint, some lock, some coin, some back =>
      -- predicates on the implementation's output
      if result == "ok" && !(mint > 0 && lock == mint * KV.Gen.bep3ConversionFactor && lock ≤ amt
          && amt - lock < KV.Gen.bep3ConversionFactor) then predfail "C10_dust_stays" "bep3-mint-lock"
      else if result == "err" && amt ≥ KV.Gen.bep3ConversionFactor then predfail "C10_dust_stays" "whole-unit-refused"
      else if back != coin * KV.Gen.bep3ConversionFactor then predfail "C10_value_conserved" "bep3-coin-to-erc20-amount"
      else
      -- model
      let mm := amt / F
      let modelCls := if mm = 0 then "err" else "ok"
      if modelCls != result then mismatch "bep3-result" modelCls result
      else if result == "ok" && (mm != mint || mm * F != lock) then
        mismatch "bep3-amounts" s!"{mm},{mm * F}" s!"{mint},{lock}"
      else "ok"
    | _, _, _, _, _ => badInput "parse-bep3"
  | _ => badInput "arity"

def handleIsBep3 : Handler
  | [d, _, r] => expectEq "isbep3" (showBool (isBep3 d)) r.trimAscii.toString
  | _ => badInput "arity"

/-- handlers of property C10: (command name, handler) -/
def handlers : List (String × Handler) :=
  [("c10.op", handleOp), ("c10.rt", handleRt), ("c10.bep3", handleBep3), ("c10.isbep3", handleIsBep3)]
end Drv.C10
