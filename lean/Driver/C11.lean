import Driver.Util
import KavaVerif.Model.Earn
import KavaVerif.Model.EarnShares
import KavaVerif.Model.Savings
/-!
  C11 driver. One self-contained case per line: the implementation's observed pre-state, the
  operation, the implementation's result class and observed post-state.  Each handler
  (1) runs the Lean model on the observed pre-state and compares (MISMATCH), and
  (2) evaluates the property's predicates on the implementation's own observation (PREDFAIL),
      independently of the model.

  c11.earn   kind v a x vaultOk stratOk acctOk  pre0 pre1  "=>" result payout probe  post0 post1
             kind ∈ dep | wd | accrue ; v = vault the operation addresses ; a = account index
             a vault observation is 7 fields: found tot sh av val loose bal
               (tot, sh = sdk.Dec mantissas; av = GetVaultAccountValue per account, −1 = error)
             probe = payout of withdrawing the whole account value right after a successful
                     deposit, executed on a discarded branch (−1: not run / refused)
  c11.sav    kind a coins supported  pre  "=>" result  post
             a savings observation is 4 fields: bal(matrix) mod has dep(matrix); rows = accounts
  c11.savstate  a savings observation (after every operation of any kind)
  c11.multi  kind v a x vaultOk stratOk nV  pre  "=>" result payout  post  ledger probes
             the several-vault world: a state is 7 fields
               found(per vault) tot val loose  recs(per account, `;`-separated)  bal(matrix) av(matrix)
             a record row is the RAW stored list `d:amt|d:amt` in stored order (`x` = no record,
             `e` = a stored empty record); d = index of the denom in the sorted denom universe
             ledger = the harness's own log: the shares account a must hold in vault v (matrix)
             probes = `b:v:value:class:payout:errkind` — GetVaultAccountValue of account b in a vault
                      the log says it holds, and the outcome of withdrawing exactly that value on a
                      discarded branch
  c11.savrec   the RAW x/savings deposit records (rows as above)
  c11.shares   op A B "=>" class R A'   pure VaultShares.Add / Sub: operands, result class
               (ok | panic), result, and the first operand as it is after the call
-/
namespace Drv.C11
open KV

def fn (l : List Int) : Nat → Int := fun a => l.getD a 0
def sumL (l : List Int) : Int := l.foldl (· + ·) 0
def idxs (n : Nat) : List Nat := List.range n
def showB (b : Bool) : String := if b then "1" else "0"

/-! ## earn -/

structure VO where
  found : Bool
  tot : Int
  sh : List Int
  av : List Int
  val : Int
  loose : Int
  bal : List Int
deriving BEq

def parseVO (f : List String) (i : Nat) : Option VO :=
  match bool? (f.getD i ""), int? (f.getD (i+1) ""), ints? (f.getD (i+2) ""), ints? (f.getD (i+3) ""),
        int? (f.getD (i+4) ""), int? (f.getD (i+5) ""), ints? (f.getD (i+6) "") with
  | some fo, some tot, some sh, some av, some val, some loose, some bal =>
    -- −1 (no share record for the account) and 0 are identified
    some ⟨fo, tot, sh, av.map (fun x => if x < 0 then 0 else x), val, loose, bal⟩
  | _, _, _, _, _, _, _ => none

def stOf (o : VO) : Earn.St :=
  { found := o.found, tot := o.tot, sh := fn o.sh, val := o.val, loose := o.loose, bal := fn o.bal }

def pos0 (x : Int) : Int := if x < 0 then 0 else x

/-- predicates of a single observed vault state -/
def vaultPred (tag : String) (o : VO) : String :=
  if o.sh.any (· < 0) then predfail "C11_earn_shares_sum" s!"negative-share {tag}"
  else if o.tot != sumL o.sh then predfail "C11_earn_shares_sum" s!"total-ne-sum {tag}"
  else if o.found != (o.tot != 0) then predfail "C11_earn_shares_sum" s!"record-vs-total {tag}"
  else if o.val < 0 then predfail "C11_earn_redeemable_le_value" s!"negative-value {tag}"
  else if sumL (o.av.map pos0) > o.val then predfail "C11_earn_redeemable_le_value" s!"sum-exceeds-value {tag}"
  else "ok"

/-- the model's state compared with an observation (n accounts) -/
def cmpVault (tag : String) (n : Nat) (m : Earn.St) (o : VO) : String :=
  allOk [expectEq s!"found{tag}" (showB m.found) (showB o.found),
         expectEq s!"tot{tag}" (toString m.tot) (toString o.tot),
         expectEq s!"sh{tag}" (showInts ((idxs n).map m.sh)) (showInts o.sh),
         expectEq s!"val{tag}" (toString m.val) (toString o.val),
         expectEq s!"loose{tag}" (toString m.loose) (toString o.loose),
         expectEq s!"bal{tag}" (showInts ((idxs n).map m.bal)) (showInts o.bal)]

/-- the model's `redeemable` against the observed GetVaultAccountValue (−1 = error = no record) -/
def cmpAv (tag : String) (n : Nat) (o : VO) : String :=
  let s := stOf o
  let m := (idxs n).map fun a =>
    match Earn.convertToAssets s (s.sh a) with
    | .ok v => v
    | _ => -1
  -- an account without any share record errors even when the vault exists; the model has no
  -- per-account record flag, so −1 and 0 are identified
  expectEq s!"av{tag}" (showInts (m.map pos0)) (showInts (o.av.map pos0))

def others (n a : Nat) (p q : List Int) : Bool :=
  (idxs n).all fun b => b == a || p.getD b 0 == q.getD b 0

/-- predicates of one successful Deposit / Withdraw by account `a`, on the observation of the vault
    it addresses -/
def opPred (kind : String) (n a : Nat) (x payout probe : Int) (pre post : VO) : String :=
  let balA := pre.bal.getD a 0
  let balA' := post.bal.getD a 0
  let avA := pos0 (pre.av.getD a 0)
  let avA' := pos0 (post.av.getD a 0)
  let stranded := !pre.found && pre.val > 0
  if !(others n a pre.sh post.sh) then predfail "C11_frame" "other-account-shares-changed"
  else if !(others n a pre.bal post.bal) then predfail "C11_frame" "other-account-balance-changed"
  else if post.loose != pre.loose then predfail "C11_frame" "module-account-balance-changed"
  else if kind == "wd" then
    if balA' - balA != payout then predfail "C11_withdraw_le_value" "payout-ne-balance-change"
    else if payout > avA then predfail "C11_withdraw_le_value" "above-account-value"
    else if payout > x then predfail "C11_withdraw_le_value" "above-request"
    else if payout < 0 then predfail "C11_withdraw_le_value" "negative-payout"
    else if post.val != pre.val - payout then predfail "C11_strategy_exact" "withdraw"
    else if post.sh.getD a 0 > pre.sh.getD a 0 then predfail "C11_frame" "withdraw-raised-shares"
    else "ok"
  else
    if balA' != balA - x then predfail "C11_deposit_exact" "balance"
    else if post.val != pre.val + x then predfail "C11_strategy_exact" "deposit"
    else if avA' > avA + x then
      predfail "C11_deposit_withdraw_no_profit" (if stranded then "stranded-value-captured" else "value-gain")
    else if probe > avA + x then
      predfail "C11_deposit_withdraw_no_profit" (if stranded then "stranded-value-captured probe" else "value-gain probe")
    else "ok"

def handleEarn : Handler := fun f =>
  if f.length != 39 then badInput "arity" else
  let kind := f.getD 0 ""
  match nat? (f.getD 1 ""), nat? (f.getD 2 ""), int? (f.getD 3 ""), bool? (f.getD 4 ""), bool? (f.getD 5 ""),
        bool? (f.getD 6 ""), parseVO f 7, parseVO f 14, int? (f.getD 23 ""), int? (f.getD 24 ""),
        parseVO f 25, parseVO f 32 with
  | some v, some a, some x, some vaultOk, some stratOk, some acctOk, some pre0, some pre1, some payout, some probe,
    some post0, some post1 =>
    let result := f.getD 22 ""
    let n := pre0.sh.length
    if v > 1 then badInput "vault" else
    let pre := if v == 0 then pre0 else pre1
    let post := if v == 0 then post0 else post1
    let opre := if v == 0 then pre1 else pre0
    let opost := if v == 0 then post1 else post0
    -- the property predicates are evaluated first and win over a model mismatch: a PREDFAIL is a
    -- failing input on the implementation, whatever the model says
    let first := fun (p c : String) => if p != "ok" then p else c
    -- observed account values agree with the model's conversion on every observed state
    let avc := allOk [cmpAv "0" n pre0, cmpAv "1" n pre1, cmpAv "0'" n post0, cmpAv "1'" n post1]
    -- state predicates on every observed post-state
    let sp := allOk [vaultPred "vault0" post0, vaultPred "vault1" post1]
    if kind == "accrue" then
      -- environment step: the model takes the observed growth as its input
      let mono := fun (tag : String) (p q : VO) =>
        if q.val < p.val then predfail "C11_accrue_monotone" s!"value-decreased {tag}" else "ok"
      let chk := fun (tag : String) (p q : VO) =>
        match Earn.step (stOf p) (.accrue (q.val - p.val)) with
        | .ok m => cmpVault tag n m q
        | _ => mismatch s!"accrue{tag}" "err" "ok"
      let pred := allOk [sp, mono "0" pre0 post0, mono "1" pre1 post1,
        (if post0.val != pre0.val then predfail "C11_accrue_monotone" "savings-strategy-value-changed" else "ok")]
      first pred (allOk [avc, chk "0" pre0 post0, chk "1" pre1 post1])
    else
    let s := stOf pre
    let res := if kind == "dep" then Earn.deposit s a x vaultOk stratOk acctOk
               else Earn.withdraw s a x vaultOk stratOk
    let modelCls := match res with | .ok _ => "ok" | .err => "err" | .panic => "panic"
    if kind != "dep" && kind != "wd" then badInput "kind"
    else if result == "panic" then predfail "C11_no_panic" kind
    else if result != "ok" then
      first (allOk [sp, if pre0 == post0 && pre1 == post1 then "ok" else predfail "C11_frame" "failed-op-changed-state"])
        (allOk [avc, if modelCls != result then mismatch "result" modelCls result else "ok"])
    else
    -- (1) model vs implementation
    let cmp := if modelCls != result then mismatch "result" modelCls result else
      match res with
      | .ok m => allOk [avc, cmpVault "" n m post,
                        (if kind == "wd" then expectEq "payout" (toString (m.bal a - s.bal a)) (toString payout) else "ok")]
      | _ => "ok"
    -- (2) property predicates on the implementation's own observation
    let pred :=
      if sp != "ok" then sp
      else if !(opre == opost) then predfail "C11_frame" "other-vault-changed"
      else opPred kind n a x payout probe pre post
    first pred cmp
  | _, _, _, _, _, _, _, _, _, _, _, _ => badInput "parse"

/-! ## savings -/

def matrix? (s : String) : Option (List (List Int)) := (strs s ";").mapM ints?
def bools? (s : String) : Option (List Bool) := (strs s ",").mapM bool?

structure SO where
  bal : List (List Int)
  mod : List Int
  has : List Bool
  dep : List (List Int)
deriving BEq

def parseSO (f : List String) (i : Nat) : Option SO :=
  match matrix? (f.getD i ""), ints? (f.getD (i+1) ""), bools? (f.getD (i+2) ""), matrix? (f.getD (i+3) "") with
  | some b, some m, some h, some d => some ⟨b, m, h, d⟩
  | _, _, _, _ => none

def at2 (m : List (List Int)) (a d : Nat) : Int := (m.getD a []).getD d 0

def sstOf (o : SO) : Savings.St :=
  { bal := fun a d => at2 o.bal a d, mod := fun d => o.mod.getD d 0, has := fun a => o.has.getD a false,
    dep := fun a d => at2 o.dep a d }

def coins? (s : String) : Option Savings.Coins :=
  (strs s ",").mapM fun c =>
    match c.splitOn ":" with
    | [d, n] => match nat? d, int? n with
      | some d, some n => some (d, n)
      | _, _ => none
    | _ => none

def savPred (o : SO) : String :=
  let nA := o.dep.length
  let nD := o.mod.length
  if (idxs nA).any (fun a => (idxs nD).any fun d => at2 o.dep a d < 0) then predfail "C11_savings_solvent" "negative-deposit"
  else if (idxs nD).any (fun d => o.mod.getD d 0 != sumL ((idxs nA).map fun a => at2 o.dep a d)) then
    predfail "C11_savings_solvent" "module-balance-ne-sum-of-deposits"
  else if (idxs nA).any (fun a => o.has.getD a false != (idxs nD).any fun d => at2 o.dep a d > 0) then
    predfail "C11_savings_solvent" "empty-deposit-record"
  else "ok"

def cmpSav (m : Savings.St) (o : SO) : String :=
  let nA := o.dep.length
  let nD := o.mod.length
  let mat := fun (g : Nat → Nat → Int) => ";".intercalate ((idxs nA).map fun a => showInts ((idxs nD).map (g a)))
  let mato := fun (x : List (List Int)) => ";".intercalate (x.map showInts)
  allOk [expectEq "sav.bal" (mat m.bal) (mato o.bal),
         expectEq "sav.mod" (showInts ((idxs nD).map m.mod)) (showInts o.mod),
         expectEq "sav.has" (",".intercalate ((idxs nA).map fun a => showB (m.has a))) (",".intercalate (o.has.map showB)),
         expectEq "sav.dep" (mat m.dep) (mato o.dep)]

def rowsSame (a : Nat) (p q : List (List Int)) : Bool :=
  (idxs p.length).all fun b => b == a || p.getD b [] == q.getD b []

def handleSav : Handler := fun f =>
  if f.length != 14 then badInput "arity" else
  let kind := f.getD 0 ""
  match nat? (f.getD 1 ""), coins? (f.getD 2 ""), bools? (f.getD 3 ""), parseSO f 4, parseSO f 10 with
  | some a, some cs, some sup, some pre, some post =>
    let result := f.getD 9 ""
    let nD := pre.mod.length
    let s := sstOf pre
    let res := if kind == "dep" then Savings.deposit (fun d => sup.getD d false) s a cs
               else Savings.withdraw (idxs nD) s a cs
    let modelCls := match res with | .ok _ => "ok" | .err => "err" | .panic => "panic"
    let first := fun (p c : String) => if p != "ok" then p else c
    let clsCmp := if modelCls != result then mismatch "result" modelCls result else "ok"
    if kind != "dep" && kind != "wd" then badInput "kind"
    else if result == "panic" then predfail "C11_no_panic" s!"savings-{kind}"
    else if result != "ok" then
      first (if pre == post then "ok" else predfail "C11_savings_frame" "failed-op-changed-state") clsCmp
    else
    let cmp := if clsCmp != "ok" then clsCmp else match res with | .ok m => cmpSav m post | _ => "ok"
    let pred :=
      let sp := savPred post
      if sp != "ok" then sp
      else if !(rowsSame a pre.dep post.dep) then predfail "C11_savings_frame" "other-deposit-changed"
      else if !(rowsSame a pre.bal post.bal) then predfail "C11_savings_frame" "other-balance-changed"
      else if (idxs pre.has.length).any (fun b => b != a && pre.has.getD b false != post.has.getD b false) then
        predfail "C11_savings_frame" "other-record-changed"
      else
        -- per denom: what the account received / paid equals what the record and the module moved
        let bad := (idxs nD).find? fun d =>
          let req : Option Int := cs.lookup d
          let dBal := at2 post.bal a d - at2 pre.bal a d
          let dDep := at2 post.dep a d - at2 pre.dep a d
          let dMod := post.mod.getD d 0 - pre.mod.getD d 0
          if kind == "wd" then
            let want : Int := match req with
              | some r => if r > at2 pre.dep a d then at2 pre.dep a d else r
              | none => 0
            !(dBal == want && dDep == -want && dMod == -want)
          else
            let want : Int := req.getD 0
            !(dBal == -want && dDep == want && dMod == want)
        match bad with
        | some d => predfail (if kind == "wd" then "C11_savings_withdraw_exact" else "C11_savings_deposit_exact") s!"denom{d}"
        | none => "ok"
    first pred cmp
  | _, _, _, _, _ => badInput "parse"

def handleSavState : Handler := fun f =>
  if f.length != 4 then badInput "arity" else
  match parseSO f 0 with
  | some o => savPred o
  | none => badInput "parse"

/-! ## several vaults: raw share records -/

open Earn.Shares in
def showShares (l : Earn.Shares) : String :=
  if l.isEmpty then "-" else "|".intercalate (l.map fun e => s!"{e.1}:{e.2}")

def entries? (s : String) : Option Earn.Shares :=
  (strs s "|").mapM fun e =>
    match e.splitOn ":" with
    | [d, n] => match nat? d, int? n with
      | some d, some n => some (d, n)
      | _, _ => none
    | _ => none

/-- a record row: (a record is stored, its raw entries) -/
def row? (s : String) : Option (Bool × Earn.Shares) :=
  let t := s.trimAscii.toString
  if t == "x" then some (false, []) else if t == "e" then some (true, []) else (entries? t).map fun l => (true, l)

def rows? (s : String) : Option (List (Bool × Earn.Shares)) := (s.splitOn ";").mapM row?

structure MO where
  found : List Bool
  tot : List Int
  val : List Int
  loose : List Int
  recs : List (Bool × Earn.Shares)
  bal : List (List Int)
  av : List (List Int)
deriving BEq

def parseMO (f : List String) (i : Nat) : Option MO :=
  match bools? (f.getD i ""), ints? (f.getD (i+1) ""), ints? (f.getD (i+2) ""), ints? (f.getD (i+3) ""),
        rows? (f.getD (i+4) ""), matrix? (f.getD (i+5) ""), matrix? (f.getD (i+6) "") with
  | some fo, some tot, some val, some loose, some recs, some bal, some av => some ⟨fo, tot, val, loose, recs, bal, av⟩
  | _, _, _, _, _, _, _ => none

def MO.shr (o : MO) (a : Nat) : Earn.Shares := (o.recs.getD a (false, [])).2

/-- all shares of denom `v` in a raw record (every entry counts, duplicates included) -/
def sumFor (l : Earn.Shares) (v : Nat) : Int := sumL ((l.filter fun e => e.1 == v).map (·.2))

def MO.core (o : MO) (v : Nat) : Earn.VCore :=
  ⟨o.found.getD v false, o.tot.getD v 0, o.val.getD v 0, o.loose.getD v 0⟩

def mstOf (o : MO) : Earn.MSt :=
  { recs := o.shr, vault := o.core, bal := fun a v => at2 o.bal a v }

/-- the single-vault observation of vault `v` inside a several-vault observation -/
def MO.vo (o : MO) (nA v : Nat) : VO :=
  { found := o.found.getD v false, tot := o.tot.getD v 0, sh := (idxs nA).map fun a => sumFor (o.shr a) v,
    av := (idxs nA).map fun a => pos0 (at2 o.av a v), val := o.val.getD v 0, loose := o.loose.getD v 0,
    bal := (idxs nA).map fun a => at2 o.bal a v }

/-- every stored record is a sorted, duplicate-free list of positive shares of known vaults, and a
    stored record is never empty -/
def recPred (nV : Nat) (o : MO) : String :=
  let bad := (idxs o.recs.length).find? fun a =>
    let r := o.recs.getD a (false, [])
    !(Earn.Shares.isValid r.2) || r.2.any (fun e => e.1 ≥ nV) || (r.1 && r.2.isEmpty)
  match bad with
  | none => "ok"
  | some a =>
    let r := o.recs.getD a (false, [])
    let why := if r.1 && r.2.isEmpty then "stored-empty-record"
      else if r.2.any (fun e => e.1 ≥ nV) then "unknown-vault-denom"
      else if r.2.any (fun e => e.2 ≤ 0) then "non-positive-share"
      else "unsorted-or-duplicate-denom"
    predfail "C11_multi_record_valid" s!"{why} acct={a} record={showShares r.2}"

/-- per vault: total shares = Σ over the accounts of their shares of that vault -/
def sumPred (nV : Nat) (o : MO) : String :=
  let nA := o.recs.length
  match (idxs nV).find? fun v => o.tot.getD v 0 != sumL ((idxs nA).map fun a => sumFor (o.shr a) v) with
  | some v => predfail "C11_multi_shares_sum" s!"total-ne-sum-of-account-shares vault={v}"
  | none =>
    match (idxs nV).find? fun v => o.found.getD v false != (o.tot.getD v 0 != 0) with
    | some v => predfail "C11_multi_shares_sum" s!"record-vs-total vault={v}"
    | none => "ok"

/-- frame of a successful operation of account `a` on vault `v` -/
def framePred (nV a v : Nat) (pre post : MO) : String :=
  let nA := pre.recs.length
  let oth := (idxs nA).filter (· != a)
  if oth.any fun b => pre.recs.getD b (false, []) != post.recs.getD b (false, []) then
    predfail "C11_multi_frame" "other-account-record-changed"
  else if oth.any fun b => pre.bal.getD b [] != post.bal.getD b [] then
    predfail "C11_multi_frame" "other-account-balance-changed"
  else
    let ra := pre.shr a
    let ra' := post.shr a
    match (idxs nV).find? fun w => w != v && sumFor ra w != sumFor ra' w with
    | some w => predfail "C11_multi_frame" s!"same-account-other-vault-shares-changed vault={w} op-vault={v}"
    | none =>
      if (ra.filter fun e => e.1 != v) != (ra'.filter fun e => e.1 != v) then
        predfail "C11_multi_frame" s!"same-account-other-vault-entries-changed op-vault={v}"
      else match (idxs nV).find? fun w => w != v && pre.core w != post.core w with
      | some w => predfail "C11_multi_frame" s!"other-vault-changed vault={w} op-vault={v}"
      | none =>
        match (idxs nV).find? fun w => w != v && at2 pre.bal a w != at2 post.bal a w with
        | some w => predfail "C11_multi_frame" s!"other-denom-balance-changed denom={w}"
        | none =>
          match (idxs nV).find? fun w => w != v && (idxs nA).any fun b => pos0 (at2 pre.av b w) != pos0 (at2 post.av b w) with
          | some w => predfail "C11_multi_frame" s!"other-vault-account-value-changed vault={w}"
          | none => "ok"

/-- the accounts hold exactly what the harness's own log of deposits and withdrawals says -/
def ledgerPred (nV : Nat) (o : MO) (ledger : List (List Int)) : String :=
  let nA := o.recs.length
  let bad := (idxs nA).findSome? fun a =>
    ((idxs nV).find? fun v => sumFor (o.shr a) v != at2 ledger a v || Earn.Shares.amountOf (o.shr a) v != at2 ledger a v).map
      fun v => (a, v)
  match bad with
  | some (a, v) => predfail "C11_multi_ledger" s!"shares-ne-log acct={a} vault={v} log={at2 ledger a v} record={showShares (o.shr a)}"
  | none => "ok"

structure Probe where
  b : Nat
  v : Nat
  value : Int
  cls : String
  payout : Int
  ek : String

def probes? (s : String) : Option (List Probe) :=
  (strs s ",").mapM fun p =>
    match p.splitOn ":" with
    | [b, v, value, cls, payout, ek] =>
      match nat? b, nat? v, int? value, int? payout with
      | some b, some v, some value, some payout => some ⟨b, v, value, cls, payout, ek⟩
      | _, _, _, _ => none
    | _ => none

/-- "an account can always withdraw its redeemable value from every vault it holds": for a vault the
    log says account b holds, the keeper reports the value of the logged shares and a withdrawal of
    exactly that value is paid -/
def probePred (o : MO) (ledger : List (List Int)) (p : Probe) : String :=
  let c := o.core p.v
  let logSt : Earn.St := { found := c.found, tot := c.tot, sh := fun _ => at2 ledger p.b p.v, val := c.val,
                           loose := c.loose, bal := fun _ => 0 }
  let tag := s!"acct={p.b} vault={p.v}"
  if p.value < 0 then predfail "C11_multi_withdrawable" s!"account-value-error {tag}"
  else match Earn.convertToAssets logSt (at2 ledger p.b p.v) with
    | .ok want =>
      if want != p.value then predfail "C11_multi_withdrawable" s!"value-ne-value-of-logged-shares {tag} reported={p.value} logged={want}"
      else if p.value == 0 then "ok"
      else if c.val > c.tot then "ok"   -- share price above 10^18 coins per share: outside the theorem's hypothesis
      else if p.cls != "ok" then predfail "C11_multi_withdrawable" s!"withdraw-of-own-value-refused {tag} class={p.cls} err={p.ek}"
      else if p.payout > p.value || p.payout < 0 then predfail "C11_multi_withdrawable" s!"payout-out-of-range {tag}"
      else "ok"
    | _ => predfail "C11_multi_withdrawable" s!"logged-shares-have-no-value {tag}"

/-- the model's prediction of a probe: `Withdraw(value)` on the view of the observed state -/
def probeCmp (o : MO) (p : Probe) : String :=
  if p.value <= 0 then "ok" else
  let s := Earn.view (mstOf o) p.v
  match Earn.withdraw s p.b p.value true true with
  | .ok s' => allOk [expectEq "probe.class" "ok" p.cls, expectEq "probe.payout" (toString (s'.bal p.b - s.bal p.b)) (toString p.payout)]
  | .err => expectEq "probe.class" "err" p.cls
  | .panic => expectEq "probe.class" "panic" p.cls

def cmpMulti (nV : Nat) (m : Earn.MSt) (o : MO) : String :=
  let nA := o.recs.length
  allOk ([expectEq "recs" (";".intercalate ((idxs nA).map fun a => showShares (m.recs a)))
                         (";".intercalate ((idxs nA).map fun a => showShares (o.shr a))),
          expectEq "stored" (",".intercalate ((idxs nA).map fun a => showB (!(m.recs a).isEmpty)))
                           (",".intercalate (o.recs.map fun r => showB r.1))] ++
         (idxs nV).map (fun v =>
           let c := m.vault v
           let d := o.core v
           expectEq s!"vault{v}" s!"{showB c.found},{c.tot},{c.val},{c.loose}" s!"{showB d.found},{d.tot},{d.val},{d.loose}") ++
         [expectEq "bal" (";".intercalate ((idxs nA).map fun a => showInts ((idxs nV).map (m.bal a))))
                         (";".intercalate (o.bal.map showInts))])

/-- the model's `redeemable` against the observed GetVaultAccountValue, every (account, vault) -/
def cmpAvMulti (nV : Nat) (tag : String) (o : MO) : String :=
  let nA := o.recs.length
  let m := mstOf o
  allOk ((idxs nV).map fun v =>
    let s := Earn.view m v
    expectEq s!"av{tag}.vault{v}"
      (showInts ((idxs nA).map fun a => match Earn.convertToAssets s (s.sh a) with | .ok x => pos0 x | _ => 0))
      (showInts ((idxs nA).map fun a => pos0 (at2 o.av a v))))

def handleMulti : Handler := fun f =>
  if f.length != 26 then badInput "arity" else
  let kind := f.getD 0 ""
  match nat? (f.getD 1 ""), nat? (f.getD 2 ""), int? (f.getD 3 ""), bool? (f.getD 4 ""), bool? (f.getD 5 ""),
        nat? (f.getD 6 ""), parseMO f 7, int? (f.getD 16 ""), parseMO f 17, matrix? (f.getD 24 ""), probes? (f.getD 25 "") with
  | some v, some a, some x, some vaultOk, some stratOk, some nV, some pre, some payout, some post, some ledger, some probes =>
    let result := f.getD 15 ""
    let nA := pre.recs.length
    if v ≥ nV || (a ≥ nA && kind != "accrue") then badInput "index" else
    let first := fun (p c : String) => if p != "ok" then p else c
    -- state predicates on the observed post-state (every vault, every record)
    let sp := allOk ([recPred nV post, sumPred nV post] ++
                     (idxs nV).map (fun w => vaultPred s!"multi-vault{w}" (post.vo nA w)) ++
                     [ledgerPred nV post ledger])
    let pp := allOk (probes.map (probePred post ledger))
    let avc := allOk [cmpAvMulti nV "" pre, cmpAvMulti nV "'" post]
    let pc := allOk (probes.map (probeCmp post))
    let m := mstOf pre
    if kind == "accrue" then
      -- environment step on every vault at once: the model takes the observed growth as its input
      let mono := allOk ((idxs nV).map fun w =>
        if post.val.getD w 0 < pre.val.getD w 0 then predfail "C11_accrue_monotone" s!"value-decreased multi-vault{w}" else "ok")
      let same := if { post with val := pre.val, av := pre.av } == pre then "ok"
                  else predfail "C11_multi_frame" "accrual-changed-records"
      let mm := (idxs nV).foldl (fun (acc : Option Earn.MSt) w =>
        match acc with
        | none => none
        | some mm => match Earn.mstep mm w (.accrue (post.val.getD w 0 - pre.val.getD w 0)) with
          | .ok m' => some m'
          | _ => none) (some m)
      first (allOk [sp, mono, same, pp])
        (match mm with | some m' => allOk [avc, cmpMulti nV m' post, pc] | none => mismatch "accrue" "err" "ok")
    else if kind != "dep" && kind != "wd" then badInput "kind"
    else
    let op : Earn.Op := if kind == "dep" then .deposit a x vaultOk stratOk true else .withdraw a x vaultOk stratOk
    let res := Earn.mstep m v op
    let modelCls := match res with | .ok _ => "ok" | .err => "err" | .panic => "panic"
    if result == "panic" then predfail "C11_no_panic" s!"{kind} several-vaults"
    else if result != "ok" then
      first (allOk [sp, (if pre == post then "ok" else predfail "C11_multi_frame" "failed-op-changed-state"), pp])
        (allOk [avc, (if modelCls != result then mismatch "result" modelCls result else "ok"), pc])
    else
    let cmp := if modelCls != result then mismatch "result" modelCls result else
      match res with
      | .ok m' => allOk [avc, cmpMulti nV m' post,
                         (if kind == "wd" then expectEq "payout" (toString (m'.bal a v - m.bal a v)) (toString payout) else "ok"), pc]
      | _ => "ok"
    -- the frame first: it fails at the very operation that touched what it must not touch, the state
    -- predicates keep failing on every later state of the sequence
    let pred := allOk [framePred nV a v pre post, sp,
                       opPred kind nA a x payout (-1) (pre.vo nA v) (post.vo nA v), pp]
    first pred cmp
  | _, _, _, _, _, _, _, _, _, _, _ => badInput "parse"

/-- raw x/savings deposit records: sorted, duplicate-free, positive coins; a stored record is not empty -/
def handleSavRec : Handler := fun f =>
  if f.length != 1 then badInput "arity" else
  match rows? (f.getD 0 "") with
  | some rs =>
    match (idxs rs.length).find? fun a =>
        let r := rs.getD a (false, [])
        !(Earn.Shares.isValid r.2) || (r.1 && r.2.isEmpty) with
    | some a => predfail "C11_savings_record_valid" s!"party={a} record={showShares (rs.getD a (false, [])).2}"
    | none => "ok"
  | none => badInput "parse"

/-! ## pure VaultShares.Add / Sub -/

def showR (r : Earn.R Earn.Shares) : String :=
  match r with
  | .ok l => s!"ok {showShares l}"
  | .err => "err"
  | .panic => "panic"

def handleShares : Handler := fun f =>
  if f.length != 7 then badInput "arity" else
  let op := f.getD 0 ""
  match entries? (f.getD 1 ""), entries? (f.getD 2 ""), entries? (f.getD 5 ""), entries? (f.getD 6 "") with
  | some A, some B, some R, some A' =>
    let cls := f.getD 4 ""
    if op != "add" && op != "sub" then badInput "op" else
    let name := if op == "add" then "C11_shares_add_spec" else "C11_shares_sub_spec"
    let model := if op == "add" then Earn.Shares.add A B else Earn.Shares.sub A B
    let impl := if cls == "ok" then s!"ok {showShares R}" else cls
    let cmp := expectEq op (showR model) impl
    -- the hypotheses of the theorem: a valid record, strictly sorted non-negative operand shares,
    -- for Sub none of them above the record
    let sortedB := Earn.Shares.isValid (B.map fun e => (e.1, e.2 + 1)) && B.all (fun e => e.2 ≥ 0)
    let ds := (A ++ B ++ R).map (·.1)
    let hyp := Earn.Shares.isValid A && sortedB &&
      (op == "add" || ds.all fun d => Earn.Shares.amountOf B d ≤ Earn.Shares.amountOf A d)
    let sign : Int := if op == "add" then 1 else -1
    let pred :=
      if A' != A then predfail name s!"operand-mutated before={showShares A} after={showShares A'}"
      else if !hyp then "ok"
      else if cls != "ok" then predfail name s!"panic A={showShares A} B={showShares B}"
      else if !(Earn.Shares.isValid R) then predfail name s!"result-not-sorted-duplicate-free-positive A={showShares A} B={showShares B} R={showShares R}"
      else match ds.find? fun d => sumFor R d != Earn.Shares.amountOf A d + sign * Earn.Shares.amountOf B d with
        | some d => predfail name s!"amount denom={d} A={showShares A} B={showShares B} R={showShares R}"
        | none => "ok"
    if pred != "ok" then pred else cmp
  | _, _, _, _ => badInput "parse"

def handlers : List (String × Handler) :=
  [("c11.earn", handleEarn), ("c11.sav", handleSav), ("c11.savstate", handleSavState),
   ("c11.multi", handleMulti), ("c11.savrec", handleSavRec), ("c11.shares", handleShares)]
end Drv.C11
