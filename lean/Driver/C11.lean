import Driver.Util
namespace Drv.C11
/-- handlers of property C11: (command name, handler) -/
def handlers : List (String × Handler) := []
end Drv.C11
