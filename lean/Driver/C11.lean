import Driver.Util
import KavaVerif.Model.Earn
import KavaVerif.Model.Savings
/-!
  C11 driver. One self-contained case per line: the implementation's observed pre-state, the
  operation, the implementation's result class and observed post-state.  Each handler
  (1) runs the Lean model on the observed pre-state and compares (MISMATCH), and
  (2) evaluates the property's predicates on the implementation's own observation (PREDFAIL),
      independently of the model.

  c11.earn   kind v a x vaultOk stratOk acctOk  pre0 pre1  "=>" result payout probe  post0 post1
             kind ∈ dep | wd | accrue ; v = vault the operation addresses ; a = account index
             a vault observation is 7 fields: found tot sh av val loose bal
               (tot, sh = sdk.Dec mantissas; av = GetVaultAccountValue per account, −1 = error)
             probe = payout of withdrawing the whole account value right after a successful
                     deposit, executed on a discarded branch (−1: not run / refused)
  c11.sav    kind a coins supported  pre  "=>" result  post
             a savings observation is 4 fields: bal(matrix) mod has dep(matrix); rows = accounts
  c11.savstate  a savings observation (after every operation of any kind)
-/
namespace Drv.C11
open KV

def fn (l : List Int) : Nat → Int := fun a => l.getD a 0
def sumL (l : List Int) : Int := l.foldl (· + ·) 0
def idxs (n : Nat) : List Nat := List.range n
def showB (b : Bool) : String := if b then "1" else "0"

/-! ## earn -/

structure VO where
  found : Bool
  tot : Int
  sh : List Int
  av : List Int
  val : Int
  loose : Int
  bal : List Int
deriving BEq

def parseVO (f : List String) (i : Nat) : Option VO :=
  match bool? (f.getD i ""), int? (f.getD (i+1) ""), ints? (f.getD (i+2) ""), ints? (f.getD (i+3) ""),
        int? (f.getD (i+4) ""), int? (f.getD (i+5) ""), ints? (f.getD (i+6) "") with
  | some fo, some tot, some sh, some av, some val, some loose, some bal =>
    -- −1 (no share record for the account) and 0 are identified
    some ⟨fo, tot, sh, av.map (fun x => if x < 0 then 0 else x), val, loose, bal⟩
  | _, _, _, _, _, _, _ => none

def stOf (o : VO) : Earn.St :=
  { found := o.found, tot := o.tot, sh := fn o.sh, val := o.val, loose := o.loose, bal := fn o.bal }

def pos0 (x : Int) : Int := if x < 0 then 0 else x

/-- predicates of a single observed vault state -/
def vaultPred (tag : String) (o : VO) : String :=
  if o.sh.any (· < 0) then predfail "C11_earn_shares_sum" s!"negative-share {tag}"
  else if o.tot != sumL o.sh then predfail "C11_earn_shares_sum" s!"total-ne-sum {tag}"
  else if o.found != (o.tot != 0) then predfail "C11_earn_shares_sum" s!"record-vs-total {tag}"
  else if o.val < 0 then predfail "C11_earn_redeemable_le_value" s!"negative-value {tag}"
  else if sumL (o.av.map pos0) > o.val then predfail "C11_earn_redeemable_le_value" s!"sum-exceeds-value {tag}"
  else "ok"

/-- the model's state compared with an observation (n accounts) -/
def cmpVault (tag : String) (n : Nat) (m : Earn.St) (o : VO) : String :=
  allOk [expectEq s!"found{tag}" (showB m.found) (showB o.found),
         expectEq s!"tot{tag}" (toString m.tot) (toString o.tot),
         expectEq s!"sh{tag}" (showInts ((idxs n).map m.sh)) (showInts o.sh),
         expectEq s!"val{tag}" (toString m.val) (toString o.val),
         expectEq s!"loose{tag}" (toString m.loose) (toString o.loose),
         expectEq s!"bal{tag}" (showInts ((idxs n).map m.bal)) (showInts o.bal)]

/-- the model's `redeemable` against the observed GetVaultAccountValue (−1 = error = no record) -/
def cmpAv (tag : String) (n : Nat) (o : VO) : String :=
  let s := stOf o
  let m := (idxs n).map fun a =>
    match Earn.convertToAssets s (s.sh a) with
    | .ok v => v
    | _ => -1
  -- an account without any share record errors even when the vault exists; the model has no
  -- per-account record flag, so −1 and 0 are identified
  expectEq s!"av{tag}" (showInts (m.map pos0)) (showInts (o.av.map pos0))

def others (n a : Nat) (p q : List Int) : Bool :=
  (idxs n).all fun b => b == a || p.getD b 0 == q.getD b 0

def handleEarn : Handler := fun f =>
  if f.length != 39 then badInput "arity" else
  let kind := f.getD 0 ""
  match nat? (f.getD 1 ""), nat? (f.getD 2 ""), int? (f.getD 3 ""), bool? (f.getD 4 ""), bool? (f.getD 5 ""),
        bool? (f.getD 6 ""), parseVO f 7, parseVO f 14, int? (f.getD 23 ""), int? (f.getD 24 ""),
        parseVO f 25, parseVO f 32 with
  | some v, some a, some x, some vaultOk, some stratOk, some acctOk, some pre0, some pre1, some payout, some probe,
    some post0, some post1 =>
    let result := f.getD 22 ""
    let n := pre0.sh.length
    if v > 1 then badInput "vault" else
    let pre := if v == 0 then pre0 else pre1
    let post := if v == 0 then post0 else post1
    let opre := if v == 0 then pre1 else pre0
    let opost := if v == 0 then post1 else post0
    -- the property predicates are evaluated first and win over a model mismatch: a PREDFAIL is a
    -- failing input on the implementation, whatever the model says
    let first := fun (p c : String) => if p != "ok" then p else c
    -- observed account values agree with the model's conversion on every observed state
    let avc := allOk [cmpAv "0" n pre0, cmpAv "1" n pre1, cmpAv "0'" n post0, cmpAv "1'" n post1]
    -- state predicates on every observed post-state
    let sp := allOk [vaultPred "vault0" post0, vaultPred "vault1" post1]
    if kind == "accrue" then
      -- environment step: the model takes the observed growth as its input
      let mono := fun (tag : String) (p q : VO) =>
        if q.val < p.val then predfail "C11_accrue_monotone" s!"value-decreased {tag}" else "ok"
      let chk := fun (tag : String) (p q : VO) =>
        match Earn.step (stOf p) (.accrue (q.val - p.val)) with
        | .ok m => cmpVault tag n m q
        | _ => mismatch s!"accrue{tag}" "err" "ok"
      let pred := allOk [sp, mono "0" pre0 post0, mono "1" pre1 post1,
        (if post0.val != pre0.val then predfail "C11_accrue_monotone" "savings-strategy-value-changed" else "ok")]
      first pred (allOk [avc, chk "0" pre0 post0, chk "1" pre1 post1])
    else
    let s := stOf pre
    let res := if kind == "dep" then Earn.deposit s a x vaultOk stratOk acctOk
               else Earn.withdraw s a x vaultOk stratOk
    let modelCls := match res with | .ok _ => "ok" | .err => "err" | .panic => "panic"
    if kind != "dep" && kind != "wd" then badInput "kind"
    else if result == "panic" then predfail "C11_no_panic" kind
    else if result != "ok" then
      first (allOk [sp, if pre0 == post0 && pre1 == post1 then "ok" else predfail "C11_frame" "failed-op-changed-state"])
        (allOk [avc, if modelCls != result then mismatch "result" modelCls result else "ok"])
    else
    -- (1) model vs implementation
    let cmp := if modelCls != result then mismatch "result" modelCls result else
      match res with
      | .ok m => allOk [avc, cmpVault "" n m post,
                        (if kind == "wd" then expectEq "payout" (toString (m.bal a - s.bal a)) (toString payout) else "ok")]
      | _ => "ok"
    -- (2) property predicates on the implementation's own observation
    let balA := pre.bal.getD a 0
    let balA' := post.bal.getD a 0
    let avA := pos0 (pre.av.getD a 0)
    let avA' := pos0 (post.av.getD a 0)
    let stranded := !pre.found && pre.val > 0
    let pred :=
      if sp != "ok" then sp
      else if !(opre == opost) then predfail "C11_frame" "other-vault-changed"
      else if !(others n a pre.sh post.sh) then predfail "C11_frame" "other-account-shares-changed"
      else if !(others n a pre.bal post.bal) then predfail "C11_frame" "other-account-balance-changed"
      else if post.loose != pre.loose then predfail "C11_frame" "module-account-balance-changed"
      else if kind == "wd" then
        if balA' - balA != payout then predfail "C11_withdraw_le_value" "payout-ne-balance-change"
        else if payout > avA then predfail "C11_withdraw_le_value" "above-account-value"
        else if payout > x then predfail "C11_withdraw_le_value" "above-request"
        else if payout < 0 then predfail "C11_withdraw_le_value" "negative-payout"
        else if post.val != pre.val - payout then predfail "C11_strategy_exact" "withdraw"
        else if post.sh.getD a 0 > pre.sh.getD a 0 then predfail "C11_frame" "withdraw-raised-shares"
        else "ok"
      else
        if balA' != balA - x then predfail "C11_deposit_exact" "balance"
        else if post.val != pre.val + x then predfail "C11_strategy_exact" "deposit"
        else if avA' > avA + x then
          predfail "C11_deposit_withdraw_no_profit" (if stranded then "stranded-value-captured" else "value-gain")
        else if probe > avA + x then
          predfail "C11_deposit_withdraw_no_profit" (if stranded then "stranded-value-captured probe" else "value-gain probe")
        else "ok"
    first pred cmp
  | _, _, _, _, _, _, _, _, _, _, _, _ => badInput "parse"

/-! ## savings -/

def matrix? (s : String) : Option (List (List Int)) := (strs s ";").mapM ints?
def bools? (s : String) : Option (List Bool) := (strs s ",").mapM bool?

structure SO where
  bal : List (List Int)
  mod : List Int
  has : List Bool
  dep : List (List Int)
deriving BEq

def parseSO (f : List String) (i : Nat) : Option SO :=
  match matrix? (f.getD i ""), ints? (f.getD (i+1) ""), bools? (f.getD (i+2) ""), matrix? (f.getD (i+3) "") with
  | some b, some m, some h, some d => some ⟨b, m, h, d⟩
  | _, _, _, _ => none

def at2 (m : List (List Int)) (a d : Nat) : Int := (m.getD a []).getD d 0

def sstOf (o : SO) : Savings.St :=
  { bal := fun a d => at2 o.bal a d, mod := fun d => o.mod.getD d 0, has := fun a => o.has.getD a false,
    dep := fun a d => at2 o.dep a d }

def coins? (s : String) : Option Savings.Coins :=
  (strs s ",").mapM fun c =>
    match c.splitOn ":" with
    | [d, n] => match nat? d, int? n with
      | some d, some n => some (d, n)
      | _, _ => none
    | _ => none

def savPred (o : SO) : String :=
  let nA := o.dep.length
  let nD := o.mod.length
  if (idxs nA).any (fun a => (idxs nD).any fun d => at2 o.dep a d < 0) then predfail "C11_savings_solvent" "negative-deposit"
  else if (idxs nD).any (fun d => o.mod.getD d 0 != sumL ((idxs nA).map fun a => at2 o.dep a d)) then
    predfail "C11_savings_solvent" "module-balance-ne-sum-of-deposits"
  else if (idxs nA).any (fun a => o.has.getD a false != (idxs nD).any fun d => at2 o.dep a d > 0) then
    predfail "C11_savings_solvent" "empty-deposit-record"
  else "ok"

def cmpSav (m : Savings.St) (o : SO) : String :=
  let nA := o.dep.length
  let nD := o.mod.length
  let mat := fun (g : Nat → Nat → Int) => ";".intercalate ((idxs nA).map fun a => showInts ((idxs nD).map (g a)))
  let mato := fun (x : List (List Int)) => ";".intercalate (x.map showInts)
  allOk [expectEq "sav.bal" (mat m.bal) (mato o.bal),
         expectEq "sav.mod" (showInts ((idxs nD).map m.mod)) (showInts o.mod),
         expectEq "sav.has" (",".intercalate ((idxs nA).map fun a => showB (m.has a))) (",".intercalate (o.has.map showB)),
         expectEq "sav.dep" (mat m.dep) (mato o.dep)]

def rowsSame (a : Nat) (p q : List (List Int)) : Bool :=
  (idxs p.length).all fun b => b == a || p.getD b [] == q.getD b []

def handleSav : Handler := fun f =>
  if f.length != 14 then badInput "arity" else
  let kind := f.getD 0 ""
  match nat? (f.getD 1 ""), coins? (f.getD 2 ""), bools? (f.getD 3 ""), parseSO f 4, parseSO f 10 with
  | some a, some cs, some sup, some pre, some post =>
    let result := f.getD 9 ""
    let nD := pre.mod.length
    let s := sstOf pre
    let res := if kind == "dep" then Savings.deposit (fun d => sup.getD d false) s a cs
               else Savings.withdraw (idxs nD) s a cs
    let modelCls := match res with | .ok _ => "ok" | .err => "err" | .panic => "panic"
    let first := fun (p c : String) => if p != "ok" then p else c
    let clsCmp := if modelCls != result then mismatch "result" modelCls result else "ok"
    if kind != "dep" && kind != "wd" then badInput "kind"
    else if result == "panic" then predfail "C11_no_panic" s!"savings-{kind}"
    else if result != "ok" then
      first (if pre == post then "ok" else predfail "C11_savings_frame" "failed-op-changed-state") clsCmp
    else
    let cmp := if clsCmp != "ok" then clsCmp else match res with | .ok m => cmpSav m post | _ => "ok"
    let pred :=
      let sp := savPred post
      if sp != "ok" then sp
      else if !(rowsSame a pre.dep post.dep) then predfail "C11_savings_frame" "other-deposit-changed"
      else if !(rowsSame a pre.bal post.bal) then predfail "C11_savings_frame" "other-balance-changed"
      else if (idxs pre.has.length).any (fun b => b != a && pre.has.getD b false != post.has.getD b false) then
        predfail "C11_savings_frame" "other-record-changed"
      else
        -- per denom: what the account received / paid equals what the record and the module moved
        let bad := (idxs nD).find? fun d =>
          let req : Option Int := cs.lookup d
          let dBal := at2 post.bal a d - at2 pre.bal a d
          let dDep := at2 post.dep a d - at2 pre.dep a d
          let dMod := post.mod.getD d 0 - pre.mod.getD d 0
          if kind == "wd" then
            let want : Int := match req with
              | some r => if r > at2 pre.dep a d then at2 pre.dep a d else r
              | none => 0
            !(dBal == want && dDep == -want && dMod == -want)
          else
            let want : Int := req.getD 0
            !(dBal == -want && dDep == want && dMod == want)
        match bad with
        | some d => predfail (if kind == "wd" then "C11_savings_withdraw_exact" else "C11_savings_deposit_exact") s!"denom{d}"
        | none => "ok"
    first pred cmp
  | _, _, _, _, _ => badInput "parse"

def handleSavState : Handler := fun f =>
  if f.length != 4 then badInput "arity" else
  match parseSO f 0 with
  | some o => savPred o
  | none => badInput "parse"

def handlers : List (String × Handler) :=
  [("c11.earn", handleEarn), ("c11.sav", handleSav), ("c11.savstate", handleSavState)]
end Drv.C11
