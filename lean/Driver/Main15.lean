import Driver.Loop
import Driver.Num
import Driver.C15
/-- driver executable of property C15 -/
def main : IO UInt32 := Drv.runMain (Drv.Num.handlers ++ Drv.C15.handlers)
