import Driver.Loop
import Driver.Num
import Driver.C20
/-- driver executable of property C20 -/
def main : IO UInt32 := Drv.runMain (Drv.Num.handlers ++ Drv.C20.handlers)
