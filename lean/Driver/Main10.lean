import Driver.Loop
import Driver.Num
import Driver.C10
/-- driver executable of property C10 -/
def main : IO UInt32 := Drv.runMain (Drv.Num.handlers ++ Drv.C10.handlers)
