import Driver.Loop
import Driver.Num
import Driver.C04
/-- driver executable of property C04 -/
def main : IO UInt32 := Drv.runMain (Drv.Num.handlers ++ Drv.C04.handlers)
