import Driver.Loop
import Driver.Num
import Driver.C16
/-- driver executable of property C16 -/
def main : IO UInt32 := Drv.runMain (Drv.Num.handlers ++ Drv.C16.handlers)
