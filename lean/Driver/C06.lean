import Driver.Util
namespace Drv.C06
/-- handlers of property C06: (command name, handler) -/
def handlers : List (String × Handler) := []
end Drv.C06
