import Driver.Util
import KavaVerif.Model.Auction
/-!
  C06 driver.

  `c06.split  amount  weights  =>  parts|panic`
      the real `splitIntIntoWeightedBuckets` output; checked against the Lean predicate `IsLRSplit`
      (PREDFAIL C06_split …) and, for ≤ 12 buckets (where Go's sort.Slice is an insertion sort, hence
      deterministic), compared with the model `lrSplit` (MISMATCH).
  `c06.inc  old  inc  =>  v`      `MaxInt(1, NewDecFromInt(old).Mul(inc).RoundInt())`
  `c06.op   M nil blocked minter burner DF  maxDur fwdDur revDur incS incD incC  now
            nextId aucs index bals   op   =>   result   nextId' aucs' index' bals'`
      one keeper call on the real keeper: observed pre-state, operation, result class, observed
      post-state.  (1) the model is run on the observed pre-state and compared (MISMATCH);
      (2) the property predicates are evaluated on the implementation's own observation (PREDFAIL).

  `c06.gov  M nil blocked minter burner DF  maxDur fwdDur revDur incS incD incC (before)  … (in force after)  now
            nextId aucs index bals   =>   nextId' aucs' index' bals'`
      a governance parameter change while auctions are open: in the model the parameters are an argument of
      every step and not part of the state, so the change itself moves nothing.  Predicates on the observation:
      no stored auction, index entry or balance changes (in particular no end time / max end time is re-derived
      from the new durations: C06_endtime param-change-moved-*), and custody / index / end ≤ max end still hold.

  auction  = key:id:kind:initiator:lotD:lot:bidder:bidD:bid:has:end:maxEnd:debtD:debt:maxBid:addrs:weights
  index    = end:id:value ;…      bals = one row per address `;`, one entry per denom `,`
  op       = ss:seller:lotD:lot:bidD | sd:buyer:bidD:bid:lotD:lot:debtD:debt
           | sc:seller:lotD:lot:bidD:maxBid:addrs:weights:debtD:debt | pb:id:bidder:denom:amt | cl:id | bb
-/
namespace Drv.C06
open KV KV.Auc

/-! ### split -/

def checkSplit (a : Int) (ws parts : List Int) : Option String :=
  let W := sumL ws
  let n := ws.length
  let q := fun i => a * ws.getD i 0 / W
  let r := fun i => a * ws.getD i 0 % W
  let e := fun i => parts.getD i 0 - q i
  if parts.length != n then some "length"
  else if sumL parts != a then some "sum-differs"
  else if (List.range n).any (fun i => let d := parts.getD i 0 * W - a * ws.getD i 0; d ≥ W || d ≤ -W) then some "not-within-one"
  else if (List.range n).any (fun i => ws.getD i 0 == 0 && parts.getD i 0 != 0) then some "zero-weight-paid"
  else if (List.range n).any (fun i => e i != 0 && e i != 1) then some "not-floor-or-ceil"
  else if (List.range n).any (fun i => (List.range n).any (fun j => e i == 1 && e j == 0 && r j > r i)) then
    some "not-largest-remainder"
  else if !(decide (IsLRSplit a ws parts)) then some "IsLRSplit"
  else none

def handleSplit : Handler
  | [a, ws, _, res] =>
    match int? a, ints? ws with
    | some a, some ws =>
      let m := lrSplit a ws
      if res == "panic" then
        (match m with | none => "ok" | some _ => mismatch "split" "value" "panic")
      else
        match ints? res with
        | none => badInput "parts"
        | some parts =>
          match m with
          | none => mismatch "split" "panic" res
          | some mp =>
            match checkSplit a ws parts with
            | some why => predfail "C06_split" why
            | none =>
              if ws.length ≤ 12 && mp != parts then mismatch "split" (showInts mp) res else "ok"
    | _, _ => badInput "ints"
  | _ => badInput "arity"

def handleInc : Handler
  | [old, inc, _, v] =>
    match int? old, int? inc with
    | some old, some inc => expectEq "inc" (toString (incOf old ⟨inc⟩)) v
    | _, _ => badInput "ints"
  | _ => badInput "arity"

/-! ### keeper-level cases -/

structure Obs where
  nextId : Nat
  aucs : List (Nat × Auction)         -- (store key, record) in store order
  index : List (Int × Nat × Nat)      -- (key time, key id, value)
  bals : List (List Int)

def kind? : String → Option Kind
  | "s" => some .surplus | "d" => some .debt | "c" => some .collateral | _ => none

def parseAuction (s : String) : Option (Nat × Auction) :=
  match s.splitOn ":" with
  | [key, id, kind, ini, lotD, lot, bidder, bidD, bid, has, e, me, debtD, debt, maxBid, addrs, ws] =>
    match nat? key, nat? id, kind? kind, nat? ini, nat? lotD, int? lot, nat? bidder, nat? bidD, int? bid,
          bool? has, int? e, int? me, nat? debtD, int? debt, int? maxBid, nats? addrs, ints? ws with
    | some key, some id, some kind, some ini, some lotD, some lot, some bidder, some bidD, some bid,
      some has, some e, some me, some debtD, some debt, some maxBid, some addrs, some ws =>
      some (key, { id := id, kind := kind, initiator := ini, lotD := lotD, lot := lot, bidder := bidder,
                   bidD := bidD, bid := bid, hasBids := has, endT := e, maxEnd := me, debtD := debtD,
                   debt := debt, maxBid := maxBid, retAddrs := addrs, retW := ws })
    | _, _, _, _, _, _, _, _, _, _, _, _, _, _, _, _, _ => none
  | _ => none

def parseIdx (s : String) : Option (Int × Nat × Nat) :=
  match s.splitOn ":" with
  | [e, i, v] => match int? e, nat? i, nat? v with
    | some e, some i, some v => some (e, i, v)
    | _, _, _ => none
  | _ => none

def parseObs (nextId aucs index bals : String) : Option Obs :=
  match nat? nextId, (strs aucs ";").mapM parseAuction, (strs index ";").mapM parseIdx,
        (strs bals ";").mapM ints? with
  | some n, some a, some i, some b => some ⟨n, a, i, b⟩
  | _, _, _, _ => none

def Obs.toSt (o : Obs) : St :=
  { auc := fun i => (o.aucs.find? (fun ka => ka.1 == i)).map (·.2),
    nextId := o.nextId,
    index := o.index.map (fun x => (x.1, x.2.1)),
    bal := fun a d => (o.bals.getD a []).getD d 0 }

def Obs.bal (o : Obs) (a d : Nat) : Int := (o.bals.getD a []).getD d 0
def Obs.find (o : Obs) (id : Nat) : Option Auction := (o.aucs.find? (fun ka => ka.1 == id)).map (·.2)

def parseOp (s : String) : Option Op :=
  match s.splitOn ":" with
  | ["ss", seller, lotD, lot, bidD] =>
    match nat? seller, nat? lotD, int? lot, nat? bidD with
    | some a, some b, some c, some d => some (.startSurplus a b c d)
    | _, _, _, _ => none
  | ["sd", buyer, bidD, bid, lotD, lot, debtD, debt] =>
    match nat? buyer, nat? bidD, int? bid, nat? lotD, int? lot, nat? debtD, int? debt with
    | some a, some b, some c, some d, some e, some f, some g => some (.startDebt a b c d e f g)
    | _, _, _, _, _, _, _ => none
  | ["sc", seller, lotD, lot, bidD, maxBid, addrs, ws, debtD, debt] =>
    match nat? seller, nat? lotD, int? lot, nat? bidD, int? maxBid, nats? addrs, ints? ws, nat? debtD, int? debt with
    | some a, some b, some c, some d, some e, some f, some g, some h, some i =>
      some (.startCollateral a b c d e f g h i)
    | _, _, _, _, _, _, _, _, _ => none
  | ["pb", id, bidder, denom, amt] =>
    match nat? id, nat? bidder, nat? denom, int? amt with
    | some a, some b, some c, some d => some (.placeBid a b c d)
    | _, _, _, _ => none
  | ["cl", id] => (nat? id).map .close
  | ["bb"] => some .beginBlock
  | _ => none

def flags (l : List Int) : Nat → Bool := fun i => l.getD i 0 == 1

/-- lexicographic order of the by-time keys -/
def idxSorted : List (Int × Nat × Nat) → Bool
  | x :: y :: rest => keyLt (x.1, x.2.1) (y.1, y.2.1) && idxSorted (y :: rest)
  | _ => true

/-- C06_custody on an observation: module balance = Σ GetModuleAccountCoins, per denom -/
def custodyPred (M : Nat) (nd : Nat) (o : Obs) : Option String :=
  if (List.range nd).any (fun d => o.bal M d != sumL (o.aucs.map (fun ka => modCoins ka.2 d))) then
    some "module-balance-differs"
  else none

/-- C06_index_exact on an observation -/
def indexPred (o : Obs) : Option String :=
  if o.aucs.any (fun ka => ka.1 != ka.2.id) then some "key-id-differs"
  else if o.aucs.any (fun ka => ka.1 ≥ o.nextId) then some "id-not-below-next"
  else if o.index.any (fun x => x.2.1 != x.2.2) then some "index-value-differs"
  else if !idxSorted o.index then some "index-not-sorted"
  else if o.aucs.any (fun ka => (o.index.filter (fun x => x.2.1 == ka.1)).length != 1) then some "id-not-exactly-once"
  else if o.aucs.any (fun ka => !(o.index.any (fun x => x.1 == ka.2.endT && x.2.1 == ka.1))) then some "index-entry-missing"
  else if o.index.length != o.aucs.length then some "index-entry-stale"
  else none

def timePred (o : Obs) : Option String :=
  if o.aucs.any (fun ka => ka.2.endT > ka.2.maxEnd) then some "end-after-max-end" else none

def allDistinct (a : Auction) : Bool :=
  match a.kind with
  | .surplus => a.lotD != a.bidD
  | _ => a.lotD != a.bidD && a.lotD != a.debtD && a.bidD != a.debtD

def delta (pre post : Obs) (a d : Nat) : Int := post.bal a d - pre.bal a d

def listNodup : List Nat → Bool
  | [] => true
  | x :: xs => !xs.contains x && listNodup xs

/-- predicates of an accepted bid, stated on the observed pre/post auction and balances -/
def bidPred (M : Nat) (p : Params) (now : Int) (pre post : Obs) (id bidder denom : Nat) (amt : Int) : String :=
  match pre.find id, post.find id with
  | some a, some a' =>
    let fwd := a.kind == .surplus || (a.kind == .collateral && a.bid != a.maxBid)
    -- C06_endtime
    if now > a.endT then predfail "C06_endtime" "bid-accepted-after-end"
    else if a'.endT > a'.maxEnd then predfail "C06_endtime" "end-after-max-end"
    else if a.hasBids && a'.maxEnd != a.maxEnd then predfail "C06_endtime" "max-end-moved"
    else if !a.hasBids && a'.maxEnd != now + p.maxDur then predfail "C06_endtime" "max-end-not-set-by-first-bid"
    else if !a'.hasBids then predfail "C06_endtime" "has-bids-not-set"
    else if a'.endT > now + (if a.kind == .collateral && a'.bid == a'.maxBid then p.revDur else p.fwdDur)
      then predfail "C06_endtime" "end-beyond-bid-duration"
    else if a'.bidder != bidder then predfail "C06_bid_rules" "bidder-not-recorded"
    -- C06_bid_rules
    else if fwd then
      let inc := if a.kind == .surplus then p.incS else p.incC
      let need := a.bid + incOf a.bid inc
      if denom != a.bidD then predfail "C06_bid_rules" "wrong-denom-accepted"
      else if a'.bid != amt then predfail "C06_bid_rules" "bid-not-recorded"
      else if a'.lot != a.lot then predfail "C06_bid_rules" "lot-changed-by-forward-bid"
      else if a.kind == .collateral && amt > a.maxBid then predfail "C06_bid_rules" "above-max-bid"
      else if amt < need && !(a.kind == .collateral && amt == a.maxBid) then predfail "C06_bid_rules" "below-increment"
      else if amt ≤ a.bid then predfail "C06_bid_rules" "not-an-improvement"
      -- C06_outbid_refunded (denominations pairwise distinct: no other flow in the bid denom)
      else if !allDistinct a then "ok"
      else if bidder != a.bidder && a.bid > 0 && delta pre post a.bidder a.bidD != a.bid then
        predfail "C06_outbid_refunded" "standing-bidder-not-made-whole"
      else if bidder != a.bidder && delta pre post bidder a.bidD != -amt then predfail "C06_outbid_refunded" "new-bidder-payment"
      else if bidder == a.bidder && delta pre post bidder a.bidD != -(amt - a.bid) then
        predfail "C06_outbid_refunded" "rebid-not-increment-only"
      else if delta pre post M a.bidD != 0 then predfail "C06_custody" "bid-kept-in-module"
      else "ok"
    else
      let inc := if a.kind == .debt then p.incD else p.incC
      if denom != a.lotD then predfail "C06_bid_rules" "wrong-denom-accepted"
      else if a'.lot != amt then predfail "C06_bid_rules" "lot-not-recorded"
      else if a'.bid != a.bid then predfail "C06_bid_rules" "bid-changed-by-reverse-bid"
      else if amt > a.lot - incOf a.lot inc then predfail "C06_bid_rules" "above-decrement"
      else if amt ≥ a.lot then predfail "C06_bid_rules" "not-an-improvement"
      else if amt < 0 then predfail "C06_bid_rules" "negative-lot"
      else if !allDistinct a then "ok"
      else if bidder != a.bidder && delta pre post a.bidder a.bidD != a.bid then
        predfail "C06_outbid_refunded" "standing-bidder-not-made-whole"
      else if bidder != a.bidder && delta pre post bidder a.bidD != -a.bid then predfail "C06_outbid_refunded" "new-bidder-payment"
      else if bidder == a.bidder && delta pre post bidder a.bidD != 0 then predfail "C06_outbid_refunded" "rebid-not-increment-only"
      else if a.kind == .collateral then
        -- C06_payout_exact, reverse phase: what leaves the module is lot − lot′ and goes to the depositors
        let ret := a.lot - amt
        let n := pre.bals.length
        let credited := sumL ((List.range n).map (fun x => if x == M then 0 else delta pre post x a.lotD))
        if delta pre post M a.lotD != -ret then predfail "C06_payout_exact" "returned-not-lot-difference"
        else if credited != ret then predfail "C06_payout_exact" "returns-do-not-sum"
        else if listNodup a.retAddrs && !a.retAddrs.contains M then
          let parts := a.retAddrs.map (fun x => delta pre post x a.lotD)
          match checkSplit ret a.retW parts with
          | some why => predfail "C06_split" why
          | none => "ok"
        else "ok"
      else "ok"
  | _, _ => predfail "C06_index_exact" "bid-on-missing-auction"

/-- predicates of one closed auction `a` (pre-state record), stated on balances -/
def closePred (M : Nat) (now : Int) (pre post : Obs) (a : Auction) (single : Bool) : String :=
  if now < a.endT then predfail "C06_endtime" "closed-before-end"
  else if (post.find a.id).isSome then predfail "C06_endtime" "closed-auction-still-stored"
  else if !single || !allDistinct a then "ok"
  else if delta pre post a.bidder a.lotD != a.lot then predfail "C06_payout_exact" "winner-not-paid-lot"
  else if a.kind != .debt && delta pre post M a.lotD != -a.lot then predfail "C06_payout_exact" "module-lot"
  else if a.kind != .surplus && delta pre post a.initiator a.debtD != a.debt then
    predfail "C06_payout_exact" "debt-not-returned-to-initiator"
  else if a.kind != .surplus && delta pre post M a.debtD != -a.debt then predfail "C06_payout_exact" "module-debt"
  else "ok"

def showAuc (a : Auction) : String :=
  let k := match a.kind with | .surplus => "s" | .debt => "d" | .collateral => "c"
  s!"{a.id}:{k}:{a.initiator}:{a.lotD}:{a.lot}:{a.bidder}:{a.bidD}:{a.bid}:{showBool a.hasBids}:{a.endT}:{a.maxEnd}:{a.debtD}:{a.debt}:{a.maxBid}:{a.retAddrs}:{a.retW}"

/-- model post-state vs observed post-state -/
def compareSt (s : St) (o : Obs) (na nd : Nat) : String :=
  if s.nextId != o.nextId then mismatch "nextId" (toString s.nextId) (toString o.nextId) else
  let top := max s.nextId o.nextId
  match (List.range top).find? (fun i => s.auc i != o.find i) with
  | some i => mismatch s!"auction[{i}]" (((s.auc i).map showAuc).getD "none") (((o.find i).map showAuc).getD "none")
  | none =>
    let oi := o.index.map (fun x => (x.1, x.2.1))
    if s.index != oi then mismatch "index" (toString s.index) (toString oi) else
    match (List.range na).find? (fun a => (List.range nd).any (fun d => s.bal a d != o.bal a d)) with
    | some a => mismatch s!"balance[{a}]" (toString ((List.range nd).map (s.bal a))) (toString ((List.range nd).map (o.bal a)))
    | none => "ok"

def handleOp : Handler
  | [M, nilA, blocked, minter, burner, DF, maxDur, fwdDur, revDur, incS, incD, incC, now,
     nextId, aucs, index, bals, op, _, result, nextId', aucs', index', bals'] =>
    match nat? M, nat? nilA, ints? blocked, ints? minter, ints? burner, int? DF,
          int? maxDur, int? fwdDur, int? revDur, int? incS, int? incD, int? incC, int? now,
          parseObs nextId aucs index bals, parseOp op with
    | some M, some nilA, some blocked, some minter, some burner, some DF,
      some maxDur, some fwdDur, some revDur, some incS, some incD, some incC, some now,
      some pre, some op =>
      let env : Env := { M := M, nilAddr := nilA, blocked := flags blocked, minter := flags minter,
                         burner := flags burner, distantFuture := DF }
      let p : Params := { maxDur := maxDur, fwdDur := fwdDur, revDur := revDur, incS := ⟨incS⟩, incD := ⟨incD⟩, incC := ⟨incC⟩ }
      let res := step env p now pre.toSt op
      let cls := match res with | .ok _ => "ok" | .err => "err" | .notFound => "err" | .panic => "panic"
      if result != "ok" then (if cls != result then mismatch "result" cls result else "ok")
      else
        match parseObs nextId' aucs' index' bals' with
        | none => badInput "post"
        | some post =>
          let na := pre.bals.length
          let nd := (pre.bals.getD 0 []).length
          -- (2) property predicates on the implementation's own observation (a failing input is the
          --     stronger verdict, so it is reported before a model/implementation difference)
          let pred :=
            match custodyPred M nd post with
            | some why => predfail "C06_custody" why
            | none =>
            match indexPred post with
            | some why => predfail "C06_index_exact" why
            | none =>
            match timePred post with
            | some why => predfail "C06_endtime" why
            | none =>
              match op with
              | .placeBid id bidder denom amt => bidPred M p now pre post id bidder denom amt
              | .close id =>
                (match pre.find id with
                 | some a => closePred M now pre post a true
                 | none => predfail "C06_endtime" "closed-missing-auction")
              | .beginBlock =>
                let gone := pre.aucs.filter (fun ka => (post.find ka.1).isNone)
                let late := post.aucs.filter (fun ka => ka.2.endT ≤ now)
                if !late.isEmpty then predfail "C06_endtime" "expired-auction-left-open"
                else if pre.aucs.any (fun ka => ka.2.endT > now && post.find ka.1 != some ka.2) then
                  predfail "C06_endtime" "unexpired-auction-touched"
                else allOk (gone.map (fun ka => closePred M now pre post ka.2 (gone.length == 1)))
              | _ => "ok"
          if pred != "ok" then pred else
          -- (1) model vs implementation
          if cls != result then mismatch "result" cls result else
          match res with | .ok s' => compareSt s' post na nd | _ => "ok"
    | _, _, _, _, _, _, _, _, _, _, _, _, _, _, _ => badInput "parse"
  | _ => badInput "arity"

/-- a parameter change is not a state change -/
def govPred (M nd : Nat) (pre post : Obs) : String :=
  match custodyPred M nd post with
  | some why => predfail "C06_custody" why
  | none =>
  match indexPred post with
  | some why => predfail "C06_index_exact" why
  | none =>
  match timePred post with
  | some why => predfail "C06_endtime" why
  | none =>
    if pre.aucs.any (fun ka => match post.find ka.1 with
        | some a' => a'.maxEnd != ka.2.maxEnd | none => false) then
      predfail "C06_endtime" "param-change-moved-max-end"
    else if pre.aucs.any (fun ka => match post.find ka.1 with
        | some a' => a'.endT != ka.2.endT | none => false) then
      predfail "C06_endtime" "param-change-moved-end"
    else if pre.aucs.any (fun ka => (post.find ka.1).isNone) then predfail "C06_endtime" "param-change-closed-auction"
    else if pre.aucs.any (fun ka => post.find ka.1 != some ka.2) || post.aucs.length != pre.aucs.length then
      predfail "C06_bid_rules" "param-change-rewrote-auction"
    else if pre.bals != post.bals then predfail "C06_custody" "param-change-moved-coins"
    else if pre.index != post.index then predfail "C06_index_exact" "param-change-rewrote-index"
    else if pre.nextId != post.nextId then predfail "C06_index_exact" "param-change-moved-next-id"
    else "ok"

def handleGov : Handler
  | [M, _nilA, _blocked, _minter, _burner, _DF, _, _, _, _, _, _, maxDur, fwdDur, revDur, incS, incD, incC, _now,
     nextId, aucs, index, bals, _, nextId', aucs', index', bals'] =>
    match nat? M, int? maxDur, int? fwdDur, int? revDur, int? incS, int? incD, int? incC,
          parseObs nextId aucs index bals, parseObs nextId' aucs' index' bals' with
    | some M, some _, some _, some _, some _, some _, some _, some pre, some post =>
      govPred M (pre.bals.getD 0 []).length pre post
    | _, _, _, _, _, _, _, _, _ => badInput "parse"
  | _ => badInput "arity"

def handlers : List (String × Handler) :=
  [("c06.split", handleSplit), ("c06.inc", handleInc), ("c06.op", handleOp), ("c06.gov", handleGov)]
end Drv.C06
