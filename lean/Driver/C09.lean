import Driver.Util
import KavaVerif.Model.Accumulator
/-!
  C09 driver.  Each case line carries the implementation's observed input / pre-state, the operation,
  `=>`, the implementation's result class and observed output / post-state.  Every handler
  (1) evaluates the property predicate on the implementation's own observation (PREDFAIL, independent
      of the model) and (2) runs the Lean model on the observed input and compares (MISMATCH).

  All Dec values are mantissas (value · 10^18); times are Unix nanoseconds.

  c09.acc    prev now start stop rate T I => cls prev' I' d secs
             real `types.Accumulator` (one reward denom per line); `d`, `secs` are what the real
             getTimeElapsedWithinLimits / calculateNewRewards(rate 1, T 1) report for the same call
  c09.chain  prev0 start stop times ds prevN        a whole block partition driven through one Accumulator
  c09.reward old new shares => cls amount           real `Keeper.CalculateSingleReward`
  c09.kacc   src prevFound prev now start stop rate T I => cls prev' I'      Accumulate<Source>Rewards in BeginBlocker
  c09.kchange src u I s i r => cls s' i' r'         one source-module message of user u (lists over users)
  c09.kpend  src I s i r => rs                      GetSynchronized<Source>Claim for every user
  c09.kclaim src u factor now claimEnd macc I s i r => cls i' r' paid maccDelta
  c09.sum    src T s                                Σ source shares = total source shares
  c09.sumle  src T s                                Σ listed users' shares ≤ total (delegations: the validator's own)
  c09.bound  src nusers nsyncs emission sumT credited
  c09.bound  src nusers nsyncs emission sumT credited extra     the same with a further allowance `extra` (10^-36 reward
                                                    units) that the harness derives from the source module's own rounding
                                                    (validators world: unhooked rounding drift of x/staking's tokens per share)
  c09.vsum   src T ndelegations s                   |Σ accounts' bonded tokens − bonded pool| ≤ one rounding per delegation
  c09.vevent src actor I s i r => cls I' s' i' r' drift driftSync   one message of account `actor`, or a validator event / end block
                                                    (actor "-"), lists over ALL delegators (validators world, harness validators.go)
  c09.integral src u nsyncU gained flo slack        the owner's synchronised claim against the harness's own time integral
                                                    (multi-instance world: summed over the instances of the claim object
                                                     that credit the reward denom)

  One claim object fed by several instances (harness multi.go); for one owner u and one reward denom,
  r = stored claim reward, Is / ss / is = per instance: global index, u's shares, u's stored index ("x" absent):
  c09.mchange src u r Is ss is => cls r' ss' is' othersPre othersPost     one source-module message on u's positions
  c09.mpend   src u r Is ss is => synced                                  Synchronize…Claim / GetSynchronized…Claim
  c09.mclaim  src u solo factor now claimEnd macc r Is ss is => cls r' is' paid maccDelta second othersPre othersPost
              `second` = "<cls>:<amount>" of the same claim message repeated immediately; others… = digest of
              every other (user, claim object): stored rewards, stored indexes, source shares
-/
namespace Drv.C09
open KV KV.Acc

def clsOf {α : Type} : Res α → String
  | .ok _ => "ok" | .err => "err" | .panic => "panic"

/-- list entries that may be absent ("x") -/
def optInts? (s : String) : Option (List (Option Int)) :=
  (strs s).mapM fun t => if t == "x" then some none else (int? t).map some

/-- "Aswap:sdep:5/7" ↦ "swap": the source kind used in PREDFAIL tags (details follow the tag) -/
def kindOf (src : String) : String :=
  let h := (src.splitOn ":").headD src
  (h.drop 1).toString

def clip (t start stop : Int) : Int := min (max t start) stop

/-- effective stored index: an absent entry is read as zero by the code; with zero shares the next
    event re-initialises it to the global index, which is what the model keeps -/
def effIdx (I : Int) (s : Int) (i : Option Int) : Int :=
  match i with
  | some v => v
  | none => if s == 0 then I else 0

def mkSt (I T prev : Int) (s : List Int) (i : List (Option Int)) (r : List Int) : St :=
  { I := I, T := T, prev := prev,
    u := fun a => { s := s.getD a 0, i := effIdx I (s.getD a 0) ((i.getD a none)), r := r.getD a 0 } }

/-- stored index against the model's; with zero shares the stored index is immaterial (nothing can be
    pending and the next event re-initialises it to the global index) -/
def idxEq (model : Int) (s' : Int) (impl : Option Int) : Bool :=
  s' == 0 ||
  match impl with
  | some v => v == model
  | none => model == 0

/-- |x·P² − d·s| ≤ (P² + P)/2 : the two half-even roundings of `CalculateSingleReward` -/
def rewardWithinRounding (x d s : Int) : Bool :=
  2 * (x * P * P - d * s) ≤ P * P + P && 2 * (d * s - x * P * P) ≤ P * P + P

def handleAcc : Handler
  | [prev, now, start, stop, rate, T, I, _, cls, prev', I', d, secs] =>
    match int? prev, int? now, int? start, int? stop, int? rate, int? T, int? I with
    | some prev, some now, some start, some stop, some rate, some T, some I =>
      let σ : St := { I := I, T := T, prev := prev, u := fun _ => default }
      let res := accumulate ⟨start, stop, rate⟩ σ now
      if cls == "panic" then
        -- BeginBlocker must not panic for a valid period and non-decreasing block times
        if prev ≤ now && start ≤ stop then predfail "C09_window" "panic-on-valid-input"
        else expectEq "class" (clsOf res) cls
      else
      match int? prev', int? I', int? d, int? secs with
      | some prev', some I', some d, some secs =>
        -- (1) property predicates on the implementation's observation
        if prev' != min stop now then predfail "C09_window" s!"accrual-time prev'={prev'}"
        else if (now ≤ start || stop ≤ prev) && I' != I then predfail "C09_window" "accrued-outside-window"
        else if d != (let x := clip now start stop - clip prev start stop; if x > maxDur then maxDur else x) then
          predfail "C09_window" s!"duration d={d}"
        else if d == 0 && secs != 0 then predfail "C09_window" "seconds-for-empty-overlap"
        else if secs < 0 || 2 * (secs * NS - d) > NS + 2 + d / 2 ^ 50 || 2 * (d - secs * NS) > NS + 2 + d / 2 ^ 50 then
          predfail "C09_window" s!"seconds-not-nearest d={d} secs={secs}"
        else if rate ≥ 0 && I' < I then predfail "C09_no_over_distribution" "index-decreased"
        else if T > 0 && 2 * (I' - I) * T > 2 * rate * secs * P + T then
          predfail "C09_no_over_distribution" "block-increment-exceeds-emission"
        else if T ≤ 0 && I' != I then predfail "C09_no_over_distribution" "accrued-with-no-shares"
        else
        -- (2) model
        match res with
        | .ok σ' =>
          allOk [expectEq "prev" (toString σ'.prev) (toString prev'), expectEq "I" (toString σ'.I) (toString I'),
                 expectEq "d" (toString ((elapsed prev now start stop).getD (-1))) (toString d),
                 expectEq "secs" (toString (goSeconds d)) (toString secs)]
        | r => mismatch "class" (clsOf r) cls
      | _, _, _, _ => badInput "post"
    | _, _, _, _, _, _, _ => badInput "parse"
  | _ => badInput "arity"

def handleChain : Handler
  | [prev0, start, stop, times, ds, prevN] =>
    match int? prev0, int? start, int? stop, ints? times, ints? ds, int? prevN with
    | some prev0, some start, some stop, some times, some ds, some prevN =>
      let tN := times.getLast?.getD prev0
      let total := ds.foldl (· + ·) 0
      if ds.any (· < 0) then predfail "C09_window" "negative-duration"
      else if total != clip tN start stop - clip prev0 start stop then
        predfail "C09_window" s!"instants-counted-twice-or-missed total={total}"
      else if !times.isEmpty && prevN != min stop tN then predfail "C09_window" "final-accrual-time"
      else "ok"
    | _, _, _, _, _, _ => badInput "parse"
  | _ => badInput "arity"

def handleReward : Handler
  | [old, new, shares, _, cls, amount] =>
    match int? old, int? new, int? shares with
    | some old, some new, some shares =>
      match singleReward old new shares with
      | none => expectEq "class" "err" cls
      | some x =>
        if cls != "ok" then mismatch "class" "ok" cls
        else match int? amount with
          | some a =>
            if !rewardWithinRounding a (new - old) shares then predfail "C09_integral" "reward-rounding-exceeds-one-unit"
            else expectEq "reward" (toString x) (toString a)
          | none => badInput "amount"
    | _, _, _ => badInput "parse"
  | _ => badInput "arity"

def handleKAcc : Handler
  | [_src, prevFound, prev, now, start, stop, rate, T, I, _, cls, prev', I'] =>
    match bool? prevFound, int? prev, int? now, int? start, int? stop, int? rate, int? T, int? I with
    | some pf, some prev, some now, some start, some stop, some rate, some T, some I =>
      let σ : St := { I := I, T := T, prev := prev, u := fun _ => default }
      let res := keeperAccumulate ⟨start, stop, rate⟩ σ pf now
      let prevE := if pf then prev else now
      if cls != "ok" then
        if prevE ≤ now && start ≤ stop then predfail "C09_window" "begin-blocker-panic"
        else expectEq "class" (clsOf res) cls
      else
      match int? prev', int? I' with
      | some prev', some I' =>
        let d := (let x := clip now start stop - clip prevE start stop; if x > maxDur then maxDur else x)
        -- whole seconds as the module counts them, from the observed window only
        if prev' != min stop now then predfail "C09_window" s!"accrual-time prev'={prev'}"
        else if (now ≤ start || stop ≤ prevE) && I' != I then predfail "C09_window" "accrued-outside-window"
        else if rate ≥ 0 && I' < I then predfail "C09_no_over_distribution" "index-decreased"
        else if T > 0 && 2 * (I' - I) * T > 2 * rate * (goSeconds d) * P + T then
          predfail "C09_no_over_distribution" "block-increment-exceeds-emission"
        else if T ≤ 0 && I' != I then predfail "C09_no_over_distribution" "accrued-with-no-shares"
        else match res with
          | .ok σ' => allOk [expectEq "prev" (toString σ'.prev) (toString prev'), expectEq "I" (toString σ'.I) (toString I')]
          | r => mismatch "class" (clsOf r) cls
      | _, _ => badInput "post"
    | _, _, _, _, _, _, _, _ => badInput "parse"
  | _ => badInput "arity"

def range (n : Nat) : List Nat := List.range n

def handleKChange : Handler
  | [src, u, I, s, i, r, _, cls, s', i', r'] =>
    match nat? u, int? I, ints? s, optInts? i, ints? r with
    | some u, some I, some s, some i, some r =>
      let n := s.length
      if cls != "ok" then
        -- a failed message is rolled back: nothing may change
        if s' == showInts s && r' == showInts r then "ok" else predfail "C09_frame" s!"{kindOf src}-failed-op-changed-state src={src}"
      else
      match ints? s', optInts? i', ints? r' with
      | some s', some i', some r' =>
        let σ := mkSt I 0 0 s i r
        -- (1) C09_frame on the implementation's observation
        let othersSame := (range n).all fun v =>
          v == u || (s'.getD v 0 == s.getD v 0 && r'.getD v 0 == r.getD v 0 &&
                     (i'.getD v none == i.getD v none))
        if !othersSame then predfail "C09_frame" s!"{kindOf src}-other-user-changed src={src}"
        else if r'.getD u 0 < r.getD u 0 then predfail "C09_frame" s!"{kindOf src}-accrued-reward-decreased src={src}"
        else
          let changed := s'.getD u 0 != s.getD u 0
          let want := (σ.u u).r + pending σ u
          let synced := r'.getD u 0 == want && idxEq I (s'.getD u 0) (i'.getD u none)
          let untouched := r'.getD u 0 == r.getD u 0 && i'.getD u none == i.getD u none
          if changed && !synced then
            predfail "C09_frame" s!"{kindOf src}-share-change-without-sync-of-pre-change-shares src={src} want={want} got={r'.getD u 0}"
          else if !changed && !synced && !untouched then
            predfail "C09_frame" s!"{kindOf src}-own-reward-changed-by-other-than-pending src={src} want={want} got={r'.getD u 0}"
          else
          -- (2) model: hook then write (only when the source really changed the shares)
          if changed then
            match change σ u (s'.getD u 0) with
            | .ok σ' =>
              allOk ((range n).map fun v =>
                allOk [expectEq s!"r{v}" (toString (σ'.u v).r) (toString (r'.getD v 0)),
                       if idxEq (σ'.u v).i (s'.getD v 0) (i'.getD v none) then "ok"
                       else mismatch s!"i{v}" (toString (σ'.u v).i) (toString (i'.getD v none))])
            | res => mismatch "class" (clsOf res) cls
          else "ok"
      | _, _, _ => badInput "post"
    | _, _, _, _, _ => badInput "parse"
  | _ => badInput "arity"

def handleKPend : Handler
  | [src, I, s, i, r, _, rs] =>
    match int? I, ints? s, optInts? i, ints? r, ints? rs with
    | some I, some s, some i, some r, some rs =>
      let σ := mkSt I 0 0 s i r
      allOk ((range s.length).map fun v =>
        let d := I - (σ.u v).i
        let got := rs.getD v 0 - r.getD v 0
        if d < 0 then predfail "C09_integral" s!"{kindOf src}-index-above-global src={src}"
        else if !rewardWithinRounding got d (s.getD v 0) then predfail "C09_integral" s!"{kindOf src}-pending-rounding-exceeds-one-unit src={src}"
        else expectEq s!"synced{v}" (toString ((σ.u v).r + pending σ v)) (toString (rs.getD v 0)))
    | _, _, _, _, _ => badInput "parse"
  | _ => badInput "arity"

def handleKClaim : Handler
  | [src, u, factor, now, claimEnd, macc, I, s, i, r, _, cls, i', r', paid, maccDelta] =>
    match nat? u, int? factor, int? now, int? claimEnd, int? macc, int? I, ints? s, optInts? i, ints? r with
    | some u, some factor, some now, some claimEnd, some macc, some I, some s, some i, some r =>
      let σ := mkSt I 0 0 s i r
      let res := claim σ u factor now claimEnd macc
      if cls != "ok" then
        -- (1) refused claims: after the deadline always; otherwise only a zero payout / empty account
        let accrued := (σ.u u).r + pending σ u
        let pay := Dec.roundInt (Dec.mul (Dec.ofInt accrued) ⟨factor⟩)
        if now ≤ claimEnd && pay > 0 && pay ≤ macc then predfail "C09_claim" s!"{kindOf src}-refused-payable-claim src={src}"
        else if r' != showInts r then predfail "C09_claim" s!"{kindOf src}-failed-claim-changed-state src={src}"
        else expectEq "class" (clsOf res) cls
      else
      match optInts? i', ints? r', int? paid, int? maccDelta with
      | some i', some r', some paid, some maccDelta =>
        let accrued := (σ.u u).r + pending σ u
        if now > claimEnd then predfail "C09_claim" s!"{kindOf src}-accepted-after-claim-end src={src}"
        else if paid != Dec.roundInt (Dec.mul (Dec.ofInt accrued) ⟨factor⟩) then
          predfail "C09_claim" s!"{kindOf src}-paid-not-accrued-times-multiplier src={src} paid={paid} accrued={accrued}"
        else if maccDelta != -paid then predfail "C09_claim" s!"{kindOf src}-not-paid-from-incentive-account src={src}"
        else if r'.getD u 0 != 0 then predfail "C09_claim" s!"{kindOf src}-claim-not-reset src={src}"
        else if paid == 0 then predfail "C09_claim" s!"{kindOf src}-zero-claim-accepted src={src}"
        else if !((range s.length).all fun v => v == u || (r'.getD v 0 == r.getD v 0 && i'.getD v none == i.getD v none)) then
          predfail "C09_frame" s!"{kindOf src}-claim-changed-other-user src={src}"
        else match res with
          | .ok (σ', pay) =>
            allOk [expectEq "paid" (toString pay) (toString paid),
                   expectEq "r" (toString (σ'.u u).r) (toString (r'.getD u 0)),
                   if idxEq (σ'.u u).i (s.getD u 0) (i'.getD u none) then "ok"
                   else mismatch "i" (toString (σ'.u u).i) (toString (i'.getD u none))]
          | rr => mismatch "class" (clsOf rr) cls
      | _, _, _, _ => badInput "post"
    | _, _, _, _, _, _, _, _, _ => badInput "parse"
  | _ => badInput "arity"

def handleSum : Handler
  | [src, T, s] =>
    match int? T, ints? s with
    | some T, some s =>
      let tot := s.foldl (· + ·) 0
      if tot == T then "ok"
      else if tot > T then predfail "C09_shares_sum" s!"{kindOf src}-user-shares-exceed-total src={src} sum={tot} T={T}"
      else predfail "C09_shares_sum" s!"{kindOf src}-user-shares-below-total src={src} sum={tot} T={T}"
    | _, _ => badInput "parse"
  | _ => badInput "arity"

/-- Σ listed users' shares ≤ total (sources with participants outside the harness's users) -/
def handleSumLe : Handler
  | [src, T, s] =>
    match int? T, ints? s with
    | some T, some s =>
      let tot := s.foldl (· + ·) 0
      if tot ≤ T then "ok"
      else predfail "C09_shares_sum" s!"{kindOf src}-user-shares-exceed-total src={src} sum={tot} T={T}"
    | _, _ => badInput "parse"
  | _ => badInput "arity"

/-- `C09_no_over_distribution` on the real claims:
    2·P²·credited ≤ 2·P·emission + ΣT + (nsyncs + nusers)·(P² + P)
    (emission = Σ_b rate·secs_b as a Dec mantissa over blocks with T_b > 0, ΣT = Σ_b T_b mantissas) -/
def handleBound : Handler
  | [src, nusers, nsyncs, emission, sumT, credited, extra] =>
    -- the same bound with a further allowance `extra` (10^-36 reward units, i.e. index mantissa × share mantissa)
    match int? nusers, int? nsyncs, int? emission, int? sumT, int? credited, int? extra with
    | some nu, some ns, some em, some sT, some cr, some ex =>
      if ex < 0 then badInput "extra"
      else if 2 * P * P * cr ≤ 2 * P * em + sT + (ns + nu) * (P * P + P) + 2 * ex then "ok"
      else predfail "C09_no_over_distribution" s!"credited-exceeds-emission src={src} credited={cr} emission={em / P}"
    | _, _, _, _, _, _ => badInput "parse"
  | [src, nusers, nsyncs, emission, sumT, credited] =>
    match int? nusers, int? nsyncs, int? emission, int? sumT, int? credited with
    | some nu, some ns, some em, some sT, some cr =>
      if 2 * P * P * cr ≤ 2 * P * em + sT + (ns + nu) * (P * P + P) then "ok"
      else
        -- x/hard with a non-zero interest model: Σ normalised user amounts ≠ total/factor (known drift)
        let tag := if src.startsWith "Bh" then "hard-with-interest-credited-exceeds-emission" else "credited-exceeds-emission"
        predfail "C09_no_over_distribution" s!"{tag} src={src} credited={cr} emission={em}"
    | _, _, _, _, _ => badInput "parse"
  | _ => badInput "arity"

/-- `C09_integral` on the real synchronised claim of the position owner `u` after an operation:
    |2P·(gained·P² − flo)| ≤ P·(nsyncU + 1)·(P² + P) + slack, where gained = synchronised reward + claimed,
    flo / slack the harness's own time integral Σ_b ⌊rate·secs_b·P·s_u(b)/T_b⌋ and Σ_b ((P+2)·s_u(b) + P)
    (the +1 is the synchronisation that turns pending into accrued). -/
def handleIntegral : Handler
  | [src, u, nsyncU, gained, flo, slack] =>
    match int? nsyncU, int? gained, int? flo, int? slack with
    | some ns, some g, some fl, some sl =>
      let lhs := 2 * P * (g * P * P - fl)
      let allow := P * (ns + 1) * (P * P + P) + sl
      let op := ((src.splitOn ":").getD 1 "")
      let what := if op == "hrep3" then "third-party-repay" else if op == "cdep3" then "third-party-deposit" else op
      if lhs < -allow then
        predfail "C09_integral" s!"owner-reward-lost {what} src={src} user={u} credited={g} integral={fl / (P * P)} syncs={ns}"
      else if lhs > allow then
        predfail "C09_integral" s!"owner-reward-exceeds-integral {what} src={src} user={u} credited={g} integral={fl / (P * P)} syncs={ns}"
      else "ok"
    | _, _, _, _ => badInput "parse"
  | _ => badInput "arity"

/-! ### one claim object fed by several instances -/

/-- the instances of a group from the observed lists (an absent stored index as in `effIdx`) -/
def mkInsts (Is ss : List Int) (is : List (Option Int)) : List Inst :=
  (range Is.length).map fun k =>
    let I := Is.getD k 0
    let s := ss.getD k 0
    { I := I, s := s, i := effIdx I s (is.getD k none) }

def sumInts (l : List Int) : Int := l.foldl (· + ·) 0

/-- one source-module message on the positions of `u`: `C09_frame` / `C09_frame_own` for a claim object fed
    by several instances.  Every instance whose shares changed was synchronised (stored index = global
    index afterwards); every stored index was either kept or set to the global one; the owner's reward grew
    by exactly the pending amounts (PRE-change shares) of the instances that were synchronised; nobody
    else's claim, and no other claim object of `u`, moved. -/
def handleMChange : Handler
  | [src, u, rS, IsS, ssS, isS, _, cls, rS', ssS', isS', oPre, oPost] =>
    match int? rS, ints? IsS, ints? ssS, optInts? isS with
    | some r, some Is, some ss, some is =>
      let kd := kindOf src
      if oPre != oPost then predfail "C09_frame" s!"{kd}-other-claim-or-position-changed src={src} user={u}"
      else if cls != "ok" then
        -- a failed message is rolled back: nothing may change
        if rS' == rS && ssS' == ssS && isS' == isS then "ok"
        else predfail "C09_frame" s!"{kd}-failed-op-changed-state src={src} user={u}"
      else
      match int? rS', ints? ssS', optInts? isS' with
      | some r', some ss', some is' =>
        let xs := mkInsts Is ss is
        let n := Is.length
        let bad := (range n).findSome? fun k =>
          let changed := ss'.getD k 0 != ss.getD k 0
          let synced := idxEq (Is.getD k 0) (ss'.getD k 0) (is'.getD k none)
          let untouched := is'.getD k none == is.getD k none
          if changed && !synced then some s!"{kd}-share-change-without-sync-of-pre-change-shares src={src} user={u} instance={k}"
          else if !synced && !untouched then some s!"{kd}-stored-index-neither-kept-nor-global src={src} user={u} instance={k}"
          else none
        match bad with
        | some t => predfail "C09_frame" t
        | none =>
          let want := r + sumInts ((range n).map fun k =>
            if ss'.getD k 0 != ss.getD k 0 || is'.getD k none != is.getD k none then (xs.getD k default).pending else 0)
          if r' < r then predfail "C09_frame" s!"{kd}-accrued-reward-decreased src={src} user={u}"
          else if r' != want then
            predfail "C09_frame" s!"{kd}-own-reward-changed-by-other-than-pending-of-synchronised-instances src={src} user={u} want={want} got={r'}"
          else "ok"
      | _, _, _ => badInput "post"
    | _, _, _, _ => badInput "parse"
  | _ => badInput "arity"

/-- the synchronised claim the keeper reports: stored reward + Σ over the instances of the pending reward
    (each within the two half-even roundings of `CalculateSingleReward`) -/
def handleMPend : Handler
  | [src, u, rS, IsS, ssS, isS, _, gotS] =>
    match int? rS, ints? IsS, ints? ssS, optInts? isS, int? gotS with
    | some r, some Is, some ss, some is, some got =>
      let kd := kindOf src
      let xs := mkInsts Is ss is
      let n : Int := xs.length
      let exact := sumInts (xs.map fun x => (x.I - x.i) * x.s)
      let g := got - r
      if xs.any (fun x => x.I - x.i < 0) then predfail "C09_integral" s!"{kd}-index-above-global src={src} user={u}"
      else if 2 * (g * P * P - exact) > n * (P * P + P) || 2 * (exact - g * P * P) > n * (P * P + P) then
        predfail "C09_integral" s!"{kd}-synchronised-claim-differs-from-stored-plus-pending src={src} user={u} reported={got} stored={r} pending={pendingSum xs}"
      else match syncAllFrom r xs with
        | .ok (r', _) => expectEq "synced" (toString r') (toString got)
        | res => mismatch "class" (clsOf res) "ok"
    | _, _, _, _, _ => badInput "parse"
  | _ => badInput "arity"

/-- `C09_claim` for a claim object fed by several instances: the claim pays
    roundInt((stored reward + Σ_instances pending) · multiplier) out of the incentive account, resets the
    reward, leaves every other claim alone, and the same claim repeated immediately pays nothing. -/
def handleMClaim : Handler
  | [src, u, solo, factor, now, claimEnd, macc, rS, IsS, ssS, isS, _, cls, rS', isS', paid, maccDelta, second, oPre, oPost] =>
    match bool? solo, int? factor, int? now, int? claimEnd, int? macc, int? rS, ints? IsS, ints? ssS, optInts? isS with
    | some solo, some factor, some now, some claimEnd, some macc, some r, some Is, some ss, some is =>
      let kd := kindOf src
      let xs := mkInsts Is ss is
      let accrued := r + pendingSum xs
      let pay := Dec.roundInt (Dec.mul (Dec.ofInt accrued) ⟨factor⟩)
      let res := mclaim ⟨r, xs⟩ factor now claimEnd macc
      if oPre != oPost then predfail "C09_frame" s!"{kd}-claim-changed-other-claim-or-position src={src} user={u}"
      else if cls != "ok" then
        -- refused: after the deadline always; otherwise only a zero payout / an empty incentive account
        -- (a message claiming several denoms is refused as a whole when one of them is)
        if solo && now ≤ claimEnd && pay > 0 && pay ≤ macc then predfail "C09_claim" s!"{kd}-refused-payable-claim src={src} user={u} accrued={accrued}"
        else if rS' != rS || isS' != isS then predfail "C09_claim" s!"{kd}-failed-claim-changed-state src={src} user={u}"
        else if solo then expectEq "class" (clsOf res) cls
        else "ok"
      else
      match int? rS', optInts? isS', int? paid, int? maccDelta with
      | some r', some is', some paid, some maccDelta =>
        let secondPaid := (int? ((second.splitOn ":").getD 1 "")).getD 0
        if now > claimEnd then predfail "C09_claim" s!"{kd}-accepted-after-claim-end src={src} user={u}"
        else if paid != pay then
          predfail "C09_claim" s!"{kd}-paid-not-accrued-times-multiplier src={src} user={u} paid={paid} accrued={accrued} stored={r} pending={pendingSum xs} expected={pay}"
        else if maccDelta != -paid then predfail "C09_claim" s!"{kd}-not-paid-from-incentive-account src={src} user={u}"
        else if r' != 0 then predfail "C09_claim" s!"{kd}-claim-not-reset src={src} user={u} left={r'}"
        else if paid == 0 then predfail "C09_claim" s!"{kd}-zero-claim-accepted src={src} user={u}"
        else if secondPaid != 0 then predfail "C09_claim" s!"{kd}-immediate-second-claim-paid src={src} user={u} second={second}"
        else match res with
          | .ok (c', p) =>
            allOk ([expectEq "paid" (toString p) (toString paid), expectEq "r" (toString c'.r) (toString r')] ++
              (range xs.length).map fun k =>
                if idxEq (c'.xs.getD k default).i (ss.getD k 0) (is'.getD k none) then "ok"
                else mismatch s!"i{k}" (toString (c'.xs.getD k default).i) (toString (is'.getD k none)))
          | rr => mismatch "class" (clsOf rr) cls
      | _, _, _, _ => badInput "post"
    | _, _, _, _, _, _, _, _, _ => badInput "parse"
  | _ => badInput "arity"

/-! ### the delegator source with several validators (harness validators.go) -/

/-- Σ over ALL delegators of their tokens delegated to bonded validators against the bonded pool the module
    divides by: equal up to one 18-decimal rounding of `TokensFromShares` per delegation -/
def handleVSum : Handler
  | [src, T, nd, s] =>
    match int? T, int? nd, ints? s with
    | some T, some nd, some s =>
      let tot := s.foldl (· + ·) 0
      if tot > T + nd then predfail "C09_shares_sum" s!"{kindOf src}-delegators-bonded-tokens-exceed-bonded-pool src={src} sum={tot} T={T}"
      else if tot < T - nd then predfail "C09_shares_sum" s!"{kindOf src}-delegators-bonded-tokens-below-bonded-pool src={src} sum={tot} T={T}"
      else "ok"
    | _, _, _ => badInput "parse"
  | _ => badInput "arity"

/-- One staking message of account `actor`, or one validator event (jail, unjail, slash, end-block validator set
    update; actor "-"), observed on ALL delegators; `s` = tokens delegated to BONDED validators as the harness reads
    them from x/staking before / after.  `C09_frame` / `C09_frame_own` with the reading "a validator leaving or
    entering the bonded set, or being slashed, is a change of every one of its delegators' source shares, hook first":
    the global index does not move; every account is either left alone or credited exactly the pending reward of
    its PRE-event shares (stored index := global index); an account whose shares changed by more than `drift`
    (x/staking's own rounding when somebody else unbonds) was credited that way; a message of one account leaves
    every other account's claim alone and moves nobody else's shares by more than `drift`.
    `driftSync` (zero except for a slash that reaches back to redelegations): x/staking unbonds the redelegated
    stake at the destination validators BEFORE it calls the slash hook, one unbonding per redelegation entry, each
    of which leaves < 1 token of truncation with the destination's remaining delegators; the shares the hook
    sees may exceed the pre-event shares by that much, so the credited amount may differ from the pending reward
    by (I − i)·driftSync. -/
def handleVEvent : Handler
  | [src, actor, I, s, i, r, _, cls, I', s', i', r', drift, driftSync] =>
    match int? I, ints? s, optInts? i, ints? r, int? drift, int? driftSync with
    | some I, some s, some i, some r, some drift, some driftSync =>
      let kd := kindOf src
      let n := s.length
      if cls != "ok" then
        -- a failed message / a panicking event is rolled back: nothing may change
        if s' == showInts s && r' == showInts r && I' == toString I && optInts? i' == some i then "ok"
        else predfail "C09_frame" s!"{kd}-failed-op-changed-state src={src}"
      else
      match int? I', ints? s', optInts? i', ints? r' with
      | some I', some s', some i', some r' =>
        let σ := mkSt I 0 0 s i r
        let who : Option Nat := nat? actor
        if I' != I then predfail "C09_frame" s!"{kd}-global-index-moved-outside-accumulation src={src}"
        else
        let bad := (range n).findSome? fun v =>
          let pend := pending σ v
          let rv := r.getD v 0
          let rv' := r'.getD v 0
          let ds := s'.getD v 0 - s.getD v 0
          let own := who == some v
          let changed := if own then ds != 0 else (ds > drift || ds < -drift)
          let tol := if driftSync > 0 then ((I - (σ.u v).i) * driftSync) / (P * P) + 1 else 0
          let synced := rv + pend - tol ≤ rv' && rv' ≤ rv + pend + tol && idxEq I (s'.getD v 0) (i'.getD v none)
          let untouched := rv' == rv && i'.getD v none == i.getD v none
          if rv' < rv then some ("C09_frame", s!"{kd}-accrued-reward-decreased src={src} account={v}")
          else if who.isSome && !own && !untouched then
            some ("C09_frame", s!"{kd}-message-changed-another-delegators-claim src={src} account={v} was={rv} is={rv'}")
          else if who.isSome && !own && changed then
            some ("C09_frame", s!"{kd}-message-changed-another-delegators-shares src={src} account={v} by={ds}")
          else if changed && !synced then
            some ("C09_frame_own", s!"{kd}-share-change-without-sync-of-pre-change-shares src={src} account={v} want={rv + pend} got={rv'} shares={s.getD v 0}->{s'.getD v 0}")
          else if !synced && !untouched then
            some ("C09_frame_own", s!"{kd}-reward-changed-by-other-than-pending-of-bonded-shares src={src} account={v} want={rv + pend} got={rv'} bonded-shares={s.getD v 0}")
          else none
        match bad with
        | some (thm, t) => predfail thm t
        | none =>
          -- model: the hook (a synchronisation with the pre-event shares) for every account that was credited
          if driftSync > 0 then "ok" else
          allOk ((range n).map fun v =>
            if r'.getD v 0 == r.getD v 0 && i'.getD v none == i.getD v none then "ok"
            else match sync σ v with
              | .ok σ' =>
                allOk [expectEq s!"r{v}" (toString (σ'.u v).r) (toString (r'.getD v 0)),
                       if idxEq (σ'.u v).i (s'.getD v 0) (i'.getD v none) then "ok"
                       else mismatch s!"i{v}" (toString (σ'.u v).i) (toString (i'.getD v none))]
              | res => mismatch "class" (clsOf res) cls)
      | _, _, _, _ => badInput "post"
    | _, _, _, _, _, _ => badInput "parse"
  | _ => badInput "arity"

def handleSecs : Handler
  | [d, _, secs] =>
    match int? d with
    | some d => expectEq "secs" (toString (goSeconds d)) secs
    | none => badInput "parse"
  | _ => badInput "arity"

/-- handlers of property C09: (command name, handler) -/
def handlers : List (String × Handler) := [
  ("c09.secs", handleSecs),
  ("c09.acc", handleAcc),
  ("c09.chain", handleChain),
  ("c09.reward", handleReward),
  ("c09.kacc", handleKAcc),
  ("c09.kchange", handleKChange),
  ("c09.kpend", handleKPend),
  ("c09.kclaim", handleKClaim),
  ("c09.sum", handleSum),
  ("c09.sumle", handleSumLe),
  ("c09.bound", handleBound),
  ("c09.integral", handleIntegral),
  ("c09.mchange", handleMChange),
  ("c09.mpend", handleMPend),
  ("c09.mclaim", handleMClaim),
  ("c09.vsum", handleVSum),
  ("c09.vevent", handleVEvent)
]
end Drv.C09
