import Driver.Util
namespace Drv.C09
/-- handlers of property C09: (command name, handler) -/
def handlers : List (String × Handler) := []
end Drv.C09
