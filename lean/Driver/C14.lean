import Driver.Util
namespace Drv.C14
/-- handlers of property C14: (command name, handler) -/
def handlers : List (String × Handler) := []
end Drv.C14
