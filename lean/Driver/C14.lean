import Driver.Util
import KavaVerif.Model.GenesisModels
import KavaVerif.Model.GenesisMore
/-!
  C14 driver.

  * `c14.step plan step status detail` — a step of the round trip on the real app (export, per-module
    ValidateGenesis, InitChain import, re-export, export twice, two imports): the predicate "the step
    succeeds" is evaluated (PREDFAIL C14_<step> …).
  * `c14.module plan module equal path a b` — original export vs re-export of one module, JSON-normalised.
  * `c14.store plan module prefix …` — raw KV stores of every Kava module, derived indexes included, original
    (check state after export) vs imported app, per first key byte (PREDFAIL C14_store_identical module=… prefix=…).
  * `c14.tx`, `c14.pos`, `c14.invariant` — the common follow-up blocks: same result codes, every balance and
    position equal up to one base unit, all registered invariants hold on the imported app.
  * `c14.section` — the incentive section field by field (exact) at import time; `c14.fsection`, `c14.macc`,
    `c14.supply` — after the follow-up blocks (which switch back on what governance had switched off before the
    export): every module's exported genesis field by field, module account balances and total supplies of the
    original vs the imported chain (PREDFAIL C14_followup_state_identical / C14_followup_module_balances /
    C14_followup_supply).  The plan field carries `@<parameter changes>:<mode>`.
  * `c14.pb`, `c14.savings`, `c14.swap`, `c14.bep3` — the exported (A) and re-exported (B) sections of the four
    modelled modules: the Lean `validate` must accept A (the real import accepted it), the Lean `init` followed
    by `export` must reproduce B (MISMATCH otherwise), and A = B is the property (PREDFAIL).
  * `c14.kavadist`, `c14.community`, `c14.issuance`, `c14.auction`, `c14.committee`, `c14.hard` (markets + accrual
    records), `c14.pricefeed` (A minus the posts expired at import time = B), `c14.cdp` — the same for the models of
    Model/GenesisMore.lean.
-/
namespace Drv.C14
open KV.Gx

/-- strip array indices from a JSON path so that findings have a stable tag -/
def stripIdx (s : String) : String :=
  let rec go (cs : List Char) (skip : Bool) (acc : List Char) : List Char :=
    match cs with
    | [] => acc.reverse
    | '[' :: r => go r true acc
    | ']' :: r => go r false acc
    | c :: r => if skip then go r skip acc else go r skip (c :: acc)
  String.ofList (go s.toList false [])

def handleStep : Handler
  | [plan, step, status, detail] =>
    if status == "ok" then "ok"
    else
      let name :=
        if step == "export" || step == "re-export" then "C14_export_succeeds"
        else if step.startsWith "validate" then "C14_validation_passes"
        else if step.startsWith "import" then "C14_import_succeeds"
        else if step.startsWith "export-twice" then "C14_export_read_only"
        else if step.startsWith "export-deterministic" then "C14_export_deterministic"
        else "C14_behaviour"
      predfail name s!"{step} plan={plan} {stripIdx detail}"
  | _ => badInput "c14.step arity"

def handleModule : Handler
  | [plan, m, equal, path, a, b] =>
    if equal == "1" then "ok"
    else predfail "C14_reexport_identical" s!"module={m} path={stripIdx path} plan={plan} original={a} imported={b}"
  | _ => badInput "c14.module arity"

/-- `c14.store plan module prefix equal kind n firstKey`: raw KV comparison (derived indexes included) of one
    (module store, first key byte) group between the original (check state after export) and the imported app -/
def handleStore : Handler
  | [plan, m, pfx, equal, kind, n, key] =>
    if equal == "1" then "ok"
    else predfail "C14_store_identical" s!"module={m} prefix={pfx} kind={kind} keys={n} first-key={key} plan={plan}"
  | _ => badInput "c14.store arity"

/-- `c14.section plan module field equal path a b gov`: one top-level field of a module's exported section,
    original export vs re-export of the imported app, compared exactly -/
def handleSection : Handler
  | [plan, m, f, equal, path, a, b, _gov] =>
    if equal == "1" then "ok"
    else predfail "C14_section_identical" s!"module={m} field={f} path={stripIdx path} plan={plan} original={a} imported={b}"
  | _ => badInput "c14.section arity"

/-- `c14.fsection plan module field equal path a b gov`: one top-level field of a module's section in the documents
    exported from the original and from the imported chain AFTER the common follow-up blocks (numeric leaves
    compared within the harness's tolerance): "the imported chain then behaves like the original" -/
def handleFSection : Handler
  | [plan, m, f, equal, path, a, b, _gov] =>
    if equal == "1" then "ok"
    else predfail "C14_followup_state_identical" s!"module={m} field={f} path={stripIdx path} plan={plan} original={a} imported={b}"
  | _ => badInput "c14.fsection arity"

/-- `c14.macc plan account/denom a b tol gov` and `c14.supply plan denom a b tol gov`: module account balances and
    total supplies of the two chains after the follow-up blocks, equal up to `tol` base units -/
def handleAmount (pred : String) : Handler
  | [plan, key, a, b, tol, _gov] =>
    match int? a, int? b, nat? tol with
    | some x, some y, some t =>
      if (x - y).natAbs ≤ t then "ok"
      else predfail pred s!"key={key} original={a} imported={b} tolerance={tol} plan={plan}"
    | _, _, _ => badInput "amount fields"
  | _ => badInput "c14.macc/c14.supply arity"

def handleTx : Handler
  | [plan, idx, kind, a, b] =>
    if a == b then "ok" else predfail "C14_behaviour" s!"tx-result kind={kind} original={a} imported={b} plan={plan} idx={idx}"
  | _ => badInput "c14.tx arity"

/-- decimal string (optionally with a fraction of up to 18 digits) → mantissa at 10^-18 -/
def mantissa? (s : String) : Option Int :=
  match s.splitOn "." with
  | [i] => (int? i).map (· * 1000000000000000000)
  | [i, f] =>
    if f.length > 18 then none else
    match int? i, nat? (f ++ String.ofList (List.replicate (18 - f.length) '0')) with
    | some iv, some fv => some (if s.startsWith "-" then iv * 1000000000000000000 - fv else iv * 1000000000000000000 + fv)
    | _, _ => none
  | _ => none

def handlePos : Handler
  | [plan, key, a, b] =>
    if a == b then "ok"
    else
      let cls := (key.splitOn "/").headD ""
      match mantissa? a, mantissa? b with
      | some x, some y =>
        if (x - y).natAbs ≤ 1000000000000000000 then "ok"
        else predfail "C14_behaviour" s!"position class={cls} key={key} original={a} imported={b} plan={plan}"
      | _, _ => predfail "C14_behaviour" s!"position class={cls} key={key} original={a} imported={b} plan={plan}"
  | _ => badInput "c14.pos arity"

def handleInvariant : Handler
  | [plan, wher, broken] =>
    if broken == "-" then "ok" else predfail "C14_invariants_hold" s!"{wher} {broken} plan={plan}"
  | _ => badInput "c14.invariant arity"

/-- "k:v,k:v" → list of pairs -/
def pairs? (s : String) (sep : String := ",") : Option (List (Nat × Int)) :=
  (strs s sep).mapM fun e =>
    match e.splitOn ":" with
    | [k, v] => match nat? k, int? v with | some k, some v => some (k, v) | _, _ => none
    | _ => none

def handlePB : Handler
  | [_plan, balA, remA, reserve, _, balB, remB] =>
    match pairs? balA, int? remA, int? reserve, pairs? balB, int? remB with
    | some ba, some ra, some rs, some bb, some rb =>
      let g : PBGenesis := ⟨ba, ra⟩
      if !pbValidate g then mismatch "pbValidate" "rejected" "accepted"
      else match pbInit g rs with
        | none => mismatch "pbInit" "rejected" "accepted"
        | some s' =>
          let e := pbExport s'
          if e.balances != bb || e.remainder != rb then mismatch "pb-reexport" (toString (repr e)) s!"{balB} {remB}"
          else if ba != bb || ra != rb then predfail "C14_reexport_identical" "module=precisebank model-tie"
          else "ok"
    | _, _, _, _, _ => badInput "c14.pb fields"
  | _ => badInput "c14.pb arity"

/-- "dep=denom:amt+denom:amt,…" -/
def deposits? (s : String) : Option (List (Nat × Coins)) :=
  (strs s).mapM fun e =>
    match e.splitOn "=" with
    | [k, cs] => match nat? k, pairs? cs "+" with | some k, some c => some (k, c) | _, _ => none
    | _ => none

def handleSavings : Handler
  | [_plan, a, _, b] =>
    match deposits? a, deposits? b with
    | some da, some db =>
      let g : SavGenesis := ⟨[], da⟩
      if !savValidate g then mismatch "savValidate" "rejected" "accepted"
      else match savInit g with
        | none => mismatch "savInit" "rejected" "accepted"
        | some s' =>
          if (savExport s').deposits != db then mismatch "savings-reexport" (toString (repr (savExport s').deposits)) b
          else if da != db then predfail "C14_reexport_identical" "module=savings model-tie"
          else "ok"
    | _, _ => badInput "c14.savings fields"
  | _ => badInput "c14.savings arity"

def pools? (s : String) : Option (List (Nat × Pool)) :=
  (strs s).mapM fun e =>
    match e.splitOn ":" with
    | [k, a, b, t] => match nat? k, int? a, int? b, int? t with
      | some k, some a, some b, some t => some (k, ⟨a, b, t⟩)
      | _, _, _, _ => none
    | _ => none

def shares? (s : String) : Option (List (Nat × (Nat × Int))) :=
  (strs s).mapM fun e =>
    match e.splitOn ":" with
    | [k, p, v] => match nat? k, nat? p, int? v with
      | some k, some p, some v => some (k, (p, v))
      | _, _, _ => none
    | _ => none

def handleSwap : Handler
  | [_plan, pa, sa, _, pb, sb] =>
    match pools? pa, shares? sa, pools? pb, shares? sb with
    | some pa', some sa', some pb', some sb' =>
      let g : SwapGenesis := ⟨pa', sa'⟩
      if !swapValidate g then mismatch "swapValidate" "rejected" "accepted"
      else match swapInit g with
        | none => mismatch "swapInit" "rejected" "accepted"
        | some s' =>
          let e := swapExport s'
          if e.pools != pb' || e.shares != sb' then mismatch "swap-reexport" (toString (repr e)) s!"{pb} {sb}"
          else if pa' != pb' || sa' != sb' then predfail "C14_reexport_identical" "module=swap model-tie"
          else "ok"
    | _, _, _, _ => badInput "c14.swap fields"
  | _ => badInput "c14.swap arity"

def swaps? (s : String) : Option (List (Nat × Swap)) :=
  (strs s).mapM fun e =>
    match e.splitOn ":" with
    | [k, inc, st, amt, eh, cb] =>
      match nat? k, nat? inc, nat? st, int? amt, nat? eh, nat? cb with
      | some k, some inc, some st, some amt, some eh, some cb =>
        let status := if st == 0 then some Status.open_ else if st == 1 then some Status.completed
                      else if st == 2 then some Status.expired else none
        status.map fun st' => (k, ⟨inc == 1, st', amt, eh, cb⟩)
      | _, _, _, _, _, _ => none
    | _ => none

def supply? (s : String) : Option Supply :=
  match s.splitOn ":" with
  | [i, o, c] => match int? i, int? o, int? c with
    | some i, some o, some c => some ⟨i, o, c⟩
    | _, _, _ => none
  | _ => none

def handleBep3 : Handler
  | [_plan, _denom, sa, supa, limit, _, sb, supb] =>
    match swaps? sa, supply? supa, int? limit, swaps? sb, supply? supb with
    | some sa', some supa', some lim, some sb', some supb' =>
      let g : Bep3Genesis := ⟨sa', supa', lim, 0⟩
      if !bep3Validate g then mismatch "bep3Validate" "rejected" "accepted"
      else match bep3Init g with
        | none => mismatch "bep3Init" "rejected" "accepted"
        | some s' =>
          let e := bep3Export s'
          if e.swaps != sb' || e.supply != supb' then mismatch "bep3-reexport" (toString (repr e.supply)) s!"{sb} {supb}"
          else if s'.byBlock != byBlockOf sb' || s'.longterm != longtermOf sb' then mismatch "bep3-indexes" "model" "derived"
          else if sa' != sb' || supa' != supb' then predfail "C14_reexport_identical" "module=bep3 model-tie"
          else "ok"
    | _, _, _, _, _ => badInput "c14.bep3 fields"
  | _ => badInput "c14.bep3 arity"

/-! ### ties of the further models (Model/GenesisMore.lean) -/

/-- time token of the harness: "zero" = Go's time.Time{}, "default" = time.Unix(1,0), otherwise Unix nanoseconds -/
def tick? (s : String) : Option Int :=
  if s == "zero" then some goZeroTime else if s == "default" then some kdDefaultPrev else int? s

def bool? (s : String) : Option Bool := if s == "1" then some true else if s == "0" then some false else none

def kdPeriods? (s : String) : Option (List KdPeriod) :=
  (strs s).mapM fun e =>
    match e.splitOn ":" with
    | [a, b, i] => match tick? a, tick? b, nat? i with
      | some a, some b, some i => some ⟨a, b, i⟩
      | _, _, _ => none
    | _ => none

def handleKavadist : Handler
  | [plan, aa, pa, pra, _, ab, pb, prb] =>
    match bool? aa, tick? pa, kdPeriods? pra, bool? ab, tick? pb, kdPeriods? prb with
    | some aa, some pa, some pra, some ab, some pb, some prb =>
      let g : KdGenesis := ⟨aa, pra, pa⟩
      let gB : KdGenesis := ⟨ab, prb, pb⟩
      if !kdValidate g then mismatch "kdValidate" "rejected" "accepted"
      else match kdInit g with
        | none => mismatch "kdInit" "rejected" "accepted"
        | some s' =>
          if kdExport s' != gB then mismatch "kavadist-reexport" (toString (repr (kdExport s'))) (toString (repr gB))
          else if g != gB then predfail "C14_reexport_identical" s!"module=kavadist model-tie plan={plan}"
          else "ok"
    | _, _, _, _, _, _ => badInput "c14.kavadist fields"
  | _ => badInput "c14.kavadist arity"

def cmState? (l : List String) : Option CmState :=
  match l with
  | [ut, r, ur, la, te] => match tick? ut, int? r, int? ur, tick? la, int? te with
    | some ut, some r, some ur, some la, some te => some ⟨⟨ut, r, ur⟩, la, te⟩
    | _, _, _, _, _ => none
  | _ => none

def handleCommunity : Handler
  | [plan, a1, a2, a3, a4, a5, _, b1, b2, b3, b4, b5] =>
    match cmState? [a1, a2, a3, a4, a5], cmState? [b1, b2, b3, b4, b5] with
    | some g, some gB =>
      -- x/community's InitGenesis runs no GenesisState.Validate; `kava validate-genesis` does (c14.step validate)
      match cmInit g with
      | none => mismatch "cmInit" "rejected" "accepted"
      | some s' =>
        if cmExport s' != gB then mismatch "community-reexport" (toString (repr (cmExport s'))) (toString (repr gB))
        else if !cmValidate g then predfail "C14_validation_passes" s!"module=community model-tie plan={plan}"
        else if g != gB then predfail "C14_reexport_identical" s!"module=community model-tie plan={plan}"
        else "ok"
    | _, _ => badInput "c14.community fields"
  | _ => badInput "c14.community arity"

def issAssets? (s : String) : Option (List IssAsset) :=
  (strs s).mapM fun e =>
    match e.splitOn ":" with
    | [d, p, r] => match nat? d, bool? p, bool? r with
      | some d, some p, some r => some ⟨d, p, r⟩
      | _, _, _ => none
    | _ => none

def issSupplies? (s : String) : Option (List (Nat × IssSupply)) :=
  (strs s).mapM fun e =>
    match e.splitOn ":" with
    | [d, c, t] => match nat? d, int? c, int? t with
      | some d, some c, some t => some (d, ⟨c, t⟩)
      | _, _, _ => none
    | _ => none

def handleIssuance : Handler
  | [plan, aa, sa, _, ab, sb] =>
    match issAssets? aa, issSupplies? sa, issAssets? ab, issSupplies? sb with
    | some aa, some sa, some ab, some sb =>
      let g : IssGenesis := ⟨aa, sa⟩
      let gB : IssGenesis := ⟨ab, sb⟩
      if !issValidate g then mismatch "issValidate" "rejected" "accepted"
      else match issInit g with
        | none => mismatch "issInit" "rejected" "accepted"
        | some s' =>
          if issExport s' != gB then mismatch "issuance-reexport" (toString (repr (issExport s'))) (toString (repr gB))
          else if g != gB then predfail "C14_reexport_identical" s!"module=issuance model-tie plan={plan}"
          else "ok"
    | _, _, _, _ => badInput "c14.issuance fields"
  | _ => badInput "c14.issuance arity"

def aucs? (s : String) : Option (List (Nat × Auc)) :=
  (strs s).mapM fun e =>
    match e.splitOn ":" with
    | [i, t, h] => match nat? i, tick? t, int? h with
      | some i, some t, some h => some (i, ⟨t, h⟩)
      | _, _, _ => none
    | _ => none

def handleAuction : Handler
  | [plan, na, sa, macc, _, nb, sb] =>
    match nat? na, aucs? sa, int? macc, nat? nb, aucs? sb with
    | some na, some sa, some macc, some nb, some sb =>
      let g : AucGenesis := ⟨na, sa⟩
      let gB : AucGenesis := ⟨nb, sb⟩
      if !aucValidate g then mismatch "aucValidate" "rejected" "accepted"
      else match aucInit g macc with
        | none => mismatch "aucInit" "rejected" "accepted"
        | some s' =>
          if aucExport s' != gB then mismatch "auction-reexport" "model" "impl"
          else if s'.byTime != byTimeOf sb then mismatch "auction-index" "model" "derived"
          else if g != gB then predfail "C14_reexport_identical" s!"module=auction model-tie plan={plan}"
          else "ok"
    | _, _, _, _, _ => badInput "c14.auction fields"
  | _ => badInput "c14.auction arity"

def natPairs? (s : String) : Option (List (Nat × Nat)) :=
  (strs s).mapM fun e =>
    match e.splitOn ":" with
    | [k, v] => match nat? k, nat? v with | some k, some v => some (k, v) | _, _ => none
    | _ => none

def natTriples? (s : String) : Option (List (Nat × (Nat × Nat))) :=
  (strs s).mapM fun e =>
    match e.splitOn ":" with
    | [k, a, b] => match nat? k, nat? a, nat? b with | some k, some a, some b => some (k, (a, b)) | _, _, _ => none
    | _ => none

def handleCommittee : Handler
  | [plan, na, ca, pa, va, _, nb, cb, pb, vb] =>
    match nat? na, natPairs? ca, natTriples? pa, natTriples? va, nat? nb, natPairs? cb, natTriples? pb, natTriples? vb with
    | some na, some ca, some pa, some va, some nb, some cb, some pb, some vb =>
      let g : CoGenesis := ⟨na, ca, pa, va⟩
      let gB : CoGenesis := ⟨nb, cb, pb, vb⟩
      if !coValidate g then mismatch "coValidate" "rejected" "accepted"
      else match coInit g with
        | none => mismatch "coInit" "rejected" "accepted"
        | some s' =>
          if coExport s' != gB then mismatch "committee-reexport" "model" "impl"
          else if g != gB then predfail "C14_reexport_identical" s!"module=committee model-tie plan={plan}"
          else "ok"
    | _, _, _, _, _, _, _, _ => badInput "c14.committee fields"
  | _ => badInput "c14.committee arity"

def nats? (s : String) : Option (List Nat) := (strs s).mapM nat?

def hardAccrual? (s : String) : Option (List (Nat × HardAccrual)) :=
  (strs s).mapM fun e =>
    match e.splitOn ":" with
    | [d, t, sf, bf] => match nat? d, tick? t, int? sf, int? bf with
      | some d, some t, some sf, some bf => some (d, ⟨t, sf, bf⟩)
      | _, _, _, _ => none
    | _ => none

/-- markets and accrual records only (deposits, borrows and totals are compared by c14.module / c14.store) -/
def handleHard : Handler
  | [plan, ma, aa, _, mb, ab] =>
    match nats? ma, hardAccrual? aa, nats? mb, hardAccrual? ab with
    | some ma, some aa, some mb, some ab =>
      let g : HardGenesis := ⟨ma, aa, [], [], [], [], []⟩
      if !hardValidate g then mismatch "hardValidate" "rejected" "accepted"
      else match hardInit g with
        | none => mismatch "hardInit" "rejected" "accepted"
        | some s' =>
          let e := hardExport s'
          if e.markets != mb || e.accrual != ab then mismatch "hard-reexport" (toString (repr e.accrual)) (toString (repr ab))
          else if s'.mmStore != mb then mismatch "hard-money-markets" "model" "derived"
          else if ma != mb || aa != ab then predfail "C14_reexport_identical" s!"module=hard model-tie plan={plan}"
          else "ok"
    | _, _, _, _ => badInput "c14.hard fields"
  | _ => badInput "c14.hard arity"

def pfMarkets? (s : String) : Option (List (Nat × Bool)) :=
  (strs s).mapM fun e =>
    match e.splitOn ":" with
    | [m, a] => match nat? m, bool? a with | some m, some a => some (m, a) | _, _ => none
    | _ => none

def pfPosts? (s : String) : Option (List (Nat × Post)) :=
  (strs s).mapM fun e =>
    match e.splitOn ":" with
    | [k, m, p, x] => match nat? k, nat? m, int? p, int? x with
      | some k, some m, some p, some x => some (k, ⟨m, p, x⟩)
      | _, _, _, _ => none
    | _ => none

/-- the model's import at `now` must reproduce the re-exported posts (MISMATCH otherwise); the property: the
    re-export is the export minus the posts expired at import time -/
def handlePricefeed : Handler
  | [plan, now, ma, pa, _, mb, pb] =>
    match int? now, pfMarkets? ma, pfPosts? pa, pfMarkets? mb, pfPosts? pb with
    | some now, some ma, some pa, some mb, some pb =>
      let s' := pfInit (fun _ => none) now ⟨ma, pa⟩
      let e := pfExport s'
      if e.markets != mb || e.posts != pb then
        -- the model kept or dropped a post the implementation did not
        (if ma != mb then predfail "C14_reexport_identical" s!"module=pricefeed markets model-tie plan={plan}"
         else mismatch "pricefeed-reexport" (toString e.posts.length) (toString pb.length))
      else if livePosts now pa != pb then predfail "C14_reexport_identical" s!"module=pricefeed model-tie plan={plan}"
      else "ok"
    | _, _, _, _, _ => badInput "c14.pricefeed fields"
  | _ => badInput "c14.pricefeed arity"

def cdpRecs? (s : String) : Option (List (Nat × CdpRec)) :=
  (strs s).mapM fun e =>
    match e.splitOn ":" with
    | [k, o, t, c, p, f] => match nat? k, nat? o, nat? t, int? c, int? p, int? f with
      | some k, some o, some t, some c, some p, some f => some (k, ⟨o, t, c, p, f⟩)
      | _, _, _, _, _, _ => none
    | _ => none

def natInts? (s : String) : Option (List (Nat × Int)) :=
  (strs s).mapM fun e =>
    match e.splitOn ":" with
    | [k, v] => match nat? k, int? v with | some k, some v => some (k, v) | _, _ => none
    | _ => none

def cdpAccum? (s : String) : Option (List (Nat × CdpAccum)) :=
  (strs s).mapM fun e =>
    match e.splitOn ":" with
    | [k, t, f] => match nat? k, tick? t, int? f with | some k, some t, some f => some (k, ⟨t, f⟩) | _, _, _ => none
    | _ => none

def cdpGenesis? (l : List String) : Option CdpGenesis :=
  match l with
  | [ts, n, cs, ds, ps, as] => match nats? ts, nat? n, cdpRecs? cs, natInts? ds, natInts? ps, cdpAccum? as with
    | some ts, some n, some cs, some ds, some ps, some as => some ⟨ts, n, cs, ds, ps, as⟩
    | _, _, _, _, _, _ => none
  | _ => none

def handleCdp : Handler
  | [plan, a1, a2, a3, a4, a5, a6, _, b1, b2, b3, b4, b5, b6] =>
    match cdpGenesis? [a1, a2, a3, a4, a5, a6], cdpGenesis? [b1, b2, b3, b4, b5, b6] with
    | some g, some gB =>
      if !cdpValidate g then mismatch "cdpValidate" "rejected" "accepted"
      else match cdpInit g with
        | none => mismatch "cdpInit" "rejected" "accepted"
        | some s' =>
          if cdpExport s' != gB then mismatch "cdp-reexport" "model" "impl"
          else if s'.ownerIndex != ownerIndexOf gB.cdps || s'.ratioIndex != ratioIndexOf gB.cdps then mismatch "cdp-indexes" "model" "derived"
          else if g != gB then predfail "C14_reexport_identical" s!"module=cdp model-tie plan={plan}"
          else "ok"
    | _, _ => badInput "c14.cdp fields"
  | _ => badInput "c14.cdp arity"

/-- handlers of property C14: (command name, handler) -/
def handlers : List (String × Handler) := [
  ("c14.step", handleStep), ("c14.module", handleModule), ("c14.store", handleStore), ("c14.tx", handleTx), ("c14.pos", handlePos),
  ("c14.invariant", handleInvariant), ("c14.section", handleSection), ("c14.fsection", handleFSection),
  ("c14.macc", handleAmount "C14_followup_module_balances"), ("c14.supply", handleAmount "C14_followup_supply"), ("c14.pb", handlePB), ("c14.savings", handleSavings),
  ("c14.swap", handleSwap), ("c14.bep3", handleBep3),
  ("c14.kavadist", handleKavadist), ("c14.community", handleCommunity), ("c14.issuance", handleIssuance),
  ("c14.auction", handleAuction), ("c14.committee", handleCommittee), ("c14.hard", handleHard),
  ("c14.pricefeed", handlePricefeed), ("c14.cdp", handleCdp)
]
end Drv.C14
