import Driver.Util
import KavaVerif.Model.GenesisModels
/-!
  C14 driver.

  * `c14.step plan step status detail` — a step of the round trip on the real app (export, per-module
    ValidateGenesis, InitChain import, re-export, export twice, two imports): the predicate "the step
    succeeds" is evaluated (PREDFAIL C14_<step> …).
  * `c14.module plan module equal path a b` — original export vs re-export of one module, JSON-normalised.
  * `c14.store plan module prefix …` — raw KV stores of every Kava module, derived indexes included, original
    (check state after export) vs imported app, per first key byte (PREDFAIL C14_store_identical module=… prefix=…).
  * `c14.tx`, `c14.pos`, `c14.invariant` — the common follow-up block: same result codes, every balance and
    position equal up to one base unit, all registered invariants hold on the imported app.
  * `c14.pb`, `c14.savings`, `c14.swap`, `c14.bep3` — the exported (A) and re-exported (B) sections of the four
    modelled modules: the Lean `validate` must accept A (the real import accepted it), the Lean `init` followed
    by `export` must reproduce B (MISMATCH otherwise), and A = B is the property (PREDFAIL).
-/
namespace Drv.C14
open KV.Gx

/-- strip array indices from a JSON path so that findings have a stable tag -/
def stripIdx (s : String) : String :=
  let rec go (cs : List Char) (skip : Bool) (acc : List Char) : List Char :=
    match cs with
    | [] => acc.reverse
    | '[' :: r => go r true acc
    | ']' :: r => go r false acc
    | c :: r => if skip then go r skip acc else go r skip (c :: acc)
  String.ofList (go s.toList false [])

def handleStep : Handler
  | [plan, step, status, detail] =>
    if status == "ok" then "ok"
    else
      let name :=
        if step == "export" || step == "re-export" then "C14_export_succeeds"
        else if step.startsWith "validate" then "C14_validation_passes"
        else if step.startsWith "import" then "C14_import_succeeds"
        else if step.startsWith "export-twice" then "C14_export_read_only"
        else if step.startsWith "export-deterministic" then "C14_export_deterministic"
        else "C14_behaviour"
      predfail name s!"{step} plan={plan} {stripIdx detail}"
  | _ => badInput "c14.step arity"

def handleModule : Handler
  | [plan, m, equal, path, a, b] =>
    if equal == "1" then "ok"
    else predfail "C14_reexport_identical" s!"module={m} path={stripIdx path} plan={plan} original={a} imported={b}"
  | _ => badInput "c14.module arity"

/-- `c14.store plan module prefix equal kind n firstKey`: raw KV comparison (derived indexes included) of one
    (module store, first key byte) group between the original (check state after export) and the imported app -/
def handleStore : Handler
  | [plan, m, pfx, equal, kind, n, key] =>
    if equal == "1" then "ok"
    else predfail "C14_store_identical" s!"module={m} prefix={pfx} kind={kind} keys={n} first-key={key} plan={plan}"
  | _ => badInput "c14.store arity"

def handleTx : Handler
  | [plan, idx, kind, a, b] =>
    if a == b then "ok" else predfail "C14_behaviour" s!"tx-result kind={kind} original={a} imported={b} plan={plan} idx={idx}"
  | _ => badInput "c14.tx arity"

/-- decimal string (optionally with a fraction of up to 18 digits) → mantissa at 10^-18 -/
def mantissa? (s : String) : Option Int :=
  match s.splitOn "." with
  | [i] => (int? i).map (· * 1000000000000000000)
  | [i, f] =>
    if f.length > 18 then none else
    match int? i, nat? (f ++ String.ofList (List.replicate (18 - f.length) '0')) with
    | some iv, some fv => some (if s.startsWith "-" then iv * 1000000000000000000 - fv else iv * 1000000000000000000 + fv)
    | _, _ => none
  | _ => none

def handlePos : Handler
  | [plan, key, a, b] =>
    if a == b then "ok"
    else
      let cls := (key.splitOn "/").headD ""
      match mantissa? a, mantissa? b with
      | some x, some y =>
        if (x - y).natAbs ≤ 1000000000000000000 then "ok"
        else predfail "C14_behaviour" s!"position class={cls} key={key} original={a} imported={b} plan={plan}"
      | _, _ => predfail "C14_behaviour" s!"position class={cls} key={key} original={a} imported={b} plan={plan}"
  | _ => badInput "c14.pos arity"

def handleInvariant : Handler
  | [plan, wher, broken] =>
    if broken == "-" then "ok" else predfail "C14_invariants_hold" s!"{wher} {broken} plan={plan}"
  | _ => badInput "c14.invariant arity"

/-- "k:v,k:v" → list of pairs -/
def pairs? (s : String) (sep : String := ",") : Option (List (Nat × Int)) :=
  (strs s sep).mapM fun e =>
    match e.splitOn ":" with
    | [k, v] => match nat? k, int? v with | some k, some v => some (k, v) | _, _ => none
    | _ => none

def handlePB : Handler
  | [_plan, balA, remA, reserve, _, balB, remB] =>
    match pairs? balA, int? remA, int? reserve, pairs? balB, int? remB with
    | some ba, some ra, some rs, some bb, some rb =>
      let g : PBGenesis := ⟨ba, ra⟩
      if !pbValidate g then mismatch "pbValidate" "rejected" "accepted"
      else match pbInit g rs with
        | none => mismatch "pbInit" "rejected" "accepted"
        | some s' =>
          let e := pbExport s'
          if e.balances != bb || e.remainder != rb then mismatch "pb-reexport" (toString (repr e)) s!"{balB} {remB}"
          else if ba != bb || ra != rb then predfail "C14_reexport_identical" "module=precisebank model-tie"
          else "ok"
    | _, _, _, _, _ => badInput "c14.pb fields"
  | _ => badInput "c14.pb arity"

/-- "dep=denom:amt+denom:amt,…" -/
def deposits? (s : String) : Option (List (Nat × Coins)) :=
  (strs s).mapM fun e =>
    match e.splitOn "=" with
    | [k, cs] => match nat? k, pairs? cs "+" with | some k, some c => some (k, c) | _, _ => none
    | _ => none

def handleSavings : Handler
  | [_plan, a, _, b] =>
    match deposits? a, deposits? b with
    | some da, some db =>
      let g : SavGenesis := ⟨[], da⟩
      if !savValidate g then mismatch "savValidate" "rejected" "accepted"
      else match savInit g with
        | none => mismatch "savInit" "rejected" "accepted"
        | some s' =>
          if (savExport s').deposits != db then mismatch "savings-reexport" (toString (repr (savExport s').deposits)) b
          else if da != db then predfail "C14_reexport_identical" "module=savings model-tie"
          else "ok"
    | _, _ => badInput "c14.savings fields"
  | _ => badInput "c14.savings arity"

def pools? (s : String) : Option (List (Nat × Pool)) :=
  (strs s).mapM fun e =>
    match e.splitOn ":" with
    | [k, a, b, t] => match nat? k, int? a, int? b, int? t with
      | some k, some a, some b, some t => some (k, ⟨a, b, t⟩)
      | _, _, _, _ => none
    | _ => none

def shares? (s : String) : Option (List (Nat × (Nat × Int))) :=
  (strs s).mapM fun e =>
    match e.splitOn ":" with
    | [k, p, v] => match nat? k, nat? p, int? v with
      | some k, some p, some v => some (k, (p, v))
      | _, _, _ => none
    | _ => none

def handleSwap : Handler
  | [_plan, pa, sa, _, pb, sb] =>
    match pools? pa, shares? sa, pools? pb, shares? sb with
    | some pa', some sa', some pb', some sb' =>
      let g : SwapGenesis := ⟨pa', sa'⟩
      if !swapValidate g then mismatch "swapValidate" "rejected" "accepted"
      else match swapInit g with
        | none => mismatch "swapInit" "rejected" "accepted"
        | some s' =>
          let e := swapExport s'
          if e.pools != pb' || e.shares != sb' then mismatch "swap-reexport" (toString (repr e)) s!"{pb} {sb}"
          else if pa' != pb' || sa' != sb' then predfail "C14_reexport_identical" "module=swap model-tie"
          else "ok"
    | _, _, _, _ => badInput "c14.swap fields"
  | _ => badInput "c14.swap arity"

def swaps? (s : String) : Option (List (Nat × Swap)) :=
  (strs s).mapM fun e =>
    match e.splitOn ":" with
    | [k, inc, st, amt, eh, cb] =>
      match nat? k, nat? inc, nat? st, int? amt, nat? eh, nat? cb with
      | some k, some inc, some st, some amt, some eh, some cb =>
        let status := if st == 0 then some Status.open_ else if st == 1 then some Status.completed
                      else if st == 2 then some Status.expired else none
        status.map fun st' => (k, ⟨inc == 1, st', amt, eh, cb⟩)
      | _, _, _, _, _, _ => none
    | _ => none

def supply? (s : String) : Option Supply :=
  match s.splitOn ":" with
  | [i, o, c] => match int? i, int? o, int? c with
    | some i, some o, some c => some ⟨i, o, c⟩
    | _, _, _ => none
  | _ => none

def handleBep3 : Handler
  | [_plan, _denom, sa, supa, limit, _, sb, supb] =>
    match swaps? sa, supply? supa, int? limit, swaps? sb, supply? supb with
    | some sa', some supa', some lim, some sb', some supb' =>
      let g : Bep3Genesis := ⟨sa', supa', lim, 0⟩
      if !bep3Validate g then mismatch "bep3Validate" "rejected" "accepted"
      else match bep3Init g with
        | none => mismatch "bep3Init" "rejected" "accepted"
        | some s' =>
          let e := bep3Export s'
          if e.swaps != sb' || e.supply != supb' then mismatch "bep3-reexport" (toString (repr e.supply)) s!"{sb} {supb}"
          else if s'.byBlock != byBlockOf sb' || s'.longterm != longtermOf sb' then mismatch "bep3-indexes" "model" "derived"
          else if sa' != sb' || supa' != supb' then predfail "C14_reexport_identical" "module=bep3 model-tie"
          else "ok"
    | _, _, _, _, _ => badInput "c14.bep3 fields"
  | _ => badInput "c14.bep3 arity"

/-- handlers of property C14: (command name, handler) -/
def handlers : List (String × Handler) := [
  ("c14.step", handleStep), ("c14.module", handleModule), ("c14.store", handleStore), ("c14.tx", handleTx), ("c14.pos", handlePos),
  ("c14.invariant", handleInvariant), ("c14.pb", handlePB), ("c14.savings", handleSavings),
  ("c14.swap", handleSwap), ("c14.bep3", handleBep3)
]
end Drv.C14
