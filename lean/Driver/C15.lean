import Driver.Util
namespace Drv.C15
/-- handlers of property C15: (command name, handler) -/
def handlers : List (String × Handler) := []
end Drv.C15
