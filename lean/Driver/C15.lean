import Driver.Util
import KavaVerif.Model.Ante
/-!
  C15 driver (ante gating).  One self-contained case per line; the forest, the option URLs and the signers are
  what the harness *observed* on the real (decoded) transaction.

  forest syntax (space separated tokens, "-" = no message):
      p=<url>   a message that is neither MsgGrant nor MsgExec, with its sdk.MsgTypeURL
      g=<url>   MsgGrant, with the MsgTypeURL() of its unpacked authorization
      G!        MsgGrant whose authorization cannot be unpacked
      ( … )     MsgExec around the inner forest
      X         MsgExec whose content cannot be unpacked

  c15.authz    list forest => ok|err|panic                 the real AuthzLimiterDecorator(list…) alone
  c15.vesting  forest => ok|err                            the real VestingAccountDecorator alone
  c15.mempool  isCheckTx isReCheckTx simulate signers authorised => ok|err
  c15.ante     mode auth authorised signers opts nonCritical forest => tag accepted code
               mode ∈ check|recheck|sim|deliver; tag = pass | the gate that refused | late:<codespace>:<code>
               (refused by a decorator outside the property) | prevalidate (refused by baseapp before the ante handler)

  Each handler (1) compares the model's verdict with the implementation's (MISMATCH) and (2) evaluates the
  property's own predicates on the implementation's observation, with the type URLs the prose names (PREDFAIL).
-/
namespace Drv.C15
open KV.Ante KV.Gen

/-- the message types the prose of C15 names -/
def specEth : String := "/ethermint.evm.v1.MsgEthereumTx"
def specVesting : List String :=
  ["/cosmos.vesting.v1beta1.MsgCreateVestingAccount", "/cosmos.vesting.v1beta1.MsgCreatePermanentLockedAccount",
   "/cosmos.vesting.v1beta1.MsgCreatePeriodicVestingAccount"]
def specBlocked : List String := specEth :: specVesting
def specEthOpt : String := "/ethermint.evm.v1.ExtensionOptionsEthereumTx"
def specWeb3Opt : String := "/ethermint.types.v1.ExtensionOptionsWeb3Tx"

/-- stack parser for the forest tokens: `cur` is the current level reversed, `stack` the enclosing levels -/
def parseToks : List String → List (List Msg) → List Msg → Option (List Msg)
  | [], [], cur => some cur.reverse
  | [], _ :: _, _ => none
  | t :: ts, stack, cur =>
    if t == "(" then parseToks ts (cur :: stack) []
    else if t == ")" then
      match stack with
      | parent :: rest => parseToks ts rest (Msg.exec cur.reverse :: parent)
      | [] => none
    else if t == "G!" then parseToks ts stack (Msg.grantBad :: cur)
    else if t == "X" then parseToks ts stack (Msg.execBad :: cur)
    else if t.startsWith "p=" then parseToks ts stack (Msg.plain (t.drop 2).toString :: cur)
    else if t.startsWith "g=" then parseToks ts stack (Msg.grant (t.drop 2).toString :: cur)
    else none

def forest? (s : String) : Option (List Msg) :=
  let t := s.trimAscii.toString
  if t == "-" || t == "" then some []
  else parseToks ((t.splitOn " ").filter (· != "")) [] []

def resStr : Res → String
  | .ok => "ok" | .err => "err" | .panic => "panic"

def verdictStr : Verdict → String
  | .pass => "pass"
  | .reject w => w

def mode? : String → Option Mode
  | "check" => some Mode.check
  | "recheck" => some Mode.recheck
  | "sim" => some Mode.sim
  | "deliver" => some Mode.deliver
  | _ => none

def hasTop (p : Msg → Bool) (ms : List Msg) : Bool := ms.any p

def isPlainOf (u : String) : Msg → Bool
  | .plain v => v == u
  | _ => false

/-- c15.authz -/
def handleAuthz : Handler
  | [list, forest, _, res] =>
    match forest? forest with
    | none => badInput "forest"
    | some ms =>
      let bl := strs list
      let m := authzLimiter bl ms
      let reach := reachList bl ms false
      let malf := malfList ms
      -- the property on the implementation's answer first: a failing input beats a mere disagreement
      if res == "ok" && reach then predfail "C15_closure" "reachable-blocked-accepted"
      else if res == "ok" && malf then predfail "C15_closure" "malformed-accepted"
      else if res != "ok" && !reach && !malf then predfail "C15_closure_converse" "over-blocked"
      else if res == "panic" && !malf then predfail "C15_closure_converse" "panic-on-wellformed"
      else if resStr m != res then mismatch "authz" (resStr m) res
      else "ok"
  | _ => badInput "arity"

/-- c15.vesting -/
def handleVesting : Handler
  | [forest, _, res] =>
    match forest? forest with
    | none => badInput "forest"
    | some ms =>
      let m := if vestingDec c15VestingDisabled ms then "ok" else "err"
      let top := hasTop (fun x => specVesting.contains x.url) ms
      if res == "ok" && top then predfail "C15_vesting_top_level" "accepted"
      else if res != "ok" && !top then predfail "C15_vesting_top_level" "over-blocked"
      else if m != res then mismatch "vesting" m res
      else "ok"
  | _ => badInput "arity"

/-- c15.mempool -/
def handleMempool : Handler
  | [isCheck, isRe, sim, signers, authorised, _, res] =>
    match bool? isCheck, bool? isRe, bool? sim, nats? signers, nats? authorised with
    | some ic, some ir, some sm, some sg, some au =>
      let md : Mode := ⟨ic, ir, sm⟩
      let m := if mempoolDec md sg au then "ok" else "err"
      let common := sg.any fun a => au.contains a
      if res == "ok" && ic && !sm && !common then predfail "C15_mempool" "unauthorised-admitted decorator"
      else if res != "ok" && (!ic || sm) then predfail "C15_mempool" "block-execution-affected decorator"
      else if res != "ok" && common then predfail "C15_mempool" "authorised-refused decorator"
      else if m != res then mismatch "mempool" m res
      else "ok"
    | _, _, _, _, _ => badInput "parse"
  | _ => badInput "arity"

/-- c15.ante -/
def handleAnte : Handler
  | [mode, auth, authorised, signers, opts, _nonCrit, forest, _, tag, accepted, _code] =>
    match mode? mode, bool? auth, nats? authorised, nats? signers, forest? forest, bool? accepted with
    | some md, some auth, some au, some sg, some ms, some acc =>
      let os := strs opts
      let cfg : Cfg := { mempoolAuth := auth, authorised := au }
      let tx : Tx := { msgs := ms, opts := os, signers := sg }
      let v := anteGate cfg md tx
      let late := tag.startsWith "late:"
      let ethRoute := os == [specEthOpt]
      -- (1) model vs implementation
      let cmp :=
        if tag == "prevalidate" then "ok"                     -- refused by baseapp before the ante handler
        else if acc != (tag == "pass") then badInput "accepted-flag"
        else if ethRoute then
          -- the Ethereum chain is modelled by its message-type test only; its other checks may refuse first
          if acc && !v.isPass then mismatch "ante" (verdictStr v) tag else "ok"
        else if v.isPass then
          if acc || late then "ok" else mismatch "ante" "pass" tag
        else
          if verdictStr v == tag then "ok" else mismatch "ante" (verdictStr v) tag
      -- (2) the property on the implementation's own observation (reported in preference to a disagreement)
      let reach := reachList specBlocked ms false
      let malf := malfList ms
      let topVest := hasTop (fun x => specVesting.contains x.url) ms
      let topEth := hasTop (isPlainOf specEth) ms
      let common := sg.any fun a => au.contains a
      let routeTag := if ethRoute then "eth-route" else "cosmos-route"
      let pred :=
      if acc then
        if reach then predfail "C15_closure" s!"wrapped-blocked-accepted {mode}"
        else if topVest then predfail "C15_vesting_top_level" s!"accepted {mode}"
        else if os.length > 1 then predfail "C15_routing" s!"several-options-accepted {mode}"
        else if os.length == 1 && !(os == [specEthOpt] || os == [specWeb3Opt]) then
          predfail "C15_routing" s!"unknown-option-accepted {mode}"
        else if topEth && !ethRoute then predfail "C15_routing" s!"eth-msg-outside-eth-path {mode}"
        else if ethRoute && !(ms.all (isPlainOf specEth)) then predfail "C15_routing" s!"non-eth-msg-on-eth-path {mode}"
        else if auth && md.isCheckTx && !md.simulate && !common then
          predfail "C15_mempool" s!"unauthorised-admitted {routeTag} {mode}"
        else "ok"
      else
        if tag == "mempool" && (!md.isCheckTx || md.simulate) then
          predfail "C15_mempool" s!"block-execution-affected {mode}"
        else if tag == "mempool" && (!auth || common) then predfail "C15_mempool" s!"authorised-refused {mode}"
        else if tag == "authz" && !reach && !malf then predfail "C15_closure_converse" s!"over-blocked {mode}"
        else if tag == "vesting" && !topVest then predfail "C15_vesting_top_level" s!"over-blocked {mode}"
        else if tag == "reject-msgs" && !topEth then predfail "C15_routing" s!"over-blocked {mode}"
        else "ok"
      if tag != "prevalidate" && acc != (tag == "pass") then cmp
      else if pred != "ok" then pred else cmp
    | _, _, _, _, _, _ => badInput "parse"
  | _ => badInput "arity"

/-- handlers of property C15: (command name, handler) -/
def handlers : List (String × Handler) :=
  [("c15.authz", handleAuthz), ("c15.vesting", handleVesting), ("c15.mempool", handleMempool), ("c15.ante", handleAnte)]
end Drv.C15
