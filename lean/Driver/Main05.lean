import Driver.Loop
import Driver.Num
import Driver.C05
/-- driver executable of property C05 -/
def main : IO UInt32 := Drv.runMain (Drv.Num.handlers ++ Drv.C05.handlers)
