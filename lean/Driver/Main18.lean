import Driver.Loop
import Driver.Num
import Driver.C18
/-- driver executable of property C18 -/
def main : IO UInt32 := Drv.runMain (Drv.Num.handlers ++ Drv.C18.handlers)
