import Driver.Util
namespace Drv.C12
/-- handlers of property C12: (command name, handler) -/
def handlers : List (String × Handler) := []
end Drv.C12
