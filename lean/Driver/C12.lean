import Driver.Util
import KavaVerif.Model.Liquid
import KavaVerif.Model.LiquidBurnGuard
/-!
  C12 driver.  Three self-contained case kinds (TAB separated, produced by harness/cmd/c12):

  c12.xfer  kind | pre: found tokens shares status minSelf jailed isOper delU delM redelU redelM ubdU ubdM nRedU
            balU earnU balM supply | denomOk amount aux | "=>" result | post: found tokens shares status jailed
            delU delM ubdU ubdM nRedU balU earnU balM supply
            kind ∈ mint burn mintdep delmintdep wburn wburnundel delegate undelegate redelout redelin
            (one validator's slice; U = the acting account, M = x/liquid's module account; "-" = no delegation)
            for kind burn, denomOk = "the coin's denom is the derivative denom of the validator the message names"
            (the slice is the one stored under the NAMED validator; balU is the signer's balance of ITS derivative)
  c12.inv   why | per validator  found:tokens:shares:delM:supply:zeroShareDelegations  joined by ";"
            (after every event AND after every successful operation: why = "op-<kind>")
  c12.cross class | denomOk | result | table before | table after   (tables as in c12.inv)
            a MsgBurnDerivative whose coin is not the named validator's derivative: all validators before / after
  c12.tally vals "tokens:shares:inTallySet:statusBonded;…" | votes "oper|opts|dels|wallet|savings|earn;…" | "=>" result yes abstain no veto totalBonded

  (1) the Lean model is run on the observed pre-state and compared with the observed post-state (MISMATCH);
  (2) the property predicates are evaluated on the implementation's own observation (PREDFAIL name tag).
-/
namespace Drv.C12
open KV KV.Liquid

def optDec? (s : String) : Option (Option Dec) :=
  let t := s.trimAscii.toString
  if t == "-" || t == "" then some none else (int? t).map (fun i => some ⟨i⟩)

def showOpt (o : Option Dec) : String := match o with | none => "-" | some d => toString d.m

def statusOf (n : Nat) : Status := if n == 2 then .bonded else if n == 1 then .unbonding else .unbonded
def statusNo (s : Status) : Nat := match s with | .bonded => 2 | .unbonding => 1 | .unbonded => 0

/-- addresses of the slice: 0 = module account, 1 = the acting user, 2 = the user's earn deposit -/
def aM : Nat := 0
def aU : Nat := 1
def aE : Nat := 2

structure Slice where
  found : Bool
  tokens : Int
  shares : Int
  status : Nat
  jailed : Bool
  delU : Option Dec
  delM : Option Dec
  ubdU : Int
  ubdM : Int
  nRed : Int
  balU : Int
  earnU : Int
  balM : Int
  supply : Int

def mkSt (p : Slice) (minSelf : Int) (isOper redelU redelM : Bool) : VSt :=
  { val := if p.found then some { tokens := p.tokens, shares := ⟨p.shares⟩, status := statusOf p.status, minSelf := minSelf,
                                   jailed := p.jailed, oper := if isOper then aU else 99 } else none,
    del := fun a => if a = aU then p.delU else if a = aM then p.delM else none,
    redel := fun a => if a = aU then redelU else if a = aM then redelM else false,
    ubd := fun a => if a = aU then p.ubdU else if a = aM then p.ubdM else 0,
    bal := fun a => if a = aU then p.balU else if a = aE then p.earnU else if a = aM then p.balM else 0,
    supply := p.supply }

def isRouter (kind : String) : Bool := kind == "mintdep" || kind == "delmintdep" || kind == "wburn" || kind == "wburnundel"

def cmpSt (kind : String) (c : VSt) (q : Slice) : String :=
  let vf := c.val.isSome
  let v := c.val.getD default
  allOk [
    expectEq "val.found" (showBool vf) (showBool q.found),
    if vf then expectEq "val.tokens" (toString v.tokens) (toString q.tokens) else "ok",
    if vf then expectEq "val.shares" (toString v.shares.m) (toString q.shares) else "ok",
    if vf then expectEq "val.status" (toString (statusNo v.status)) (toString q.status) else "ok",
    if vf then expectEq "val.jailed" (showBool v.jailed) (showBool q.jailed) else "ok",
    expectEq "delU" (showOpt (c.del aU)) (showOpt q.delU),
    expectEq "delM" (showOpt (c.del aM)) (showOpt q.delM),
    expectEq "ubdU" (toString (c.ubd aU)) (toString q.ubdU),
    expectEq "ubdM" (toString (c.ubd aM)) (toString q.ubdM),
    expectEq "balU" (toString (c.bal aU)) (toString q.balU),
    -- the value of an earn position is x/earn's share arithmetic (dust rule, orphaned units): C11's subject, not compared
    (if isRouter kind then "ok" else expectEq "earnU" (toString (c.bal aE)) (toString q.earnU)),
    expectEq "balM" (toString (c.bal aM)) (toString q.balM),
    expectEq "supply" (toString (c.supply)) (toString q.supply)]

/-- model result as (class, post state) -/
def runKind (kind : String) (c : VSt) (denomOk : Bool) (amount : Int) (aux : Bool) : String × VSt :=
  let fin {α : Type} (r : Res (VSt × α)) : String × VSt :=
    match r with | .ok (c', _) => ("ok", c') | .err => ("err", c) | .panic => ("panic", c)
  let fin0 (r : Res VSt) : String × VSt :=
    match r with | .ok c' => ("ok", c') | .err => ("err", c) | .panic => ("panic", c)
  match kind with
  | "mint" => fin (mint cfg aM c aU denomOk amount)
  | "burn" => fin (burnMsg cfg aM c aU denomOk amount)
  | "mintdep" => fin0 (mintDeposit cfg aM aE c aU denomOk amount)
  | "delmintdep" => fin0 (delegateMintDeposit cfg aM aE c aU denomOk amount)
  | "wburn" => fin (withdrawBurn cfg aM aE c aU denomOk amount aux)
  | "wburnundel" => fin0 (withdrawBurnUndelegate cfg aM aE c aU denomOk amount aux)
  | "delegate" => fin0 (stkDelegate c aU amount)
  | "undelegate" => fin0 (stkUndelegate c aU amount)
  | "redelout" => fin (stkRedelegateOut c aU amount)
  | "redelin" => fin0 (stkRedelegateIn c aU amount aux)
  | _ => ("bad", c)

def dm (o : Option Dec) : Int := match o with | some d => d.m | none => 0

/-- supply·10^18 − module shares (positive = the derivative is not backed) -/
def deficit (supply : Int) (delM : Option Dec) : Int := supply * P - dm delM

def isConversion (kind : String) : Bool := kind == "mint" || kind == "burn" || kind == "mintdep" || kind == "wburn"
def isMintLike (kind : String) : Bool := kind == "mint" || kind == "mintdep" || kind == "delmintdep"
def isBurnLike (kind : String) : Bool := kind == "burn" || kind == "wburn" || kind == "wburnundel"

/-- `isBelowMinSelfDelegation` evaluated on observed numbers -/
def belowMin (tokens shares minSelf : Int) (sh : Int) : Bool :=
  ({ tokens := tokens, shares := ⟨shares⟩, status := .bonded, minSelf := minSelf, jailed := false, oper := 0 } : Val).belowMinSelf ⟨sh⟩

/-- the property predicates on one observed slice transition -/
def xferPreds (kind : String) (p q : Slice) (minSelf : Int) (isOper redelU redelM : Bool) (denomOk : Bool) (amount : Int)
    (result : String) : String :=
  if result == "panic" then
    -- x/distribution's hook divides by the validator's shares: zero only next to a zero-share delegation (F6 + F7)
    predfail "C12_no_panic" (if p.found && p.shares == 0 then "distribution-hook-zero-shares" else kind)
  else if result == "err" then
    -- "so every holder can always redeem"
    if kind == "burn" && denomOk && amount > 0 && p.balU ≥ amount && p.found && !redelM && dm p.delM < amount * P then
      predfail "C12_redeemable" "module-delegation-short"
    else "ok"
  else
  let defPre := deficit p.supply p.delM
  let defPost := deficit q.supply q.delM
  -- guards
  -- "burning moves it back": only the derivative OF THE NAMED VALIDATOR redeems shares of the module's delegation to it
  if kind == "burn" && !denomOk then
    predfail "C12_guards" s!"burn-denom-validator-mismatch-accepted moduleShares={dm p.delM}->{dm q.delM} supplyOfNamed={p.supply}->{q.supply}"
  else if (isMintLike kind && kind != "delmintdep" && redelU) || (isBurnLike kind && redelM) then predfail "C12_guards" "incoming-redelegation-accepted"
  else if kind == "mint" && isOper && p.shares > 0 && belowMin p.tokens p.shares minSelf (dm q.delU) then
    predfail "C12_guards" "self-delegation-below-minimum-accepted"
  -- bonded tokens / status untouched by a conversion
  else if isConversion kind && !q.found then predfail "C12_bonded_tokens_unchanged" "validator-removed"
  else if isConversion kind && q.tokens != p.tokens then predfail "C12_bonded_tokens_unchanged" "tokens-changed"
  else if isConversion kind && (q.status != p.status || q.jailed != p.jailed) then predfail "C12_bonded_tokens_unchanged" "status-changed"
  -- no unbonding period
  else if isConversion kind && (q.ubdU != p.ubdU || q.ubdM != p.ubdM) then predfail "C12_no_unbonding_entry" "unbonding-delegation"
  else if isConversion kind && q.nRed != p.nRed then predfail "C12_no_unbonding_entry" "redelegation"
  -- the stake moves between the user and the module
  else if (kind == "mint" || kind == "mintdep") && !(dm q.delU < dm p.delU && dm q.delM ≥ dm p.delM) then predfail "C12_moves_stake" "mint-direction"
  else if kind == "mint" && q.supply - p.supply != (q.balU + q.earnU) - (p.balU + p.earnU) then predfail "C12_moves_stake" "minted-not-received"
  else if (kind == "burn" || kind == "wburn") && !(dm q.delM == dm p.delM - (p.supply - q.supply) * P && dm q.delU ≥ dm p.delU) then predfail "C12_moves_stake" "burn-direction"
  else if kind == "burn" && p.supply - q.supply != (p.balU + p.earnU) - (q.balU + q.earnU) then predfail "C12_moves_stake" "burnt-not-paid"
  -- no empty delegation (newly created by this operation)
  else if (q.delU == some ⟨0⟩ && p.delU != some ⟨0⟩) || (q.delM == some ⟨0⟩ && p.delM != some ⟨0⟩) then
    if (isBurnLike kind && dm q.delU == dm p.delU) || (isMintLike kind && dm q.delM == dm p.delM) then
      predfail "C12_no_empty_delegation" "transfer-worth-zero-tokens"
    else predfail "C12_no_empty_delegation" "other"
  else
  -- value of the user's stake (delegation + derivative, at the validator's rate) within two base units
  let valuePred : String :=
    if (kind == "mint" || kind == "burn") && p.shares > 0 && q.shares > 0 then
      let h := dm p.delU + (p.balU + p.earnU) * P
      let h' := dm q.delU + (q.balU + q.earnU) * P
      let lhs := h' * q.tokens * p.shares - h * p.tokens * q.shares
      let bound := 2 * p.shares * q.shares
      -- a validator whose tokens-per-share rate r exceeds one after the operation (reachable only when a slashed
      -- validator was emptied down to dust shares and refilled: the truncations leave tokens behind): the share
      -- lost to the floor on the minted amount is worth r, not one — what C12_value_within_two_units states.
      -- Such a case is tagged `rate-above-one` (known finding C12-rate-above-one) as long as it stays within
      -- 1 + r; beyond that it is reported like any other.
      let rateAboveOne := decide (q.tokens * P > q.shares)
      let bound1r := p.shares * q.shares + p.shares * q.tokens * P
      let dir := if lhs > bound then "gain" else "loss"
      let op := if isMintLike kind then "mint" else "burn"
      if lhs > bound || -lhs > bound then
        if rateAboveOne && lhs ≤ bound1r && -lhs ≤ bound1r then
          predfail "C12_value_within_two_units" s!"{dir}-{op} rate-above-one within-one-plus-rate tokens={q.tokens} shares={q.shares}"
        else if rateAboveOne then
          predfail "C12_value_within_two_units" s!"{dir}-{op} rate-above-one beyond-one-plus-rate tokens={q.tokens} shares={q.shares}"
        else predfail "C12_value_within_two_units" s!"{dir}-{op}"
      else "ok"
    else "ok"
  if valuePred != "ok" then valuePred
  -- backing (deficit created or increased by this operation)
  else if defPost > 0 && defPost > (if defPre > 0 then defPre else 0) then
    if isMintLike kind && p.tokens * P != p.shares then predfail "C12_backed" "mint-rate-not-one"
    else predfail "C12_backed" s!"new-deficit-{kind}"
  -- states that were already outside the invariant before this operation
  else if q.delU == some ⟨0⟩ || q.delM == some ⟨0⟩ then predfail "C12_no_empty_delegation" "persisting"
  else if defPost > 0 then predfail "C12_backed" "persisting"
  else "ok"

def handleXfer : Handler := fun l =>
  if l.length != 38 then badInput "arity" else
  let a := l.toArray
  let g (i : Nat) : String := a.getD i ""
  let kind := g 0
  let result := g 23
  let pre? : Option (Slice × Int × Bool × Bool × Bool) :=
    match bool? (g 1), int? (g 2), int? (g 3), nat? (g 4), int? (g 5), bool? (g 6), bool? (g 7), optDec? (g 8), optDec? (g 9) with
    | some found, some tokens, some shares, some status, some minSelf, some jailed, some isOper, some delU, some delM =>
      match bool? (g 10), bool? (g 11), int? (g 12), int? (g 13), int? (g 14), int? (g 15), int? (g 16), int? (g 17), int? (g 18) with
      | some redelU, some redelM, some ubdU, some ubdM, some nRedU, some balU, some earnU, some balM, some supply =>
        some (⟨found, tokens, shares, status, jailed, delU, delM, ubdU, ubdM, nRedU, balU, earnU, balM, supply⟩, minSelf, isOper, redelU, redelM)
      | _, _, _, _, _, _, _, _, _ => none
    | _, _, _, _, _, _, _, _, _ => none
  let post? : Option Slice :=
    match bool? (g 24), int? (g 25), int? (g 26), nat? (g 27), bool? (g 28), optDec? (g 29), optDec? (g 30) with
    | some found', some tokens', some shares', some status', some jailed', some delU', some delM' =>
      match int? (g 31), int? (g 32), int? (g 33), int? (g 34), int? (g 35), int? (g 36), int? (g 37) with
      | some ubdU', some ubdM', some nRedU', some balU', some earnU', some balM', some supply' =>
        some ⟨found', tokens', shares', status', jailed', delU', delM', ubdU', ubdM', nRedU', balU', earnU', balM', supply'⟩
      | _, _, _, _, _, _, _ => none
    | _, _, _, _, _, _, _ => none
  match pre?, post?, bool? (g 19), int? (g 20), bool? (g 21) with
  | some (p, minSelf, isOper, redelU, redelM), some q, some denomOk, some amount, some aux =>
    let c := mkSt p minSelf isOper redelU redelM
    let (cls, c') := runKind kind c denomOk amount aux
    -- the predicates only read the implementation's observation; a predicate failure is the sharper verdict and is
    -- reported even when the model disagrees with the implementation on this case
    let pred := xferPreds kind p q minSelf isOper redelU redelM denomOk amount result
    if cls == "bad" then badInput "kind"
    else if pred != "ok" then pred
    else if cls != result then mismatch "result" cls result
    else if result == "ok" then cmpSt kind c' q else "ok"
  | _, _, _, _, _ => badInput "parse"

/-- backing and empty-delegation predicates on all validators after an event that is not a conversion -/
def handleInv : Handler
  | [why, vals] =>
    let go (acc : String) (s : String) : String :=
      if acc != "ok" then acc else
      match s.splitOn ":" with
      | [_, tokens, shares, delM, supply, zero] =>
        match int? tokens, int? shares, optDec? delM, int? supply, int? zero with
        | some tokens, some shares, some delM, some supply, some zero =>
          if zero > 0 then predfail "C12_no_empty_delegation" "persisting"
          else if deficit supply delM > 0 then predfail "C12_backed" s!"persisting-after-{why}"
          else "ok"
        | _, _, _, _, _ => badInput "inv-parse"
      | _ => badInput "inv-arity"
    (strs vals ";").foldl go "ok"
  | _ => badInput "arity"

/-- supply·10^18 − module shares of every validator of a table (c12.inv format) -/
def deficits (tbl : String) : List Int :=
  (strs tbl ";").map fun r =>
    match r.splitOn ":" with
    | [_, _, _, delM, supply, _] =>
      match optDec? delM, int? supply with
      | some delM, some supply => deficit supply delM
      | _, _ => 0
    | _ => 0

/-- first validator whose derivative is unbacked after and was not (or less so) before -/
def newDeficit (before after : String) : Option Nat :=
  let rec go (i : Nat) : List Int → List Int → Option Nat
    | b :: bs, a :: as => if a > 0 && a > (if b > 0 then b else 0) then some i else go (i + 1) bs as
    | _, _ => none
  go 0 (deficits before) (deficits after)

/-- a MsgBurnDerivative whose coin is not the derivative of the validator it names: it must fail and change nothing,
    on every validator -/
def handleCross : Handler
  | [cls, denomOk, result, before, after] =>
    match bool? denomOk with
    | none => badInput "cross-parse"
    | some denomOk =>
      if denomOk then badInput "cross-denomOk"
      else if result == "panic" then predfail "C12_no_panic" s!"burn-{cls}"
      else if result == "ok" then
        let broke := match newDeficit before after with
          | some v => s!"backing-broken-validator={v}"
          | none => "backing-kept"
        predfail "C12_guards" s!"burn-denom-validator-mismatch-accepted class={cls} {broke}"
      else if result != "err" then badInput "cross-result"
      else if before.trimAscii.toString != after.trimAscii.toString then predfail "C12_guards" s!"refused-burn-changed-state class={cls}"
      else
        -- the model: `stepBurn` with a denom that is not `deriv v` (validator 0 named, coin of validator 1 / no derivative)
        let dn : CoinDenom := if cls == "not-derivative" || cls == "bare-denom" then .other else .deriv 1
        let empty : VSt := { val := none, del := fun _ => none, redel := fun _ => false, ubd := fun _ => 0, bal := fun _ => 0, supply := 0 }
        match stepBurn cfg aM (fun _ => empty) aU 0 dn 1 with
        | .err => "ok"
        | _ => mismatch "result" "accepted" result
  | _ => badInput "arity"

def pair? (s : String) : Option (Nat × Int) :=
  match s.splitOn ":" with
  | [a, b] => match nat? a, int? b with | some a, some b => some (a, b) | _, _ => none
  | _ => none

def pairs? (s : String) : Option (List (Nat × Int)) := (strs s).mapM pair?

/-- validator entry `tokens:shares:inTallySet:statusBonded` -/
def tval? (s : String) : Option (TVal × Bool) :=
  match s.splitOn ":" with
  | [t, sh, b, sb] => match int? t, int? sh, bool? b, bool? sb with
    | some t, some sh, some b, some sb => some ({ tokens := t, shares := ⟨sh⟩, bonded := b }, sb)
    | _, _, _, _ => none
  | _ => none

def tvote? (s : String) : Option TVote :=
  match s.splitOn "|" with
  | [oper, opts, dels, wallet, sav, earn] =>
    let op : Option (Option Nat) := if oper.trimAscii.toString == "-" then some none else (nat? oper).map some
    match op, pairs? opts, pairs? dels, pairs? wallet, pairs? sav, pairs? earn with
    | some op, some opts, some dels, some wallet, some sav, some earn =>
      some { oper := op, opts := opts.map (fun (o, w) => (o, (⟨w⟩ : Dec))), dels := dels.map (fun (v, sh) => (v, (⟨sh⟩ : Dec))),
             wallet := wallet, savings := sav, earn := earn }
    | _, _, _, _, _, _ => none
  | _ => none

def handleTally : Handler
  | [vals, votes, _, result, yes, abstain, no, veto, totalBonded] =>
    match (strs vals ";").mapM tval?, (strs votes ";").mapM tvote?, int? yes, int? abstain, int? no, int? veto, int? totalBonded with
    | some valsB, some votes, some yes, some abstain, some no, some veto, some totalBonded =>
      let vals := valsB.map (·.1)
      -- Σ tokens of the validators with status Bonded (the handler's set may be smaller: jailed in this block)
      let statusBondedTotal := valsB.foldl (fun acc (tv, sb) => if sb then acc + tv.tokens else acc) (0 : Int)
      let bkUnbonded := votes.any fun t => (addrBkava vals.length t).any fun (v, a) => a > 0 && !inMap vals v
      let counted := yes + abstain + no + veto
      -- (2) predicates on the implementation's own numbers first
      let pred : String :=
        if result == "panic" then predfail "C12_no_panic" "tally"
        else if counted > totalBonded then
          predfail "C12_tally_le_bonded" (if bkUnbonded then "derivative-of-unbonded-validator" else "other")
        else
          -- "only while its validator is bonded": the result must equal the tally in which such derivatives carry nothing
          match tally { cfg with tallySkipUnbonded := true } vals votes with
          | some f =>
            if f.yes != yes || f.abstain != abstain || f.no != no || f.veto != veto then
              if bkUnbonded then predfail "C12_tally_only_bonded" "derivative-of-unbonded-validator" else "ok"
            else "ok"
          | none => "ok"
      if pred != "ok" then pred else
      -- (1) model vs implementation
      match tally cfg vals votes with
      | none => mismatch "result" "panic" result
      | some o =>
        allOk [expectEq "yes" (toString o.yes) (toString yes), expectEq "abstain" (toString o.abstain) (toString abstain),
               expectEq "no" (toString o.no) (toString no), expectEq "veto" (toString o.veto) (toString veto),
               -- monitored assumption: TotalBondedTokens = Σ tokens of the validators with status Bonded
               expectEq "totalBonded" (toString statusBondedTotal) (toString totalBonded)]
    | _, _, _, _, _, _, _ => badInput "parse"
  | _ => badInput "arity"

def handlers : List (String × Handler) :=
  [("c12.xfer", handleXfer), ("c12.inv", handleInv), ("c12.cross", handleCross), ("c12.tally", handleTally)]
end Drv.C12
