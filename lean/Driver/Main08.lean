import Driver.Loop
import Driver.Num
import Driver.C08
/-- driver executable of property C08 -/
def main : IO UInt32 := Drv.runMain (Drv.Num.handlers ++ Drv.C08.handlers)
