import Driver.Loop
import Driver.Num
import Driver.C14
/-- driver executable of property C14 -/
def main : IO UInt32 := Drv.runMain (Drv.Num.handlers ++ Drv.C14.handlers)
