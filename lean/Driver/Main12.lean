import Driver.Loop
import Driver.Num
import Driver.C12
/-- driver executable of property C12 -/
def main : IO UInt32 := Drv.runMain (Drv.Num.handlers ++ Drv.C12.handlers)
