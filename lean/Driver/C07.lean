import Driver.Util
import KavaVerif.Model.Swap
/-!
  C07 driver.  Every case line is self-contained: the implementation's observed input / pre-state,
  the operation, `=>`, the implementation's result class and observed output / post-state.
  Each handler (1) runs the Lean model on the observed input and compares (MISMATCH) and
  (2) evaluates the property predicates on the implementation's own observation (PREDFAIL),
  independently of the model.

  Pure BasePool commands (types.BasePool is exported and driven directly):
    c07.new   A B                     => cls S
    c07.add   A B S da db             => cls why A' B' S' actA actB shares
    c07.rem   A B S sh                => cls why A' B' S' wA wB
    c07.swap  kind A B S amt fee      => cls why A' B' S' res feeValue     kind ∈ eab|eba|aeb|bea
    c07.rt    A B S da db             => cls actA actB shares wA wB         (deposit, then withdraw the new shares)
    c07.seq   A B S ops               => A' B'                              ops = kind:amt:fee:cls;…  (panicking swaps change nothing)
    c07.sym   op  x y s  x' y' s' r1 r2 r3 | flipped: same fields         (flip relation between two observations)
  cls ∈ ok | panic | ovf | err ; why = panic category reported by the harness.

  Keeper command (one per message executed on the real keeper):
    c07.k kind nA nD fee allowed pools shares bal who d1 x1 d2 x2 z => cls tag pools' shares' bal'
      kind ∈ dep | wd | sx | sfx ; z = slippage mantissa (dep,sx,sfx) or shares (wd)
      pools = 3 ints per pool id in the order (0,1),(0,2),…; shares = row per account; bal = row per
      account, last row = the swap module account.  fee / allowed = the parameters IN FORCE for this message
      (read by the harness from the x/params subspace right before it), which governance changes mid-history.
      A withdrawal is additionally checked to pay exactly the share value of the stored record
      (C07_withdraw_pays_share_value) and, when refused although the account owns the shares and the share
      value meets the message's minimums, reported as C07_withdraw_available — both whether or not the pool
      is still on the allowed list.
    c07.gov nA nD feeOld allowedOld feeNew allowedNew pools shares bal => pools' shares' bal'
      a governance parameter change while pools exist: parameters are not state, so nothing may move; custody
      (module balance = Σ reserves of ALL stored pools, listed or not), shares sums and record validity hold.
-/
namespace Drv.C07
open KV KV.SW

def two255 : Int := 2 ^ 255
def two314 : Int := 2 ^ 314
def big (x : Int) : Bool := x.natAbs ≥ two255.natAbs

def pool3 (a b s : Int) : Pool := ⟨a, b, s⟩

def showPool (p : Pool) : String := s!"{p.a},{p.b},{p.s}"

/-- ⌈x·f / P⌉ for x,f ≥ 0: the configured fee on an input of x -/
def feeMin (x f : Int) : Int := (x * f + P - 1) / P

/-- a predicate failure on the implementation's observation is the stronger verdict: report it
    even when the model also disagrees -/
def verdict (cmp pred : String) : String := if pred != "ok" then pred else cmp

/-! ### pure BasePool handlers -/

def hNew : Handler
  | [a, b, _, cls, s] =>
    match int? a, int? b with
    | some a, some b =>
      let m := newBasePool a b
      match m, cls with
      | none, "err" => "ok"
      | some p, "ok" =>
        match int? s with
        | some s =>
          verdict (expectEq "shares" (toString p.s) (toString s)) <|
          if s < 0 then predfail "C07_isqrt" "negative"
          else if s * s > a * b then predfail "C07_isqrt" "above-root"
          else if (s + 1) * (s + 1) ≤ a * b then predfail "C07_isqrt" "below-root"
          else "ok"
        | none => badInput "post"
      | some p, "ovf" => if big p.s || big a || big b then "ok" else mismatch "result" "ok" cls
      | none, _ => mismatch "result" "err" cls
      | some _, _ => mismatch "result" "ok" cls
    | _, _ => badInput "parse"
  | _ => badInput "arity"

def hAdd : Handler
  | [a, b, s, da, db, _, cls, why, a', b', s', actA, actB, sh] =>
    match int? a, int? b, int? s, int? da, int? db with
    | some a, some b, some s, some da, some db =>
      let m := addLiquidity (pool3 a b s) da db
      match cls with
      | "ok" =>
        match int? a', int? b', int? s', int? actA, int? actB, int? sh with
        | some a', some b', some s', some actA, some actB, some sh =>
          let cmp := match m with
            | none => mismatch "result" "panic" "ok"
            | some (p', xA, xB, xS) =>
              allOk [expectEq "pool" (showPool p') (showPool ⟨a', b', s'⟩),
                     expectEq "deposit" s!"{xA},{xB},{xS}" s!"{actA},{actB},{sh}"]
          -- predicates on the implementation's observation
          verdict cmp <|
          if a * s' > a' * s then predfail "C07_share_value_monotone" "deposit-dilutes-A"
          else if b * s' > b' * s then predfail "C07_share_value_monotone" "deposit-dilutes-B"
          else if actA > da || actB > db then predfail "C07_deposit_le_desired" "deposit-above-desired"
          else if actA < 0 || actB < 0 || sh < 0 then predfail "C07_deposit_le_desired" "negative"
          else if !(a == 0 && b == 0) && (a' != a + actA || b' != b + actB || s' != s + sh) then
            predfail "C07_deposit_accounting" "reserves-not-updated-by-deposit"
          else "ok"
        | _, _, _, _, _, _ => badInput "post"
      | "panic" =>
        verdict (match m with | none => "ok" | some _ => mismatch "result" "ok" s!"panic-{why}") <|
          -- the only panics the property tolerates are the documented input guards
          if da ≤ 0 || db ≤ 0 || ((a ≤ 0 || b ≤ 0) && !(a == 0 && b == 0)) then "ok"
          else predfail "C07_no_panic" s!"add-{why}"
      | "ovf" =>
        match m with
        | some (p', _, _, xS) => if big p'.a || big p'.b || big p'.s || big xS || big da || big db then "ok" else mismatch "result" "ok" "ovf"
        | none => if big da || big db then "ok" else mismatch "result" "panic" "ovf"
      | _ => badInput "cls"
    | _, _, _, _, _ => badInput "parse"
  | _ => badInput "arity"

def hRem : Handler
  | [a, b, s, sh, _, cls, why, a', b', s', wA, wB] =>
    match int? a, int? b, int? s, int? sh with
    | some a, some b, some s, some sh =>
      let m := removeLiquidity (pool3 a b s) sh
      match cls with
      | "ok" =>
        match int? a', int? b', int? s', int? wA, int? wB with
        | some a', some b', some s', some wA, some wB =>
          let cmp := match m with
            | none => mismatch "result" "panic" "ok"
            | some (p', xA, xB) =>
              allOk [expectEq "pool" (showPool p') (showPool ⟨a', b', s'⟩),
                     expectEq "withdraw" s!"{xA},{xB}" s!"{wA},{wB}"]
          verdict cmp <|
          if a * s' > a' * s then predfail "C07_share_value_monotone" "withdraw-dilutes-A"
          else if b * s' > b' * s then predfail "C07_share_value_monotone" "withdraw-dilutes-B"
          else if a' != a - wA || b' != b - wB || s' != s - sh then
            predfail "C07_withdraw_accounting" "reserves-not-updated-by-withdrawal"
          else if wA < 0 || wB < 0 || a' < 0 || b' < 0 then predfail "C07_withdraw_accounting" "negative"
          else if s' == 0 && (a' != 0 || b' != 0) then predfail "C07_withdraw_accounting" "reserves-left-without-shares"
          else "ok"
        | _, _, _, _, _ => badInput "post"
      | "panic" =>
        verdict (match m with | none => "ok" | some _ => mismatch "result" "ok" s!"panic-{why}") <|
          if sh ≤ 0 || sh > s then "ok" else predfail "C07_no_panic" s!"rem-{why}"
      | "ovf" => if big sh then "ok" else mismatch "result" "-" "ovf"
      | _ => badInput "cls"
    | _, _, _, _ => badInput "parse"
  | _ => badInput "arity"

def swapModel (kind : String) (p : Pool) (amt : Int) (fee : Dec) : Option (Pool × Int × Int) :=
  match kind with
  | "eab" => swapExactAForB p amt fee
  | "eba" => swapExactBForA p amt fee
  | "aeb" => swapAForExactB p amt fee
  | _ => swapBForExactA p amt fee

/-- is a swap panic justified by a documented input guard (or the degenerate empty pool)? -/
def swapGuard (kind : String) (a b amt f : Int) : Bool :=
  amt ≤ 0 || f < 0 || f ≥ P || a ≤ 0 || b ≤ 0 ||
  (kind == "aeb" && amt ≥ b) || (kind == "bea" && amt ≥ a)

/-- property predicates of one successful swap, on observed reserves.
    `inp` = what the trader paid (fee included), `out` = what the trader received,
    (rin, rout) = reserves of the paid / received token before, (rin', rout') after. -/
def swapPreds (rin rout rin' rout' inp out f : Int) (feeObs : Option Int) : String :=
  if rin' * rout' < rin * rout then predfail "C07_product_nondecreasing" "product-decreased"
  else if rin' != rin + inp then predfail "C07_fee_kept" "input-not-added-to-reserves"
  else if rout' != rout - out then predfail "C07_swap_accounting" "output-not-taken-from-reserves"
  else if rout' ≤ 0 then predfail "C07_swap_accounting" "reserve-emptied"
  else if (rin' - feeMin inp f) * rout' < rin * rout then predfail "C07_fee_kept" "product-decreased-after-fee"
  else match feeObs with
    | some fv =>
      if fv * P < inp * f then predfail "C07_fee_kept" "fee-below-rate"
      else if fv < 0 || fv > inp then predfail "C07_fee_kept" "fee-out-of-range"
      else if (rin' - fv) * rout' < rin * rout then predfail "C07_product_nondecreasing" "product-decreased-after-fee"
      else "ok"
    | none => "ok"

def hSwap : Handler
  | [kind, a, b, s, amt, fee, _, cls, why, a', b', s', res, fv] =>
    match int? a, int? b, int? s, int? amt, int? fee with
    | some a, some b, some s, some amt, some f =>
      let m := swapModel kind (pool3 a b s) amt ⟨f⟩
      match cls with
      | "ok" =>
        match int? a', int? b', int? s', int? res, int? fv with
        | some a', some b', some s', some res, some fv =>
          let cmp := match m with
            | none => mismatch "result" "panic" "ok"
            | some (p', r, v) =>
              allOk [expectEq "pool" (showPool p') (showPool ⟨a', b', s'⟩),
                     expectEq "result" s!"{r},{v}" s!"{res},{fv}"]
          verdict cmp <|
          if s' != s then predfail "C07_swap_accounting" "shares-changed"
          -- the degenerate all-zero BasePool (every share removed) is outside the property's domain:
          -- the keeper deletes the record instead of keeping an empty pool
          else if a ≤ 0 || b ≤ 0 then "ok"
          else
            let exactIn := kind == "eab" || kind == "eba"
            let inp := if exactIn then amt else res
            let out := if exactIn then res else amt
            if kind == "eab" || kind == "aeb" then swapPreds a b a' b' inp out f (some fv)
            else swapPreds b a b' a' inp out f (some fv)
        | _, _, _, _, _ => badInput "post"
      | "panic" =>
        verdict (match m with | none => "ok" | some _ => mismatch "result" "ok" s!"panic-{why}") <|
          if swapGuard kind a b amt f then "ok"
          else if why == "invariant" then predfail "C07_product_nondecreasing" "invariant-assertion-fired"
          else predfail "C07_no_panic" s!"swap-{why}"
      | "ovf" =>
        -- 256-bit / 315-bit overflow panics of sdkmath are outside the model
        let g := P - f
        let decBig : Bool := if kind == "eab" || kind == "eba" then decide ((amt * g).natAbs ≥ two314.natAbs)
                      else match m with
                        | some (_, r, _) => decide ((r * P).natAbs ≥ two314.natAbs)
                        | none => false
        match m with
        | some (p', r, _) => if big p'.a || big p'.b || big r || big amt || decBig then "ok" else mismatch "result" "ok" "ovf"
        | none => if decBig || big amt then "ok" else mismatch "result" "panic" "ovf"
      | _ => badInput "cls"
    | _, _, _, _, _ => badInput "parse"
  | _ => badInput "arity"

def hRt : Handler
  | [a, b, s, da, db, _, cls, actA, actB, sh, wA, wB] =>
    match int? a, int? b, int? s, int? da, int? db with
    | some a, some b, some s, some da, some db =>
      if cls != "ok" then "ok" else
      match int? actA, int? actB, int? sh, int? wA, int? wB with
      | some actA, some actB, some sh, some wA, some wB =>
        let m := match addLiquidity (pool3 a b s) da db with
          | none => none
          | some (p1, xA, xB, xS) =>
            match removeLiquidity p1 xS with
            | none => none
            | some (_, yA, yB) => some (xA, xB, xS, yA, yB)
        let cmp := match m with
          | none => mismatch "result" "panic" "ok"
          | some (xA, xB, xS, yA, yB) => expectEq "roundtrip" s!"{xA},{xB},{xS},{yA},{yB}" s!"{actA},{actB},{sh},{wA},{wB}"
        verdict cmp <|
        if wA > actA then predfail "C07_deposit_withdraw_no_profit" "more-A-returned"
        else if wB > actB then predfail "C07_deposit_withdraw_no_profit" "more-B-returned"
        else "ok"
      | _, _, _, _, _ => badInput "post"
    | _, _, _, _, _ => badInput "parse"
  | _ => badInput "arity"

/-- ops = kind:amt:fee:cls;…  cls = o (ok) | p (panic) | v (sdkmath overflow panic, outside the model) -/
def parseOps (s : String) : Option (List (Dec × SwapOp × String)) :=
  (strs s ";").mapM fun t =>
    match t.splitOn ":" with
    | [k, amt, fee, cls] =>
      match int? amt, int? fee with
      | some amt, some fee =>
        let op := match k with
          | "eab" => SwapOp.exactAForB amt
          | "eba" => SwapOp.exactBForA amt
          | "aeb" => SwapOp.aForExactB amt
          | _ => SwapOp.bForExactA amt
        some (⟨fee⟩, op, cls)
      | _, _ => none
    | _ => none

/-- run the model over the observed sequence, checking the result class of every swap;
    `runSwaps` (the function the theorem is about) is run on the non-overflowing swaps -/
def seqClasses (p : Pool) : List (Dec × SwapOp × String) → Option String
  | [] => none
  | (fee, op, cls) :: rest =>
    if cls == "v" then seqClasses p rest
    else match applySwap p fee op with
      | none => if cls == "p" then seqClasses p rest else some (mismatch "swap-result" "panic" cls)
      | some (p', _, _) => if cls == "o" then seqClasses p' rest else some (mismatch "swap-result" "ok" cls)

def hSeq : Handler
  | [a, b, s, ops, _, a', b'] =>
    match int? a, int? b, int? s, parseOps ops, int? a', int? b' with
    | some a, some b, some s, some ops, some a', some b' =>
      let cmp := match seqClasses (pool3 a b s) ops with
        | some m => m
        | none =>
          let p' := runSwaps (pool3 a b s) ((ops.filter (fun o => o.2.2 != "v")).map fun o => (o.1, o.2.1))
          if p'.a != a' || p'.b != b' then mismatch "reserves" s!"{p'.a},{p'.b}" s!"{a'},{b'}" else "ok"
      verdict cmp <|
      -- the trader holds (a - a') more A and (b - b') more B than before
      if a' < a && b' ≤ b then predfail "C07_no_free_token" "A-gained-without-paying-B"
      else if b' < b && a' ≤ a then predfail "C07_no_free_token" "B-gained-without-paying-A"
      else if a' * b' < a * b then predfail "C07_product_nondecreasing" "product-decreased-over-sequence"
      else "ok"
    | _, _, _, _, _, _ => badInput "parse"
  | _ => badInput "arity"

/-- two observations of the same operation, the second made with the token names exchanged:
    fields `op cls x' y' s' r1 r2 r3 | cls x' y' s' r1 r2 r3`; `op` says which results are per-token
    (add, rem: r1/r2 are the A/B amounts and exchange; swap: r1,r2 are direction-relative and stay). -/
def hSym : Handler
  | [op, c1, x1, y1, s1, p1, q1, r1, _, c2, x2, y2, s2, p2, q2, r2] =>
    if c1 != c2 then predfail "C07_symmetric" s!"{op}-result-class-differs"
    else if c1 != "ok" then "ok"
    else if x1 != y2 || y1 != x2 || s1 != s2 then predfail "C07_symmetric" s!"{op}-pool-differs"
    else if op == "swap" then
      (if p1 != p2 || q1 != q2 then predfail "C07_symmetric" "swap-output-differs" else "ok")
    else if p1 != q2 || q1 != p2 || r1 != r2 then predfail "C07_symmetric" s!"{op}-amounts-differ"
    else "ok"
  | _ => badInput "arity"

/-! ### keeper handler -/

def pairs (nD : Nat) : List PoolId :=
  (List.range nD).flatMap fun i => ((List.range nD).filter (fun j => i < j)).map fun j => (⟨i, j⟩ : PoolId)

def pidIdx (nD : Nat) (p : PoolId) : Nat := ((pairs nD).findIdx? (· == p)).getD (pairs nD).length

structure KObs where
  pools : List Int
  shares : List Int
  bal : List Int

def poolAt (o : KObs) (i : Nat) : Pool := ⟨o.pools.getD (3 * i) 0, o.pools.getD (3 * i + 1) 0, o.pools.getD (3 * i + 2) 0⟩

def stOf (nD nP : Nat) (o : KObs) : KSt :=
  { pool := fun pid =>
      let i := pidIdx nD pid
      let p := poolAt o i
      if i < nP && p.s != 0 then some p else none,
    sh := fun a pid => o.shares.getD (a * nP + pidIdx nD pid) 0,
    bal := fun a d => if d < nD then o.bal.getD (a * nD + d) 0 else 0 }

def obsOf (nA nD : Nat) (s : KSt) : KObs :=
  let ps := pairs nD
  { pools := ps.flatMap fun pid => match s.pool pid with | none => [0, 0, 0] | some p => [p.a, p.b, p.s],
    shares := (List.range nA).flatMap fun a => ps.map fun pid => s.sh a pid,
    bal := (List.range (nA + 1)).flatMap fun a => (List.range nD).map fun d => s.bal a d }

/-- custody, shares-sum and record validity on an observed state -/
def invPred (nA nD : Nat) (o : KObs) : Option (String × String) :=
  let ps := pairs nD
  let nP := ps.length
  let resv (d : Nat) : Int := (List.range nP).foldl (fun acc i =>
    let pid := ps.getD i ⟨0, 0⟩
    let p := poolAt o i
    acc + (if pid.lo = d then p.a else 0) + (if pid.hi = d then p.b else 0)) 0
  let sumSh (i : Nat) : Int := (List.range nA).foldl (fun acc a => acc + o.shares.getD (a * nP + i) 0) 0
  if (List.range nD).any (fun d => o.bal.getD (nA * nD + d) 0 != resv d) then some ("C07_custody", "module-balance-differs-from-reserves")
  else if (List.range nP).any (fun i => (poolAt o i).s != sumSh i) then some ("C07_shares_sum", "pool-shares-differ-from-depositor-shares")
  else if (List.range nP).any (fun i => let p := poolAt o i; !(p == ⟨0, 0, 0⟩) && (p.a ≤ 0 || p.b ≤ 0 || p.s ≤ 0)) then
    some ("C07_records_valid", "non-positive-pool-record")
  else if o.shares.any (· < 0) then some ("C07_records_valid", "negative-share-record")
  else if o.bal.any (· < 0) then some ("C07_records_valid", "negative-balance")
  else none

/-- entries of `post` that differ from `pre`, as indices -/
def diffIdx (pre post : List Int) : List Nat :=
  (List.range (max pre.length post.length)).filter fun i => pre.getD i 0 != post.getD i 0

def subset (xs ys : List Nat) : Bool := xs.all ys.contains

def hK : Handler
  | [kind, nA, nD, fee, allowed, pools, shares, bal, who, d1, x1, d2, x2, z, _, cls, _tag, pools', shares', bal'] =>
    match nat? nA, nat? nD, int? fee, ints? allowed, ints? pools, ints? shares, ints? bal,
          nat? who, nat? d1, int? x1, nat? d2, int? x2, int? z with
    | some nA, some nD, some fee, some allowed, some pools, some shares, some bal,
      some who, some d1, some x1, some d2, some x2, some z =>
      let ps := pairs nD
      let nP := ps.length
      let pre : KObs := ⟨pools, shares, bal⟩
      let s := stOf nD nP pre
      let M := nA
      let prm : Params := ⟨⟨fee⟩, fun pid => allowed.getD (pidIdx nD pid) 0 == 1⟩
      let res := match kind with
        | "dep" => deposit M prm s who d1 x1 d2 x2 ⟨z⟩
        | "wd" => withdraw M s who z d1 x1 d2 x2
        | "sx" => swapExactForTokens M prm s who d1 x1 d2 x2 ⟨z⟩
        | _ => swapForExactTokens M prm s who d1 x1 d2 x2 ⟨z⟩
      let modelCls := match res with | .ok _ => "ok" | .err => "err" | .panic => "panic"
      if cls == "panic" then predfail "C07_no_panic" s!"keeper-{kind}"
      else if cls != "ok" then
        -- a refused withdrawal: C07_withdraw_available on the observed pre-state (the account owns the shares,
        -- the pool record exists, the share value meets the positive minimums ⇒ it must not be refused —
        -- no parameter, in particular not the allowed-pools list, may stand in the way of an exit)
        let avail :=
          if kind != "wd" || d1 == d2 then "ok" else
          let pid := poolId d1 d2
          let i := pidIdx nD pid
          let p := poolAt pre i
          let own := shares.getD (who * nP + i) 0
          if !(i < nP) || p.s ≤ 0 || p.a ≤ 0 || p.b ≤ 0 || z ≤ 0 || z > own || x1 ≤ 0 || x2 ≤ 0 then "ok" else
          let v1 := (if d1 = pid.lo then p.a else p.b) * z / p.s
          let v2 := (if d2 = pid.lo then p.a else p.b) * z / p.s
          if v1 < x1 || v2 < x2 then "ok"
          else predfail "C07_withdraw_available"
            (if allowed.getD i 0 == 1 then "refused-withdrawal-that-meets-its-minimums"
             else "refused-withdrawal-from-delisted-pool")
        verdict (expectEq "result" modelCls cls) avail
      else
      match ints? pools', ints? shares', ints? bal' with
      | some pools', some shares', some bal' =>
        let post : KObs := ⟨pools', shares', bal'⟩
        -- (1) model vs implementation
        let cmp := match res with
          | .ok s' =>
            let mo := obsOf nA nD s'
            allOk [expectEq "pools" (showInts mo.pools) (showInts pools'),
                   expectEq "shares" (showInts mo.shares) (showInts shares'),
                   expectEq "bal" (showInts mo.bal) (showInts bal')]
          | _ => mismatch "result" modelCls cls
        -- (2) predicates on the implementation's own observation
        verdict cmp <|
        match invPred nA nD post with
        | some (n, why) => predfail n why
        | none =>
          let pid := poolId d1 d2
          let i := pidIdx nD pid
          let p := poolAt pre i
          let p' := poolAt post i
          let ub (o : KObs) (d : Nat) : Int := o.bal.getD (who * nD + d) 0
          -- frame: only this pool, this account's share in it, and the (who, module) balances in the two denoms change
          let okPools := [3 * i, 3 * i + 1, 3 * i + 2]
          let okBal := [who * nD + d1, who * nD + d2, M * nD + d1, M * nD + d2]
          if !subset (diffIdx pools pools') okPools then predfail "C07_frame" "other-pool-changed"
          else if !subset (diffIdx shares shares') [who * nP + i] then predfail "C07_frame" "other-share-record-changed"
          else if !subset (diffIdx bal bal') okBal then predfail "C07_frame" "other-balance-changed"
          else
          let sh := shares.getD (who * nP + i) 0
          let sh' := shares'.getD (who * nP + i) 0
          match kind with
          | "dep" =>
            let depA := ub pre d1 - ub post d1
            let depB := ub pre d2 - ub post d2
            if depA ≤ 0 || depB ≤ 0 then predfail "C07_deposit_accounting" "nothing-deposited"
            else if depA > x1 || depB > x2 then predfail "C07_deposit_le_desired" "deposit-above-desired"
            else if sh' ≤ sh then predfail "C07_deposit_accounting" "no-shares-issued"
            else if p'.s - p.s != sh' - sh then predfail "C07_shares_sum" "issued-shares-differ"
            else if p.a * p'.s > p'.a * p.s || p.b * p'.s > p'.b * p.s then predfail "C07_share_value_monotone" "deposit-dilutes"
            else
              let mx := Dec.max (Dec.quo (Dec.ofInt x1) (Dec.ofInt depA)) (Dec.quo (Dec.ofInt x2) (Dec.ofInt depB))
              if (Dec.sub mx Dec.one).m > z then predfail "C07_slippage_enforced" "deposit-price-change-above-limit"
              else "ok"
          | "wd" =>
            let wA := ub post d1 - ub pre d1
            let wB := ub post d2 - ub pre d2
            let vA := (if d1 = pid.lo then p.a else p.b) * z / p.s
            let vB := (if d2 = pid.lo then p.a else p.b) * z / p.s
            let (rA, rB, rA', rB') := if d1 = pid.lo then (p.a, p.b, p'.a, p'.b) else (p.b, p.a, p'.b, p'.a)
            let listed := allowed.getD i 0 == 1
            if wA < x1 || wB < x2 then predfail "C07_slippage_enforced" "withdrawal-below-minimum"
            else if p.s ≤ 0 then predfail "C07_withdraw_pays_share_value" "withdrawal-without-pool-record"
            else if wA != vA || wB != vB then
              predfail "C07_withdraw_pays_share_value"
                (if listed then "paid-differs-from-share-value" else "delisted-pool-paid-differs-from-share-value")
            else if rA - rA' != vA || rB - rB' != vB then
              predfail "C07_withdraw_pays_share_value"
                (if listed then "reserves-reduced-by-other-than-share-value" else "delisted-pool-reserves-reduced-by-other-than-share-value")
            else if sh - sh' != z then predfail "C07_shares_sum" "burned-shares-differ"
            else if p.s - p'.s != z then predfail "C07_shares_sum" "burned-shares-differ"
            else if p.a * p'.s > p'.a * p.s || p.b * p'.s > p'.b * p.s then predfail "C07_share_value_monotone" "withdraw-dilutes"
            else "ok"
          | _ =>
            let inp := ub pre d1 - ub post d1
            let out := ub post d2 - ub pre d2
            let (rin, rout, rin', rout') := if d1 = pid.lo then (p.a, p.b, p'.a, p'.b) else (p.b, p.a, p'.b, p'.a)
            if p'.s != p.s then predfail "C07_swap_accounting" "shares-changed"
            else if inp ≤ 0 || out ≤ 0 then predfail "C07_swap_accounting" "non-positive-trade"
            else
            let r := swapPreds rin rout rin' rout' inp out fee none
            if r != "ok" then r
            else if kind == "sx" then
              if inp != x1 then predfail "C07_swap_accounting" "exact-input-not-charged"
              else if !slippageOk (Dec.quo (Dec.ofInt out) (Dec.ofInt x2)) ⟨z⟩ then
                predfail "C07_slippage_enforced" "output-below-limit"
              else "ok"
            else
              if out != x2 then predfail "C07_swap_accounting" "exact-output-not-paid"
              else
                -- the input needed without fee, from the constant product on the pre-state
                let w := (rin * out + (rout - out) - 1) / (rout - out)
                if !slippageOk (Dec.quo (Dec.ofInt x1) (Dec.ofInt w)) ⟨z⟩ then
                  predfail "C07_slippage_enforced" "input-above-limit"
                else "ok"
      | _, _, _ => badInput "post"
    | _, _, _, _, _, _, _, _, _, _, _, _, _ => badInput "parse"
  | _ => badInput "arity"

def hGov : Handler
  | [nA, nD, _feeOld, _alOld, fee, allowed, pools, shares, bal, _, pools', shares', bal'] =>
    match nat? nA, nat? nD, int? fee, ints? allowed, ints? pools, ints? shares, ints? bal,
          ints? pools', ints? shares', ints? bal' with
    | some nA, some nD, some fee, some _, some pools, some shares, some bal, some pools', some shares', some bal' =>
      if fee < 0 || fee ≥ P then predfail "C07_fee_kept" "fee-parameter-out-of-range"
      else
      match invPred nA nD ⟨pools', shares', bal'⟩ with
      | some (n, why) => predfail n why
      | none =>
        if pools != pools' then predfail "C07_custody" "param-change-rewrote-pool-record"
        else if shares != shares' then predfail "C07_shares_sum" "param-change-rewrote-share-record"
        else if bal != bal' then predfail "C07_custody" "param-change-moved-coins"
        else "ok"
    | _, _, _, _, _, _, _, _, _, _ => badInput "parse"
  | _ => badInput "arity"

def handlers : List (String × Handler) := [
  ("c07.gov", hGov),
  ("c07.new", hNew), ("c07.add", hAdd), ("c07.rem", hRem), ("c07.swap", hSwap),
  ("c07.rt", hRt), ("c07.seq", hSeq), ("c07.sym", hSym), ("c07.k", hK)]
end Drv.C07
