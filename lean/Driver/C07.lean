import Driver.Util
namespace Drv.C07
/-- handlers of property C07: (command name, handler) -/
def handlers : List (String × Handler) := []
end Drv.C07
