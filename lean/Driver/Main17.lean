import Driver.Loop
import Driver.Num
import Driver.C17
/-- driver executable of property C17 -/
def main : IO UInt32 := Drv.runMain (Drv.Num.handlers ++ Drv.C17.handlers)
