import Driver.Loop
import Driver.Num
import Driver.C06
/-- driver executable of property C06 -/
def main : IO UInt32 := Drv.runMain (Drv.Num.handlers ++ Drv.C06.handlers)
