import Driver.Loop
import Driver.Num
import Driver.C19
/-- driver executable of property C19 -/
def main : IO UInt32 := Drv.runMain (Drv.Num.handlers ++ Drv.C19.handlers)
