import Driver.Util
import Driver.C04
import KavaVerif.Model.Cdp
import KavaVerif.Model.CdpAuctions
/-!
  C05 driver.

  `c05.ratio` — pure-function tie of formulation (a) and of the two index-ratio routines:
     c cf prin fees dcf price L "=>" cr gateUser gateLiq c2d c2dBulk
     (cr = mantissa of CalculateCollateralizationRatio or "panic"; gateUser = ValidateCollateralizationRatio
      accepted; gateLiq = ValidateLiquidation accepted; c2d = CalculateCollateralToDebtRatio mantissa;
      c2dBulk = calculateCollateralRatio mantissa)
  `c05.block` — tie of formulation (b) on the real keeper: a single CDP (c, cf, debt) at liquidation price
     `price` and ratio `L`, one `LiquidateCdps` pass (index scan + value-ratio re-check):   c cf debt dcf price L "=>" seized
  `c05.op` — same case lines as `c04.op` (see Driver/C04.lean); the model comparison is repeated and the
     C05 predicates are evaluated on the implementation's own pre/post observations.
  `c05.lots` — one line per seized CDP (block liquidation and keeper liquidation): the collateral auctions x/auction
     stored for it, read back from the auction store:
       kind ty A pen reward deps debt "=>" lots
     A / pen = auction size / liquidation penalty (mantissa) in force (x/params store); reward = collateral the keeper
     received (bank balances; "-" for a block liquidation); deps = the CDP's deposit records BEFORE the operation
     `acct:amt;…` (depositor-address order); debt = the debt coins the seizure moved cdp → liquidator (bank transfer
     event; "-" = not observed); lots = `ret:lot:maxBid:correspondingDebt:weight:shape;…` in auction-id order
     (ret = the single lot-return address, weight = its weight, shape = bit mask of structural defects: 1 not exactly
     one return address / address unknown, 2 initiator is not the liquidator, 4 lot denom, 8 bid / max-bid denom or a
     bid already present, 16 corresponding-debt denom).
     Predicates `C05_seize_lots` on the observed auctions, then the model `seizeLots` is compared lot by lot.
  `c05.lotsum` — one line per operation that started collateral auctions: what the bank moved into the auction
     module (per collateral denom, and debt coins) against what the new auction records say:
       kind collDeltas lotSums debtDelta collateralAuctionDebt debtAuctionDebt
-/
namespace Drv.C05
open KV KV.Cdp Drv.C04

/-- `CR − L` is within the proved rounding bound of `C05_block_sound_partial` -/
def withinEps (cr L price : Int) : Bool :=
  let M := 2 * price * P * P - L * P - 2 * L
  decide (0 < M) && decide ((cr - 2 - L) * M < L * L * (P + 2))

/-- `CR` is below `L` by more than the proved bound of `C05_block_complete_bound`
    (such a CDP is inside the block liquidator's scan range) -/
def beyondEpsBelow (cr L price : Int) : Bool :=
  decide ((cr + 2) * (P * P) * (price * P + L) ≤ price * (P * P * P * L - (P + 1) * (price * P + L)))

def gapTag (cr L price : Int) : String :=
  if withinEps cr L price then "at-ratio-within-eps" else "above-ratio"

def handleRatio : Handler
  | [c, cf, prin, fees, dcf, price, L, _, cr, gU, gL, k1, k2] =>
    match int? c, nat? cf, int? prin, int? fees, nat? dcf, int? price, int? L, bool? gU, bool? gL, int? k1, int? k2 with
    | some c, some cf, some prin, some fees, some dcf, some price, some L, some gU, some gL, some k1, some k2 =>
      -- predicates on the implementation's own numbers
      let pred := match int? cr with
        | some icr =>
          if gU && icr < L then predfail "C05_user_gate" "accepted-below-ratio"
          else if gL && icr ≥ L then predfail "C05_keeper_sound" (gapTag icr L price)
          else if k1 != k2 then predfail "C04_ratio_index_exact" "helper-and-bulk-ratio-differ"
          else "ok"
        | none => "ok"
      if pred != "ok" then pred else
      let m := collRatio c cf prin fees dcf ⟨price⟩
      let ms := match m with | some r => toString r.m | none => "panic"
      if ms != cr then mismatch "collateralizationRatio" ms cr
      else
        let k := c2d c cf (prin + fees) dcf
        let kb := c2dBulk c cf (prin + fees) dcf
        if k.m != k1 then mismatch "collateralToDebtRatio" (toString k.m) (toString k1)
        else if kb.m != k2 then mismatch "calculateCollateralRatio" (toString kb.m) (toString k2)
        else
        match m with
        | none => "ok"
        | some r =>
          if gU != decide (¬ r.m < L) then mismatch "userGate" (showBool (decide (¬ r.m < L))) (showBool gU)
          else if gL != decide (r.m < L) then mismatch "keeperGate" (showBool (decide (r.m < L))) (showBool gL)
          else "ok"
    | _, _, _, _, _, _, _, _, _, _, _ => badInput "parse"
  | _ => badInput "arity"

def handleBlock : Handler
  | [c, cf, debt, dcf, price, L, _, seized] =>
    match int? c, nat? cf, int? debt, nat? dcf, int? price, int? L, bool? seized with
    | some c, some cf, some debt, some dcf, some price, some L, some seized =>
      let pred := if seized then
          match collRatio c cf debt 0 dcf ⟨price⟩ with
          | some r => if r.m ≥ L then predfail "C05_block_sound" (gapTag r.m L price) else "ok"
          | none => "ok"
        else "ok"
      if pred != "ok" then pred else
      let key := sortKey (c2d c cf debt dcf)
      let E1 : Env := { P := { (default : Params) with colls := [{ (default : CollParam) with cf := cf, active := true }], debtCf := dcf }, accts := [] }
      let c1 : Cdp := { owner := 0, ty := 0, coll := c, prin := debt, fees := 0, updated := 0, ifac := Dec.one }
      let m := blockSelects key ⟨price⟩ ⟨L⟩ && !blockSkips E1 c1 ⟨price⟩ ⟨L⟩
      if m != seized then mismatch "blockSeizes" (showBool m) (showBool seized) else "ok"
    | _, _, _, _, _, _, _ => badInput "parse"
  | _ => badInput "arity"

def crOf (u : U) (c : Cdp) (coll debt : Int) (price : Option Dec) : Option Dec :=
  match price with
  | none => none
  | some p => collRatio coll (cfOf u.E c.ty) debt 0 u.E.P.debtCf p

def absI (x : Int) : Int := if x < 0 then -x else x

def isSynced (post : St) (c : Cdp) : Bool :=
  (newInterest post c).getD 0 == 0

/-- C05 predicates on the implementation's observations; `none` = all hold -/
def preds (u : U) (kind : String) (args : List Int) (pre post : Obs) (tol : List Int) : Option (String × String) :=
  let E := u.E
  let sPre := stOf pre
  let sPost := stOf post
  -- the parameters IN FORCE at this step; a type that is not listed has none (`GetCollateral`)
  let cpOf := fun (ty : Nat) => activeColl E ty
  let gone := pre.cdps.filter (fun e => (post.cdps.lookup e.1).isNone)
  -- (1) user gate + feed gate
  let userPart : Option (String × String) :=
    match kind, args with
    | "create", [_, o, ty, _, _, _, _] | "draw", [_, o, ty, _, _] | "withdraw", [_, o, _, ty, _, _] | "deposit", [_, o, _, ty, _, _] =>
      match cpOf ty.toNat with
      | none => some ("C05_user_gate", "accepted-unknown-type")
      | some cp =>
        -- "the price feed is down" = x/pricefeed has no current price for the spot or for the liquidation market
        -- in force (the harness's own `GetCurrentPrice` reading in the pre-state); the status flags the cdp module
        -- keeps on record are the mechanism, they only refine the tag
        let flags := s!"recorded-flags=spot:{showBool (sPre.status cp.spot)},liquidation:{showBool (sPre.status cp.liq)}"
        let down :=
          if (sPre.price cp.spot).isNone then some s!"accepted-while-spot-price-unavailable {flags}"
          else if (sPre.price cp.liq).isNone then some s!"accepted-while-liquidation-price-unavailable {flags}"
          else if sPre.status cp.spot == false then some "accepted-spot-flag-down"
          else if sPre.status cp.liq == false then some "accepted-liquidation-flag-down"
          else none
        match down with
        | some why => some (s!"C05_feed_gate_{kind}", why)
        | none =>
          if kind == "deposit" then none else
          match post.cdps.find? (fun e => e.2.owner == o.toNat && e.2.ty == ty.toNat) with
          | none => some ("C05_user_gate", "cdp-missing-after-accepted-action")
          | some (_, c) =>
            match crOf u c c.coll (c.prin + c.fees) (sPre.price cp.spot) with
            | none => some ("C05_user_gate", "ratio-undefined")
            | some r => if r.m < cp.liqRatio.m then some ("C05_user_gate", s!"below-ratio-after-{kind}") else none
    | _, _ => none
  if userPart.isSome then userPart else
  -- (2) keeper liquidation only below the ratio
  let keeperPart : Option (String × String) :=
    match kind, args with
    | "liquidate", [_, _, o, ty] =>
      match cpOf ty.toNat, pre.cdps.find? (fun e => e.2.owner == o.toNat && e.2.ty == ty.toNat) with
      | some cp, some (_, c) =>
        match crOf u c c.coll (syncedDebt sPre c) (sPre.price cp.liq) with
        | none => some ("C05_keeper_sound", "no-liquidation-price")
        | some r =>
          if r.m ≥ cp.liqRatio.m then
            some ("C05_keeper_sound", gapTag r.m cp.liqRatio.m ((sPre.price cp.liq).getD Dec.zero).m)
          else none
      | _, _ => some ("C05_keeper_sound", "no-cdp")
    | _, _ => none
  if keeperPart.isSome then keeperPart else
  -- (3) block liquidation
  let gAfter : St := { sPre with ifac := sPost.ifac }
  let blockSound : Option (String × String) :=
    if kind != "begin" then none else
    gone.findSome? (fun e =>
      let c := e.2
      match cpOf c.ty with
      | none => some ("C05_block_sound", "unknown-type")
      | some cp =>
        match crOf u c c.coll (syncedDebt gAfter c) (sPre.price cp.liq) with
        | none => some ("C05_block_sound", "seized-without-liquidation-price")
        | some r =>
          if r.m ≥ cp.liqRatio.m then
            some ("C05_block_sound", gapTag r.m cp.liqRatio.m ((sPre.price cp.liq).getD Dec.zero).m)
          else none)
  if blockSound.isSome then blockSound else
  let blockComplete : Option (String × String) :=
    match kind, args with
    | "begin", _ :: skip :: _ =>
      if skip != 0 then none else
      E.P.order.findSome? (fun ty =>
        match cpOf ty with
        | none => none
        | some cp =>
          match sPre.price cp.spot, sPre.price cp.liq with
          | some _, some pl =>
            let K := sortKey (normRatio pl cp.liqRatio)
            let goneT := gone.filter (fun e => e.2.ty == ty)
            let cnt : Nat := if cp.checkCount ≤ 1 then 1 else cp.checkCount.toNat
            let survivorsBelow := post.idx.filter (fun e => e.1 == ty && e.2.1 < K)
            -- a surviving entry in the scan range is legitimate iff the re-check skipped it (CR_liq ≥ L);
            -- skipped entries still occupy one of the `count` slots
            let underRatio := fun (e : Entry) =>
              match post.cdps.lookup e.2.2 with
              | some c => (match crOf u c c.coll (c.prin + c.fees) (some pl) with
                           | some r => decide (r.m < cp.liqRatio.m)
                           | none => true)
              | none => true
            let skippedSlots := (survivorsBelow.filter (fun e => !underRatio e)).length
            if survivorsBelow.any underRatio && goneT.length + skippedSlots < cnt then
              some ("C05_block_complete", "index-entry-below-norm-and-ratio-survived")
            else
              -- lowest first: every seized CDP sat (after its synchronisation) below every surviving entry
              let seizedKeys := goneT.map (fun e =>
                (ty, sortKey (c2d e.2.coll cp.cf (syncedDebt gAfter e.2) E.P.debtCf), e.1))
              if seizedKeys.any (fun k => post.idx.any (fun v => v.1 == ty && eLt v k)) then
                some ("C05_block_complete", "not-lowest-first")
              else
                -- true ratio (synchronised CDPs only): below L by more than the rounding bound ⇒ seized
                let missed := post.cdps.any (fun e =>
                  e.2.ty == ty && isSynced sPost e.2 &&
                  (match crOf u e.2 e.2.coll (e.2.prin + e.2.fees) (some pl) with
                   | some r => beyondEpsBelow r.m cp.liqRatio.m pl.m
                   | none => false))
                if missed && goneT.length + skippedSlots < cnt then some ("C05_block_complete", "below-ratio-not-seized") else none
          | _, _ => none)
    | _, _ => none
  if blockComplete.isSome then blockComplete else
  -- (4) a seizure removes the whole position; its collateral (minus keeper reward) and its debt enter auctions
  if gone.isEmpty || kind == "repay" then none else
  if gone.any (fun e => post.deps.any (fun d => d.1 == e.1)) then some ("C05_seize_whole", "deposit-left") else
  if gone.any (fun e => post.idx.any (fun x => x.2.2 == e.1)) then some ("C05_seize_whole", "index-entry-left") else
  if gone.any (fun e => post.own.any (fun x => x.2.contains e.1)) then some ("C05_seize_whole", "owner-entry-left") else
  let keeperAcct : Option Nat := match kind, args with | "liquidate", [_, k, _, _] => some k.toNat | _, _ => none
  let collBad := (List.range u.nDen).any (fun d => d ≥ 2 &&
    (let seizedColl := sumI ((gone.filter (fun e => denomOf E e.2.ty == d)).map (·.2.coll))
     let reward := match keeperAcct with | some k => lookup3 post.bal k d - lookup3 pre.bal k d | none => 0
     lookup3 post.bal 2 d - lookup3 pre.bal 2 d != seizedColl - reward || lookup3 post.bal 1 d != lookup3 pre.bal 1 d))
  if collBad then some ("C05_seize_whole", "collateral-entering-auctions") else
  -- debt: only when no debt auction can start in this history (threshold out of reach)
  if E.P.debtThreshold < 100000000000000000000000000000 then none else
  let g := if kind == "begin" then gAfter else sPre
  let entered := lookup3 post.bal 2 1 - lookup3 pre.bal 2 1
  -- expected: each seizure hands over min(its debt, debt coins then held by the cdp module); the module's
  -- balance is replayed from observations only (pre balance, + the accrual minted per type = change of the
  -- type's total principal + the debts seized in it, − what was handed over so far)
  let expected : Option Int :=
    if kind != "begin" then
      some (sumI (gone.map (fun e => minI (syncedDebt g e.2) (lookup3 pre.bal 0 1))))
    else
      let step := fun (acc : Option (Int × Int)) (ty : Nat) =>
        match acc, cpOf ty with
        | some (avail, tot), some cp =>
          let goneT := gone.filter (fun e => e.2.ty == ty)
          let debts := sumI (goneT.map (fun e => syncedDebt g e.2))
          let minted := post.tprin.getD ty 0 - pre.tprin.getD ty 0 + debts
          if minted < 0 || (post.tprin.getD ty 0 == 0 && !goneT.isEmpty) then none   -- total-principal clamp: not replayable
          else
            let order := (goneT.map (fun e => ((ty, sortKey (c2d e.2.coll cp.cf (syncedDebt g e.2) E.P.debtCf), e.1), syncedDebt g e.2))).foldl
              (fun (l : List (Entry × Int)) x => (l.filter (fun y => eLt y.1 x.1)) ++ [x] ++ (l.filter (fun y => !eLt y.1 x.1))) []
            some (order.foldl (fun (p : Int × Int) x => (p.1 - minI x.2 p.1, p.2 + minI x.2 p.1)) (avail + minted, tot))
        | some acc, none => some acc          -- not listed: not visited by the begin blocker
        | none, _ => none
      (E.P.order.foldl step (some (lookup3 pre.bal 0 1, 0))).map (·.2)
  match expected with
  | none => none
  | some ex =>
    if entered == ex then none
    else some ("C05_seize_whole", s!"debt-entering-auctions entered={entered} expected={ex}")

def handleOp : Handler
  | [kind, params, pre, args, _, result, post, tol] =>
    match parseU params, parseObs pre, ints? args, parseObs post, ints? tol with
    | some u, some pre, some args, some post, some tol =>
      match runOp u kind args (stOf pre) with
      | none => badInput "op"
      | some res =>
        -- predicates on the implementation's own observations first (independent of the model)
        let pred := if result != "ok" then "ok" else
          match preds u kind args pre post tol with
          | some (name, tag) => predfail name tag
          | none => "ok"
        if pred != "ok" then pred else
        let cls := resClass res
        if cls != result then mismatch "result" cls result
        else
          match res with
          | .ok s' => cmpObs (obsOf u s') post
          | _ => "ok"
    | _, _, _, _, _ => badInput "parse"
  | _ => badInput "arity"

/-! ### the auctions of a seizure -/

/-- one stored collateral auction as the harness read it back -/
structure OLot where
  ret : Nat
  lot : Int
  maxBid : Int
  debt : Int
  weight : Int
  shape : Int
deriving Inhabited

def parseOLot (s : String) : Option OLot :=
  match s.splitOn ":" with
  | [r, l, mb, d, w, sh] => do
    let r ← nat? r
    let l ← int? l
    let mb ← int? mb
    let d ← int? d
    let w ← int? w
    let sh ← int? sh
    pure { ret := r, lot := l, maxBid := mb, debt := d, weight := w, shape := sh }
  | _ => none

def parseDep (s : String) : Option (Nat × Int) :=
  match s.splitOn ":" with
  | [a, v] => do
    let a ← nat? a
    let v ← int? v
    pure (a, v)
  | _ => none

/-- maximal runs of consecutive lots with the same return address -/
def runsOf : List OLot → List (List OLot)
  | [] => []
  | x :: rest =>
    match runsOf rest with
    | (y :: ys) :: more => if y.ret == x.ret then (x :: y :: ys) :: more else [x] :: (y :: ys) :: more
    | other => [x] :: other

def showLots (l : List Lot) : String :=
  if l.isEmpty then "-" else ";".intercalate (l.map (fun x => s!"{x.ret}:{x.lot}:{x.maxBid}:{x.debt}"))

def oLotSum (l : List OLot) : Int := sumI (l.map (fun (x : OLot) => x.lot))
def oDebtSum (l : List OLot) : Int := sumI (l.map (fun (x : OLot) => x.debt))

/-- the statements about one depositor's run of lots -/
def runPreds (A rwd total dTot nDeps : Int) (r : List OLot) (dep : Nat × Int) : Option String :=
  let c := oLotSum r
  let D := oDebtSum r
  if c != dep.2 && c != dep.2 - rwd then some s!"depositor-lots depositor={dep.1} lots={c} deposit={dep.2}" else
  if r.dropLast.any (fun (x : OLot) => x.lot != A) then some "lot-size-only-the-last-lot-may-be-smaller" else
  let whole : List Int := (r.filter (fun (x : OLot) => x.lot == A)).map (fun (x : OLot) => x.debt)
  let hi := whole.foldl (fun (m x : Int) => if x > m then x else m) (whole.headD 0)
  let lo := whole.foldl (fun (m x : Int) => if x < m then x else m) (whole.headD 0)
  if hi - lo > 1 then some s!"debt-spread whole-lots-differ-by-{hi - lo}" else
  if c ≤ 0 then none else
  match r.find? (fun (x : OLot) => x.debt < D * x.lot / c || x.debt > D * x.lot / c + 1) with
  | some x => some s!"debt-not-proportional lot={x.lot} debt={x.debt} deposit-debt={D} deposit={c}"
  | none =>
    if total ≤ 0 || dTot ≥ 100000000000000000 then none else
    if absI (D * total - dTot * c) > (nDeps + 1) * total then
      some s!"deposit-debt-share depositor={dep.1} share={D} debt={dTot} deposit={c} collateral={total}"
    else none

/-- the per-lot statements of `C05_seize_lots` / `C05_seize_lots_deposit` / `C05_seize_lots_shape` on the auctions
    the implementation stored; `none` = all hold -/
def lotPreds (A : Int) (pen : Dec) (reward : Option Int) (deps : List (Nat × Int)) (debt : Option Int)
    (obs : List OLot) : Option String :=
  let rwd : Int := reward.getD 0
  let total : Int := sumI (deps.map (fun (d : Nat × Int) => d.2)) - rwd
  let debtBad : Bool := match debt with
    | some d => oDebtSum obs != d
    | none => false
  match obs.find? (fun (x : OLot) => x.shape != 0) with
  | some x => some s!"lot-shape mask={x.shape} ret={x.ret} lot={x.lot}"
  | none =>
  if obs.any (fun (x : OLot) => x.weight != x.lot) then some "lot-return-weight-is-not-the-lot" else
  if obs.any (fun (x : OLot) => x.lot ≤ 0 || x.lot > A) then some "lot-size-not-in-(0,auction-size]" else
  if oLotSum obs != total then
    some s!"sum-of-lots lots={oLotSum obs} collateral-minus-reward={total}" else
  if debtBad then
    some s!"sum-of-debts lots={oDebtSum obs} debt={debt.getD 0}" else
  match obs.find? (fun (x : OLot) => x.maxBid != x.debt + penaltyOf x.debt pen) with
  | some x => some s!"max-bid-not-debt-plus-penalty lot={x.lot} debt={x.debt} maxBid={x.maxBid} expected={x.debt + penaltyOf x.debt pen}"
  | none =>
  let runs := runsOf obs
  if runs.map (fun (r : List OLot) => (r.headD default).ret) != deps.map (fun (d : Nat × Int) => d.1) then
    some "lot-return-addresses-are-not-the-depositors-in-order" else
  let nDeps : Int := deps.length
  (runs.zip deps).findSome? (fun (p : List OLot × (Nat × Int)) => runPreds A rwd total (oDebtSum obs) nDeps p.1 p.2)

def handleLots : Handler
  | [kind, _ty, A, pen, reward, deps, debt, _, lots] =>
    match int? A, int? pen, optInt? reward, (sec deps ";").mapM parseDep, optInt? debt, (sec lots ";").mapM parseOLot with
    | some A, some pen, some reward, some deps, some debt, some obs =>
      match lotPreds A ⟨pen⟩ reward deps debt obs with
      | some tag => predfail "C05_seize_lots" s!"{kind} {tag}"
      | none =>
        let debtM := match debt with | some d => d | none => oDebtSum obs
        let mdeps := depsAfterReward reward deps
        match seizeLots A ⟨pen⟩ mdeps debtM with
        | .ok l =>
          let impl : List Lot := obs.map (fun x => { ret := x.ret, lot := x.lot, debt := x.debt, maxBid := x.maxBid })
          if l == impl then "ok" else mismatch "lots" (showLots l) (showLots impl)
        | .err => mismatch "lots" "err" "ok"
        | .panic => mismatch "lots" "panic" "ok"
    | _, _, _, _, _, _ => badInput "parse"
  | _ => badInput "arity"

def handleLotSum : Handler
  | [kind, collDeltas, lotSums, debtDelta, collDebt, debtAucDebt] =>
    match ints? collDeltas, ints? lotSums, int? debtDelta, int? collDebt, int? debtAucDebt with
    | some cd, some ls, some dd, some cdebt, some adebt =>
      if cd != ls then
        predfail "C05_seize_lots" s!"{kind} collateral-in-auction-records-is-not-what-entered-the-auction-module records={showInts ls} bank={showInts cd}"
      else if dd != cdebt + adebt then
        predfail "C05_seize_lots" s!"{kind} debt-in-auction-records-is-not-what-entered-the-auction-module records={cdebt + adebt} bank={dd}"
      else "ok"
    | _, _, _, _, _ => badInput "parse"
  | _ => badInput "arity"

/-! ### the price-feed gate -/

/-- `c05.gate` — one line per create / draw / deposit / withdraw of a `c05.op` history:
      kind ty listed spotMarket liqMarket spotAvail liqAvail spotFlag liqFlag beginSpot beginLiq "=>" class error
    spotAvail / liqAvail: x/pricefeed `GetCurrentPrice` of the type's spot / liquidation market in force answered with
    a price when the operation ran (the harness's own reading — the oracle of "the price feed is down");
    spotFlag / liqFlag: the market status the cdp module had on record (diagnosis only);
    beginSpot / beginLiq: the same availability when the begin blocker of the current block ran ("-" = unknown).
    `C05_feed_gate_<kind>`: accepted while either price is unavailable ⇒ PREDFAIL.  Converse (exact on the code as
    it stands: every begin block records the availability of the spot market of every listed type and, when that is
    available, of its liquidation market; prices only change in the pricefeed end blocker): refused AS "price feed
    down" although both prices are available and were when the begin blocker ran ⇒ PREDFAIL.  The model's reading
    (`bbType`: flag = availability) is compared last. -/
def handleGate : Handler
  | [kind, _ty, listed, _sm, _lm, sA, lA, sF, lF, bS, bL, _, cls, errc] =>
    match bool? listed, bool? sA, bool? lA, bool? sF, bool? lF with
    | some listed, some sA, some lA, some sF, some lF =>
      if !(["create", "draw", "deposit", "withdraw"].contains kind) then badInput "kind" else
      if !listed then "ok" else     -- an accepted action on an unlisted type is `C05_user_gate accepted-unknown-type` (c05.op)
      let thm := s!"C05_feed_gate_{kind}"
      let flags := s!"recorded-flags=spot:{showBool sF},liquidation:{showBool lF}"
      if cls == "ok" && !sA then predfail thm s!"accepted-while-spot-price-unavailable {flags}"
      else if cls == "ok" && !lA then predfail thm s!"accepted-while-liquidation-price-unavailable {flags}"
      else if cls == "err" && errc == "no-price-found-for-collateral" && sA && lA && bS == "1" && bL == "1" then
        predfail thm s!"refused-as-feed-down-while-both-prices-available-since-the-begin-blocker {flags}"
      else if bS == "-" || bL == "-" then "ok"
      else
        -- model: after a begin block flag(spot) = availability(spot), and flag(liq) = availability(liq) when the
        -- spot price is available; nothing moves either before the next block
        let bSa := bS == "1"
        let bLa := bL == "1"
        if bSa != sA || bLa != lA then mismatch "priceAvailabilityWithinBlock" s!"{bS},{bL}" s!"{showBool sA},{showBool lA}"
        else if sF != sA then mismatch "spotMarketStatus" (showBool sA) (showBool sF)
        else if sA && lF != lA then mismatch "liquidationMarketStatus" (showBool lA) (showBool lF)
        else "ok"
    | _, _, _, _, _ => badInput "parse"
  | _ => badInput "arity"

/-- handlers of property C05: (command name, handler) -/
def handlers : List (String × Handler) :=
  [("c05.ratio", handleRatio), ("c05.block", handleBlock), ("c05.op", handleOp),
   ("c05.lots", handleLots), ("c05.lotsum", handleLotSum), ("c05.gate", handleGate)]
end Drv.C05
