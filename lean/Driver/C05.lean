import Driver.Util
namespace Drv.C05
/-- handlers of property C05: (command name, handler) -/
def handlers : List (String × Handler) := []
end Drv.C05
