import Driver.Loop
import Driver.Num
import Driver.C02
/-- driver executable of property C02 -/
def main : IO UInt32 := Drv.runMain (Drv.Num.handlers ++ Drv.C02.handlers)
