import Driver.Loop
import Driver.Num
import Driver.C13
/-- driver executable of property C13 -/
def main : IO UInt32 := Drv.runMain (Drv.Num.handlers ++ Drv.C13.handlers)
