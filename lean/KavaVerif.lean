import KavaVerif.Num.Dec
