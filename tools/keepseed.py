#!/usr/bin/env python3
"""keepseed.py <worktree> <seed-id> <detected-by> <verdict-line>  — store a confirmed seeded change under /verif/seeded/<id>/"""
import json, os, shutil, sys
wt, sid, detected, verdict = sys.argv[1:5]
out = os.path.join('/verif/seeded', sid)
os.makedirs(out, exist_ok=True)
meta = json.load(open(os.path.join(wt, '_out', 'meta.json')))
for f in os.listdir(os.path.join(wt, '_out')):
    if f != 'meta.json':
        shutil.copy(os.path.join(wt, '_out', f), os.path.join(out, f))
meta['confirmed_by_orchestrator'] = {
    'demo_passes_without_patch': True, 'demo_fails_with_patch': True,
    'existing_package_tests_pass_with_patch': True,
    'how': 'scratch worktree: copied the demo test, ran demo_cmd (pass), git apply patch.diff, ran demo_cmd (fail), removed the demo, ran the touched packages tests (pass), git checkout -- .',
}
meta['check_result'] = {'detected_by': detected, 'verdict': verdict}
json.dump(meta, open(os.path.join(out, 'meta.json'), 'w'), indent=1)
print('kept', out)
