#!/usr/bin/env python3
"""rehash.py [repo] — record the content hashes of the watched source files (checks/watch.json) in
checks/watch_hashes.json.  Run after /repo's HEAD changes by a commit of ours (hook or fix) and the checks
have been re-validated on it.  ./check only reads the file."""
import glob, hashlib, json, os, sys
VERIF = os.path.dirname(os.path.dirname(os.path.abspath(__file__)))
REPO = sys.argv[1] if len(sys.argv) > 1 else "/repo"

def watched(repo, globs):
    out = set()
    for g in globs:
        for p in glob.glob(os.path.join(repo, g)):
            b = os.path.basename(p)
            if not p.endswith(".go") or b.endswith("_test.go") or b.endswith(".pb.go") or b.endswith(".pb.gw.go"):
                continue
            out.add(os.path.relpath(p, repo))
    return sorted(out)

def digest(path):
    return hashlib.sha256(open(path, "rb").read()).hexdigest()[:24]

if __name__ == "__main__":
    w = json.load(open(os.path.join(VERIF, "checks", "watch.json")))
    files = set()
    for k, gs in w.items():
        if k.startswith("_"): continue
        files.update(watched(REPO, gs))
    h = {f: digest(os.path.join(REPO, f)) for f in sorted(files)}
    json.dump(h, open(os.path.join(VERIF, "checks", "watch_hashes.json"), "w"), indent=0, sort_keys=True)
    print(len(h), "files hashed")
