#!/bin/sh
# run_all.sh [tier] — runs every configured check once and prints a one-line summary each
cd "$(dirname "$0")/.."
TIER=${1:-quick}
for f in checks/C*.json; do
  id=$(basename "$f" .json)
  start=$(date +%s)
  out=$(./check "$id" --tier "$TIER" 2>&1); rc=$?
  echo "$id rc=$rc $(($(date +%s)-start))s :: $(echo "$out" | grep -E 'VIOLATION|KNOWN-FINDING|tier=' | tr '\n' ' ' | cut -c1-300)"
done
