#!/usr/bin/env python3
"""Regenerates the generated parts of DESIGN.md (between <!-- BEGIN GENERATED x --> / <!-- END GENERATED x -->):
   'seeded' = table of seeded changes and which check caught them; 'notes' = design_notes/*.md verbatim."""
import glob, json, os, re
V = os.path.dirname(os.path.dirname(os.path.abspath(__file__)))
p = os.path.join(V, 'DESIGN.md')
s = open(p).read()

def block(name, body):
    global s
    b, e = f'<!-- BEGIN GENERATED {name} -->', f'<!-- END GENERATED {name} -->'
    if b not in s:
        s += f'\n{b}\n{e}\n'
    s = re.sub(re.escape(b) + '.*?' + re.escape(e), lambda m: b + '\n' + body + '\n' + e, s, flags=re.S)

rows = ['| seed | property | what the change does | what it needs to manifest | result of the check |', '|---|---|---|---|---|']
for d in sorted(glob.glob(os.path.join(V, 'seeded', '*'))):
    m = json.load(open(os.path.join(d, 'meta.json')))
    cell = lambda x: str(x).replace('|', '\\|').replace('\n', ' ')[:420]
    rows.append(f"| {os.path.basename(d)} | {m.get('property')} | {cell(m.get('summary',''))} | {cell(m.get('needs',''))} | {cell(m.get('check_result',{}).get('detected_by',''))}: {cell(m.get('check_result',{}).get('verdict',''))} |")
block('seeded', '\n'.join(rows))

notes = []
for f in sorted(glob.glob(os.path.join(V, 'design_notes', 'C*.md'))):
    t = open(f).read()
    t = re.sub(r'^(#+) ', lambda m: '###' + m.group(1) + ' ', t, flags=re.M)   # demote headings
    notes.append(f"\n### Notes for {os.path.basename(f)[:-3]} (from design_notes/{os.path.basename(f)})\n\n" + t)
block('notes', '\n'.join(notes))
tr = os.path.join(V, 'design_notes', 'translator.md')
if os.path.exists(tr):
    block('translator', open(tr).read())
open(p, 'w').write(s)
print('DESIGN.md regenerated:', len(rows) - 2, 'seeds,', len(notes), 'notes')
