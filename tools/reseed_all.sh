#!/bin/sh
# reseed_all.sh [ids...] — regression run: every kept seeded change (or the listed ones) against the current machinery, in isolated copies
cd "$(dirname "$0")/.."
ids="$@"; [ -z "$ids" ] && ids=$(ls seeded)
for sid in $ids; do
  d=seeded/$sid
  prop=$(python3 -c "import json;print(json.load(open('$d/meta.json'))['property'])")
  if ! git -C /repo apply --check "$(pwd)/$d/patch.diff" 2>/dev/null; then echo "$sid $prop DOES-NOT-APPLY-AT-HEAD"; continue; fi
  start=$(date +%s)
  out=$(tools/mutcheck.sh "$d/patch.diff" "$prop" 2>&1)
  v=$(echo "$out" | grep -c '^VIOLATION')
  nf=$(echo "$out" | grep -c 'no-failing-input-found')
  echo "$sid $prop violations=$v no-input=$nf $(($(date +%s)-start))s :: $(echo "$out" | grep -E 'tier=' | cut -c1-160)"
done
