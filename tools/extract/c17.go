package main

// C17Router: the proposal routes registered on the committee keeper's router in app/app.go, in order,
// with the route keys resolved to their string values; the gov router's routes for contrast; the
// committee module's own RouterKey. Tables only.

import (
	"fmt"
	"go/ast"
	"go/token"
	"os"
	"os/exec"
	"path/filepath"
	"strconv"
	"strings"
)

func init() { Register("C17Router", emitC17Router) }

const c17KavaModule = "github.com/kava-labs/kava/"

// pkgDir locates the source directory of an import path (repo packages directly, dependencies via go list).
func c17PkgDir(repo, importPath string) (string, error) {
	if strings.HasPrefix(importPath, c17KavaModule) {
		return filepath.Join(repo, strings.TrimPrefix(importPath, c17KavaModule)), nil
	}
	cmd := exec.Command("go", "list", "-f", "{{.Dir}}", importPath)
	cmd.Dir = repo
	cmd.Env = append(os.Environ(), "GOFLAGS=-mod=mod", "GOPROXY=off", "GOSUMDB=off", "GOTOOLCHAIN=local")
	out, err := cmd.Output()
	if err != nil {
		return "", fmt.Errorf("go list %s: %v", importPath, err)
	}
	return strings.TrimSpace(string(out)), nil
}

// c17StringConst resolves a package-level string constant (following `A = B` within the package).
func c17StringConst(dir, name string, depth int) (string, error) {
	if depth > 5 {
		return "", fmt.Errorf("constant chain too deep at %s", name)
	}
	ents, err := os.ReadDir(dir)
	if err != nil {
		return "", err
	}
	for _, e := range ents {
		n := e.Name()
		if e.IsDir() || !strings.HasSuffix(n, ".go") || strings.HasSuffix(n, "_test.go") {
			continue
		}
		f, err := parseFile(dir, n)
		if err != nil {
			return "", err
		}
		v, err := f.topValue(name)
		if err != nil {
			continue
		}
		switch x := v.(type) {
		case *ast.BasicLit:
			if x.Kind == token.STRING {
				return strconv.Unquote(x.Value)
			}
		case *ast.Ident:
			return c17StringConst(dir, x.Name, depth+1)
		}
		return "", fmt.Errorf("%s.%s: unsupported constant expression %s", dir, name, exprString(v))
	}
	return "", fmt.Errorf("%s: no constant %s", dir, name)
}

// c17AddRouteChain returns the first arguments of an `<root>.AddRoute(a, h).AddRoute(b, h)…` chain in
// call order, when the chain is rooted at identifier root.
func c17AddRouteChain(e ast.Expr, root string) ([]ast.Expr, bool) {
	call, ok := e.(*ast.CallExpr)
	if !ok {
		return nil, false
	}
	sel, ok := call.Fun.(*ast.SelectorExpr)
	if !ok || sel.Sel.Name != "AddRoute" || len(call.Args) != 2 {
		return nil, false
	}
	if id, ok := sel.X.(*ast.Ident); ok {
		if id.Name != root {
			return nil, false
		}
		return []ast.Expr{call.Args[0]}, true
	}
	inner, ok := c17AddRouteChain(sel.X, root)
	if !ok {
		return nil, false
	}
	return append(inner, call.Args[0]), true
}

func emitC17Router(repo string) (string, any, error) {
	f, err := parseFile(repo, "app/app.go")
	if err != nil {
		return "", nil, err
	}
	imports := map[string]string{} // alias -> import path
	for _, im := range f.F.Imports {
		p, _ := strconv.Unquote(im.Path.Value)
		alias := filepath.Base(p)
		if im.Name != nil {
			alias = im.Name.Name
		}
		imports[alias] = p
	}
	routesOf := func(root string) ([]ast.Expr, int) {
		var out []ast.Expr
		stmts := 0
		ast.Inspect(f.F, func(n ast.Node) bool {
			es, ok := n.(*ast.ExprStmt)
			if !ok {
				return true
			}
			if args, ok := c17AddRouteChain(es.X, root); ok {
				out = append(out, args...)
				stmts++
			}
			return true
		})
		return out, stmts
	}
	resolve := func(e ast.Expr) (string, error) {
		switch x := e.(type) {
		case *ast.BasicLit:
			return strLit(x)
		case *ast.SelectorExpr:
			pkg, ok := x.X.(*ast.Ident)
			if !ok {
				break
			}
			ip, ok := imports[pkg.Name]
			if !ok {
				return "", fmt.Errorf("app.go: unknown package alias %s", pkg.Name)
			}
			dir, err := c17PkgDir(repo, ip)
			if err != nil {
				return "", err
			}
			return c17StringConst(dir, x.Sel.Name, 0)
		}
		return "", fmt.Errorf("app.go: unsupported route key expression %s", exprString(e))
	}
	// which router is handed to the committee keeper?
	routerArg := ""
	ast.Inspect(f.F, func(n ast.Node) bool {
		call, ok := n.(*ast.CallExpr)
		if !ok || exprString(call.Fun) != "committeekeeper.NewKeeper" {
			return true
		}
		if len(call.Args) >= 3 {
			routerArg = exprString(call.Args[2])
		}
		return true
	})
	if routerArg == "" {
		return "", nil, fmt.Errorf("app.go: committeekeeper.NewKeeper call not found")
	}
	// the router variable must be created by govv1beta1.NewRouter() (an empty router)
	fresh := false
	ast.Inspect(f.F, func(n ast.Node) bool {
		as, ok := n.(*ast.AssignStmt)
		if !ok || len(as.Lhs) != 1 || len(as.Rhs) != 1 || exprString(as.Lhs[0]) != routerArg {
			return true
		}
		if strings.HasSuffix(exprString(as.Rhs[0]), ".NewRouter()") {
			fresh = true
		}
		return true
	})
	if !fresh {
		return "", nil, fmt.Errorf("app.go: %s is not created by NewRouter()", routerArg)
	}
	// any other use of the router variable than its creation, AddRoute chains, and the NewKeeper argument
	// would escape this table (e.g. passing it to a function that adds routes)
	uses := 0
	ast.Inspect(f.F, func(n ast.Node) bool {
		if id, ok := n.(*ast.Ident); ok && id.Name == routerArg {
			uses++
		}
		return true
	})
	comExprs, comStmts := routesOf(routerArg)
	if len(comExprs) == 0 {
		return "", nil, fmt.Errorf("app.go: no AddRoute on %s", routerArg)
	}
	if uses != 2+comStmts { // definition + NewKeeper argument + one root occurrence per AddRoute chain
		return "", nil, fmt.Errorf("app.go: %s is used %d times, expected %d (definition, AddRoute chains, NewKeeper)", routerArg, uses, 2+comStmts)
	}
	govExprs, _ := routesOf("govRouter")
	var comVals, comTxt, govVals []string
	for _, e := range comExprs {
		v, err := resolve(e)
		if err != nil {
			return "", nil, err
		}
		comVals = append(comVals, v)
		comTxt = append(comTxt, exprString(e))
	}
	for _, e := range govExprs {
		v, err := resolve(e)
		if err != nil {
			return "", nil, err
		}
		govVals = append(govVals, v)
	}
	comKey, err := c17StringConst(filepath.Join(repo, "x/committee/types"), "RouterKey", 0)
	if err != nil {
		return "", nil, err
	}
	var sb strings.Builder
	sb.WriteString("namespace KV.Gen\n\n")
	fmt.Fprintf(&sb, "/-- app/app.go: the router passed to `committeekeeper.NewKeeper` -/\ndef committeeKeeperRouterVar : String := %s\n\n", leanStr(routerArg))
	fmt.Fprintf(&sb, "/-- app/app.go: route-key expressions of the `AddRoute` calls on that router, in order -/\ndef committeeRouterRouteExprs : List String := %s\n\n", leanStrList(comTxt))
	fmt.Fprintf(&sb, "/-- the same route keys resolved to their string values -/\ndef committeeRouterRoutes : List String := %s\n\n", leanStrList(comVals))
	fmt.Fprintf(&sb, "/-- app/app.go: routes of the governance router (for contrast) -/\ndef govRouterRoutes : List String := %s\n\n", leanStrList(govVals))
	fmt.Fprintf(&sb, "/-- x/committee/types: `RouterKey`, the route of CommitteeChangeProposal / CommitteeDeleteProposal -/\ndef committeeRouterKey : String := %s\n\n", leanStr(comKey))
	sb.WriteString("end KV.Gen\n")
	facts := map[string]any{"router_var": routerArg, "committee_router_routes": comVals, "gov_router_routes": govVals, "committee_router_key": comKey}
	return sb.String(), facts, nil
}
