package main

// C07 (swap custody): wiring facts the custody theorem rests on.
//   - app/app.go loadBlockedMaccAddrs: the module accounts that are NOT blocked as bank recipients
//     (the swap module account must not be among them: coins enter it only through the keeper)
//   - app/app.go mAccPerms: the swap module account's permissions (none: it cannot mint or burn)
//   - x/swap/types/keys.go: the module account name the keeper sends to is the module name
//   - x/swap/keeper/invariants.go RegisterInvariants: the invariant routes really registered
//   - x/swap/types/params.go MaxSwapFee: the exclusive upper bound of the fee parameter
// Tables only.

import (
	"fmt"
	"go/ast"
	"strings"
)

func init() { Register("C07Swap", emitC07) }

func emitC07(repo string) (string, any, error) {
	f, err := parseFile(repo, "app/app.go")
	if err != nil {
		return "", nil, err
	}
	fd, err := f.funcDecl("loadBlockedMaccAddrs")
	if err != nil {
		return "", nil, err
	}
	var unblocked []string
	found := false
	var ierr error
	ast.Inspect(fd.Body, func(n ast.Node) bool {
		as, ok := n.(*ast.AssignStmt)
		if !ok || len(as.Lhs) != 1 || len(as.Rhs) != 1 {
			return true
		}
		if id, ok := as.Lhs[0].(*ast.Ident); !ok || id.Name != "allowedMaccs" {
			return true
		}
		cl, ok := as.Rhs[0].(*ast.CompositeLit)
		if !ok {
			return true
		}
		found = true
		for _, el := range cl.Elts {
			kv, ok := el.(*ast.KeyValueExpr)
			if !ok {
				ierr = fmt.Errorf("allowedMaccs: unexpected element %s", exprString(el))
				return false
			}
			if id, ok := kv.Value.(*ast.Ident); !ok || id.Name != "true" {
				continue
			}
			name := ""
			ast.Inspect(kv.Key, func(m ast.Node) bool {
				if c, ok := m.(*ast.CallExpr); ok {
					if se, ok := c.Fun.(*ast.SelectorExpr); ok && se.Sel.Name == "GetModuleAddress" && len(c.Args) == 1 {
						name = exprString(c.Args[0])
					}
				}
				return true
			})
			if name == "" {
				ierr = fmt.Errorf("allowedMaccs: key shape not understood: %s", exprString(kv.Key))
				return false
			}
			unblocked = append(unblocked, name)
		}
		return false
	})
	if ierr != nil {
		return "", nil, ierr
	}
	if !found {
		return "", nil, fmt.Errorf("app/app.go loadBlockedMaccAddrs: no allowedMaccs literal")
	}
	if !strings.Contains(f.text(fd.Body), "app.ModuleAccountAddrs()") {
		return "", nil, fmt.Errorf("loadBlockedMaccAddrs no longer starts from app.ModuleAccountAddrs()")
	}

	pe, err := f.topValue("mAccPerms")
	if err != nil {
		return "", nil, err
	}
	pcl, ok := pe.(*ast.CompositeLit)
	if !ok {
		return "", nil, fmt.Errorf("mAccPerms is not a literal")
	}
	var perms []string
	havePerms := false
	for _, el := range pcl.Elts {
		kv, ok := el.(*ast.KeyValueExpr)
		if !ok || exprString(kv.Key) != "swaptypes.ModuleName" {
			continue
		}
		havePerms = true
		if vl, ok := kv.Value.(*ast.CompositeLit); ok {
			for _, p := range vl.Elts {
				perms = append(perms, exprString(p))
			}
		}
	}
	if !havePerms {
		return "", nil, fmt.Errorf("mAccPerms has no entry for swaptypes.ModuleName")
	}

	// the account the keeper sends to / from
	fk, err := parseFile(repo, "x/swap/types/keys.go")
	if err != nil {
		return "", nil, err
	}
	man, err := fk.topValue("ModuleAccountName")
	if err != nil {
		return "", nil, err
	}
	mn, err := fk.topValue("ModuleName")
	if err != nil {
		return "", nil, err
	}

	fi, err := parseFile(repo, "x/swap/keeper/invariants.go")
	if err != nil {
		return "", nil, err
	}
	ri, err := fi.funcDecl("RegisterInvariants")
	if err != nil {
		return "", nil, err
	}
	var routes []string
	ast.Inspect(ri.Body, func(n ast.Node) bool {
		c, ok := n.(*ast.CallExpr)
		if !ok {
			return true
		}
		if se, ok := c.Fun.(*ast.SelectorExpr); ok && se.Sel.Name == "RegisterRoute" && len(c.Args) == 3 {
			if s, e := strLit(c.Args[1]); e == nil {
				routes = append(routes, s)
			}
		}
		return true
	})

	fp, err := parseFile(repo, "x/swap/types/params.go")
	if err != nil {
		return "", nil, err
	}
	mf, err := fp.topValue("MaxSwapFee")
	if err != nil {
		return "", nil, err
	}

	var sb strings.Builder
	sb.WriteString("namespace KV.Gen.C07\n\n")
	fmt.Fprintf(&sb, "/-- app/app.go `loadBlockedMaccAddrs`: module accounts exempt from the bank's blocked-address list -/\ndef unblockedModuleAccounts : List String := %s\n\n", leanStrList(unblocked))
	fmt.Fprintf(&sb, "/-- the swap module account, as named in app/app.go -/\ndef swapModuleAccount : String := %s\n\n", leanStr("swaptypes.ModuleName"))
	fmt.Fprintf(&sb, "/-- x/swap/types/keys.go `ModuleAccountName` (the account the keeper moves coins to and from) -/\ndef moduleAccountNameExpr : String := %s\n\n", leanStr(exprString(man)))
	fmt.Fprintf(&sb, "/-- x/swap/types/keys.go `ModuleName` (the name app/app.go registers, blocks and gives permissions to) -/\ndef moduleNameExpr : String := %s\n\n", leanStr(exprString(mn)))
	fmt.Fprintf(&sb, "/-- app/app.go `mAccPerms[swaptypes.ModuleName]` -/\ndef swapPerms : List String := %s\n\n", leanStrList(perms))
	fmt.Fprintf(&sb, "/-- x/swap/keeper/invariants.go `RegisterInvariants`: routes really registered -/\ndef registeredInvariants : List String := %s\n\n", leanStrList(routes))
	fmt.Fprintf(&sb, "/-- x/swap/types/params.go `MaxSwapFee` (exclusive upper bound of the fee parameter) -/\ndef maxSwapFeeExpr : String := %s\n\n", leanStr(exprString(mf)))
	sb.WriteString("end KV.Gen.C07\n")
	facts := map[string]any{"unblocked": unblocked, "swapPerms": perms, "registeredInvariants": routes,
		"moduleAccountName": exprString(man), "maxSwapFee": exprString(mf)}
	return sb.String(), facts, nil
}
