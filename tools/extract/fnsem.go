package main

// fnsem.go — the semantics tables of the Go → Lean function translator: which Lean term (over Num/Dec.lean
// and Num/GoSem.lean) a library operation of the subset stands for.  `$0` is the receiver, `$1…` the
// arguments; `eff` marks operations that can panic (they return `KV.Go.R` and are bound with `←`).
//
// Reference: cosmossdk.io/math v1.3.0 (int.go, dec.go), math/big, time, cosmos-sdk types/coin.go.
// Not modelled: 256-bit / 315-bit overflow panics, int64 wrap-around, Coin denominations, nil values.

type opSpec struct {
	args []kind
	res  kind
	tmpl string
	eff  bool
}

var methodTable = map[kind]map[string]opSpec{
	kInt: {
		"Add":         {[]kind{kInt}, kInt, "($0 + $1)", false},
		"Sub":         {[]kind{kInt}, kInt, "($0 - $1)", false},
		"Mul":         {[]kind{kInt}, kInt, "($0 * $1)", false},
		"Quo":         {[]kind{kInt}, kInt, "Go.intQuo $0 $1", true},
		"Mod":         {[]kind{kInt}, kInt, "Go.intMod $0 $1", true},
		"AddRaw":      {[]kind{kI64}, kInt, "($0 + $1)", false},
		"SubRaw":      {[]kind{kI64}, kInt, "($0 - $1)", false},
		"MulRaw":      {[]kind{kI64}, kInt, "($0 * $1)", false},
		"QuoRaw":      {[]kind{kI64}, kInt, "Go.intQuo $0 $1", true},
		"ModRaw":      {[]kind{kI64}, kInt, "Go.intMod $0 $1", true},
		"Neg":         {nil, kInt, "(-$0)", false},
		"Abs":         {nil, kInt, "(Go.abs $0)", false},
		"Sign":        {nil, kI64, "(Go.sign $0)", false},
		"IsZero":      {nil, kBool, "(decide ($0 = 0))", false},
		"IsPositive":  {nil, kBool, "(decide (0 < $0))", false},
		"IsNegative":  {nil, kBool, "(decide ($0 < 0))", false},
		"Equal":       {[]kind{kInt}, kBool, "(decide ($0 = $1))", false},
		"GT":          {[]kind{kInt}, kBool, "(decide ($0 > $1))", false},
		"GTE":         {[]kind{kInt}, kBool, "(decide ($0 ≥ $1))", false},
		"LT":          {[]kind{kInt}, kBool, "(decide ($0 < $1))", false},
		"LTE":         {[]kind{kInt}, kBool, "(decide ($0 ≤ $1))", false},
		"BigInt":      {nil, kBig, "$0", false}, // a copy: the result is a fresh value
		"Int64":       {nil, kI64, "$0", false}, // panics outside int64: not modelled
		"Uint64":      {nil, kI64, "$0", false}, // panics outside uint64: not modelled
		"ToLegacyDec": {nil, kDec, "(Dec.ofInt $0)", false},
		"ToDec":       {nil, kDec, "(Dec.ofInt $0)", false},
	},
	kDec: {
		"Add":           {[]kind{kDec}, kDec, "(Dec.add $0 $1)", false},
		"Sub":           {[]kind{kDec}, kDec, "(Dec.sub $0 $1)", false},
		"Mul":           {[]kind{kDec}, kDec, "(Dec.mul $0 $1)", false},
		"MulTruncate":   {[]kind{kDec}, kDec, "(Dec.mulTruncate $0 $1)", false},
		"MulRoundUp":    {[]kind{kDec}, kDec, "(Dec.mulRoundUp $0 $1)", false},
		"MulInt":        {[]kind{kInt}, kDec, "(Dec.mulInt $0 $1)", false},
		"MulInt64":      {[]kind{kI64}, kDec, "(Dec.mulInt $0 $1)", false},
		"Quo":           {[]kind{kDec}, kDec, "Go.decQuo $0 $1", true},
		"QuoTruncate":   {[]kind{kDec}, kDec, "Go.decQuoTruncate $0 $1", true},
		"QuoRoundUp":    {[]kind{kDec}, kDec, "Go.decQuoRoundUp $0 $1", true},
		"QuoInt":        {[]kind{kInt}, kDec, "Go.decQuoInt $0 $1", true},
		"QuoInt64":      {[]kind{kI64}, kDec, "Go.decQuoInt $0 $1", true},
		"Neg":           {nil, kDec, "(Dec.neg $0)", false},
		"Abs":           {nil, kDec, "(Go.decAbs $0)", false},
		"TruncateInt":   {nil, kInt, "(Dec.truncateInt $0)", false},
		"TruncateInt64": {nil, kI64, "(Dec.truncateInt $0)", false}, // panics outside int64: not modelled
		"TruncateDec":   {nil, kDec, "(Go.decTruncateDec $0)", false},
		"RoundInt":      {nil, kInt, "(Dec.roundInt $0)", false},
		"RoundInt64":    {nil, kI64, "(Dec.roundInt $0)", false}, // panics outside int64: not modelled
		"Ceil":          {nil, kDec, "(Dec.ceil $0)", false},
		"IsZero":        {nil, kBool, "(Dec.isZero $0)", false},
		"IsPositive":    {nil, kBool, "(Dec.isPositive $0)", false},
		"IsNegative":    {nil, kBool, "(Dec.isNegative $0)", false},
		"Equal":         {[]kind{kDec}, kBool, "(Go.decEq $0 $1)", false},
		"GT":            {[]kind{kDec}, kBool, "(Dec.lt $1 $0)", false},
		"GTE":           {[]kind{kDec}, kBool, "(Dec.le $1 $0)", false},
		"LT":            {[]kind{kDec}, kBool, "(Dec.lt $0 $1)", false},
		"LTE":           {[]kind{kDec}, kBool, "(Dec.le $0 $1)", false},
		"BigInt":        {nil, kBig, "$0.m", false},
	},
	kCoin: {
		"IsZero":     {nil, kBool, "(decide ($0 = 0))", false},
		"IsPositive": {nil, kBool, "(decide (0 < $0))", false},
		"IsNegative": {nil, kBool, "(decide ($0 < 0))", false},
		"Add":        {[]kind{kCoin}, kCoin, "($0 + $1)", false}, // panics on different denominations: assumed equal
		"Sub":        {[]kind{kCoin}, kCoin, "Go.coinSub $0 $1", true},
		"IsGTE":      {[]kind{kCoin}, kBool, "(decide ($0 ≥ $1))", false},
		"IsLT":       {[]kind{kCoin}, kBool, "(decide ($0 < $1))", false},
		"IsLTE":      {[]kind{kCoin}, kBool, "(decide ($0 ≤ $1))", false},
		"IsEqual":    {[]kind{kCoin}, kBool, "(decide ($0 = $1))", false},
	},
	kTime: {
		"After":    {[]kind{kTime}, kBool, "(decide ($0 > $1))", false},
		"Before":   {[]kind{kTime}, kBool, "(decide ($0 < $1))", false},
		"Equal":    {[]kind{kTime}, kBool, "(decide ($0 = $1))", false},
		"Sub":      {[]kind{kTime}, kDur, "(Go.timeSub $0 $1)", false},
		"Add":      {[]kind{kDur}, kTime, "($0 + $1)", false}, // overflow of the time representation not modelled
		"Unix":     {nil, kI64, "(Go.timeUnix $0)", false},
		"UnixNano": {nil, kI64, "$0", false},
	},
	kDur: {
		"Nanoseconds":  {nil, kI64, "$0", false},
		"Microseconds": {nil, kI64, "Go.i64Quo $0 1000", true},
		"Milliseconds": {nil, kI64, "Go.i64Quo $0 1000000", true},
	},
}

// value-producing big.Int methods: `z.Op(x, y)` sets z (and returns it).  As a statement on a variable the
// variable is assigned; in expression position the receiver must be fresh (`new(big.Int).Mul(a, b)`).
var bigOps = map[string]opSpec{
	"Set":  {[]kind{kBig}, kBig, "$1", false},
	"Add":  {[]kind{kBig, kBig}, kBig, "($1 + $2)", false},
	"Sub":  {[]kind{kBig, kBig}, kBig, "($1 - $2)", false},
	"Mul":  {[]kind{kBig, kBig}, kBig, "($1 * $2)", false},
	"Neg":  {[]kind{kBig}, kBig, "(-$1)", false},
	"Abs":  {[]kind{kBig}, kBig, "(Go.abs $1)", false},
	"Quo":  {[]kind{kBig, kBig}, kBig, "Go.bigQuo $1 $2", true},
	"Rem":  {[]kind{kBig, kBig}, kBig, "Go.bigRem $1 $2", true},
	"Div":  {[]kind{kBig, kBig}, kBig, "Go.bigDiv $1 $2", true},
	"Mod":  {[]kind{kBig, kBig}, kBig, "Go.bigMod $1 $2", true},
	"Sqrt": {[]kind{kBig}, kBig, "Go.bigSqrt $1", true},
}

// big.Int methods that do not change the receiver
var bigQueries = map[string]opSpec{
	"Cmp":  {[]kind{kBig}, kI64, "(Go.cmp $0 $1)", false},
	"Sign": {nil, kI64, "(Go.sign $0)", false},
}

var externalFuncs = map[string]opSpec{}

func init() {
	both := func(sdkName, mathName string, op opSpec) {
		externalFuncs[pathSdk+"."+sdkName] = op
		externalFuncs[pathMath+"."+mathName] = op
	}
	both("ZeroDec", "LegacyZeroDec", opSpec{nil, kDec, "Dec.zero", false})
	both("OneDec", "LegacyOneDec", opSpec{nil, kDec, "Dec.one", false})
	both("SmallestDec", "LegacySmallestDec", opSpec{nil, kDec, "Dec.smallest", false})
	both("NewDec", "LegacyNewDec", opSpec{[]kind{kI64}, kDec, "(Dec.ofInt $1)", false})
	both("NewDecFromInt", "LegacyNewDecFromInt", opSpec{[]kind{kInt}, kDec, "(Dec.ofInt $1)", false})
	both("NewDecFromBigInt", "LegacyNewDecFromBigInt", opSpec{[]kind{kBig}, kDec, "(Dec.ofInt $1)", false})
	both("NewDecFromIntWithPrec", "LegacyNewDecFromIntWithPrec", opSpec{[]kind{kInt, kI64}, kDec, "Go.decFromIntWithPrec $1 $2", true})
	both("MinDec", "LegacyMinDec", opSpec{[]kind{kDec, kDec}, kDec, "(Dec.min $1 $2)", false})
	both("MaxDec", "LegacyMaxDec", opSpec{[]kind{kDec, kDec}, kDec, "(Dec.max $1 $2)", false})
	both("ZeroInt", "ZeroInt", opSpec{nil, kInt, "0", false})
	both("OneInt", "OneInt", opSpec{nil, kInt, "1", false})
	both("NewInt", "NewInt", opSpec{[]kind{kI64}, kInt, "$1", false})
	both("NewIntFromUint64", "NewIntFromUint64", opSpec{[]kind{kI64}, kInt, "$1", false})
	both("NewIntFromBigInt", "NewIntFromBigInt", opSpec{[]kind{kBig}, kInt, "$1", false}) // copies; >256 bits panics: not modelled
	both("MinInt", "MinInt", opSpec{[]kind{kInt, kInt}, kInt, "(Go.minInt $1 $2)", false})
	both("MaxInt", "MaxInt", opSpec{[]kind{kInt, kInt}, kInt, "(Go.maxInt $1 $2)", false})
	externalFuncs[pathBig+".NewInt"] = opSpec{[]kind{kI64}, kBig, "$1", false}
}

// package-level values of external packages
var externalValues = map[string]val{}
