package main

// fnlist.go — the explicit list of Go functions the function translator (fn.go) regenerates on every run,
// one generated file Generated/Fn<Module>.lean per module, and the emission of those files.
//
// A listed function that cannot be translated (any more) is reported as
//     EXTRACT-FAIL Fn<Module> <function>: <reason>
// and emitted as a stub together with `def <function>_translated : Bool := false`; the tie theorem of the
// function (Proofs/TieFn<Module>.lean) states `<function>_translated = true` first, so exactly the
// obligations of the owning property break while the file still compiles for everything else in it.

import (
	"fmt"
	"strings"
)

type fnModuleSpec struct {
	Name  string // Fn<Name>.lean, namespace KV.GoFn.<Name>
	Owner string // owning properties (documentation only)
	Fns   []fnSpec
}

var fnModules = []fnModuleSpec{
	{"Community", "C19", []fnSpec{
		{"x/community/keeper", "", "calculateStakingRewards"},
	}},
	{"Hard", "C08", []fnSpec{
		{"x/hard/keeper", "", "CalculateUtilizationRatio"},
		{"x/hard/keeper", "", "CalculateBorrowRate"},
		{"x/hard/keeper", "", "CalculateSupplyInterestFactor"},
	}},
	{"Cdp", "C04", []fnSpec{
		{"x/cdp/keeper", "Keeper", "calculatePayment"},
		{"x/cdp/keeper", "", "calculateCollateralRatio"},
	}},
	{"Precisebank", "C03", []fnSpec{
		{"x/precisebank/keeper", "", "subFromFractionalBalance"},
		{"x/precisebank/keeper", "", "addToFractionalBalance"},
	}},
	{"Auction", "C06", []fnSpec{
		{"x/auction/keeper", "", "earliestTime"},
	}},
	{"Pricefeed", "C18", []fnSpec{
		{"x/pricefeed/keeper", "Keeper", "calculateMeanPrice"},
	}},
	{"Committee", "C17", []fnSpec{
		{"x/committee/types", "Proposal", "HasExpiredBy"},
	}},
	{"Incentive", "C09", []fnSpec{
		{"x/incentive/types", "Accumulator", "getTimeElapsedWithinLimits"},
		{"x/incentive/keeper", "Keeper", "CalculateSingleReward"},
	}},
	{"Evmutil", "C10", []fnSpec{
		{"x/evmutil/keeper", "", "convertBep3CoinAmountToERC20Amount"},
		{"x/evmutil/keeper", "", "convertBep3ERC20AmountToCoinAmount"},
		{"x/evmutil/keeper", "", "bep3ERC20AmountToCoinMintAndERC20LockAmount"},
	}},
	{"Swap", "C07", []fnSpec{
		{"x/swap/types", "", "calculateInitialShares"},
		{"x/swap/types", "", "NewBasePool"},
		{"x/swap/types", "", "NewBasePoolWithExistingShares"},
		{"x/swap/types", "BasePool", "IsEmpty"},
		{"x/swap/types", "BasePool", "AddLiquidity"},
		{"x/swap/types", "BasePool", "ShareValue"},
		{"x/swap/types", "BasePool", "RemoveLiquidity"},
		{"x/swap/types", "BasePool", "calculateOutputForExactInput"},
		{"x/swap/types", "BasePool", "calculateInputForExactOutput"},
		{"x/swap/types", "BasePool", "assertInvariantAndUpdateReserves"},
		{"x/swap/types", "BasePool", "SwapExactAForB"},
		{"x/swap/types", "BasePool", "SwapExactBForA"},
		{"x/swap/types", "BasePool", "SwapAForExactB"},
		{"x/swap/types", "BasePool", "SwapBForExactA"},
		{"x/swap/keeper", "Keeper", "assertSlippageWithinLimit"},
	}},
}

func init() {
	for _, ms := range fnModules {
		ms := ms
		Register("Fn"+ms.Name, func(repo string) (string, any, error) { return emitFnModule(repo, ms) })
	}
}

func emitFnModule(repo string, ms fnModuleSpec) (string, any, error) {
	m := &fnModule{repo: repo, name: ms.Name, pkgs: map[string]*fnPkg{}, structs: map[string]*structInfo{},
		units: map[string]*fnUnit{}, names: map[string]string{}}
	type fact struct {
		Fn         string `json:"fn"`
		Translated bool   `json:"translated"`
		Reason     string `json:"reason,omitempty"`
	}
	var facts []fact
	var listed []*fnUnit
	missing := map[string]string{} // listed functions that do not exist any more
	for _, spec := range ms.Fns {
		u, err := m.unit(spec)
		if err != nil {
			missing[spec.Name] = err.Error()
			SoftFail("Fn"+ms.Name, spec.Name+": "+err.Error())
			facts = append(facts, fact{spec.String(), false, err.Error()})
			continue
		}
		u.listed = true
		listed = append(listed, u)
		err = m.require(u)
		if err != nil {
			SoftFail("Fn"+ms.Name, spec.Name+": "+fnOneLine(err.Error()))
			facts = append(facts, fact{spec.String(), false, err.Error()})
		} else {
			facts = append(facts, fact{spec.String(), true, ""})
		}
	}
	var sb strings.Builder
	sb.WriteString("-- Go → Lean function translation (tools/extract/fn*.go) of selected pure functions; owner: " + ms.Owner + ".\n")
	sb.WriteString("-- Each `def` is the Go function of the same name, statement by statement, in the monad KV.Go.R\n")
	sb.WriteString("-- (ok / err / panic).  Semantics of the library operations: KavaVerif/Num/GoSem.lean.\n")
	sb.WriteString("import KavaVerif.Num.GoSem\n")
	sb.WriteString("set_option linter.unusedVariables false\n\n")
	sb.WriteString("namespace KV.GoFn." + ms.Name + "\nopen KV KV.Go\n\n")
	for _, s := range m.sorder {
		fmt.Fprintf(&sb, "/-- %s: `type %s struct`", s.Dir, s.GoName)
		if len(s.Skipped) > 0 {
			fmt.Fprintf(&sb, " (fields outside the subset, not represented: %s)", strings.Join(s.Skipped, ", "))
		}
		sb.WriteString(" -/\n")
		fmt.Fprintf(&sb, "structure %s where\n", s.Lean)
		for _, f := range s.Fields {
			fmt.Fprintf(&sb, "  %s : %s\n", leanIdent(f.Name), f.T.lean())
		}
		sb.WriteString("deriving DecidableEq, Repr\n\n")
	}
	for _, u := range m.order {
		if u.err != nil && !u.listed {
			continue // an untranslatable helper: its callers are reported
		}
		sig, sigOK := leanSignature(u)
		recv := ""
		if u.spec.Recv != "" {
			recv = "(" + u.spec.Recv + ")."
		}
		fmt.Fprintf(&sb, "/-- %s: `%s%s`", u.file.Path, recv, u.spec.Name)
		if u.mutRecv {
			sb.WriteString(" — assigns fields of its pointer receiver: the receiver after the call is the first component of the result")
		}
		sb.WriteString(" -/\n")
		if u.err != nil {
			fmt.Fprintf(&sb, "-- NOT TRANSLATED: %s\n", fnOneLine(u.err.Error()))
			if sigOK {
				fmt.Fprintf(&sb, "%s :=\n  R.panic\n", sig)
			}
			fmt.Fprintf(&sb, "def %s_translated : Bool := false\n\n", u.lean)
			continue
		}
		fmt.Fprintf(&sb, "%s := do\n", sig)
		for _, l := range u.body {
			sb.WriteString(l + "\n")
		}
		if u.listed {
			fmt.Fprintf(&sb, "def %s_translated : Bool := true\n", u.lean)
		}
		sb.WriteString("\n")
	}
	for _, spec := range ms.Fns {
		if r, ok := missing[spec.Name]; ok {
			fmt.Fprintf(&sb, "-- NOT TRANSLATED: %s\ndef %s_translated : Bool := false\n\n", fnOneLine(r), leanIdent(spec.Name))
		}
	}
	sb.WriteString("end KV.GoFn." + ms.Name + "\n")
	return sb.String(), facts, nil
}

func leanSignature(u *fnUnit) (string, bool) {
	if u.state < 2 || (u.err != nil && len(u.params) == 0 && u.decl.Type.Params.NumFields() > 0) {
		return "", false
	}
	for _, t := range u.results {
		if t.K == kSkip || t.K == kErr {
			return "", false
		}
	}
	var sb strings.Builder
	fmt.Fprintf(&sb, "def %s", u.lean)
	used := map[string]bool{}
	name := func(n string) string {
		n = leanIdent(n)
		for used[n] {
			n += "_"
		}
		used[n] = true
		return n
	}
	if u.hasRecvParam() {
		fmt.Fprintf(&sb, " (%s : %s)", name(u.recvName), u.recvTy.lean())
	}
	for _, p := range u.params {
		if p.T.K == kSkip || p.T.K == kErr {
			continue
		}
		n := p.Name
		if n == "_" {
			n = "_unused"
		}
		fmt.Fprintf(&sb, " (%s : %s)", name(n), p.T.lean())
	}
	rt := u.resultTy().lean()
	if strings.Contains(rt, " ") {
		rt = "(" + rt + ")"
	}
	fmt.Fprintf(&sb, " : R %s", rt)
	return sb.String(), true
}
func fnOneLine(s string) string { return strings.Join(strings.Fields(s), " ") }
