package main

// C13 (BEP3 atomic swaps): constants, enum codes and guard shapes of x/bep3.
// Tables and facts only: the long-term storage horizon, the timestamp window of CreateAtomicSwap
// (offsets and comparison operators), the protobuf codes of SwapStatus / SwapDirection, and which status
// constant gates ClaimAtomicSwap and RefundAtomicSwap.

import (
	"fmt"
	"go/ast"
	"go/token"
	"math/big"
	"strings"
)

func init() { Register("C13Bep3", emitC13Bep3) }

func emitC13Bep3(repo string) (string, any, error) {
	var sb strings.Builder
	facts := map[string]string{}
	sb.WriteString("namespace KV.Gen\n\n")
	emitInt := func(lean, where string, v *big.Int) {
		fmt.Fprintf(&sb, "/-- %s -/\ndef %s : Int := %s\n\n", where, lean, c13LeanInt(v))
		facts[lean] = v.String()
	}
	emitNat := func(lean, where string, v *big.Int) {
		fmt.Fprintf(&sb, "/-- %s -/\ndef %s : Nat := %s\n\n", where, lean, v.String())
		facts[lean] = v.String()
	}
	emitStr := func(lean, where, v string) {
		fmt.Fprintf(&sb, "/-- %s -/\ndef %s : String := %s\n\n", where, lean, leanStr(v))
		facts[lean] = v
	}

	// ---- long-term storage horizon
	keys, err := parseFile(repo, "x/bep3/types/keys.go")
	if err != nil {
		return "", nil, err
	}
	e, err := keys.topValue("DefaultLongtermStorageDuration")
	if err != nil {
		return "", nil, err
	}
	hz, err := evalInt(e, nil)
	if err != nil {
		return "", nil, err
	}
	if hz.Sign() < 0 {
		return "", nil, fmt.Errorf("negative DefaultLongtermStorageDuration")
	}
	emitNat("bep3LongtermStorageDuration", "x/bep3/types/keys.go: `DefaultLongtermStorageDuration` (blocks)", hz)

	// ---- enum codes
	pb, err := parseFile(repo, "x/bep3/types/bep3.pb.go")
	if err != nil {
		return "", nil, err
	}
	enum := map[string]*big.Int{}
	for _, c := range []struct{ lean, name string }{
		{"bep3StatusOpen", "SWAP_STATUS_OPEN"}, {"bep3StatusCompleted", "SWAP_STATUS_COMPLETED"},
		{"bep3StatusExpired", "SWAP_STATUS_EXPIRED"},
		{"bep3DirectionIncoming", "SWAP_DIRECTION_INCOMING"}, {"bep3DirectionOutgoing", "SWAP_DIRECTION_OUTGOING"},
	} {
		e, err := pb.topValue(c.name)
		if err != nil {
			return "", nil, err
		}
		v, err := evalInt(e, nil)
		if err != nil {
			return "", nil, err
		}
		enum[c.name] = v
		emitNat(c.lean, "x/bep3/types/bep3.pb.go: `"+c.name+"`", v)
	}

	// ---- swap.go: timestamp window and status gates
	sw, err := parseFile(repo, "x/bep3/keeper/swap.go")
	if err != nil {
		return "", nil, err
	}
	env := map[string]*big.Int{
		"time.Nanosecond": big.NewInt(1), "time.Microsecond": big.NewInt(1e3), "time.Millisecond": big.NewInt(1e6),
		"time.Second": big.NewInt(1e9), "time.Minute": big.NewInt(60e9), "time.Hour": big.NewInt(3600e9),
	}
	create, err := sw.funcDecl("CreateAtomicSwap")
	if err != nil {
		return "", nil, err
	}
	// <name> := ctx.BlockTime().Add(<duration>).Unix()
	offset := func(name string) (*big.Int, error) {
		var out *big.Int
		var ferr error
		ast.Inspect(create.Body, func(n ast.Node) bool {
			as, ok := n.(*ast.AssignStmt)
			if !ok || len(as.Lhs) != 1 || len(as.Rhs) != 1 {
				return true
			}
			if id, ok := as.Lhs[0].(*ast.Ident); !ok || id.Name != name {
				return true
			}
			// Rhs: X.Unix() where X = ctx.BlockTime().Add(d)
			call, ok := as.Rhs[0].(*ast.CallExpr)
			if !ok {
				ferr = fmt.Errorf("%s: unexpected initialiser %s", name, sw.text(as.Rhs[0]))
				return false
			}
			sel, ok := call.Fun.(*ast.SelectorExpr)
			if !ok || sel.Sel.Name != "Unix" || len(call.Args) != 0 {
				ferr = fmt.Errorf("%s: not a .Unix() value: %s", name, sw.text(as.Rhs[0]))
				return false
			}
			add, ok := sel.X.(*ast.CallExpr)
			if !ok || len(add.Args) != 1 {
				ferr = fmt.Errorf("%s: not BlockTime().Add(d).Unix(): %s", name, sw.text(as.Rhs[0]))
				return false
			}
			addSel, ok := add.Fun.(*ast.SelectorExpr)
			if !ok || addSel.Sel.Name != "Add" || sw.text(addSel.X) != "ctx.BlockTime()" {
				ferr = fmt.Errorf("%s: not ctx.BlockTime().Add(d): %s", name, sw.text(as.Rhs[0]))
				return false
			}
			v, err := evalInt(add.Args[0], env)
			if err != nil {
				ferr = err
				return false
			}
			out = v
			return false
		})
		if ferr != nil {
			return nil, ferr
		}
		if out == nil {
			return nil, fmt.Errorf("CreateAtomicSwap: no assignment to %s", name)
		}
		return out, nil
	}
	past, err := offset("pastTimestampLimit")
	if err != nil {
		return "", nil, err
	}
	future, err := offset("futureTimestampLimit")
	if err != nil {
		return "", nil, err
	}
	emitInt("bep3PastTimestampOffsetNs", "x/bep3/keeper/swap.go CreateAtomicSwap: offset added to the block time for `pastTimestampLimit` (ns)", past)
	emitInt("bep3FutureTimestampOffsetNs", "x/bep3/keeper/swap.go CreateAtomicSwap: offset added to the block time for `futureTimestampLimit` (ns)", future)
	// the guard: timestamp <op1> pastTimestampLimit || timestamp <op2> futureTimestampLimit
	var op1, op2 string
	ast.Inspect(create.Body, func(n ast.Node) bool {
		is, ok := n.(*ast.IfStmt)
		if !ok {
			return true
		}
		or, ok := is.Cond.(*ast.BinaryExpr)
		if !ok || or.Op != token.LOR {
			return true
		}
		l, ok1 := or.X.(*ast.BinaryExpr)
		r, ok2 := or.Y.(*ast.BinaryExpr)
		if !ok1 || !ok2 {
			return true
		}
		if exprString(l.X) == "timestamp" && exprString(l.Y) == "pastTimestampLimit" &&
			exprString(r.X) == "timestamp" && exprString(r.Y) == "futureTimestampLimit" {
			op1, op2 = l.Op.String(), r.Op.String()
			return false
		}
		return true
	})
	if op1 == "" {
		return "", nil, fmt.Errorf("CreateAtomicSwap: timestamp window guard not found")
	}
	emitStr("bep3TimestampPastOp", "CreateAtomicSwap refuses when `timestamp <op> pastTimestampLimit`", op1)
	emitStr("bep3TimestampFutureOp", "CreateAtomicSwap refuses when `timestamp <op> futureTimestampLimit`", op2)

	// status gates: the first `if atomicSwap.Status != types.<CONST>` of Claim / Refund
	gate := func(fn string) (string, string, error) {
		fd, err := sw.funcDecl(fn)
		if err != nil {
			return "", "", err
		}
		var op, name string
		ast.Inspect(fd.Body, func(n ast.Node) bool {
			if op != "" {
				return false
			}
			is, ok := n.(*ast.IfStmt)
			if !ok {
				return true
			}
			be, ok := is.Cond.(*ast.BinaryExpr)
			if !ok || exprString(be.X) != "atomicSwap.Status" {
				return true
			}
			y := exprString(be.Y)
			if !strings.HasPrefix(y, "types.SWAP_STATUS_") {
				return true
			}
			// the body must return (refuse)
			refuses := false
			for _, st := range is.Body.List {
				if _, ok := st.(*ast.ReturnStmt); ok {
					refuses = true
				}
			}
			if !refuses {
				return true
			}
			op, name = be.Op.String(), strings.TrimPrefix(y, "types.")
			return false
		})
		if op == "" {
			return "", "", fmt.Errorf("%s: status gate not found", fn)
		}
		return op, name, nil
	}
	for _, g := range []struct{ fn, lean string }{{"ClaimAtomicSwap", "bep3ClaimGate"}, {"RefundAtomicSwap", "bep3RefundGate"}} {
		op, name, err := gate(g.fn)
		if err != nil {
			return "", nil, err
		}
		v, ok := enum[name]
		if !ok {
			return "", nil, fmt.Errorf("%s: gate on unknown status %s", g.fn, name)
		}
		emitStr(g.lean+"Op", "x/bep3/keeper/swap.go "+g.fn+": refuses when `atomicSwap.Status <op> types."+name+"`", op)
		emitNat(g.lean+"Status", "x/bep3/keeper/swap.go "+g.fn+": the status constant of the gate (`"+name+"`)", v)
	}
	sb.WriteString("end KV.Gen\n")
	return sb.String(), facts, nil
}

func c13LeanInt(v *big.Int) string {
	if v.Sign() < 0 {
		return "(" + v.String() + ")"
	}
	return v.String()
}
