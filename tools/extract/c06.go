package main

// C06 (auctions): tables and guard shapes of x/auction and of the app wiring it relies on.
// Facts only, never control flow:
//   * the store key prefixes (auction records, by-time index, next id)
//   * the comparison used by the two time guards (PlaceBid: After, CloseAuction: Before) and by the
//     remainder sort of splitIntIntoWeightedBuckets (GT)
//   * the literal lower bound of the increment (`sdkmath.NewInt(1)` inside sdk.MaxInt) in the four bid functions
//   * which duration parameter each bid function uses for the new end time
//   * what GetModuleAccountCoins accounts for, per auction type
//   * the module accounts app.go leaves unblocked (the auction module account must not be among them)

import (
	"fmt"
	"go/ast"
	"strings"
)

func init() { Register("C06Auction", emitC06Auction) }

func emitC06Auction(repo string) (string, any, error) {
	var sb strings.Builder
	facts := map[string]any{}
	sb.WriteString("namespace KV.Gen\n\n")
	emitStr := func(lean, where, v string) {
		fmt.Fprintf(&sb, "/-- %s -/\ndef %s : String := %s\n\n", where, lean, leanStr(v))
		facts[lean] = v
	}
	emitList := func(lean, where string, v []string) {
		fmt.Fprintf(&sb, "/-- %s -/\ndef %s : List String := %s\n\n", where, lean, leanStrList(v))
		facts[lean] = v
	}

	// ---- key prefixes
	keys, err := parseFile(repo, "x/auction/types/keys.go")
	if err != nil {
		return "", nil, err
	}
	for _, c := range []struct{ lean, name string }{
		{"auctionKeyPrefix", "AuctionKeyPrefix"}, {"auctionByTimeKeyPrefix", "AuctionByTimeKeyPrefix"}, {"auctionNextIDKey", "NextAuctionIDKey"}} {
		e, err := keys.topValue(c.name)
		if err != nil {
			return "", nil, err
		}
		cl, ok := e.(*ast.CompositeLit)
		if !ok || len(cl.Elts) != 1 {
			return "", nil, fmt.Errorf("%s: expected a one-byte literal", c.name)
		}
		v, err := evalInt(cl.Elts[0], nil)
		if err != nil {
			return "", nil, err
		}
		fmt.Fprintf(&sb, "/-- x/auction/types/keys.go: `%s` -/\ndef %s : Nat := %s\n\n", c.name, c.lean, v.String())
		facts[c.lean] = v.String()
	}

	// ---- guards and shapes in keeper/auctions.go
	auc, err := parseFile(repo, "x/auction/keeper/auctions.go")
	if err != nil {
		return "", nil, err
	}
	// the first `if` of fn whose condition is a method call on ctx.BlockTime(): returns "<neg><Method>"
	timeGuard := func(fn string) (string, error) {
		fd, err := auc.funcDecl(fn)
		if err != nil {
			return "", err
		}
		found := ""
		ast.Inspect(fd.Body, func(n ast.Node) bool {
			if found != "" {
				return false
			}
			is, ok := n.(*ast.IfStmt)
			if !ok {
				return true
			}
			cond := is.Cond
			neg := ""
			if u, ok := cond.(*ast.UnaryExpr); ok && u.Op.String() == "!" {
				neg, cond = "!", u.X
			}
			if call, ok := cond.(*ast.CallExpr); ok {
				if sel, ok := call.Fun.(*ast.SelectorExpr); ok && exprString(sel.X) == "ctx.BlockTime()" && len(call.Args) == 1 {
					found = neg + sel.Sel.Name + "(" + exprString(call.Args[0]) + ")"
				}
			}
			return true
		})
		if found == "" {
			return "", fmt.Errorf("%s: no block-time guard found", fn)
		}
		return found, nil
	}
	g, err := timeGuard("PlaceBid")
	if err != nil {
		return "", nil, err
	}
	emitStr("auctionBidTimeGuard", "keeper/auctions.go PlaceBid: the bid is refused when `ctx.BlockTime().<this>`", g)
	g, err = timeGuard("CloseAuction")
	if err != nil {
		return "", nil, err
	}
	emitStr("auctionCloseTimeGuard", "keeper/auctions.go CloseAuction: the close is refused when `ctx.BlockTime().<this>`", g)

	// per bid function: the first argument of sdk.MaxInt, the increment parameter, the bid-duration parameters
	var rows []string
	for _, fn := range []string{"PlaceBidSurplus", "PlaceForwardBidCollateral", "PlaceReverseBidCollateral", "PlaceBidDebt"} {
		fd, err := auc.funcDecl(fn)
		if err != nil {
			return "", nil, err
		}
		floor, inc := "", ""
		var durs []string
		ast.Inspect(fd.Body, func(n ast.Node) bool {
			call, ok := n.(*ast.CallExpr)
			if !ok {
				return true
			}
			f := exprString(call.Fun)
			if f == "sdk.MaxInt" && len(call.Args) == 2 && floor == "" {
				floor = exprString(call.Args[0])
				// …Mul(k.GetParams(ctx).IncrementX).RoundInt()
				s := exprString(call.Args[1])
				if i := strings.Index(s, "GetParams(ctx)."); i >= 0 {
					rest := s[i+len("GetParams(ctx)."):]
					if j := strings.IndexAny(rest, ")."); j >= 0 {
						inc = rest[:j]
					}
				}
			}
			if f == "earliestTime" && len(call.Args) == 2 {
				s := exprString(call.Args[0])
				if i := strings.Index(s, "GetParams(ctx)."); i >= 0 {
					rest := s[i+len("GetParams(ctx)."):]
					if j := strings.IndexAny(rest, ")."); j >= 0 {
						durs = append(durs, rest[:j])
					}
				}
				durs = append(durs, "cap="+exprString(call.Args[1]))
			}
			return true
		})
		if floor == "" || inc == "" || len(durs) == 0 {
			return "", nil, fmt.Errorf("%s: increment / end-time shape not recognised", fn)
		}
		rows = append(rows, fn+"|floor="+floor+"|inc="+inc+"|end="+strings.Join(durs, ","))
	}
	emitList("auctionBidShapes", "keeper/auctions.go: per bid function, the floor of the increment (first argument of sdk.MaxInt), the increment parameter and the arguments of earliestTime", rows)

	// ---- the sort comparator of splitIntIntoWeightedBuckets
	mth, err := parseFile(repo, "x/auction/keeper/math.go")
	if err != nil {
		return "", nil, err
	}
	fd, err := mth.funcDecl("splitIntIntoWeightedBuckets")
	if err != nil {
		return "", nil, err
	}
	cmp := ""
	ast.Inspect(fd.Body, func(n ast.Node) bool {
		call, ok := n.(*ast.CallExpr)
		if !ok || exprString(call.Fun) != "sort.Slice" || len(call.Args) != 2 {
			return true
		}
		if fl, ok := call.Args[1].(*ast.FuncLit); ok && len(fl.Body.List) == 1 {
			if rs, ok := fl.Body.List[0].(*ast.ReturnStmt); ok && len(rs.Results) == 1 {
				cmp = exprString(rs.Results[0])
			}
		}
		return true
	})
	if cmp == "" {
		return "", nil, fmt.Errorf("math.go: sort.Slice comparator not recognised")
	}
	emitStr("auctionSplitSortLess", "keeper/math.go splitIntIntoWeightedBuckets: the `less` of sort.Slice", cmp)

	// ---- GetModuleAccountCoins per type
	typ, err := parseFile(repo, "x/auction/types/auctions.go")
	if err != nil {
		return "", nil, err
	}
	var mods []string
	for _, d := range typ.F.Decls {
		f, ok := d.(*ast.FuncDecl)
		if !ok || f.Name.Name != "GetModuleAccountCoins" || f.Recv == nil || len(f.Recv.List) != 1 {
			continue
		}
		recv := exprString(f.Recv.List[0].Type)
		ret := ""
		ast.Inspect(f.Body, func(n ast.Node) bool {
			if rs, ok := n.(*ast.ReturnStmt); ok && len(rs.Results) == 1 {
				ret = exprString(rs.Results[0])
			}
			return true
		})
		mods = append(mods, recv+" => "+ret)
	}
	if len(mods) != 3 {
		return "", nil, fmt.Errorf("types/auctions.go: expected three GetModuleAccountCoins methods, found %d", len(mods))
	}
	emitList("auctionModuleAccountCoins", "types/auctions.go: what `GetModuleAccountCoins` returns, per auction type", mods)

	// ---- module accounts left unblocked by app.go
	app, err := parseFile(repo, "app/app.go")
	if err != nil {
		return "", nil, err
	}
	lb, err := app.funcDecl("loadBlockedMaccAddrs")
	if err != nil {
		return "", nil, err
	}
	var allowed []string
	ast.Inspect(lb.Body, func(n ast.Node) bool {
		kv, ok := n.(*ast.KeyValueExpr)
		if !ok {
			return true
		}
		s := exprString(kv.Key)
		if i := strings.Index(s, "GetModuleAddress("); i >= 0 {
			rest := s[i+len("GetModuleAddress("):]
			if j := strings.Index(rest, ")"); j >= 0 {
				allowed = append(allowed, rest[:j])
			}
		}
		return true
	})
	if len(allowed) == 0 {
		return "", nil, fmt.Errorf("app.go loadBlockedMaccAddrs: allowed module accounts not recognised")
	}
	emitList("appUnblockedModuleAccounts", "app/app.go loadBlockedMaccAddrs: module accounts that may receive funds (all others are blocked addresses)", allowed)

	sb.WriteString("end KV.Gen\n")
	return sb.String(), facts, nil
}
