package main

import (
	"fmt"
	"go/ast"
	"math/big"
	"sort"
	"strings"
)

func init() { Register("Consts", emitConsts) }

type constSpec struct {
	lean string // Lean name
	file string
	name string // Go identifier
	env  map[string]*big.Int
}

func emitConsts(repo string) (string, any, error) {
	specs := []constSpec{
		{"pbConversionFactor", "x/precisebank/types/fractional_balance.go", "conversionFactor", nil},
		{"bep3ConversionFactor", "x/evmutil/keeper/conversion_evm_native_bep3.go", "bep3ConversionFactor", nil},
		{"hardSecondsPerYear", "x/hard/keeper/interest.go", "secondsPerYear", nil},
		{"hardScalingFactor", "x/hard/keeper/interest.go", "scalingFactor", nil},
		{"communityNanosPerSecond", "x/community/keeper/staking.go", "nanosecondsInOneSecond", nil},
		{"incentiveBeginningOfMonth", "x/incentive/keeper/payout.go", "BeginningOfMonth", nil},
		{"incentiveMidMonth", "x/incentive/keeper/payout.go", "MidMonth", nil},
		{"incentivePaymentHour", "x/incentive/keeper/payout.go", "PaymentHour", nil},
	}
	var sb strings.Builder
	facts := map[string]string{}
	sb.WriteString("namespace KV.Gen\n\n")
	for _, s := range specs {
		f, err := parseFile(repo, s.file)
		if err != nil {
			return "", nil, err
		}
		e, err := f.topValue(s.name)
		if err != nil {
			return "", nil, err
		}
		v, err := evalInt(e, s.env)
		if err != nil {
			return "", nil, fmt.Errorf("%s %s: %v", s.file, s.name, err)
		}
		fmt.Fprintf(&sb, "/-- %s: `%s` -/\ndef %s : Int := %s\n\n", s.file, s.name, s.lean, v.String())
		facts[s.lean] = v.String()
	}
	// string constants
	strs := []struct{ lean, file, name string }{
		{"pbIntegerDenom", "x/precisebank/types/constants.go", "IntegerCoinDenom"},
		{"pbExtendedDenom", "x/precisebank/types/constants.go", "ExtendedCoinDenom"},
	}
	for _, s := range strs {
		f, err := parseFile(repo, s.file)
		if err != nil {
			return "", nil, err
		}
		e, err := f.topValue(s.name)
		if err != nil {
			return "", nil, err
		}
		v, err := strLit(e)
		if err != nil {
			return "", nil, err
		}
		fmt.Fprintf(&sb, "/-- %s: `%s` -/\ndef %s : String := %s\n\n", s.file, s.name, s.lean, leanStr(v))
		facts[s.lean] = v
	}
	// evmutil bep3 denoms: map[string]bool literal with true values
	{
		f, err := parseFile(repo, "x/evmutil/keeper/conversion_evm_native_bep3.go")
		if err != nil {
			return "", nil, err
		}
		e, err := f.topValue("bep3Denoms")
		if err != nil {
			return "", nil, err
		}
		cl, ok := e.(*ast.CompositeLit)
		if !ok {
			return "", nil, fmt.Errorf("bep3Denoms is not a literal")
		}
		var ds []string
		for _, el := range cl.Elts {
			kv := el.(*ast.KeyValueExpr)
			k, err := strLit(kv.Key)
			if err != nil {
				return "", nil, err
			}
			if id, ok := kv.Value.(*ast.Ident); !ok || id.Name != "true" {
				continue
			}
			ds = append(ds, k)
		}
		sort.Strings(ds)
		fmt.Fprintf(&sb, "/-- x/evmutil/keeper/conversion_evm_native_bep3.go: `bep3Denoms` -/\ndef bep3Denoms : List String := %s\n\n", leanStrList(ds))
		facts["bep3Denoms"] = strings.Join(ds, ",")
	}
	sb.WriteString("end KV.Gen\n")
	return sb.String(), facts, nil
}
