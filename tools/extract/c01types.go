package main

// c01types.go: a small syntactic type resolver used by the C01/C02 emitters.
//
// The extractor must run offline in about a second on every check, so it does not type-check the
// dependency closure (cosmos-sdk, ethermint, …). Instead it resolves the type of an expression from
// the declarations it can see in /repo's own packages: declared types of locals, parameters, struct
// fields, package-level variables and function/method results. Everything it cannot resolve is
// reported as "unknown" so that the caller can list it (the C01 harness cross-checks the resulting
// map-range table against a go/types based listing of the same tree).

import (
	"go/ast"
	"go/token"
	"os"
	"path/filepath"
	"sort"
	"strconv"
	"strings"
)

const kavaModule = "github.com/kava-labs/kava/"

type Pkg struct {
	Dir     string // relative to repo, e.g. x/hard/keeper
	Files   []*File
	Types   map[string]*typeDecl          // named type -> underlying type expr
	Funcs   map[string]*funcDecl          // package-level functions
	Methods map[string]map[string]*funcDecl // receiver type name -> method name -> decl
	Vars    map[string]*varDecl           // package-level vars / consts
}

type typeDecl struct {
	file *File
	spec *ast.TypeSpec
}
type funcDecl struct {
	file *File
	decl *ast.FuncDecl
}
type varDecl struct {
	file  *File
	typ   ast.Expr // may be nil
	value ast.Expr // may be nil
	tok   token.Token
	spec  *ast.ValueSpec
}

// TRef is a type expression together with the file whose imports/package give it meaning.
type TRef struct {
	file *File
	pkg  *Pkg
	e    ast.Expr
}

type World struct {
	Repo string
	Pkgs map[string]*Pkg // by Dir
}

func skipDir(name string) bool {
	switch name {
	case "client", "simulation", "spec", "testdata", "mocks", "docs", "testutil":
		return true
	}
	return false
}

// loadWorld parses every non-test, non-generated Go file under the given roots.
func loadWorld(repo string, roots ...string) (*World, error) {
	w := &World{Repo: repo, Pkgs: map[string]*Pkg{}}
	for _, root := range roots {
		err := filepath.Walk(filepath.Join(repo, root), func(p string, info os.FileInfo, err error) error {
			if err != nil {
				return err
			}
			if !info.IsDir() {
				return nil
			}
			if skipDir(info.Name()) {
				return filepath.SkipDir
			}
			rel, _ := filepath.Rel(repo, p)
			files, err := parseDir(repo, rel)
			if err != nil {
				return err
			}
			if len(files) == 0 {
				return nil
			}
			pkg := &Pkg{Dir: rel, Files: files, Types: map[string]*typeDecl{}, Funcs: map[string]*funcDecl{},
				Methods: map[string]map[string]*funcDecl{}, Vars: map[string]*varDecl{}}
			for _, f := range files {
				for _, d := range f.F.Decls {
					switch v := d.(type) {
					case *ast.GenDecl:
						for _, s := range v.Specs {
							switch sp := s.(type) {
							case *ast.TypeSpec:
								pkg.Types[sp.Name.Name] = &typeDecl{f, sp}
							case *ast.ValueSpec:
								for i, n := range sp.Names {
									vd := &varDecl{file: f, typ: sp.Type, tok: v.Tok, spec: sp}
									if i < len(sp.Values) {
										vd.value = sp.Values[i]
									}
									pkg.Vars[n.Name] = vd
								}
							}
						}
					case *ast.FuncDecl:
						if v.Recv == nil {
							pkg.Funcs[v.Name.Name] = &funcDecl{f, v}
						} else if len(v.Recv.List) == 1 {
							rt := recvName(v.Recv.List[0].Type)
							if pkg.Methods[rt] == nil {
								pkg.Methods[rt] = map[string]*funcDecl{}
							}
							pkg.Methods[rt][v.Name.Name] = &funcDecl{f, v}
						}
					}
				}
			}
			w.Pkgs[rel] = pkg
			return nil
		})
		if err != nil {
			return nil, err
		}
	}
	return w, nil
}

func recvName(e ast.Expr) string {
	switch v := e.(type) {
	case *ast.StarExpr:
		return recvName(v.X)
	case *ast.Ident:
		return v.Name
	case *ast.IndexExpr:
		return recvName(v.X)
	}
	return ""
}

func (w *World) sortedPkgs() []*Pkg {
	var ps []*Pkg
	for _, p := range w.Pkgs {
		ps = append(ps, p)
	}
	sort.Slice(ps, func(i, j int) bool { return ps[i].Dir < ps[j].Dir })
	return ps
}

// importedPkg resolves an identifier used as a package qualifier in file f to a /repo package (or nil
// when it is an external package) and reports whether the identifier is an import name at all.
func (w *World) importedPkg(f *File, name string) (pkg *Pkg, isImport bool, path string) {
	for _, im := range f.F.Imports {
		p, _ := strconv.Unquote(im.Path.Value)
		alias := ""
		if im.Name != nil {
			alias = im.Name.Name
		} else {
			alias = p[strings.LastIndex(p, "/")+1:]
			// versioned import paths: .../v2 -> previous element
			if len(alias) >= 2 && alias[0] == 'v' && alias[1] >= '0' && alias[1] <= '9' {
				q := p[:strings.LastIndex(p, "/")]
				alias = q[strings.LastIndex(q, "/")+1:]
			}
			alias = strings.ReplaceAll(alias, "-", "_")
		}
		if alias == name {
			if strings.HasPrefix(p, kavaModule) {
				return w.Pkgs[strings.TrimPrefix(p, kavaModule)], true, p
			}
			return nil, true, p
		}
	}
	return nil, false, ""
}

// ---------------------------------------------------------------- type classification

type Kind int

const (
	KUnknown Kind = iota
	KMap
	KNotMap
)

// kindOf classifies a type reference as map / not a map / unknown.
func (w *World) kindOf(t *TRef, depth int) Kind {
	if t == nil || t.e == nil || depth > 12 {
		return KUnknown
	}
	switch v := t.e.(type) {
	case *ast.MapType:
		return KMap
	case *ast.ArrayType, *ast.ChanType, *ast.StructType, *ast.FuncType, *ast.InterfaceType, *ast.Ellipsis:
		return KNotMap
	case *ast.StarExpr:
		// range over *array is legal, over *map is not
		return KNotMap
	case *ast.ParenExpr:
		return w.kindOf(&TRef{t.file, t.pkg, v.X}, depth+1)
	case *ast.Ident:
		switch v.Name {
		case "string", "int", "int64", "uint64", "byte", "bool", "error":
			return KNotMap
		}
		if td, ok := t.pkg.Types[v.Name]; ok {
			return w.kindOf(&TRef{td.file, t.pkg, td.spec.Type}, depth+1)
		}
		return KUnknown
	case *ast.SelectorExpr:
		if x, ok := v.X.(*ast.Ident); ok {
			pkg, isImp, path := w.importedPkg(t.file, x.Name)
			if pkg != nil {
				if td, ok := pkg.Types[v.Sel.Name]; ok {
					return w.kindOf(&TRef{td.file, pkg, td.spec.Type}, depth+1)
				}
				return KUnknown
			}
			if isImp {
				return externalKind(path, v.Sel.Name)
			}
		}
	case *ast.IndexExpr: // generic instantiation
		return KUnknown
	}
	return KUnknown
}

// externalKind: the few external named types that are ranged over in /repo. All of the SDK's
// collection types used here are slices; the table lists the ones we rely on, everything else is
// unknown (and is then listed by the emitter).
func externalKind(path, name string) Kind {
	key := path[strings.LastIndex(path, "/")+1:] + "." + name
	switch key {
	case "types.Coins", "types.DecCoins", "types.Events", "types.Validators", "types.Delegations",
		"types.AccAddress", "types.ValAddress", "types.Periods", "types.Balances", "math.Int", "types.Dec",
		"types.WeightedVoteOptions", "types.Proposals", "types.Votes", "types.GenesisAccounts",
		"types.DelegationResponses", "types.ParamSetPairs", "v1.WeightedVoteOptions", "v1.Proposals", "v1.Votes",
		"v1beta1.WeightedVoteOptions", "types.Attribute", "types.Msg", "big.Int", "common.Address":
		return KNotMap
	}
	return KUnknown
}

// underlying resolves a named type to its declaration (struct/map/slice …) expression.
func (w *World) underlying(t *TRef, depth int) *TRef {
	if t == nil || t.e == nil || depth > 12 {
		return nil
	}
	switch v := t.e.(type) {
	case *ast.ParenExpr:
		return w.underlying(&TRef{t.file, t.pkg, v.X}, depth+1)
	case *ast.StarExpr:
		return w.underlying(&TRef{t.file, t.pkg, v.X}, depth+1)
	case *ast.Ident:
		if td, ok := t.pkg.Types[v.Name]; ok {
			return w.underlying(&TRef{td.file, t.pkg, td.spec.Type}, depth+1)
		}
		return nil
	case *ast.SelectorExpr:
		if x, ok := v.X.(*ast.Ident); ok {
			pkg, _, _ := w.importedPkg(t.file, x.Name)
			if pkg != nil {
				if td, ok := pkg.Types[v.Sel.Name]; ok {
					return w.underlying(&TRef{td.file, pkg, td.spec.Type}, depth+1)
				}
			}
		}
		return nil
	}
	return t
}

// namedOf returns the package and name of a (possibly pointer to a) named /repo type.
func (w *World) namedOf(t *TRef) (*Pkg, string) {
	if t == nil || t.e == nil {
		return nil, ""
	}
	switch v := t.e.(type) {
	case *ast.StarExpr:
		return w.namedOf(&TRef{t.file, t.pkg, v.X})
	case *ast.ParenExpr:
		return w.namedOf(&TRef{t.file, t.pkg, v.X})
	case *ast.Ident:
		if _, ok := t.pkg.Types[v.Name]; ok {
			return t.pkg, v.Name
		}
	case *ast.SelectorExpr:
		if x, ok := v.X.(*ast.Ident); ok {
			pkg, _, _ := w.importedPkg(t.file, x.Name)
			if pkg != nil {
				if _, ok := pkg.Types[v.Sel.Name]; ok {
					return pkg, v.Sel.Name
				}
			}
		}
	}
	return nil, ""
}

func (w *World) fieldType(t *TRef, field string, depth int) *TRef {
	u := w.underlying(t, 0)
	if u == nil || depth > 4 {
		return nil
	}
	st, ok := u.e.(*ast.StructType)
	if !ok {
		return nil
	}
	for _, f := range st.Fields.List {
		for _, n := range f.Names {
			if n.Name == field {
				return &TRef{u.file, u.pkg, f.Type}
			}
		}
	}
	// embedded structs
	for _, f := range st.Fields.List {
		if len(f.Names) == 0 {
			if r := w.fieldType(&TRef{u.file, u.pkg, f.Type}, field, depth+1); r != nil {
				return r
			}
		}
	}
	return nil
}

func (w *World) elemType(t *TRef, value bool) *TRef {
	u := w.underlying(t, 0)
	if u == nil {
		return nil
	}
	switch v := u.e.(type) {
	case *ast.MapType:
		if value {
			return &TRef{u.file, u.pkg, v.Value}
		}
		return &TRef{u.file, u.pkg, v.Key}
	case *ast.ArrayType:
		if value {
			return &TRef{u.file, u.pkg, v.Elt}
		}
		return &TRef{u.file, u.pkg, ast.NewIdent("int")}
	case *ast.Ellipsis:
		if value {
			return &TRef{u.file, u.pkg, v.Elt}
		}
	}
	return nil
}

// ---------------------------------------------------------------- expression typing

// Scope: function-wide name -> candidate types (shadowing is approximated by keeping every candidate).
type Scope struct {
	w     *World
	pkg   *Pkg
	file  *File
	names map[string][]*TRef
}

func (w *World) newScope(pkg *Pkg, file *File, fd *ast.FuncDecl) *Scope {
	s := &Scope{w: w, pkg: pkg, file: file, names: map[string][]*TRef{}}
	add := func(fl *ast.FieldList) {
		if fl == nil {
			return
		}
		for _, f := range fl.List {
			for _, n := range f.Names {
				s.names[n.Name] = append(s.names[n.Name], &TRef{file, pkg, f.Type})
			}
		}
	}
	add(fd.Recv)
	add(fd.Type.Params)
	add(fd.Type.Results)
	if fd.Body == nil {
		return s
	}
	// two passes so that uses before (textually later) definitions in closures still resolve
	for pass := 0; pass < 2; pass++ {
		ast.Inspect(fd.Body, func(n ast.Node) bool {
			switch v := n.(type) {
			case *ast.FuncLit:
				add(v.Type.Params)
				add(v.Type.Results)
			case *ast.DeclStmt:
				if g, ok := v.Decl.(*ast.GenDecl); ok {
					for _, sp := range g.Specs {
						if vs, ok := sp.(*ast.ValueSpec); ok {
							for i, n := range vs.Names {
								if vs.Type != nil {
									s.put(n.Name, &TRef{file, pkg, vs.Type})
								} else if i < len(vs.Values) {
									s.put(n.Name, s.typeOf(vs.Values[i]))
								}
							}
						}
					}
				}
			case *ast.AssignStmt:
				if v.Tok == token.DEFINE {
					if len(v.Lhs) == len(v.Rhs) {
						for i, l := range v.Lhs {
							if id, ok := l.(*ast.Ident); ok && id.Name != "_" {
								s.put(id.Name, s.typeOf(v.Rhs[i]))
							}
						}
					} else if len(v.Rhs) == 1 {
						rs := s.resultsOf(v.Rhs[0])
						for i, l := range v.Lhs {
							if id, ok := l.(*ast.Ident); ok && id.Name != "_" && i < len(rs) {
								s.put(id.Name, rs[i])
							} else if ok && id.Name != "_" {
								// v, ok := m[k] / x.(T)
								if i == 0 {
									s.put(id.Name, s.typeOf(v.Rhs[0]))
								}
							}
						}
					}
				}
			case *ast.RangeStmt:
				if v.Tok == token.DEFINE {
					xt := s.typeOf(v.X)
					if id, ok := v.Key.(*ast.Ident); ok && id.Name != "_" {
						s.put(id.Name, w.elemType(xt, false))
					}
					if v.Value != nil {
						if id, ok := v.Value.(*ast.Ident); ok && id.Name != "_" {
							s.put(id.Name, w.elemType(xt, true))
						}
					}
				}
			}
			return true
		})
	}
	return s
}

func (s *Scope) put(name string, t *TRef) {
	if t == nil || t.e == nil {
		return
	}
	for _, o := range s.names[name] {
		if o.e == t.e {
			return
		}
	}
	s.names[name] = append(s.names[name], t)
}

// resultsOf returns the result types of a call expression (for multi-value assignment).
func (s *Scope) resultsOf(e ast.Expr) []*TRef {
	call, ok := e.(*ast.CallExpr)
	if !ok {
		return nil
	}
	fd, pkg := s.callee(call)
	if fd == nil || fd.decl.Type.Results == nil {
		return nil
	}
	var out []*TRef
	for _, f := range fd.decl.Type.Results.List {
		n := len(f.Names)
		if n == 0 {
			n = 1
		}
		for i := 0; i < n; i++ {
			out = append(out, &TRef{fd.file, pkg, f.Type})
		}
	}
	return out
}

// callee resolves the declaration of a called /repo function or method.
func (s *Scope) callee(call *ast.CallExpr) (*funcDecl, *Pkg) {
	switch f := call.Fun.(type) {
	case *ast.Ident:
		if fd, ok := s.pkg.Funcs[f.Name]; ok {
			return fd, s.pkg
		}
	case *ast.SelectorExpr:
		if x, ok := f.X.(*ast.Ident); ok {
			if _, local := s.names[x.Name]; !local {
				pkg, isImp, _ := s.w.importedPkg(s.file, x.Name)
				if pkg != nil {
					if fd, ok := pkg.Funcs[f.Sel.Name]; ok {
						return fd, pkg
					}
					return nil, nil
				}
				if isImp {
					return nil, nil
				}
			}
		}
		// method call
		rt := s.typeOf(f.X)
		if pkg, name := s.w.namedOf(rt); pkg != nil {
			if m, ok := pkg.Methods[name][f.Sel.Name]; ok {
				return m, pkg
			}
			// method promoted from an embedded field
			if u := s.w.underlying(rt, 0); u != nil {
				if st, ok := u.e.(*ast.StructType); ok {
					for _, fl := range st.Fields.List {
						if len(fl.Names) == 0 {
							if p2, n2 := s.w.namedOf(&TRef{u.file, u.pkg, fl.Type}); p2 != nil {
								if m, ok := p2.Methods[n2][f.Sel.Name]; ok {
									return m, p2
								}
							}
						}
					}
				}
			}
		}
	}
	return nil, nil
}

// typeOf returns the (first candidate) type of an expression, nil when unknown.
func (s *Scope) typeOf(e ast.Expr) *TRef {
	ts := s.typesOf(e)
	if len(ts) == 0 {
		return nil
	}
	return ts[0]
}

func (s *Scope) typesOf(e ast.Expr) []*TRef {
	one := func(t *TRef) []*TRef {
		if t == nil || t.e == nil {
			return nil
		}
		return []*TRef{t}
	}
	switch v := e.(type) {
	case *ast.ParenExpr:
		return s.typesOf(v.X)
	case *ast.Ident:
		if ts, ok := s.names[v.Name]; ok {
			return ts
		}
		if vd, ok := s.pkg.Vars[v.Name]; ok {
			if vd.typ != nil {
				return one(&TRef{vd.file, s.pkg, vd.typ})
			}
			if vd.value != nil {
				ps := &Scope{w: s.w, pkg: s.pkg, file: vd.file, names: map[string][]*TRef{}}
				return ps.typesOf(vd.value)
			}
		}
	case *ast.CompositeLit:
		if v.Type != nil {
			return one(&TRef{s.file, s.pkg, v.Type})
		}
	case *ast.UnaryExpr:
		if v.Op == token.AND {
			if t := s.typeOf(v.X); t != nil {
				return one(&TRef{t.file, t.pkg, &ast.StarExpr{X: t.e}})
			}
		}
	case *ast.StarExpr:
		if t := s.typeOf(v.X); t != nil {
			if st, ok := t.e.(*ast.StarExpr); ok {
				return one(&TRef{t.file, t.pkg, st.X})
			}
			return one(t)
		}
	case *ast.TypeAssertExpr:
		if v.Type != nil {
			return one(&TRef{s.file, s.pkg, v.Type})
		}
	case *ast.IndexExpr:
		return one(s.w.elemType(s.typeOf(v.X), true))
	case *ast.SliceExpr:
		return s.typesOf(v.X)
	case *ast.SelectorExpr:
		if x, ok := v.X.(*ast.Ident); ok {
			if _, local := s.names[x.Name]; !local {
				pkg, isImp, _ := s.w.importedPkg(s.file, x.Name)
				if pkg != nil {
					if vd, ok := pkg.Vars[v.Sel.Name]; ok {
						if vd.typ != nil {
							return one(&TRef{vd.file, pkg, vd.typ})
						}
						if vd.value != nil {
							ps := &Scope{w: s.w, pkg: pkg, file: vd.file, names: map[string][]*TRef{}}
							return ps.typesOf(vd.value)
						}
					}
					return nil
				}
				if isImp {
					return nil
				}
			}
		}
		var out []*TRef
		for _, xt := range s.typesOf(v.X) {
			if ft := s.w.fieldType(xt, v.Sel.Name, 0); ft != nil {
				out = append(out, ft)
			}
		}
		return out
	case *ast.CallExpr:
		// builtins and conversions
		if id, ok := v.Fun.(*ast.Ident); ok {
			switch id.Name {
			case "make", "new":
				if len(v.Args) > 0 {
					if id.Name == "new" {
						return one(&TRef{s.file, s.pkg, &ast.StarExpr{X: v.Args[0]}})
					}
					return one(&TRef{s.file, s.pkg, v.Args[0]})
				}
			case "append":
				if len(v.Args) > 0 {
					return s.typesOf(v.Args[0])
				}
			case "len", "cap", "copy":
				return one(&TRef{s.file, s.pkg, ast.NewIdent("int")})
			case "string":
				return one(&TRef{s.file, s.pkg, ast.NewIdent("string")})
			}
			if _, ok := s.pkg.Types[id.Name]; ok { // conversion T(x)
				return one(&TRef{s.file, s.pkg, id})
			}
		}
		switch f := v.Fun.(type) {
		case *ast.ArrayType, *ast.MapType:
			return one(&TRef{s.file, s.pkg, f.(ast.Expr)})
		case *ast.SelectorExpr:
			// conversion pkg.T(x)
			if x, ok := f.X.(*ast.Ident); ok {
				if _, local := s.names[x.Name]; !local {
					if pkg, _, _ := s.w.importedPkg(s.file, x.Name); pkg != nil {
						if _, ok := pkg.Types[f.Sel.Name]; ok {
							return one(&TRef{s.file, s.pkg, f})
						}
					}
				}
			}
		case *ast.FuncLit:
			if f.Type.Results != nil && len(f.Type.Results.List) > 0 {
				return one(&TRef{s.file, s.pkg, f.Type.Results.List[0].Type})
			}
		}
		if rs := s.resultsOf(v); len(rs) > 0 {
			return rs[:1]
		}
		// call of a local func-typed variable / field: use its declared result type
		for _, ft := range s.typesOf(v.Fun) {
			if u := s.w.underlying(ft, 0); u != nil {
				if fn, ok := u.e.(*ast.FuncType); ok && fn.Results != nil && len(fn.Results.List) > 0 {
					return one(&TRef{u.file, u.pkg, fn.Results.List[0].Type})
				}
			}
		}
	case *ast.BasicLit:
		if v.Kind == token.STRING {
			return one(&TRef{s.file, s.pkg, ast.NewIdent("string")})
		}
		return one(&TRef{s.file, s.pkg, ast.NewIdent("int")})
	case *ast.BinaryExpr:
		return s.typesOf(v.X)
	}
	return nil
}

// rangeKind classifies the ranged expression: map if any candidate type is a map, not-map only when
// every candidate is known not to be one.
func (s *Scope) rangeKind(e ast.Expr) Kind {
	ts := s.typesOf(e)
	if len(ts) == 0 {
		return KUnknown
	}
	res := KNotMap
	for _, t := range ts {
		switch s.w.kindOf(t, 0) {
		case KMap:
			return KMap
		case KUnknown:
			res = KUnknown
		}
	}
	return res
}
